(** Proofs about the work-list loops of the lump writers (model in BspWorklist.v). *)
From Coq Require Import NArith List Bool PeanoNat String Lia.
From SV Require Import Bin.FindInsert Bin.FindInsertProofs Fmt.BspWorklist.
Import ListNotations.
Local Open Scope nat_scope.

(** Every item of the table is known to the index (so a known object is never appended a second time). *)
Definition fi_cov (s : fi_state) : Prop := forall k, In k (items s) -> lookup k (index s) <> None.

Lemma build_from_cov : forall l i d k, (In k l \/ lookup k d <> None) -> lookup k (build_from i l d) <> None.
Proof.
  induction l as [|x l IH]; intros i d k H; cbn [build_from].
  - destruct H as [[]|H]; exact H.
  - apply IH. destruct H as [[->|H]|H].
    + right. cbn [lookup]. rewrite N.eqb_refl. discriminate.
    + left. exact H.
    + right. cbn [lookup]. destruct (N.eqb k x); [discriminate|exact H].
Qed.

Lemma fi_init_cov : forall l, fi_cov (fi_init l).
Proof. intros l k H. unfold fi_init. cbn [items index]. apply build_from_cov. left. exact H. Qed.

(** The table invariant of the loops: indexes are right, every item is indexed, no object twice. *)
Definition wl_inv (s : fi_state) : Prop := fi_inv s /\ fi_cov s /\ NoDup (items s).

Lemma fi_init_wl_inv : forall l, NoDup l -> wl_inv (fi_init l).
Proof. intros l H. split; [apply fi_init_inv|]. split; [apply fi_init_cov|exact H]. Qed.

Lemma NoDup_snoc : forall (l : list N) k, NoDup l -> ~ In k l -> NoDup (l ++ [k]).
Proof.
  induction l as [|x l IH]; intros k Hn Hk; cbn [app].
  - constructor; [intros []|constructor].
  - inversion Hn as [|? ? Hx Hl]; subst. constructor.
    + intro H. apply in_app_or in H. destruct H as [H|[->|[]]]; [exact (Hx H)|]. apply Hk. left. reflexivity.
    + apply IH; [exact Hl|]. intro H. apply Hk. right. exact H.
Qed.

Lemma fi_find_step : forall s k s' i, wl_inv s -> fi_find s k = (s', i) ->
  wl_inv s' /\ nth_error (items s') i = Some k /\
  exists ext, items s' = items s ++ ext /\ (forall x, In x ext -> x = k).
Proof.
  intros s k s' i (Hi & Hc & Hn) H.
  destruct (fi_find_sound _ _ _ _ Hi H) as (Hnth & Hi' & _).
  unfold fi_find in H. destruct (lookup k (index s)) as [j|] eqn:E.
  - injection H as <- <-. split; [split; [exact Hi|split; [exact Hc|exact Hn]]|]. split; [exact Hnth|].
    exists []. rewrite app_nil_r. split; [reflexivity|intros x []].
  - injection H as <- <-. split; [split; [exact Hi'|split]|].
    + intros k' Hin. cbn [items index lookup] in *. destruct (N.eqb_spec k' k) as [->|Hne]; [discriminate|].
      apply in_app_or in Hin. destruct Hin as [Hin|[->|[]]]; [apply Hc; exact Hin|congruence].
    + cbn [items]. apply NoDup_snoc; [exact Hn|]. intro Hx. apply (Hc _ Hx). exact E.
    + split; [exact Hnth|]. cbn [items]. exists [k]. split; [reflexivity|]. intros x [->|[]]. reflexivity.
Qed.

Lemma nth_error_ext : forall (l ext : list N) j k, nth_error l j = Some k -> nth_error (l ++ ext) j = Some k.
Proof. intros l ext j k H. rewrite nth_error_app1; [exact H|]. apply nth_error_Some. rewrite H. discriminate. Qed.

Lemma fi_run_step : forall ks s s' is, wl_inv s -> fi_run s ks = (s', is) ->
  wl_inv s' /\ Forall2 (fun k i => nth_error (items s') i = Some k) ks is /\
  exists ext, items s' = items s ++ ext /\ (forall x, In x ext -> In x ks).
Proof.
  induction ks as [|k r IH]; intros s s' is Hinv H; cbn [fi_run] in H.
  - injection H as <- <-. split; [exact Hinv|]. split; [constructor|]. exists []. rewrite app_nil_r. split; [reflexivity|intros x []].
  - destruct (fi_find s k) as [s1 i] eqn:E1. destruct (fi_run s1 r) as [s2 is2] eqn:E2. injection H as <- <-.
    destruct (fi_find_step _ _ _ _ Hinv E1) as (Hinv1 & Hn & ext1 & Hx1 & Hk1).
    destruct (IH _ _ _ Hinv1 E2) as (Hinv2 & Hf & ext2 & Hx2 & Hk2).
    split; [exact Hinv2|]. split.
    + constructor; [|exact Hf]. rewrite Hx2. apply nth_error_ext. exact Hn.
    + exists (ext1 ++ ext2). split; [rewrite Hx2, Hx1, app_assoc; reflexivity|].
      intros x Hin. apply in_app_or in Hin. destruct Hin as [Hin|Hin]; [left; symmetry; apply Hk1; exact Hin|right; apply Hk2; exact Hin].
Qed.

Lemma Forall2_mono : forall (A B : Type) (P Q : A -> B -> Prop) l1 l2, (forall a b, P a b -> Q a b) -> Forall2 P l1 l2 -> Forall2 Q l1 l2.
Proof. intros A B P Q l1 l2 H F. induction F; constructor; auto. Qed.

Section Closure.
Variable kids : N -> list N.
Variable roots : list N.

(** What holds between two steps of the loop: [pos] records written, for the first [pos] objects of the table, and the
    indexes in them denote the referred objects in the CURRENT table (hence in every later one: tables only grow). *)
Definition refs_ok (tbl : list N) (r : wrecord) : Prop :=
  Forall2 (fun k j => nth_error tbl j = Some k) (kids (fst r)) (snd r).

Record loop_inv (s : fi_state) (pos : nat) (out : list wrecord) : Prop := {
  li_tbl : wl_inv s;
  li_out : map fst out = firstn pos (items s);
  li_pos : pos <= List.length (items s);
  li_refs : Forall (refs_ok (items s)) out;
  li_roots : exists ext, items s = roots ++ ext;
  li_reach : forall o, In o (items s) -> reach kids roots o }.

Lemma refs_ok_ext : forall tbl ext r, refs_ok tbl r -> refs_ok (tbl ++ ext) r.
Proof.
  intros tbl ext r H. unfold refs_ok in *. induction H; constructor; [apply nth_error_ext; assumption|assumption].
Qed.

Lemma firstn_snoc : forall (l : list N) pos o, nth_error l pos = Some o -> firstn (S pos) l = firstn pos l ++ [o].
Proof.
  induction l as [|x l IH]; intros pos o H; destruct pos; cbn in *; try discriminate.
  - injection H as ->. reflexivity.
  - f_equal. apply IH. exact H.
Qed.

Lemma loop_step : forall s pos out o s' idx, loop_inv s pos out -> nth_error (items s) pos = Some o ->
  fi_run s (kids o) = (s', idx) -> loop_inv s' (S pos) (out ++ [(o, idx)]).
Proof.
  intros s pos out o s' idx [Ht Ho Hp Hr [ext0 Hx0] Hre] Hn E.
  destruct (fi_run_step _ _ _ _ Ht E) as (Ht' & Hf & ext & Hx & Hk).
  assert (Hlt : pos < List.length (items s)) by (apply nth_error_Some; rewrite Hn; discriminate).
  constructor.
  - exact Ht'.
  - unfold wrecord in *. rewrite map_app. cbn [map fst]. rewrite Hx. change (@map (N * list nat) N (@fst N (list nat)) out) with (map fst out). rewrite Ho. rewrite (firstn_snoc (items s ++ ext) pos o) by (apply nth_error_ext; exact Hn).
    f_equal. rewrite firstn_app. replace (pos - List.length (items s)) with 0 by lia. cbn [firstn]. rewrite app_nil_r. reflexivity.
  - rewrite Hx, app_length. lia.
  - apply Forall_app. split.
    + rewrite Hx. eapply Forall_impl; [|exact Hr]. intros r. apply refs_ok_ext.
    + constructor; [|constructor]. exact Hf.
  - exists (ext0 ++ ext). rewrite Hx, Hx0, app_assoc. reflexivity.
  - intros x Hin. rewrite Hx in Hin. apply in_app_or in Hin. destruct Hin as [Hin|Hin]; [apply Hre; exact Hin|].
    apply reach_kid with o; [|apply Hk; exact Hin]. apply Hre. eapply nth_error_In. exact Hn.
Qed.

Lemma wl_live_inv : forall fuel s pos out s' out', loop_inv s pos out -> wl_live kids fuel s pos out = (s', out', true) ->
  loop_inv s' (List.length (items s')) out'.
Proof.
  induction fuel as [|f IH]; intros s pos out s' out' Hinv H; cbn [wl_live] in H; [discriminate|].
  destruct (nth_error (items s) pos) as [o|] eqn:En.
  - destruct (fi_run s (kids o)) as [s1 idx] eqn:E. eapply IH; [|exact H]. eapply loop_step; eassumption.
  - injection H as <- <-. apply nth_error_None in En. destruct Hinv as [Ht Ho Hp Hr Hx Hre].
    assert (pos = List.length (items s)) as -> by lia. constructor; assumption.
Qed.

Lemma loop_inv_init : forall s, wl_inv s -> items s = roots -> loop_inv s 0 [].
Proof.
  intros s Ht Hr. constructor; [exact Ht|reflexivity|lia|constructor|exists []; rewrite app_nil_r; exact Hr|].
  intros o Hin. apply reach_root. rewrite <- Hr. exact Hin.
Qed.

(** The closure theorem: when the loop over the live list ends,
    - there is exactly one record per table entry, record [i] is the record of object [i] ([map fst out = items s']);
    - the listed roots kept their positions; no object occurs twice (one index per object);
    - every index in every record resolves, the way the reader resolves it, to the object that was referred to;
    - the table holds exactly the objects reachable from the roots. *)
Theorem wl_live_closure : forall fuel s s' out, wl_inv s -> items s = roots -> wl_live kids fuel s 0 [] = (s', out, true) ->
  map fst out = items s' /\ NoDup (items s') /\ (exists ext, items s' = roots ++ ext) /\
  (forall i o idx, nth_error out i = Some (o, idx) ->
     nth_error (items s') i = Some o /\ Forall2 (fun k j => resolve out j = Some k) (kids o) idx) /\
  (forall o, In o (items s') <-> reach kids roots o).
Proof.
  intros fuel s s' out Ht Hr H. pose proof (wl_live_inv _ _ _ _ _ _ (loop_inv_init _ Ht Hr) H) as [Ht' Ho _ Hrf Hx Hre].
  rewrite firstn_all in Ho. unfold wrecord in *. split; [exact Ho|]. split; [apply Ht'|]. split; [exact Hx|]. split.
  - intros i o idx Hn. split.
    + rewrite <- Ho. rewrite nth_error_map, Hn. reflexivity.
    + rewrite Forall_forall in Hrf. specialize (Hrf _ (nth_error_In _ _ Hn)). unfold refs_ok in Hrf. cbn [fst snd] in Hrf.
      eapply Forall2_mono; [|exact Hrf]. intros k j Hj. unfold resolve, wrecord. rewrite <- Hj, <- Ho. symmetry. apply nth_error_map.
  - intros o. split; [apply Hre|]. intros Hreach. induction Hreach as [o Hin|p o _ IHp Hin].
    + destruct Hx as [ext ->]. apply in_or_app. left. exact Hin.
    + apply In_nth_error in IHp. destruct IHp as [i Hi]. rewrite <- Ho in Hi. rewrite nth_error_map in Hi.
      destruct (nth_error out i) as [[p' idx]|] eqn:En; [|discriminate]. cbn in Hi. injection Hi as ->.
      rewrite Forall_forall in Hrf. specialize (Hrf _ (nth_error_In _ _ En)). unfold refs_ok in Hrf. cbn [fst snd] in Hrf.
      clear - Hrf Hin. induction Hrf as [|k j ks js Hkj _ IH]; [destruct Hin|].
      destruct Hin as [->|Hin]; [eapply nth_error_In; exact Hkj|apply IH; exact Hin].
Qed.
End Closure.

(** * The loop ends: with finitely many reachable objects, [S |U|] steps suffice *)
Section Termination.
Variable kids : N -> list N.
Variable roots : list N.
Variable U : list N.
Hypothesis U_covers : forall o, reach kids roots o -> In o U.

Lemma wl_live_ends : forall fuel s pos out, loop_inv kids roots s pos out -> fuel + pos > List.length U ->
  exists s' out', wl_live kids fuel s pos out = (s', out', true).
Proof.
  induction fuel as [|f IH]; intros s pos out Hinv Hf.
  - exfalso. destruct Hinv as [(_ & _ & Hnd) _ Hp _ _ Hre].
    assert (List.length (items s) <= List.length U) by (apply NoDup_incl_length; [exact Hnd|intros x Hx; apply U_covers, Hre, Hx]). lia.
  - cbn [wl_live]. destruct (nth_error (items s) pos) as [o|] eqn:En.
    + destruct (fi_run s (kids o)) as [s1 idx] eqn:E. apply IH; [eapply loop_step; eassumption|lia].
    + eauto.
Qed.

Theorem wl_live_total : forall s, wl_inv s -> items s = roots ->
  exists s' out, wl_live kids (S (List.length U)) s 0 [] = (s', out, true) /\
    map fst out = items s' /\ NoDup (items s') /\ (exists ext, items s' = roots ++ ext) /\
    (forall i o idx, nth_error out i = Some (o, idx) ->
       nth_error (items s') i = Some o /\ Forall2 (fun k j => resolve out j = Some k) (kids o) idx) /\
    (forall o, In o (items s') <-> reach kids roots o).
Proof.
  intros s Ht Hr. destruct (wl_live_ends (S (List.length U)) s 0 [] (loop_inv_init kids roots s Ht Hr)) as (s' & out & H); [lia|].
  exists s', out. split; [exact H|]. eapply wl_live_closure; eassumption.
Qed.
End Termination.

(** * The snapshot loop loses the objects met through references *)
Definition kids01 (o : N) : list N := if N.eqb o 0 then [1%N] else [].

Theorem wl_snapshot_refuted :
  let '(s', out) := wl_snap kids01 [0%N] (fi_init [0%N]) [] in
  items s' = [0%N; 1%N] /\ out = [(0%N, [1])] /\ resolve out 1 = None /\
  (* the live loop on the same input: both objects get their record *)
  wl_live kids01 3 (fi_init [0%N]) 0 [] = (s', [(0%N, [1]); (1%N, [])], true).
Proof. vm_compute. repeat split. Qed.

(** * Entries read from the source *)
Lemma wl_snap_nokids : forall l s out, wl_snap (fun _ => []) l s out = (s, out ++ map (fun o => (o, [])) l).
Proof.
  induction l as [|o l IH]; intros s out; cbn [wl_snap map fi_run].
  - rewrite app_nil_r. reflexivity.
  - rewrite IH, <- app_assoc. reflexivity.
Qed.

(** An entry that passes [wl_entry_ok] denotes a loop after which every table entry has its record, at its own index, and
    every reference the body turned into an index of this table resolves to the referred object. *)
Theorem wl_entry_closure : forall fn tbl k inside after kids fuel s s' out,
  wl_entry_ok (fn, tbl, k, inside, after) = true -> wl_inv s -> wl_exec k inside kids fuel s = (s', out, true) ->
  map fst out = items s' /\ NoDup (items s') /\ (exists ext, items s' = items s ++ ext) /\
  forall i o idx, nth_error out i = Some (o, idx) ->
    nth_error (items s') i = Some o /\ Forall2 (fun r j => resolve out j = Some r) (if inside then kids o else []) idx.
Proof.
  intros fn tbl k inside after kids fuel s s' out Hok Ht H. unfold wl_entry_ok in Hok. apply andb_true_iff in Hok. destruct Hok as [_ Hk].
  destruct k; unfold wl_exec in H.
  - destruct (wl_live_closure _ (items s) fuel s s' out Ht eq_refl H) as (A & B & C & D & _).
    split; [exact A|]. split; [exact B|]. split; [exact C|]. intros i o idx Hn. destruct (D i o idx Hn) as [D1 D2]. split; [exact D1|].
    destruct inside; exact D2.
  - destruct inside; [discriminate|]. rewrite wl_snap_nokids in H. cbn [app] in H. injection H as <- <-.
    split; [rewrite map_map; cbn [fst]; apply map_id|]. split; [apply Ht|]. split; [exists []; rewrite app_nil_r; reflexivity|].
    intros i o idx Hn. rewrite nth_error_map in Hn. destruct (nth_error (items s) i) as [x|] eqn:E; [|discriminate].
    cbn in Hn. injection Hn as <- <-. split; [reflexivity|constructor].
Qed.

Theorem wl_entry_snapshot_with_adds_refuted :
  wl_entry_ok (""%string, ""%string, ISnapshot, true, false) = false /\
  let '(s', out, _) := wl_exec ISnapshot true kids01 3 (fi_init [0%N]) in
  List.length out = 1 /\ List.length (items s') = 2.
Proof. vm_compute. repeat split. Qed.

(** * Rebuild order *)
Theorem order_ok_sound : forall order edges, order_ok order edges = true ->
  forall a b, In (a, b) edges -> exists i j, pos_of a order = Some i /\ pos_of b order = Some j /\ i < j.
Proof.
  intros order edges H a b Hin. unfold order_ok in H. rewrite forallb_forall in H. specialize (H _ Hin).
  unfold edge_ok in H. cbn [fst snd] in H. destruct (pos_of a order) as [i|]; [|discriminate]. destruct (pos_of b order) as [j|]; [|discriminate].
  exists i, j. split; [reflexivity|]. split; [reflexivity|]. apply Nat.ltb_lt. exact H.
Qed.
