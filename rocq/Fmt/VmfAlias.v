(** C06, round 5: aliases between containers of a map object.  [VMF.brushes] and [VMF.spawn.solids] are meant to be ONE list
    object: the public adders ([add_brush], [add_brushes], [remove_brush], [iter_wbrushes]) work on the first, [export] writes
    the second.  Content added after construction survives export exactly when the two attributes hold the same object --
    identity, not equality: two equal (say, both empty) lists stop being equal with the first [append].

    Gen/VmfAlias_gen.v holds, for every function that hands out a map ([VMF.__init__], [VMF.parse]) and every alias pair the
    constructor establishes, the two REFERENCE EXPRESSIONS the attributes hold when the function returns, obtained by symbolic
    execution of the function body over abstract object identities:
      [RLoc l]         the object number [l] (a parameter, the value an attribute had, or a NEW object: every list display,
                       call, slice, comprehension, copy gets a number of its own);
      [RIteT c a b]    [a] if the object [c] evaluates to is truthy (a non-empty list) else [b]:  [x or y] is [RIteT x x y],
                       [x and y] is [RIteT x y x], [a if x else b] is [RIteT x a b];
      [RIteO k a b]    [a] if the condition number [k] (anything that is not a truthiness test of a tracked object, such as
                       [x is None]) holds else [b];  an [if] statement merges the two stores with these.
    A WORLD fixes which objects are truthy and which opaque conditions hold.  Definitions only; proofs in Fmt/VmfAliasProofs.v. *)
From Coq Require Import List String Bool NArith.
Import ListNotations.
Open Scope N_scope.

Inductive rexp :=
| RLoc (l : N)
| RIteT (c a b : rexp)
| RIteO (k : N) (a b : rexp).

(** atoms of a world: truthiness of object [l] is atom [2l], opaque condition [k] is atom [2k+1] *)
Definition world := N -> bool.
Definition at_truthy (l : N) : N := 2 * l.
Definition at_opaque (k : N) : N := 2 * k + 1.

Fixpoint reval (w : world) (r : rexp) : N :=
  match r with
  | RLoc l => l
  | RIteT c a b => if w (at_truthy (reval w c)) then reval w a else reval w b
  | RIteO k a b => if w (at_opaque k) then reval w a else reval w b
  end.

(** the objects an expression can evaluate to, and the atoms its value can depend on *)
Fixpoint rlocs (r : rexp) : list N :=
  match r with
  | RLoc l => [l]
  | RIteT c a b => rlocs a ++ rlocs b
  | RIteO _ a b => rlocs a ++ rlocs b
  end.
Fixpoint ratoms (r : rexp) : list N :=
  match r with
  | RLoc _ => []
  | RIteT c a b => map at_truthy (rlocs c) ++ ratoms c ++ ratoms a ++ ratoms b
  | RIteO k a b => at_opaque k :: ratoms a ++ ratoms b
  end.

Definition wupd (w : world) (a : N) (v : bool) : world := fun x => if N.eqb x a then v else w x.
Fixpoint all_worlds (atoms : list N) : list world :=
  match atoms with
  | [] => [fun _ => false]
  | a :: r => flat_map (fun w => [wupd w a false; wupd w a true]) (all_worlds r)
  end.

(** The decision procedure: the two expressions denote the same object in every world over their atoms. *)
Definition alias_same (a b : rexp) : bool :=
  forallb (fun w => N.eqb (reval w a) (reval w b)) (all_worlds (ratoms a ++ ratoms b)).

(** One line of the generated table: function, the two access paths, the two expressions. *)
Record aliasrow := mk_aliasrow { ar_fn : string; ar_left : string; ar_right : string; ar_l : rexp; ar_r : rexp }.
Definition row_ok (r : aliasrow) : bool := alias_same (ar_l r) (ar_r r).
Definition rows_of (fn : string) (t : list aliasrow) : list aliasrow := filter (fun r => String.eqb (ar_fn r) fn) t.
Definition has_row (t : list aliasrow) (fn l r : string) : bool :=
  existsb (fun x => String.eqb (ar_fn x) fn && String.eqb (ar_left x) l && String.eqb (ar_right x) r) t.
(** every alias pair the constructor establishes is listed for every function that hands out a map, and every row holds *)
Definition alias_table_ok (fns : list string) (pairs : list (string * string)) (t : list aliasrow) : bool :=
  forallb row_ok t && forallb (fun fn => forallb (fun p => has_row t fn (fst p) (snd p)) pairs) fns
  && negb (Nat.eqb (List.length pairs) 0) && negb (Nat.eqb (List.length fns) 0).

(** What identity buys: a heap of list objects; the adders append to the object the first attribute holds, the writer reads
    the object the second attribute holds. *)
Definition heap (X : Type) := N -> list X.
Definition append_at {X} (h : heap X) (l : N) (x : X) : heap X := fun k => if N.eqb k l then h k ++ [x] else h k.
Definition add_then_read {X} (w : world) (adder writer : rexp) (h : heap X) (x : X) : list X :=
  append_at h (reval w adder) x (reval w writer).
