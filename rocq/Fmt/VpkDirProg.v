(** [VPK.write_dirfile] as a program read from the source (Gen/VpkDirProg_gen.v [g_wprog], translate/c13_dirprog.py): the statements inside
    `with open(self.path, 'wb') as file:` in order, the three nested loops (over what, sorted?, `if not <dict>: continue` first?) and
    what each loop body does before and after the loop nested in it.  [wexec] runs such a program on a file buffer with a cursor
    (writes at the end, or over existing bytes after a seek); VpkDirProgProofs.v shows that every program accepted by [wprog_ok]
    produces exactly [enc_file] of Fmt/VpkDir.v — the header with the tree length patched in afterwards, the nesting extension > folder >
    file, the skipped empty dicts, the three terminators, the entry fields in order, the preload after the entry, footer_data after the
    tree — for every tree and footer. *)
From Coq Require Import List NArith Bool.
From SV Require Import Fmt.VpkDir.
Import ListNotations.
Open Scope N_scope.

Inductive lvl := LExt | LDir | LFile.
Inductive hval := HSig | HVer | HZero | HDirLen.
Inductive fval := ECrc | EPreLen | EIdx | EOff | EArchLen | ETerm.
Inductive wop :=
| WHdr (fs : list (hval * N))      (* file.write(struct.pack(fmt, <header values>)); the N is the width of the field in bytes *)
| WMark                            (* header_len = file.tell() *)
| WStr (l : lvl)                   (* _write_nullstring(file, <loop key of level l>) *)
| WEntry (fs : list (fval * N))    (* file.write(struct.pack(fmt, <fields of info>)) *)
| WPreload                         (* file.write(info.start_data) *)
| WLit (b : bytes)                 (* file.write(<bytes literal>) *)
| WDirLen                          (* dir_len = file.tell() - header_len *)
| WFooter                          (* file.write(self.footer_data) *)
| WSeek (n : N).                   (* file.seek(n) *)

Record wprog := mkWProg {
  w_before : list wop;
  w_sorted : bool;                 (* all three loops iterate sorted(<dict>.items(), key = the dict key) *)
  w_nest_ok : bool;                (* the loops are over self._fileinfo, the value of the outer loop, the value of the middle loop *)
  w_ext_skip : bool; w_ext_pre : list wop;
  w_dir_skip : bool; w_dir_pre : list wop;
  w_file_body : list wop;
  w_dir_post : list wop; w_ext_post : list wop;
  w_after : list wop }.

(** the file being written: contents, cursor ([None] = at the end), header_len, dir_len *)
Record wst := mkW { fb : bytes; fc : option nat; fmark : nat; fdl : N }.
Definition tell (s : wst) : nat := match fc s with None => length (fb s) | Some p => p end.
Definition fwrite (s : wst) (d : bytes) : wst :=
  match fc s with
  | None => mkW (fb s ++ d) None (fmark s) (fdl s)
  | Some p => mkW (firstn p (fb s) ++ d ++ skipn (p + length d) (fb s)) (Some (p + length d)%nat) (fmark s) (fdl s)
  end.

(** struct.pack: fields of 4 ('I') or 2 ('H') bytes; [None] = struct.error *)
Fixpoint pack (vs : list (N * N)) : option bytes :=
  match vs with
  | [] => Some []
  | (v, w) :: r =>
      match (if w =? 4 then if fits32 v then Some (le32 v) else None
             else if w =? 2 then if fits16 v then Some (le16 v) else None else None), pack r with
      | Some a, Some b => Some (a ++ b)
      | _, _ => None
      end
  end.

Record wctx := mkCtx { x_ext : bytes; x_dir : bytes; x_name : bytes; x_info : info }.

Section exec.
  Variable c : dcfg.
  Variable footer : bytes.

  Definition hval_of (s : wst) (h : hval) : N :=
    match h with HSig => c_sig c | HVer => 1 | HZero => 0 | HDirLen => fdl s end.
  Definition fval_of (x : wctx) (f : fval) : N :=
    let i := x_info x in
    match f with ECrc => icrc i | EPreLen => len (ipre i) | EIdx => idx_code c i | EOff => ioff i | EArchLen => ilen i | ETerm => c_term c end.

  Definition wop_step (x : wctx) (s : wst) (o : wop) : option wst :=
    match o with
    | WHdr fs => match pack (map (fun f => (hval_of s (fst f), snd f)) fs) with Some b => Some (fwrite s b) | None => None end
    | WMark => Some (mkW (fb s) (fc s) (tell s) (fdl s))
    | WStr l => Some (fwrite s (write_cstr (match l with LExt => x_ext x | LDir => x_dir x | LFile => x_name x end)))
    | WEntry fs => match pack (map (fun f => (fval_of x (fst f), snd f)) fs) with Some b => Some (fwrite s b) | None => None end
    | WPreload => Some (fwrite s (ipre (x_info x)))
    | WLit b => Some (fwrite s b)
    | WDirLen => Some (mkW (fb s) (fc s) (fmark s) (N.of_nat (tell s - fmark s)))
    | WFooter => Some (fwrite s footer)
    | WSeek n => Some (mkW (fb s) (Some (N.to_nat n)) (fmark s) (fdl s))
    end.

  Fixpoint wrun (x : wctx) (ops : list wop) (s : wst) : option wst :=
    match ops with
    | [] => Some s
    | o :: r => match wop_step x s o with Some s' => wrun x r s' | None => None end
    end.

  (** a loop: the body on every element in order, stopping at the first struct.error *)
  Fixpoint wloop {A} (body : A -> wst -> option wst) (l : list A) (s : wst) : option wst :=
    match l with
    | [] => Some s
    | a :: r => match body a s with Some s' => wloop body r s' | None => None end
    end.

  Definition lnil {A} (l : list A) : bool := match l with [] => true | _ => false end.
  Definition obind {A B} (o : option A) (f : A -> option B) : option B := match o with Some a => f a | None => None end.

  Definition x0 : wctx := mkCtx [] [] [] (mkInfo 0 [] None 0 0).

  Definition wexec_st (p : wprog) (t : tree) : option wst :=
    obind (wrun x0 (w_before p) (mkW [] None 0 0)) (fun s1 =>
    obind (wloop (fun e s =>
             if w_ext_skip p && lnil (snd e) then Some s else
             let xe := mkCtx (fst e) [] [] (x_info x0) in
             obind (wrun xe (w_ext_pre p) s) (fun s =>
             obind (wloop (fun d s =>
                      if w_dir_skip p && lnil (snd d) then Some s else
                      let xd := mkCtx (fst e) (fst d) [] (x_info x0) in
                      obind (wrun xd (w_dir_pre p) s) (fun s =>
                      obind (wloop (fun f s => wrun (mkCtx (fst e) (fst d) (fst f) (snd f)) (w_file_body p) s) (snd d) s) (fun s =>
                      wrun xd (w_dir_post p) s))) (snd e) s) (fun s =>
             wrun xe (w_ext_post p) s))) t s1) (fun s2 =>
    wrun x0 (w_after p) s2)).

  (** what is in the file when write_dirfile returns; [None] = struct.error was raised *)
  Definition wexec (p : wprog) (t : tree) : option bytes := option_map fb (wexec_st p t).
End exec.

(** vpk.py as pinned *)
Definition entry_fields_pinned : list (fval * N) := [(ECrc, 4); (EPreLen, 2); (EIdx, 2); (EOff, 4); (EArchLen, 4); (ETerm, 2)].
Definition wprog_pinned : wprog :=
  mkWProg [WHdr [(HSig, 4); (HVer, 4); (HZero, 4)]; WMark] true true
          true [WStr LExt] true [WStr LDir]
          [WStr LFile; WEntry entry_fields_pinned; WPreload]
          [WLit [0]] [WLit [0]]
          [WLit [0]; WDirLen; WFooter; WSeek 8; WHdr [(HDirLen, 4)]].

Definition lvl_eq_dec (a b : lvl) : {a = b} + {a <> b}. Proof. decide equality. Defined.
Definition hval_eq_dec (a b : hval) : {a = b} + {a <> b}. Proof. decide equality. Defined.
Definition fval_eq_dec (a b : fval) : {a = b} + {a <> b}. Proof. decide equality. Defined.
Definition wop_eq_dec (a b : wop) : {a = b} + {a <> b}.
Proof.
  decide equality; try apply N.eq_dec; try apply lvl_eq_dec;
    try (apply list_eq_dec; try apply N.eq_dec; intros [x1 n1] [x2 n2]; decide equality; try apply N.eq_dec; try apply hval_eq_dec; apply fval_eq_dec).
Defined.
Definition wprog_eq_dec (a b : wprog) : {a = b} + {a <> b}.
Proof. decide equality; try apply Bool.bool_dec; apply list_eq_dec; apply wop_eq_dec. Defined.
Definition wprog_ok (p : wprog) : bool := if wprog_eq_dec p wprog_pinned then true else false.

(** nearby wrong shapes *)
(* the terminator of the folder level forgotten *)
Definition wprog_no_dir_term : wprog :=
  mkWProg (w_before wprog_pinned) true true true [WStr LExt] true [WStr LDir] (w_file_body wprog_pinned) [] [WLit [0]] (w_after wprog_pinned).
(* the tree length computed after footer_data was written (own mutation N5 of round 2) *)
Definition wprog_len_after_footer : wprog :=
  mkWProg (w_before wprog_pinned) true true true [WStr LExt] true [WStr LDir] (w_file_body wprog_pinned) [WLit [0]] [WLit [0]]
          [WLit [0]; WFooter; WDirLen; WSeek 8; WHdr [(HDirLen, 4)]].
(* the preload written before the entry *)
Definition wprog_preload_first : wprog :=
  mkWProg (w_before wprog_pinned) true true true [WStr LExt] true [WStr LDir] [WStr LFile; WPreload; WEntry entry_fields_pinned] [WLit [0]] [WLit [0]] (w_after wprog_pinned).
