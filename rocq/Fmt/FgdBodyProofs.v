(** C16 — proofs about Fmt/FgdBody.v: the whole body of an entity, as written, is read back line by line. *)
From Coq Require Import List NArith Arith Bool Lia.
From SV Require Import Fmt.FgdLine Fmt.FgdLineProofs Fmt.FgdBody.
Import ListNotations.
Open Scope N_scope.

Section Proofs.
Variable tag_norm : str -> str.
Variable tags_valid : list str -> bool.
Variable vt : Type.
Variable vt_text : vt -> str.
Variable vt_lookup : str -> option (bool * vt).
Variables vt_is_bool vt_is_flags vt_is_choices : vt -> bool.
Variable io_text : vt -> str.
Variable io_lookup : str -> option vt.
Variable io_decay : vt -> vt.
Variable dec : N -> str.
Variable undec : str -> option N.
Variable pow2 : N -> bool.
Variable cfg : line_cfg.
Variable rt : Type.
Variable rt_text : rt -> str.
Variable rt_lookup : str -> option rt.
Hypothesis vt_lookup_text : forall v, vt_lookup (vt_text v) = Some (false, v).
Hypothesis io_lookup_text : forall v, io_lookup (io_text v) = Some (io_decay v).
Hypothesis undec_dec : forall n, undec (dec n) = Some n.
Hypothesis rt_lookup_text : forall t, rt_lookup (rt_text t) = Some t.
Hypothesis two_colons : colons_before_desc_without_default cfg = 2%nat.
Hypothesis res_defined : res_block_if_defined cfg = true.

Local Notation kvline := (kvline vt).
Local Notation ioline := (ioline vt).
Local Notation item := (item vt).
Local Notation body := (body vt rt).
Local Notation kv_toks := (kv_toks vt vt_text vt_is_bool vt_is_flags dec cfg).
Local Notation kv_parse := (kv_parse tag_norm tags_valid vt vt_lookup vt_is_bool vt_is_flags vt_is_choices dec undec pow2).
Local Notation default_written := (default_written vt vt_is_bool cfg).
Local Notation yes_no := (yes_no vt vt_is_bool).
Local Notation item_toks := (item_toks vt vt_text vt_is_bool vt_is_flags io_text dec cfg).
Local Notation body_toks := (body_toks vt vt_text vt_is_bool vt_is_flags io_text dec cfg rt rt_text).
Local Notation body_parse := (body_parse tag_norm tags_valid vt vt_lookup vt_is_bool vt_is_flags vt_is_choices io_lookup dec undec pow2 rt rt_lookup).
Local Notation body_read := (body_read tag_norm tags_valid vt vt_lookup vt_is_bool vt_is_flags vt_is_choices io_lookup dec undec pow2 rt rt_lookup).
Local Notation tags_wf := (tags_wf tag_norm tags_valid).
Local Notation kv_norm := (kv_norm vt vt_is_bool cfg).

(** a keyvalue name must not be one of the words the entity loop treats specially *)
Definition not_kw (w : str) : Prop :=
  str_eqb (lower w) KW_INPUT = false /\ str_eqb (lower w) KW_OUTPUT = false /\ str_eqb (lower w) AT_RESOURCES = false.

Definition kv_item_wf (label : bool) (k : kvline) : Prop :=
  tags_wf (l_tags vt k) /\ not_kw (l_name vt k) /\
  match l_list vt k with
  | NoList => vt_is_flags (l_type vt k) = false /\ vt_is_choices (l_type vt k) = false /\ l_disp vt k <> []
              /\ yes_no (l_type vt k) (default_written k) = default_written k
  | Choices items => vt_is_flags (l_type vt k) = false /\ vt_is_choices (l_type vt k) = true /\ Forall (ciwf tag_norm tags_valid) items
              /\ l_disp vt k <> [] /\ yes_no (l_type vt k) (default_written k) = default_written k
  | Flags items => vt_is_flags (l_type vt k) = true /\ vt_is_choices (l_type vt k) = false
              /\ Forall (fiwf tag_norm tags_valid dec pow2 label) items /\ default_written k = [] /\ concat (l_desc vt k) = []
  end.
Definition kv_item_norm (custom : bool) (k : kvline) : kvline :=
  match l_list vt k with
  | NoList => kv_norm custom k NoList
  | Choices items => kv_norm custom k (Choices (map (cires custom) items))
  | Flags items => mk_kvl vt (l_name vt k) (seen_tags custom (l_tags vt k)) (l_type vt k) (l_ro vt k) (l_report vt k)
                          [l_name vt k] [] [[]] (Flags (map (fires custom) items))
  end.
(** after a value list the NEWLINE that ends the line is still in the stream *)
Definition kv_extra (k : kvline) : list tok := match l_list vt k with NoList => [] | _ => [TNl] end.

Lemma kv_item_read label custom k rest : kv_item_wf label k -> ends_line rest ->
  kv_parse (l_name vt k) (tl (kv_toks label custom k) ++ rest) = Some (kv_item_norm custom k, kv_extra k ++ rest).
Proof.
  intros [Ht [_ H]] He. unfold kv_item_norm, kv_extra. destruct (l_list vt k) as [|items|items] eqn:El.
  - destruct H as [Hf [Hc [Hd Hy]]]. cbn [app].
    apply (kv_plain_roundtrip tag_norm tags_valid vt vt_text vt_lookup vt_is_bool vt_is_flags vt_is_choices dec undec pow2 cfg
             vt_lookup_text two_colons label custom k rest Ht Hf Hc El Hd Hy He).
  - destruct H as [Hf [Hc [Hi [Hd Hs]]]]. cbn [app].
    apply (kv_flags_roundtrip tag_norm tags_valid vt vt_text vt_lookup vt_is_bool vt_is_flags vt_is_choices dec undec pow2 cfg
             vt_lookup_text undec_dec two_colons label custom k items rest Ht Hf Hc El Hi Hd Hs).
  - destruct H as [Hf [Hc [Hi [Hd Hy]]]]. cbn [app].
    apply (kv_choices_roundtrip tag_norm tags_valid vt vt_text vt_lookup vt_is_bool vt_is_flags vt_is_choices dec undec pow2 cfg
             vt_lookup_text two_colons label custom k items rest Ht Hf Hc El Hi Hd Hy).
Qed.

(** * Items *)
Definition item_wf (label : bool) (it : item) : Prop :=
  match it with IKv _ k => kv_item_wf label k | IIn _ o | IOut _ o => tags_wf (o_tags vt o) end.
Definition io_norm (custom : bool) (o : ioline) : ioline :=
  mk_iol vt (o_name vt o) (seen_tags custom (o_tags vt o)) (io_decay (o_type vt o)) [concat (o_desc vt o)].
Definition add_item (custom : bool) (b : body) (it : item) : body :=
  match it with
  | IKv _ k => mk_body vt rt (b_kvs vt rt b ++ [kv_item_norm custom k]) (b_ins vt rt b) (b_outs vt rt b) (b_res vt rt b)
  | IIn _ o => mk_body vt rt (b_kvs vt rt b) (b_ins vt rt b ++ [io_norm custom o]) (b_outs vt rt b) (b_res vt rt b)
  | IOut _ o => mk_body vt rt (b_kvs vt rt b) (b_ins vt rt b) (b_outs vt rt b ++ [io_norm custom o]) (b_res vt rt b)
  end.
Definition item_extra (it : item) : list tok := match it with IKv _ k => kv_extra k | _ => [] end.

Lemma item_step label custom it f b rest : item_wf label it -> ends_line rest ->
  body_parse (S f) b (item_toks label custom it ++ rest) = body_parse f (add_item custom b it) (item_extra it ++ rest).
Proof.
  intros Hwf He. destruct it as [k|o|o]; cbn [FgdBody.item_toks item_extra add_item].
  - pose proof (kv_item_read label custom k rest Hwf He) as Hr. destruct Hwf as [_ [[K1 [K2 K3]] _]].
    rewrite (kv_toks_split vt vt_text vt_is_bool vt_is_flags dec cfg) in *.
    cbn [tl app] in *. cbn [FgdBody.body_parse]. rewrite K1, K2, K3, Hr. reflexivity.
  - cbn [app FgdBody.body_parse]. change (str_eqb (lower KW_INPUT) KW_INPUT) with true. cbn iota.
    rewrite (io_roundtrip tag_norm tags_valid vt io_text io_lookup io_decay io_lookup_text custom o rest Hwf He). reflexivity.
  - cbn [app FgdBody.body_parse]. change (str_eqb (lower KW_OUTPUT) KW_INPUT) with false.
    change (str_eqb (lower KW_OUTPUT) KW_OUTPUT) with true. cbn iota.
    rewrite (io_roundtrip tag_norm tags_valid vt io_text io_lookup io_decay io_lookup_text custom o rest Hwf He). reflexivity.
Qed.

Lemma body_skip_nl n : forall f b rest, body_parse (n + f) b (repeat TNl n ++ rest) = body_parse f b rest.
Proof. induction n as [|n IH]; intros f b rest; [reflexivity|]. cbn [repeat app Nat.add FgdBody.body_parse]. apply IH. Qed.

Lemma item_toks_len label custom it : (length (item_extra it) < length (item_toks label custom it))%nat.
Proof.
  destruct it as [k|o|o]; cbn [FgdBody.item_toks item_extra].
  - rewrite (kv_toks_split vt vt_text vt_is_bool vt_is_flags dec cfg).
    cbn [length]. rewrite !app_length. cbn [length]. unfold kv_extra. destruct (l_list vt k); cbn [length]; lia.
  - cbn [length]. lia.
  - cbn [length]. lia.
Qed.

(** what may follow a line: never a '+' *)
Definition line_start (rest : list tok) : Prop := match rest with TNl :: _ | TStr _ :: _ | TBrClose :: _ => True | _ => False end.
Lemma line_start_ends rest : line_start rest -> ends_line rest.
Proof. destruct rest as [|[]]; cbn; auto. Qed.
Lemma item_toks_start label custom it rest : line_start (item_toks label custom it ++ rest).
Proof.
  destruct it as [k|o|o]; cbn [FgdBody.item_toks]; [|exact I|exact I].
  rewrite (kv_toks_split vt vt_text vt_is_bool vt_is_flags dec cfg). exact I.
Qed.
Definition items_toks (label custom : bool) (items : list (nat * item)) : list tok :=
  concat (map (fun p => repeat TNl (fst p) ++ item_toks label custom (snd p)) items).
Lemma items_start label custom items rest : line_start rest -> line_start (items_toks label custom items ++ rest).
Proof.
  intros H. destruct items as [|[n it] items]; [exact H|]. unfold items_toks. cbn [map concat fst snd]. rewrite <- !app_assoc.
  destruct n; [apply item_toks_start|exact I].
Qed.

(** all lines of the body, in order; [f'] = the fuel left, still more than the tokens left *)
Lemma body_items label custom items : forall b f rest, Forall (item_wf label) (map snd items) -> line_start rest ->
  (length (items_toks label custom items ++ rest) < f)%nat ->
  exists f', (length rest < f')%nat /\
    body_parse f b (items_toks label custom items ++ rest) = body_parse f' (fold_left (add_item custom) (map snd items) b) rest.
Proof.
  induction items as [|[n it] items IH]; intros b f rest Hwf Hs Hf.
  - exists f. split; [exact Hf|reflexivity].
  - cbn [map snd] in Hwf. inversion Hwf as [|? ? Hit Hrest]; subst.
    unfold items_toks in *. cbn [map concat fst snd] in *. rewrite <- !app_assoc in *. fold (items_toks label custom items) in *.
    rewrite !app_length, repeat_length in Hf.
    pose proof (item_toks_len label custom it) as Hl.
    assert (Hs' : line_start (items_toks label custom items ++ rest)) by (apply items_start, Hs).
    destruct f as [|f]; [lia|].
    replace (S f) with (n + S (f - n))%nat by lia. rewrite body_skip_nl.
    rewrite (item_step label custom it (f - n) b _ Hit (line_start_ends _ Hs')).
    (* the NEWLINE left by a value list *)
    assert (Hx : exists g, (length (items_toks label custom items ++ rest) < g)%nat /\
              body_parse (f - n) (add_item custom b it) (item_extra it ++ items_toks label custom items ++ rest)
              = body_parse g (add_item custom b it) (items_toks label custom items ++ rest)).
    { destruct it as [k|o|o]; cbn [item_extra] in *; try (exists (f - n)%nat; split; [rewrite app_length; cbn [length] in *; lia|reflexivity]).
      unfold kv_extra in *. destruct (l_list vt k); cbn [app length] in *.
      - exists (f - n)%nat. split; [rewrite app_length; lia|reflexivity].
      - destruct (f - n)%nat as [|g] eqn:Eg; [rewrite app_length in *; lia|]. exists g. split; [rewrite app_length in *; lia|reflexivity].
      - destruct (f - n)%nat as [|g] eqn:Eg; [rewrite app_length in *; lia|]. exists g. split; [rewrite app_length in *; lia|reflexivity]. }
    destruct Hx as [g [Hg ->]]. cbn [fold_left]. apply IH; assumption.
Qed.

(** * The resources and the closing bracket *)
Local Notation res_parse := (res_parse tag_norm tags_valid rt rt_lookup).
Local Notation res_item_toks := (res_item_toks rt rt_text).
Local Notation riwf := (riwf tag_norm tags_valid rt).
Lemma res_parse_block l X : Forall riwf l ->
  res_parse [] (TNl :: TBrOpen :: TNl :: concat (map res_item_toks l) ++ TBrClose :: X) = Some (l, X).
Proof.
  intros Hwf. unfold FgdLine.res_parse. cbn [skip_nl].
  rewrite (res_skip_nl tag_norm tags_valid rt rt_lookup).
  rewrite (res_items tag_norm tags_valid cfg two_colons rt rt_text rt_lookup rt_lookup_text l [] _ X Hwf); [reflexivity|].
  cbn [length]. rewrite app_length. pose proof (res_items_len cfg two_colons rt rt_text l). cbn [length]. lia.
Qed.

Lemma fold_keeps_res custom its : forall b, b_res vt rt (fold_left (add_item custom) its b) = b_res vt rt b.
Proof. induction its as [|it its IH]; intros b; [reflexivity|]. cbn [fold_left]. rewrite IH. destruct it; reflexivity. Qed.

Definition with_res (b : body) (r : resources rt) : body := mk_body vt rt (b_kvs vt rt b) (b_ins vt rt b) (b_outs vt rt b) r.

(** The body of an entity: the keyvalue, input and output lines in the order written (blank / comment lines between
    them), the @resources block and the closing bracket are read back by the loop of EntityDef.parse as the same
    keyvalues, inputs, outputs (each in normal form: long strings joined, tags as read, I/O types decayed) in the same
    order, and the same resources (extended syntax; the plain syntax writes none). *)
Theorem body_roundtrip label custom items (res : resources rt) rest :
  Forall (item_wf label) (map snd items) -> match res with Some l => Forall riwf l | None => True end ->
  body_read (body_toks label custom items res ++ rest)
  = Some (with_res (fold_left (add_item custom) (map snd items) (mk_body vt rt [] [] [] None)) (if custom then res else None), rest).
Proof.
  intros Hwf Hres. unfold FgdBody.body_read, FgdBody.body_toks. fold (items_toks label custom items).
  rewrite <- !app_assoc. cbn [app].
  set (R := res_toks cfg rt rt_text custom res ++ TBrClose :: rest).
  assert (HR : line_start R).
  { unfold R, res_toks. destruct res as [l|]; [|exact I]. destruct (custom && (res_block_if_defined cfg || negb (nil_b l))); exact I. }
  destruct (body_items label custom items (mk_body vt rt [] [] [] None) (S (length (items_toks label custom items ++ R))) R Hwf HR ltac:(lia))
    as [f' [Hf' ->]].
  set (b1 := fold_left (add_item custom) (map snd items) (mk_body vt rt [] [] [] None)).
  assert (Hb1 : b_res vt rt b1 = None) by apply fold_keeps_res. clearbody b1.
  unfold R in *. unfold res_toks in *. destruct res as [l|].
  - rewrite res_defined in *. cbn [orb] in *. destruct custom; cbn [andb] in *.
    + cbn [app] in *. rewrite <- app_assoc in *. cbn [app length] in *.
      destruct f' as [|[|f']]; try lia. cbn [FgdBody.body_parse].
      change (str_eqb (lower AT_RESOURCES) KW_INPUT) with false. change (str_eqb (lower AT_RESOURCES) KW_OUTPUT) with false.
      change (str_eqb (lower AT_RESOURCES) AT_RESOURCES) with true. cbn iota. rewrite Hb1.
      rewrite (res_parse_block l _ Hres). cbn [b_kvs b_ins b_outs b_res].
      rewrite app_length in Hf'. cbn [length] in Hf'. destruct f' as [|[|f']]; try lia. cbn [FgdBody.body_parse].
      unfold with_res. reflexivity.
    + cbn [app length] in *. destruct f' as [|f']; [lia|]. cbn [FgdBody.body_parse]. unfold with_res.
      destruct b1 as [k1 i1 o1 r1]. cbn [b_kvs b_ins b_outs b_res] in *. subst r1. reflexivity.
  - cbn [app length] in *. destruct f' as [|f']; [lia|]. cbn [FgdBody.body_parse]. unfold with_res.
    destruct b1 as [k1 i1 o1 r1]. cbn [b_kvs b_ins b_outs b_res] in *. subst r1. destruct custom; reflexivity.
Qed.
End Proofs.
