(** KeyValues2 at the level of the element's dict of members (Fmt/DmxMembers.v, Fmt/DmxMembersParse.v).

    [Element._export_kv2] writes, per element, the line ["name" "string" <Element.name>] and then one record per member its
    loop does not skip; the skip test is [if attr.name == 'name': continue] — the case-preserved name of the attribute,
    not the dict key as in export_binary — and is read from the source by translate/c14_dmx.py ([gen_kv2_skip]).
    [Element._parse_kv2_element] starts from [Element(block_name, type)] and handles every record in order: a record whose
    name passes the name test ([attr_name == 'name'], on the name as written; read from the source: [gen_kv2_name_test])
    goes to the [name] setter, every other record is stored under KEY (Fmt/DmxMembersParse.v).

    So a name member spelled 'NAME' is written twice (the name line and a record "NAME"), and the record, stored under the
    casefolded key, replaces the member the name line created — the dict keeps its spelling.  Executable definitions only;
    proofs are in DmxMembersKv2Proofs.v. *)
From Coq Require Import NArith ZArith List Bool.
From SV Require Import Fmt.DmxCodes Fmt.DmxBin Fmt.DmxMembers Fmt.DmxMembersParse.
Import ListNotations.

Inductive nametest := TExact | TFolded.       (* attr_name == 'name'  /  attr_name.casefold() == 'name' *)
Definition is_name (fold : str -> str) (t : nametest) (n : str) : bool :=
  match t with TExact => str_eqb n s_name | TFolded => str_eqb (fold n) s_name end.

(** the records of one element block, in the order written: the name line, then the members the loop keeps *)
Definition kv2_written (cc : cntcfg) (f : mfilter) (m : members) : list attr :=
  {| aname := s_name; adata := VStr (Scalar (rname cc m)) |} :: map snd (records f m).

Section Read.
  Variable fold : str -> str.
  Variable t : nametest.
  Variable k : keyfn.
  Definition kv2_read_rec (m : members) (a : attr) : members :=
    if is_name fold t (aname a)
    then match adata a with
         | VStr (Scalar s) => apply_op fold m (OSetName s)      (* elem.name = tok.expect(STRING) *)
         | _ => m                                              (* "name" of another type: the parser raises; outside the model *)
         end
    else store fold k m a.
  Definition kv2_read (block_name : str) (recs : list attr) : members := fold_left kv2_read_rec recs (init_members block_name).
End Read.

(** the loop may skip nothing but the member keyed "name" (the name line carries its value) *)
Definition kv2_filter_ok (f : mfilter) : bool :=
  match f with FKeyIs k | FRealNameIs k => str_eqb k s_name | FNothing => true end.

(** the name member, when present, is a scalar string (other types are outside the models) *)
Definition name_is_string (m : members) : Prop :=
  match mget s_name m with Some a => exists s, adata a = VStr (Scalar s) | None => True end.
