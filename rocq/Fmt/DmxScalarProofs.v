(** C14 — proofs about the fixed-width value codecs (Fmt/DmxScalar.v). *)
From Coq Require Import NArith ZArith QArith Qround Qabs Lqa Lia List Bool String Ascii PeanoNat.
From SV Require Import Bin.LE Bin.Struct Bin.StructProofs Fmt.DmxCodes Fmt.DmxScalar.
Import ListNotations.

(** * Rounding *)
Lemma inject_Z_lt_inv a b : (inject_Z a < inject_Z b)%Q -> (a < b)%Z.
Proof. intros H. rewrite Zlt_Qlt. exact H. Qed.

(** A rational within 1/2 of an integer rounds (half-even) to that integer. *)
Lemma q_round_he_near : forall x k, (Qabs (x - inject_Z k) < 1 # 2)%Q -> q_round_he x = k.
Proof.
  intros x k H. apply Qabs_Qlt_condition in H. destruct H as [H1 H2].
  pose proof (Qfloor_le x) as Hf1. pose proof (Qlt_floor x) as Hf2.
  rewrite inject_Z_plus in Hf2. change (inject_Z 1) with 1%Q in Hf2.
  assert (Hlo : (Qfloor x < k + 1)%Z).
  { rewrite Zlt_Qlt. rewrite inject_Z_plus. change (inject_Z 1) with 1%Q. lra. }
  assert (Hhi : (k - 1 < Qfloor x + 1)%Z).
  { rewrite Zlt_Qlt. unfold Z.sub. rewrite !inject_Z_plus, inject_Z_opp. change (inject_Z 1) with 1%Q. lra. }
  unfold q_round_he.
  assert (Hc : Qfloor x = k \/ Qfloor x = (k - 1)%Z) by lia. destruct Hc as [E|E]; rewrite E in *.
  - assert (Hlt : (x - inject_Z k < 1 # 2)%Q) by lra.
    match goal with |- context [Qcompare ?a ?b] => destruct (Qcompare_spec a b) as [C|C|C] end; [lra|reflexivity|lra].
  - unfold Z.sub in *. rewrite inject_Z_plus, inject_Z_opp in *. change (inject_Z 1) with 1%Q in *.
    match goal with |- context [Qcompare ?a ?b] => destruct (Qcompare_spec a b) as [C|C|C] end; [lra|lra|lia].
Qed.

(** * The TIME codec on tick-exact values *)
Section Time.
  Variable fmul fdiv : Q -> Q -> Q.
  Variable S : Z.
  Hypothesis S_pos : (0 < S)%Z.
  Definition u53 : Q := 1 # (2 ^ 53).
  (** What is assumed of IEEE binary64 division and multiplication (the "standard model" of round-to-nearest,
      relative error at most 2^-53), only at the operands the codec uses: [k / S] and [(k / S) * S] for a 32-bit [k]
      (no overflow or underflow can occur there). *)
  Definition std_model_on_ticks : Prop :=
    forall k, int32_ok k = true ->
      let q := (inject_Z k / inject_Z S)%Q in
      let d := fdiv (inject_Z k) (inject_Z S) in
      (Qabs (d - q) <= u53 * Qabs q)%Q /\
      (Qabs (fmul d (inject_Z S) - d * inject_Z S) <= u53 * Qabs (d * inject_Z S))%Q.
  Hypothesis Hstd : std_model_on_ticks.

  Lemma int32_bound k : int32_ok k = true -> (Qabs (inject_Z k) <= inject_Z (2 ^ 31))%Q.
  Proof.
    unfold int32_ok, in_range, modulus. intros H. apply andb_prop in H. destruct H as [H1 H2].
    apply Z.leb_le in H1. apply Z.ltb_lt in H2. change (256 ^ Z.of_nat 4 / 2)%Z with (2 ^ 31)%Z in *.
    apply Qabs_Qle_condition. split.
    - rewrite <- inject_Z_opp. rewrite <- Zle_Qle. lia.
    - rewrite <- Zle_Qle. lia.
  Qed.

  (** [round((k / S) * S) = k] in floating point, for every 32-bit tick count. *)
  Theorem time_ticks_exact : forall k, int32_ok k = true ->
    q_round_he (fmul (fdiv (inject_Z k) (inject_Z S)) (inject_Z S)) = k.
  Proof.
    intros k Hk. apply q_round_he_near.
    destruct (Hstd k Hk) as [Hd Hm]. cbv zeta in Hd, Hm.
    set (d := fdiv (inject_Z k) (inject_Z S)) in *. set (m := fmul d (inject_Z S)) in *.
    set (s := inject_Z S) in *. set (kq := inject_Z k) in *.
    assert (Hs : (0 < s)%Q). { unfold s. change 0%Q with (inject_Z 0). rewrite <- Zlt_Qlt. exact S_pos. }
    pose proof (int32_bound k Hk) as Hb. fold kq in Hb.
    (* p = d*s is within u*|k| of k *)
    assert (Eq1 : (d * s - kq == (d - kq / s) * s)%Q). { field. lra. }
    assert (Habs_q : (Qabs (kq / s) * s == Qabs kq)%Q).
    { unfold Qdiv. rewrite Qabs_Qmult. rewrite (Qabs_pos (/ s)).
      - field. lra.
      - apply Qlt_le_weak. apply Qinv_lt_0_compat. exact Hs. }
    assert (Hp : (Qabs (d * s - kq) <= u53 * Qabs kq)%Q).
    { rewrite Eq1. rewrite Qabs_Qmult. rewrite (Qabs_pos s) by lra.
      rewrite <- Habs_q.
      setoid_replace (u53 * (Qabs (kq / s) * s))%Q with ((u53 * Qabs (kq / s)) * s)%Q by ring.
      apply Qmult_le_compat_r; [exact Hd|lra]. }
    assert (Hu : (0 <= u53)%Q) by (unfold u53, Qle; simpl; lia).
    assert (Hkabs : (0 <= Qabs kq)%Q) by apply Qabs_nonneg.
    assert (Hpabs : (Qabs (d * s) <= Qabs kq + u53 * Qabs kq)%Q).
    { setoid_replace (d * s)%Q with ((d * s - kq) + kq)%Q by ring.
      eapply Qle_trans; [apply Qabs_triangle|]. lra. }
    assert (Hm' : (Qabs (m - d * s) <= u53 * (Qabs kq + u53 * Qabs kq))%Q).
    { eapply Qle_trans; [exact Hm|].
      rewrite (Qmult_comm u53 (Qabs (d * s))), (Qmult_comm u53 (Qabs kq + _)). apply Qmult_le_compat_r; assumption. }
    assert (Htot : (Qabs (m - kq) <= u53 * (Qabs kq + u53 * Qabs kq) + u53 * Qabs kq)%Q).
    { setoid_replace (m - kq)%Q with ((m - d * s) + (d * s - kq))%Q by ring.
      eapply Qle_trans; [apply Qabs_triangle|]. lra. }
    eapply Qle_lt_trans; [exact Htot|].
    assert (Hb' : (Qabs kq <= 2147483648)%Q) by exact Hb.
    assert (E : (u53 * (Qabs kq + u53 * Qabs kq) + u53 * Qabs kq == Qabs kq * (u53 * (2 + u53)))%Q) by ring.
    rewrite E.
    assert (Hc : (0 <= u53 * (2 + u53))%Q) by (unfold u53; unfold Qle; simpl; lia).
    eapply Qle_lt_trans; [apply Qmult_le_compat_r; [exact Hb'|exact Hc]|].
    unfold u53. reflexivity.
  Qed.
End Time.

(** Truncation ([int()]) instead of rounding loses a tick: with binary64 arithmetic ([rn64]) the tick-exact value
    [3 / 10000.0] is written as 2 ticks. *)
Theorem time_truncation_refuted :
  q_round RTrunc (fmul64 (fdiv64 3 10000) 10000) = 2%Z /\ q_round RNearestEven (fmul64 (fdiv64 3 10000) 10000) = 3%Z.
Proof. vm_compute. split; reflexivity. Qed.

(** * The executable binary64 rounding [rn64] meets the standard model: |rn64 x - x| <= 2^-53 |x| for every rational
    (no exponent range in the model: overflow and subnormal results cannot occur at the operands of the codec). *)
Local Open Scope Q_scope.
(** |round_he x - x| <= 1/2 *)
Lemma q_round_he_error x : Qabs (inject_Z (q_round_he x) - x) <= 1 # 2.
Proof.
  pose proof (Qfloor_le x) as Hf1. pose proof (Qlt_floor x) as Hf2.
  rewrite inject_Z_plus in Hf2. change (inject_Z 1) with 1 in Hf2.
  unfold q_round_he. apply Qabs_Qle_condition.
  match goal with |- context [Qcompare ?a ?b] => destruct (Qcompare_spec a b) as [C|C|C] end.
  - destruct (Z.even (Qfloor x)); [|rewrite inject_Z_plus; change (inject_Z 1) with 1]; lra.
  - lra.
  - rewrite inject_Z_plus. change (inject_Z 1) with 1. lra.
Qed.

Definition tw (e : Z) : Q := if (0 <=? e)%Z then inject_Z (2 ^ e) else / inject_Z (2 ^ (- e)).

Lemma pow2_pos e : (0 <= e)%Z -> (0 < 2 ^ e)%Z.
Proof. intros. apply Z.pow_pos_nonneg; lia. Qed.
Lemma inj_pow2_pos e : (0 <= e)%Z -> 0 < inject_Z (2 ^ e).
Proof. intros H. change 0 with (inject_Z 0). rewrite <- Zlt_Qlt. now apply pow2_pos. Qed.

Lemma tw_pos e : 0 < tw e.
Proof.
  unfold tw. destruct (Z.leb_spec 0 e).
  - now apply inj_pow2_pos.
  - apply Qinv_lt_0_compat. apply inj_pow2_pos. lia.
Qed.

Lemma tw_succ e : tw (e + 1) == 2 * tw e.
Proof.
  unfold tw. destruct (Z.leb_spec 0 e); destruct (Z.leb_spec 0 (e + 1)); try lia.
  - rewrite Z.pow_add_r by lia. rewrite inject_Z_mult. change (inject_Z (2 ^ 1)) with 2. ring.
  - assert (e = -1)%Z by lia. subst e. reflexivity.
  - replace (- e)%Z with (- (e + 1) + 1)%Z by lia. rewrite Z.pow_add_r by lia. rewrite inject_Z_mult.
    change (inject_Z (2 ^ 1)) with 2. pose proof (inj_pow2_pos (- (e + 1)) ltac:(lia)). field. lra.
Qed.

Lemma scaled_tw n d e : (0 < d)%Z -> scaled n d e * tw e == n # Z.to_pos d.
Proof.
  intros Hd. unfold scaled, tw. destruct (Z.leb_spec 0 e).
  - pose proof (pow2_pos e H). unfold Qeq, Qmult, inject_Z. cbn [Qnum Qden].
    rewrite Pos.mul_1_r. rewrite !Z2Pos.id by nia. ring.
  - pose proof (inj_pow2_pos (- e) ltac:(lia)) as Hp.
    setoid_replace (n * 2 ^ (- e) # Z.to_pos d) with ((n # Z.to_pos d) * inject_Z (2 ^ (- e))).
    + field. lra.
    + unfold Qeq, Qmult, inject_Z. cbn [Qnum Qden]. rewrite Pos.mul_1_r. ring.
Qed.

Definition P52 (n d e : Z) : Prop := inject_Z (2 ^ 52) <= scaled n d e.

Lemma scaled_succ n d e : (0 < d)%Z -> scaled n d e == 2 * scaled n d (e + 1).
Proof.
  intros Hd. pose proof (scaled_tw n d e Hd) as H1. pose proof (scaled_tw n d (e + 1) Hd) as H2.
  rewrite tw_succ in H2. pose proof (tw_pos e) as Ht.
  assert (E : scaled n d e * tw e == (2 * scaled n d (e + 1)) * tw e) by (rewrite H1, <- H2; ring).
  apply Qmult_inj_r in E; [exact E|lra].
Qed.

Lemma P52_step n d e : (0 < d)%Z -> (Qfloor (scaled n d e) <? 2 ^ 53)%Z = false -> P52 n d (e + 1).
Proof.
  intros Hd H. apply Z.ltb_ge in H. unfold P52. pose proof (Qfloor_le (scaled n d e)) as Hf.
  rewrite Zle_Qle in H. pose proof (scaled_succ n d e Hd) as Hs.
  assert (E : inject_Z (2 ^ 53) == 2 * inject_Z (2 ^ 52)) by reflexivity. lra.
Qed.

Lemma P52_e0 n d : (0 < n)%Z -> (0 < d)%Z -> P52 n d (Z.log2 n - Z.log2 d - 53).
Proof.
  intros Hn Hd. unfold P52, scaled.
  pose proof (Z.log2_spec n Hn) as [Hn1 Hn2]. pose proof (Z.log2_spec d Hd) as [Hd1 Hd2].
  pose proof (Z.log2_nonneg n) as Ln. pose proof (Z.log2_nonneg d) as Ld.
  set (ln := Z.log2 n) in *. set (ld := Z.log2 d) in *.
  destruct (Z.leb_spec 0 (ln - ld - 53)) as [He|He].
  - pose proof (pow2_pos (ln - ld - 53) He) as Hp.
    unfold Qle, inject_Z. cbn [Qnum Qden]. rewrite Z2Pos.id by nia.
    assert (E : (2 ^ ln = 2 ^ 52 * 2 ^ (Z.succ ld) * 2 ^ (ln - ld - 53))%Z).
    { rewrite <- !Z.pow_add_r by lia. f_equal. lia. }
    nia.
  - pose proof (pow2_pos (- (ln - ld - 53)) ltac:(lia)) as Hp.
    unfold Qle, inject_Z. cbn [Qnum Qden]. rewrite Z2Pos.id by lia.
    assert (E : (2 ^ ln * 2 ^ (- (ln - ld - 53)) = 2 ^ 52 * 2 ^ (Z.succ ld))%Z).
    { rewrite <- !Z.pow_add_r by lia. f_equal. lia. }
    nia.
Qed.

Lemma pick_P52 n d : (0 < d)%Z -> forall k e, P52 n d e -> P52 n d (pick_exp n d k e).
Proof.
  intros Hd. induction k as [|k IH]; intros e He; cbn [pick_exp]; [exact He|].
  destruct (Qfloor (scaled n d e) <? 2 ^ 53)%Z eqn:E; [exact He|]. apply IH. now apply P52_step.
Qed.

Lemma rn64_pos_error n d : (0 < n)%Z -> (0 < d)%Z ->
  Qabs (rn64_pos n d - (n # Z.to_pos d)) <= u53 * (n # Z.to_pos d).
Proof.
  intros Hn Hd. unfold rn64_pos.
  set (e := pick_exp n d 3 (Z.log2 n - Z.log2 d - 53)).
  assert (HP : P52 n d e) by (apply pick_P52; [exact Hd|now apply P52_e0]).
  set (sc := scaled n d e) in *. set (m := q_round_he sc).
  pose proof (scaled_tw n d e Hd) as Hx. fold sc in Hx. pose proof (tw_pos e) as Ht.
  assert (Hres : (if (0 <=? e)%Z then inject_Z (m * 2 ^ e) else m # Z.to_pos (2 ^ (- e))) == inject_Z m * tw e).
  { unfold tw. destruct (Z.leb_spec 0 e).
    - now rewrite inject_Z_mult.
    - pose proof (pow2_pos (- e) ltac:(lia)). rewrite Qmake_Qdiv. rewrite Z2Pos.id by lia. reflexivity. }
  rewrite Hres, <- Hx.
  setoid_replace (inject_Z m * tw e - sc * tw e) with ((inject_Z m - sc) * tw e) by ring.
  rewrite Qabs_Qmult, (Qabs_pos (tw e)) by lra.
  pose proof (q_round_he_error sc) as Hm. fold m in Hm. unfold P52 in HP.
  assert (Hhalf : 1 # 2 <= u53 * sc).
  { unfold u53. setoid_replace (1 # 2) with ((1 # 2 ^ 53) * inject_Z (2 ^ 52)) by reflexivity.
    apply Qmult_le_l; [reflexivity|exact HP]. }
  setoid_replace (u53 * (sc * tw e)) with ((u53 * sc) * tw e) by ring.
  apply Qmult_le_compat_r; lra.
Qed.

Lemma rn64_error x : Qabs (rn64 x - x) <= u53 * Qabs x.
Proof.
  destruct x as [n d]. unfold rn64. cbn [Qnum Qden]. destruct n as [|p|p].
  - unfold u53, Qle; cbn; lia.
  - pose proof (rn64_pos_error (Zpos p) (Zpos d) eq_refl eq_refl) as H. cbn [Z.to_pos] in H.
    rewrite (Qabs_pos (Zpos p # d)) by (unfold Qle; cbn; lia). exact H.
  - pose proof (rn64_pos_error (Zpos p) (Zpos d) eq_refl eq_refl) as H. cbn [Z.to_pos] in H.
    setoid_replace (Z.neg p # d) with (- (Zpos p # d)) by reflexivity.
    setoid_replace (- rn64_pos (Z.pos p) (Z.pos d) - - (Z.pos p # d)) with (- (rn64_pos (Z.pos p) (Z.pos d) - (Z.pos p # d))) by ring.
    rewrite !Qabs_opp. rewrite (Qabs_pos (Zpos p # d)) by (unfold Qle; cbn; lia). exact H.
Qed.

(** the executable binary64 operations meet the standard model at every operand *)
Lemma fmul64_error a b : Qabs (fmul64 a b - a * b) <= u53 * Qabs (a * b).
Proof.
  unfold fmul64. pose proof (rn64_error (Qred (a * b))) as H. pose proof (Qred_correct (a * b)) as E.
  set (r := Qred (a * b)) in *. now rewrite <- E.
Qed.
Lemma fdiv64_error a b : Qabs (fdiv64 a b - a / b) <= u53 * Qabs (a / b).
Proof.
  unfold fdiv64. pose proof (rn64_error (Qred (a / b))) as H. pose proof (Qred_correct (a / b)) as E.
  set (r := Qred (a / b)) in *. now rewrite <- E.
Qed.

Theorem std_model_rn64 S : std_model_on_ticks fmul64 fdiv64 S.
Proof. intros k _. cbv zeta. split; [apply fdiv64_error|apply fmul64_error]. Qed.

(** Hence, with binary64 arithmetic as modelled by [rn64], every 32-bit tick count survives the TIME codec, for any
    positive scale. *)
Theorem time_ticks_exact_rn64 (S : Z) : (0 < S)%Z -> forall k, int32_ok k = true ->
  q_round_he (fmul64 (fdiv64 (inject_Z k) (inject_Z S)) (inject_Z S)) = k.
Proof. intros HS. exact (time_ticks_exact fmul64 fdiv64 S HS (std_model_rn64 S)). Qed.
Local Close Scope Q_scope.

(** The hypothesis is satisfiable: exact arithmetic meets it trivially, and the executable binary64 rounding [rn64]
    meets it at every tick count of a computed grid (all |k| <= 1000, powers of two and the int32 bounds). *)
Example std_model_exact : std_model_on_ticks Qmult Qdiv 10000.
Proof.
  intros k _. cbv zeta. split.
  - setoid_replace (inject_Z k / inject_Z 10000 - inject_Z k / inject_Z 10000)%Q with 0%Q by ring.
    change (Qabs 0) with 0%Q. apply Qmult_le_0_compat; [unfold u53, Qle; simpl; lia|apply Qabs_nonneg].
  - setoid_replace (inject_Z k / inject_Z 10000 * inject_Z 10000 - inject_Z k / inject_Z 10000 * inject_Z 10000)%Q with 0%Q by ring.
    change (Qabs 0) with 0%Q. apply Qmult_le_0_compat; [unfold u53, Qle; simpl; lia|apply Qabs_nonneg].
Qed.

Definition std_model_check (k : Z) : bool :=
  let q := (inject_Z k / 10000)%Q in
  let d := fdiv64 (inject_Z k) 10000 in
  match Qcompare (Qabs (d - q)) (u53 * Qabs q) with Gt => false | _ => true end &&
  match Qcompare (Qabs (fmul64 d 10000 - d * 10000)) (u53 * Qabs (d * 10000)) with Gt => false | _ => true end &&
  (q_round_he (fmul64 d 10000) =? k)%Z.
Definition tick_grid : list Z :=
  map (fun n => Z.of_nat n - 1000)%Z (seq 0 2001) ++ map (fun n => 2 ^ Z.of_nat n)%Z (seq 0 31) ++
  map (fun n => - 2 ^ Z.of_nat n)%Z (seq 0 32) ++ [2147483647; 2147483646; 1999999999; 123456789; -987654321]%Z.
Example std_model_rn64_grid : forallb std_model_check tick_grid = true.
Proof. vm_compute. reflexivity. Qed.

(** * The typed codecs *)
Lemma kind_eqb_eq : forall a b, kind_eqb a b = true -> a = b.
Proof.
  intros a b H. destruct a, b; cbn [kind_eqb] in H; try discriminate; try reflexivity.
  - apply andb_prop in H. destruct H as [H1 H2]. apply Bool.eqb_prop in H1. apply Nat.eqb_eq in H2. now subst.
  - apply Nat.eqb_eq in H. now subst.
Qed.
Lemma fmt_eqb_eq' : forall a b, fmt_eqb a b = true -> a = b.
Proof.
  induction a as [|x a IH]; intros [|y b] H; cbn [fmt_eqb] in H; try discriminate; [reflexivity|].
  apply andb_prop in H. destruct H as [H1 H2]. apply kind_eqb_eq in H1. apply IH in H2. now subst.
Qed.

Lemma in_fixed_types t : is_var_type t = false -> In t fixed_types.
Proof. destruct t; cbn; intros H; try discriminate; tauto. Qed.

Lemma layout_fmt cfg t : formats_match_wire_layout cfg = true -> is_var_type t = false ->
  exists f, format_of cfg t = Some f /\ fmt_of f = wire_kinds t.
Proof.
  intros H Ht. unfold formats_match_wire_layout in H. rewrite forallb_forall in H.
  specialize (H t (in_fixed_types t Ht)). unfold opt_test in H.
  destruct (format_of cfg t) as [f|]; [|discriminate]. exists f. split; [reflexivity|]. now apply fmt_eqb_eq'.
Qed.

Lemma fits_floats : forall l, forallb f32_ok l = true -> fits (repeat KFloat (List.length l)) (map VFloat l) = true.
Proof.
  induction l as [|b l IH]; intros H; [reflexivity|].
  cbn [forallb] in H. apply andb_prop in H. destruct H as [Hb Hl].
  cbn [List.length repeat map fits fits1]. unfold f32_ok in Hb. rewrite Hb. cbn [andb]. now apply IH.
Qed.
Lemma floats_of_map : forall l, floats_of (map VFloat l) = Some l.
Proof. induction l as [|b l IH]; [reflexivity|]. cbn [map floats_of fold_right] in *. unfold floats_of in IH. now rewrite IH. Qed.
Lemma wf_repeat k n : wf_kind k = true -> wf_fmt (repeat k n) = true.
Proof. intros H. induction n; [reflexivity|]. cbn [repeat wf_fmt forallb]. rewrite H. exact IHn. Qed.
Lemma wf_wire_kinds t : wf_fmt (wire_kinds t) = true.
Proof. destruct t; reflexivity. Qed.

(** MATRIX: unpacking the packed slots gives back the nine cells. *)
Lemma mat_roundtrip cfg m : mat_cfg_ok cfg = true -> List.length m = 9%nat ->
  mat_unpack (sc_mat_unpack cfg) (mat_pack (sc_mat_pack cfg) m) = m.
Proof.
  intros H Hm. unfold mat_cfg_ok in H. apply andb_prop in H. destruct H as [H Hr]. apply andb_prop in H. destruct H as [_ Hc].
  assert (Hcell : forall rc, In rc all_cells ->
            match find_cell (fst rc) (snd rc) (sc_mat_unpack cfg) with
            | Some i => nth (N.to_nat i) (mat_pack (sc_mat_pack cfg) m) 0%N
            | None => if (fst rc =? snd rc)%N then ONE32 else ZERO32
            end = nth (cell_index (fst rc) (snd rc)) m 0%N).
  { intros rc Hin. unfold mat_cells_read_where_written in Hc. rewrite forallb_forall in Hc. specialize (Hc rc Hin).
    destruct (find_cell (fst rc) (snd rc) (sc_mat_unpack cfg)) as [i|]; [|discriminate].
    destruct (nth_error (sc_mat_pack cfg) (N.to_nat i)) as [s|] eqn:En; [|discriminate].
    unfold mat_pack.
    match goal with |- context [nth _ (map ?f _) _] => pose proof (map_nth_error f _ _ En) as Hn end.
    apply nth_error_nth with (d := 0%N) in Hn. rewrite Hn.
    destruct s as [r c| |]; cbn [mslot_is] in Hc; try discriminate.
    apply andb_prop in Hc. destruct Hc as [E1 E2]. apply N.eqb_eq in E1, E2. now subst. }
  unfold mat_unpack. rewrite (map_ext_in _ (fun rc => nth (cell_index (fst rc) (snd rc)) m 0%N) _ Hcell).
  do 10 (destruct m as [|? m]; try discriminate). reflexivity.
Qed.

Lemma mat_pack_ok cfg m : mat_cfg_ok cfg = true -> forallb f32_ok m = true ->
  List.length (mat_pack (sc_mat_pack cfg) m) = 16%nat /\ forallb f32_ok (mat_pack (sc_mat_pack cfg) m) = true.
Proof.
  intros H Hm. unfold mat_cfg_ok in H. apply andb_prop in H. destruct H as [H _]. apply andb_prop in H. destruct H as [H16 _].
  unfold mat_slots_16 in H16. apply Nat.eqb_eq in H16. unfold mat_pack. rewrite map_length. split; [exact H16|].
  rewrite forallb_forall. intros b Hb. apply in_map_iff in Hb. destruct Hb as [s [<- _]].
  destruct s as [r c| |]; try reflexivity.
  destruct (nth_in_or_default (cell_index r c) m 0%N) as [Hi|Hd]; [|rewrite Hd; reflexivity].
  rewrite forallb_forall in Hm. now apply Hm.
Qed.

Section Codec.
  Variable fmul fdiv : Q -> Q -> Q.
  Variable anorm : N -> N.
  Variable cfg : scalarcfg.
  Hypothesis Hcfg : scalar_cfg_ok cfg = true.
  (** binary64 arithmetic at the operands of the TIME codec (see [std_model_on_ticks]) *)
  Hypothesis Hstd : std_model_on_ticks fmul fdiv (sc_time_div cfg).
  (** FrozenAngle's normalisation leaves a non-negative component below 360.0 alone *)
  Hypothesis Hanorm : forall b, (b < ANGLE_360)%N -> anorm b = b.

  Lemma cfg_parts : formats_match_wire_layout cfg = true /\ time_cfg_ok cfg = true /\ mat_cfg_ok cfg = true.
  Proof.
    pose proof Hcfg as H. unfold scalar_cfg_ok in H.
    apply andb_prop in H. destruct H as [H Hm]. apply andb_prop in H. destruct H as [H Ht].
    apply andb_prop in H. destruct H as [H _]. apply andb_prop in H. destruct H as [_ Hl]. auto.
  Qed.

  Lemma clamp_id z : byte_val_ok z = true -> clamp_color z = z.
  Proof. unfold byte_val_ok, clamp_color. intros H. apply andb_prop in H. destruct H as [H1 H2]. apply Z.leb_le in H1, H2. lia. Qed.
  Lemma byte_in_range z : byte_val_ok z = true -> in_range false 1 z = true.
  Proof.
    unfold byte_val_ok, in_range, modulus. intros H. apply andb_prop in H. destruct H as [H1 H2].
    apply Z.leb_le in H1, H2. change (256 ^ Z.of_nat 1)%Z with 256%Z. apply andb_true_intro. split; [apply Z.leb_le|apply Z.ltb_lt]; lia.
  Qed.
  Lemma below_360_f32 l : forallb (fun b => (b <? ANGLE_360)%N) l = true -> forallb f32_ok l = true.
  Proof.
    intros H. rewrite forallb_forall in *. intros b Hb. specialize (H b Hb). apply N.ltb_lt in H.
    unfold f32_ok. apply N.ltb_lt. unfold ANGLE_360 in H. change (2 ^ 32)%N with 4294967296%N. lia.
  Qed.
  Lemma anorm_map l : forallb (fun b => (b <? ANGLE_360)%N) l = true -> map anorm l = l.
  Proof.
    induction l as [|b l IH]; intros H; [reflexivity|]. cbn [forallb] in H. apply andb_prop in H. destruct H as [Hb Hl].
    cbn [map]. rewrite Hanorm by (now apply N.ltb_lt). now rewrite IH.
  Qed.

  (** Every fixed-width value representable in its wire type is packed into exactly [calcsize] bytes and unpacked to
      the same value: integers, binary32 patterns, booleans, tick-exact times (through binary64 scaling and
      [round]), colours, vectors, angles in [0, 360), quaternions, and the 3x3 part of the padded 4x4 matrix. *)
  Theorem scalar_codec_roundtrip_gen : forall t v, sval_rep fdiv cfg t v ->
    exists bs, encode_sval fmul cfg t v = Some bs /\
               List.length bs = calcsize (wire_kinds t) /\
               decode_sval fdiv anorm cfg t bs = Some v.
  Proof.
    destruct cfg_parts as [Hlay [Htime Hmat]].
    assert (Hgen : forall t v vs, is_var_type t = false -> to_fields fmul cfg t v = Some vs ->
              fits (wire_kinds t) vs = true -> of_fields fdiv anorm cfg t vs = Some v ->
              exists bs, encode_sval fmul cfg t v = Some bs /\ List.length bs = calcsize (wire_kinds t) /\
                         decode_sval fdiv anorm cfg t bs = Some v).
    { intros t v vs Ht Hto Hfit Hof. destruct (layout_fmt cfg t Hlay Ht) as [f [Ef Ek]].
      destruct (unpack_pack (wire_kinds t) vs (wf_wire_kinds t) Hfit) as [bs [Hp Hu]].
      exists bs. unfold encode_sval, decode_sval. rewrite Ef, Hto, Ek, Hp, Hu. repeat split; try assumption.
      eapply pack_length; exact Hp. }
    intros t v Hrep.
    destruct t, v; cbn [sval_rep] in Hrep; try contradiction.
    - (* INTEGER *) eapply Hgen; [reflexivity|reflexivity| |reflexivity]. cbn [wire_kinds fits fits1]. unfold int32_ok in Hrep. now rewrite Hrep.
    - (* FLOAT *) eapply Hgen; [reflexivity|reflexivity| |reflexivity]. cbn [wire_kinds fits fits1]. unfold f32_ok in Hrep. now rewrite Hrep.
    - (* BOOL *) eapply Hgen; [reflexivity|reflexivity|reflexivity|reflexivity].
    - (* TIME *)
      destruct Hrep as [k [Hk ->]].
      unfold time_cfg_ok in Htime. apply andb_prop in Htime. destruct Htime as [Hr Hs].
      unfold time_rounds_to_nearest in Hr. unfold time_scales_agree in Hs. apply andb_prop in Hs. destruct Hs as [Hs Hpos].
      apply Z.eqb_eq in Hs. apply Z.ltb_lt in Hpos. rewrite Hs in Hpos.
      assert (Ek : q_round (sc_time_round cfg) (fmul (fdiv (inject_Z k) (inject_Z (sc_time_div cfg))) (inject_Z (sc_time_mul cfg))) = k).
      { destruct (sc_time_round cfg); try discriminate. cbn [q_round]. rewrite Hs.
        exact (time_ticks_exact fmul fdiv (sc_time_div cfg) Hpos Hstd k Hk). }
      eapply Hgen; [reflexivity| cbn [to_fields]; rewrite Ek; reflexivity | | reflexivity].
      cbn [wire_kinds fits fits1]. unfold int32_ok in Hk. now rewrite Hk.
    - (* COLOR *)
      do 3 (apply andb_prop in Hrep; destruct Hrep as [Hrep ?]).
      eapply Hgen; [reflexivity|reflexivity| |].
      + cbn [wire_kinds repeat fits fits1]. now rewrite !byte_in_range by assumption.
      + cbn [of_fields]. now rewrite !clamp_id by assumption.
    - (* VEC2 *) destruct Hrep as [Hl Hf]. eapply Hgen; [reflexivity| cbn [to_fields]; rewrite Hl; reflexivity | |].
      + change (wire_kinds TVec2) with (repeat KFloat (arity TVec2)). rewrite <- Hl. now apply fits_floats.
      + cbn [of_fields]. rewrite floats_of_map, Hl. reflexivity.
    - (* VEC3 *) destruct Hrep as [Hl Hf]. eapply Hgen; [reflexivity| cbn [to_fields]; rewrite Hl; reflexivity | |].
      + change (wire_kinds TVec3) with (repeat KFloat (arity TVec3)). rewrite <- Hl. now apply fits_floats.
      + cbn [of_fields]. rewrite floats_of_map, Hl. reflexivity.
    - (* VEC4 *) destruct Hrep as [Hl Hf]. eapply Hgen; [reflexivity| cbn [to_fields]; rewrite Hl; reflexivity | |].
      + change (wire_kinds TVec4) with (repeat KFloat (arity TVec4)). rewrite <- Hl. now apply fits_floats.
      + cbn [of_fields]. rewrite floats_of_map, Hl. reflexivity.
    - (* ANGLE *) destruct Hrep as [Hl Hf]. eapply Hgen; [reflexivity| cbn [to_fields]; rewrite Hl; reflexivity | |].
      + change (wire_kinds TAngle) with (repeat KFloat (arity TAngle)). rewrite <- Hl. apply fits_floats. now apply below_360_f32.
      + cbn [of_fields]. rewrite floats_of_map, Hl. cbn [Nat.eqb arity]. now rewrite anorm_map.
    - (* QUATERNION *) destruct Hrep as [Hl Hf]. eapply Hgen; [reflexivity| cbn [to_fields]; rewrite Hl; reflexivity | |].
      + change (wire_kinds TQuat) with (repeat KFloat (arity TQuat)). rewrite <- Hl. now apply fits_floats.
      + cbn [of_fields]. rewrite floats_of_map, Hl. reflexivity.
    - (* MATRIX *) destruct Hrep as [Hl Hf]. destruct (mat_pack_ok cfg l Hmat Hf) as [H16 Hf16].
      eapply Hgen; [reflexivity| cbn [to_fields]; rewrite Hl; reflexivity | |].
      + change (wire_kinds TMatrix) with (repeat KFloat 16). rewrite <- H16. now apply fits_floats.
      + cbn [of_fields]. rewrite floats_of_map, H16. cbn [Nat.eqb]. now rewrite mat_roundtrip.
  Qed.
End Codec.

Lemma scalar_codec_roundtrip_rn64 :
  forall (anorm : N -> N) (cfg : scalarcfg),
    scalar_cfg_ok cfg = true -> (forall b, (b < ANGLE_360)%N -> anorm b = b) ->
    forall t v, sval_rep fdiv64 cfg t v ->
    exists bs, encode_sval fmul64 cfg t v = Some bs /\ List.length bs = calcsize (wire_kinds t) /\
               decode_sval fdiv64 anorm cfg t bs = Some v.
Proof.
  intros anorm cfg Hc Ha. exact (scalar_codec_roundtrip_gen fmul64 fdiv64 anorm cfg Hc (std_model_rn64 _) Ha).
Qed.

(** The premises hold for the hand copy of the pinned configuration, and a value of every type is representable. *)
Example scalar_cfg_example : scalar_cfg_ok pinned_scalar = true /\ sizes_match_formats pinned_scalar pinned_cfg = true.
Proof. vm_compute. split; reflexivity. Qed.

(** A configuration that truncates fails the named condition, and loses the tick-exact value 3 / 10000.0. *)
Theorem truncating_cfg_refuted :
  time_rounds_to_nearest trunc_scalar = false /\
  (let t := fdiv64 3 10000 in
   match encode_sval fmul64 trunc_scalar TTime (SvTime t) with
   | Some bs => decode_sval fdiv64 (fun b => b) trunc_scalar TTime bs
   | None => None
   end = Some (SvTime (fdiv64 2 10000))).
Proof. vm_compute. split; reflexivity. Qed.

(** A matrix layout that reads a cell from a padding slot fails its condition and loses the cell. *)
Definition bad_mat_scalar : scalarcfg := {|
  sc_formats := sc_formats pinned_scalar; sc_splat := sc_splat pinned_scalar;
  sc_time_round := RNearestEven; sc_time_mul := 10000; sc_time_div := 10000;
  sc_mat_pack := sc_mat_pack pinned_scalar;
  sc_mat_unpack := [(0,0,0); (0,1,1); (0,2,2); (1,0,3); (1,1,4); (1,2,5); (2,0,6); (2,1,7); (2,2,8)]%N |}.
Theorem matrix_unpadded_read_refuted :
  mat_cells_read_where_written bad_mat_scalar = false /\
  mat_unpack (sc_mat_unpack bad_mat_scalar) (mat_pack (sc_mat_pack bad_mat_scalar) [1;2;3;4;5;6;7;8;9]%N) <> [1;2;3;4;5;6;7;8;9]%N.
Proof. split; [vm_compute; reflexivity|vm_compute; discriminate]. Qed.
