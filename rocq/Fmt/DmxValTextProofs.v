(** C14 — proofs about the KeyValues2 value strings (Fmt/DmxValText.v), on top of C05's Num/Dec6Proofs.v. *)
From Coq Require Import ZArith NArith List Bool Lia.
From SV Require Import Num.Dec6 Num.Dec6Proofs Fmt.DmxValText.
Import ListNotations.
Open Scope N_scope.

(** * split / join *)
Section Split.
  Variable is_ws : N -> bool.
  Hypothesis Hsp : is_ws SPC = true.
  Definition word (x : list N) : Prop := x <> [] /\ Forall (fun c => is_ws c = false) x.

  Lemma split_word : forall x cur rest, Forall (fun c => is_ws c = false) x ->
    split_ws is_ws cur (x ++ rest) = split_ws is_ws (rev x ++ cur) rest.
  Proof.
    induction x as [|c x IH]; intros cur rest H; [reflexivity|]. inversion H as [|? ? Hc Hx]; subst.
    cbn [app split_ws]. rewrite Hc, IH by exact Hx. cbn [rev]. now rewrite <- app_assoc.
  Qed.

  Lemma split_tail : forall l x, word x -> Forall word l ->
    split_ws is_ws (rev x) (flat_map (fun y => SPC :: y) l) = x :: l.
  Proof.
    induction l as [|y l IH]; intros x [Hne Hx] Hl.
    - cbn [flat_map split_ws]. destruct (rev x) eqn:E; [|now rewrite <- E, rev_involutive].
      exfalso. apply Hne. rewrite <- (rev_involutive x), E. reflexivity.
    - inversion Hl as [|? ? Hy Hl']; subst. cbn [flat_map app split_ws]. rewrite Hsp.
      destruct (rev x) eqn:E.
      + exfalso. apply Hne. rewrite <- (rev_involutive x), E. reflexivity.
      + rewrite <- E, rev_involutive. f_equal. destruct Hy as [Hyne Hyw].
        rewrite (split_word y [] _ Hyw), app_nil_r. apply IH; [split; assumption|assumption].
  Qed.

  Theorem split_join : forall l, Forall word l -> split_ws is_ws [] (join_sp l) = l.
  Proof.
    intros [|x l] H; [reflexivity|]. inversion H as [|? ? Hx Hl]; subst. cbn [join_sp].
    destruct Hx as [Hne Hw]. rewrite (split_word x [] _ Hw), app_nil_r. apply split_tail; [split; assumption|assumption].
  Qed.
End Split.

(** * ['%.6f'] text *)
Lemma all_digits_dec l : all_digits l = true -> Forall (fun c => dec_char c = true) (map ch l).
Proof.
  induction l as [|d r IH]; intros H; [constructor|]. cbn [all_digits forallb] in H. apply andb_prop in H. destruct H as [Hd Hr].
  cbn [map]. constructor; [|now apply IH]. unfold dec_char. now rewrite (is_digit_ch d Hd).
Qed.

Lemma format6_chars c x : format6 c x <> [] /\ Forall (fun ch => dec_char ch = true) (format6 c x).
Proof.
  unfold format6. rewrite render_eq. destruct (fmt_parts_fields c x) as [Hi Hf].
  destruct (to_digits_shape (scaled6 x / 1000000)) as (Hd & Hnl & _). rewrite <- Hi in Hd, Hnl.
  assert (Hfd : all_digits (pfrac (fmt_parts c x)) = true).
  { rewrite Hf. unfold frac_of. destruct (strips c); [apply rstrip0_all_digits|]; apply fixed_all_digits. }
  split.
  - destruct (pint (fmt_parts c x)) as [|d r]; [discriminate|]. destruct (pneg (fmt_parts c x)); discriminate.
  - rewrite !Forall_app. repeat split.
    + destruct (pneg (fmt_parts c x)); repeat constructor.
    + now apply all_digits_dec.
    + destruct (pfrac (fmt_parts c x)) eqn:E; [constructor|]. constructor; [reflexivity|]. now apply all_digits_dec.
Qed.

(** The decimal the text denotes is the value rounded half-even at six places: within 5e-7 of the value
    ([num / den] = 10^6 |x| exactly). *)
Theorem float_text_value_gen c x :
  scaled_value (fmt_parts c x) = scaled6 x /\
  (2 * Z.abs (Z.of_N (scaled6 x) * Z.of_N (snd (num_den x)) - Z.of_N (fst (num_den x))) <= Z.of_N (snd (num_den x)))%Z.
Proof. split; [apply format6_value|apply scaled6_error]. Qed.

(** The components of a vector text split back into exactly the component texts, in order. *)
Theorem vec_text_splits_gen (is_ws : N -> bool) c xs :
  is_ws SPC = true -> (forall ch, dec_char ch = true -> is_ws ch = false) ->
  parse_parts is_ws (length xs) (vec_text c xs) = Some (map (format6 c) xs).
Proof.
  intros Hsp Hdec. unfold parse_parts, vec_text. rewrite (split_join is_ws Hsp).
  - rewrite map_length, Nat.eqb_refl. reflexivity.
  - apply Forall_forall. intros t Ht. apply in_map_iff in Ht. destruct Ht as [x [<- _]].
    destruct (format6_chars c x) as [Hne Hch]. split; [exact Hne|].
    rewrite Forall_forall in *. intros ch Hin. apply Hdec. now apply Hch.
Qed.

(** * INTEGER and COLOR *)
Lemma dec_val_digits : forall l acc, all_digits l = true -> dec_val acc (map ch l) = Some (fold_left (fun a d => a * 10 + d) l acc).
Proof.
  induction l as [|d r IH]; intros acc H; [reflexivity|]. cbn [all_digits forallb] in H. apply andb_prop in H. destruct H as [Hd Hr].
  cbn [map dec_val fold_left]. unfold digit_val. rewrite (is_digit_ch d Hd). unfold ch. replace (48 + d - 48) with d by lia.
  now apply IH.
Qed.
Lemma dec_val_to_digits q : dec_val 0 (map ch (to_digits q)) = Some q.
Proof.
  destruct (to_digits_shape q) as (Hd & _ & _). rewrite (dec_val_digits _ 0 Hd).
  pose proof (to_digits_value q) as Hv. unfold intval in Hv. now rewrite Hv.
Qed.
Lemma to_digits_head q : exists d r, to_digits q = d :: r /\ d <? 10 = true.
Proof.
  destruct (to_digits_shape q) as (Hd & Hnl & _). destruct (to_digits q) as [|d r]; [discriminate|].
  exists d, r. split; [reflexivity|]. cbn [all_digits forallb] in Hd. now apply andb_prop in Hd.
Qed.

Theorem int_text_roundtrip_gen z : parse_int (int_text z) = Some z.
Proof.
  destruct z as [|p|p]; [reflexivity| |].
  - cbn [int_text]. destruct (to_digits_head (Npos p)) as (d & r & E & Hd). unfold parse_int.
    pose proof (dec_val_to_digits (Npos p)) as Hv. rewrite E in *. cbn [map]. rewrite (ch_not_minus d Hd).
    cbn [map] in Hv. rewrite Hv. reflexivity.
  - cbn [int_text parse_int]. rewrite N.eqb_refl. destruct (to_digits_head (Npos p)) as (d & r & E & Hd).
    pose proof (dec_val_to_digits (Npos p)) as Hv. rewrite E in *. cbn [map] in *. rewrite Hv. reflexivity.
Qed.

Lemma int_text_word (is_ws : N -> bool) n : (forall ch, dec_char ch = true -> is_ws ch = false) -> word is_ws (int_text (Z.of_N n)).
Proof.
  intros Hdec. destruct n as [|p]; cbn [Z.of_N int_text].
  - split; [discriminate|]. constructor; [now apply Hdec|constructor].
  - destruct (to_digits_shape (Npos p)) as (Hd & Hnl & _). split.
    + destruct (to_digits (Npos p)); discriminate.
    + pose proof (all_digits_dec _ Hd) as H. rewrite Forall_forall in *. intros c Hc. apply Hdec. now apply H.
Qed.

Theorem color_text_roundtrip_gen (is_ws : N -> bool) r g b a :
  is_ws SPC = true -> (forall ch, dec_char ch = true -> is_ws ch = false) ->
  parse_color is_ws (color_text r g b a) = Some (Z.of_N r, Z.of_N g, Z.of_N b, Z.of_N a).
Proof.
  intros Hsp Hdec. unfold parse_color, color_text. rewrite (split_join is_ws Hsp).
  - cbn [map mapM_opt]. now rewrite !int_text_roundtrip_gen.
  - cbn [map]. repeat (constructor; [now apply int_text_word|]). constructor.
Qed.

(** * BINARY *)
Lemma hex_val_hexd n : n < 16 -> hex_val (hexd n) = Some n /\ hex_char (hexd n) = true.
Proof.
  intros H. unfold hexd, hex_val, hex_char. destruct (N.ltb_spec n 10).
  - replace ((48 <=? 48 + n) && (48 + n <=? 57)) with true by (symmetry; apply andb_true_intro; split; apply N.leb_le; lia).
    split; [f_equal; lia|reflexivity].
  - replace ((48 <=? 55 + n) && (55 + n <=? 57)) with false by (symmetry; apply andb_false_iff; right; apply N.leb_gt; lia).
    replace ((65 <=? 55 + n) && (55 + n <=? 70)) with true by (symmetry; apply andb_true_intro; split; apply N.leb_le; lia).
    split; [f_equal; lia|reflexivity].
Qed.

Theorem hex_text_roundtrip_gen (is_ws : N -> bool) : is_ws SPC = true -> (forall c, hex_char c = true -> is_ws c = false) ->
  forall bs, Forall (fun b => b < 256) bs -> parse_hex is_ws (hex_text bs) = Some bs.
Proof.
  intros Hsp Hhex.
  assert (Hbyte : forall b rest, b < 256 -> parse_hex is_ws (hex_byte b ++ rest) =
                    match parse_hex is_ws rest with Some r => Some (b :: r) | None => None end).
  { intros b rest Hb. unfold hex_byte. cbn [app parse_hex].
    assert (H1 : b / 16 < 16) by (apply N.div_lt_upper_bound; lia).
    assert (H2 : b mod 16 < 16) by (apply N.mod_lt; lia).
    destruct (hex_val_hexd _ H1) as [Hv1 Hc1]. destruct (hex_val_hexd _ H2) as [Hv2 _].
    rewrite (Hhex _ Hc1), Hv1, Hv2. destruct (parse_hex is_ws rest); [|reflexivity].
    f_equal. f_equal. pose proof (N.div_mod b 16 ltac:(lia)). lia. }
  assert (Htail : forall l, Forall (fun b => b < 256) l ->
            parse_hex is_ws (flat_map (fun y => SPC :: y) (map hex_byte l)) = Some l).
  { induction l as [|b l IH]; intros H; [reflexivity|]. inversion H as [|? ? Hb Hl]; subst.
    cbn [map flat_map]. change (SPC :: hex_byte b ++ ?x) with (SPC :: (hex_byte b ++ x)).
    cbn [app parse_hex]. rewrite Hsp. change (hexd (b / 16) :: hexd (b mod 16) :: ?x) with (hex_byte b ++ x).
    rewrite (Hbyte b _ Hb), (IH Hl). reflexivity. }
  intros [|b bs] H; [reflexivity|]. inversion H as [|? ? Hb Hl]; subst.
  unfold hex_text. cbn [map join_sp]. rewrite (Hbyte b _ Hb), (Htail bs Hl). reflexivity.
Qed.
Example hex_text_example : hex_text [0; 171; 255] = [48;48; 32; 65;66; 32; 70;70] /\ hex_text [] = [].
Proof. split; reflexivity. Qed.

(** * Examples / refutations *)
Example float_text_examples :
  float_text dmx_float_cfg {| dneg := false; dm := 1451; de := (-1)%Z |} = [55; 50; 53; 46; 53] /\        (* 725.5 *)
  float_text dmx_float_cfg {| dneg := true; dm := 0; de := 0%Z |} = [45; 48] /\                           (* -0.0 -> "-0" *)
  float_text dmx_float_cfg {| dneg := false; dm := 1; de := (-30)%Z |} = [48] /\                          (* 2^-30 -> "0" *)
  float_text_cfg_ok dmx_float_cfg = true.
Proof. vm_compute. repeat split; reflexivity. Qed.
(** a vector text written without a separator does not split into its components *)
Example vec_text_needs_separator :
  let xs := [{| dneg := false; dm := 1; de := 0%Z |}; {| dneg := false; dm := 2; de := 0%Z |}] in
  parse_parts (fun c => c =? 32) 2 (concat (map (format6 dmx_float_cfg) xs)) = None.
Proof. vm_compute. reflexivity. Qed.
