(** C14 — model of the fixed-width value codecs of srctools/dmx.py: the [TYPE_CONVERT[t, BINARY]] /
    [TYPE_CONVERT[BINARY, t]] pairs built by [_binconv_basic], [_binconv_cls], [_conv_time_to_binary] /
    [_conv_binary_to_time] and [_conv_matrix_to_binary] / [_conv_binary_to_matrix].

    Packing goes through the shared model of CPython's [struct] (Bin/Struct.v: [parse_fmt], [pack], [unpack]); the
    format strings, the TIME rounding function and scale constants and the MATRIX slot layout are a configuration
    record that translate/c14_dmx.py regenerates from the source (Gen/DmxCodes_gen.v, [gen_scalar]).

    Python values are modelled as
      INTEGER  an integer;                 FLOAT   the IEEE binary32 bit pattern of a representable value;
      BOOL     a boolean;                  TIME    the exact rational value of the Python float (binary64);
      COLOR    four integers;              VEC2/VEC3/VEC4/ANGLE/QUATERNION  a list of binary32 patterns;
      MATRIX   nine binary32 patterns (3x3, row major).
    The binary64 operations used by the TIME codec ([*] and [/]) and the [% 360 % 360] normalisation of
    [FrozenAngle] are parameters ([fmul], [fdiv], [anorm]); what is assumed of them is stated as hypotheses in the
    theorems (DmxScalarProofs.v).  [rn64] below is an executable round-to-nearest-even to 53 significant bits used to
    instantiate them for computed witnesses and for the run-time comparison with CPython.
    Executable definitions only; proofs are in DmxScalarProofs.v. *)
From Coq Require Import NArith ZArith QArith Qround Qabs List Bool String Ascii.
From SV Require Import Bin.LE Bin.Struct Fmt.DmxCodes.
Import ListNotations.

(** How [_conv_time_to_binary] turns the scaled float into an integer. *)
Inductive rmode := RNearestEven     (* round(x)      *)
                 | RTrunc           (* int(x)        *)
                 | RFloor           (* math.floor(x) *)
                 | RCeil.           (* math.ceil(x)  *)
Definition rmode_is_nearest (m : rmode) : bool := match m with RNearestEven => true | _ => false end.

(** One argument of [_struct_matrix.pack(...)]: a cell of the matrix or a float constant (only 0.0 and 1.0). *)
Inductive mslot := MCell (r c : N) | MZero | MOne.

Record scalarcfg := {
  sc_formats : list (vtype * string);        (* struct format of every fixed-width type *)
  sc_splat : list (vtype * bool);            (* true: [shape.pack( *val)] / [Tup( *shape.unpack(b))] (_binconv_cls);
                                                false: [shape.pack] / [[val] = shape.unpack(b)] (_binconv_basic) *)
  sc_time_round : rmode;                     (* _conv_time_to_binary: ROUND(tim.value * MUL) *)
  sc_time_mul : Z;
  sc_time_div : Z;                           (* _conv_binary_to_time: Time(num / DIV) *)
  sc_mat_pack : list mslot;                  (* the arguments of _struct_matrix.pack, in order *)
  sc_mat_unpack : list (N * N * N);          (* _conv_binary_to_matrix: cell (r, c) := data[i] *)
}.

Definition format_of (cfg : scalarcfg) (t : vtype) : option string := assoc_type t (sc_formats cfg).

(** ** Values *)
Inductive sval :=
| SvInt (z : Z)
| SvFloat (bits : N)
| SvBool (b : bool)
| SvTime (t : Q)
| SvColor (r g b a : Z)
| SvVec (l : list N)
| SvMat (l : list N).

(** ** Rounding a rational to an integer *)
Open Scope Z_scope.
Definition q_round_he (x : Q) : Z :=
  let f := Qfloor x in
  match Qcompare (x - inject_Z f) (1 # 2) with
  | Lt => f
  | Gt => f + 1
  | Eq => if Z.even f then f else f + 1
  end.
Definition q_trunc (x : Q) : Z := match Qcompare x 0 with Lt => Qceiling x | _ => Qfloor x end.
Definition q_round (m : rmode) (x : Q) : Z :=
  match m with RNearestEven => q_round_he x | RTrunc => q_trunc x | RFloor => Qfloor x | RCeil => Qceiling x end.

(** ** Round to nearest even with 53 significant bits (IEEE binary64 in its normal range; no overflow/subnormals) *)
Definition scaled (n d e : Z) : Q :=       (* (n/d) / 2^e *)
  if 0 <=? e then Qmake n (Z.to_pos (d * 2 ^ e)) else Qmake (n * 2 ^ (- e)) (Z.to_pos d).
(** the exponent: the first [e >= e0] with [floor((n/d) / 2^e) < 2^53] (at most three steps are ever needed) *)
Fixpoint pick_exp (n d : Z) (k : nat) (e : Z) : Z :=
  match k with
  | O => e
  | S k' => if Qfloor (scaled n d e) <? 2 ^ 53 then e else pick_exp n d k' (e + 1)
  end.
Definition rn64_pos (n d : Z) : Q :=       (* n, d > 0 *)
  let e := pick_exp n d 3%nat (Z.log2 n - Z.log2 d - 53) in
  let m := q_round_he (scaled n d e) in
  if 0 <=? e then inject_Z (m * 2 ^ e) else Qmake m (Z.to_pos (2 ^ (- e))).
Definition rn64 (x : Q) : Q :=
  match Qnum x with
  | Z0 => 0%Q
  | Zpos p => rn64_pos (Zpos p) (Zpos (Qden x))
  | Zneg p => Qopp (rn64_pos (Zpos p) (Zpos (Qden x)))
  end.
Definition fmul64 (a b : Q) : Q := rn64 (Qred (a * b)).
Definition fdiv64 (a b : Q) : Q := rn64 (Qred (a / b)).

(** ** MATRIX slot layout *)
Definition ZERO32 : N := 0%N.
Definition ONE32 : N := 1065353216%N.     (* 0x3F800000 = 1.0f *)
Definition cell_index (r c : N) : nat := N.to_nat (3 * r + c).
Definition mat_pack (lay : list mslot) (m : list N) : list N :=
  map (fun s => match s with MCell r c => nth (cell_index r c) m 0%N | MZero => ZERO32 | MOne => ONE32 end) lay.
(** [Matrix()] is the identity; every cell named by the table is overwritten with the wire value. *)
Fixpoint find_cell (r c : N) (tab : list (N * N * N)) : option N :=
  match tab with
  | [] => None
  | (r', c', i) :: rest => match find_cell r c rest with    (* a later assignment wins *)
                           | Some j => Some j
                           | None => if ((r =? r') && (c =? c'))%N then Some i else None
                           end
  end.
Definition all_cells : list (N * N) := [(0,0);(0,1);(0,2);(1,0);(1,1);(1,2);(2,0);(2,1);(2,2)]%N.
Definition mat_unpack (tab : list (N * N * N)) (w : list N) : list N :=
  map (fun rc : N * N => match find_cell (fst rc) (snd rc) tab with
                         | Some i => nth (N.to_nat i) w 0%N
                         | None => if (fst rc =? snd rc)%N then ONE32 else ZERO32
                         end) all_cells.

(** ** Codecs *)
Definition arity (t : vtype) : nat :=
  match t with TVec2 => 2 | TVec3 => 3 | TVec4 => 4 | TAngle => 3 | TQuat => 4 | _ => 0 end%nat.
Definition clamp_color (z : Z) : Z := Z.max 0 (Z.min 255 z).
Definition floats_of (vs : list value) : option (list N) :=
  fold_right (fun v acc => match v, acc with VFloat b, Some l => Some (b :: l) | _, _ => None end) (Some []) vs.

Section Codec.
  Variable fmul fdiv : Q -> Q -> Q.      (* binary64 multiplication and division *)
  Variable anorm : N -> N.               (* FrozenAngle's [x % 360 % 360] on a binary32-representable value *)
  Variable cfg : scalarcfg.

  Definition to_fields (t : vtype) (v : sval) : option (list value) :=
    match t, v with
    | TInt, SvInt z => Some [VInt z]
    | TFloat, SvFloat b => Some [VFloat b]
    | TBool, SvBool b => Some [VBool b]
    | TTime, SvTime q => Some [VInt (q_round (sc_time_round cfg) (fmul q (inject_Z (sc_time_mul cfg))))]
    | TColor, SvColor r g b a => Some [VInt r; VInt g; VInt b; VInt a]
    | TVec2, SvVec l | TVec3, SvVec l | TVec4, SvVec l | TAngle, SvVec l | TQuat, SvVec l =>
        if Nat.eqb (List.length l) (arity t) then Some (map VFloat l) else None
    | TMatrix, SvMat m => if Nat.eqb (List.length m) 9 then Some (map VFloat (mat_pack (sc_mat_pack cfg) m)) else None
    | _, _ => None
    end.

  Definition of_fields (t : vtype) (vs : list value) : option sval :=
    match t, vs with
    | TInt, [VInt z] => Some (SvInt z)
    | TFloat, [VFloat b] => Some (SvFloat b)
    | TBool, [VBool b] => Some (SvBool b)
    | TTime, [VInt k] => Some (SvTime (fdiv (inject_Z k) (inject_Z (sc_time_div cfg))))
    | TColor, [VInt r; VInt g; VInt b; VInt a] => Some (SvColor (clamp_color r) (clamp_color g) (clamp_color b) (clamp_color a))
    | TVec2, _ | TVec3, _ | TVec4, _ | TQuat, _ =>
        match floats_of vs with Some l => if Nat.eqb (List.length l) (arity t) then Some (SvVec l) else None | None => None end
    | TAngle, _ =>
        match floats_of vs with Some l => if Nat.eqb (List.length l) (arity t) then Some (SvVec (map anorm l)) else None | None => None end
    | TMatrix, _ =>
        match floats_of vs with Some w => if Nat.eqb (List.length w) 16 then Some (SvMat (mat_unpack (sc_mat_unpack cfg) w)) else None | None => None end
    | _, _ => None
    end.

  (** [TYPE_CONVERT[t, BINARY](v)]; [None] = struct.error / TypeError. *)
  Definition encode_sval (t : vtype) (v : sval) : option (list N) :=
    match format_of cfg t, to_fields t v with
    | Some f, Some vs => pack (fmt_of f) vs
    | _, _ => None
    end.
  (** [TYPE_CONVERT[BINARY, t](b)]. *)
  Definition decode_sval (t : vtype) (bs : list N) : option sval :=
    match format_of cfg t with
    | Some f => match unpack (fmt_of f) bs with Some vs => of_fields t vs | None => None end
    | None => None
    end.
End Codec.

(** ** Named conditions on the configuration *)
Definition fixed_types : list vtype := filter (fun t => negb (is_var_type t)) all_vtypes.

(** The wire layout of the format (Valve's): what "representable in the wire type" refers to. *)
Definition wire_kinds (t : vtype) : fmt :=
  match t with
  | TInt | TTime => [KInt true 4]
  | TFloat => [KFloat]
  | TBool => [KBool]
  | TColor => repeat (KInt false 1) 4
  | TVec2 => repeat KFloat 2 | TVec3 | TAngle => repeat KFloat 3 | TVec4 | TQuat => repeat KFloat 4
  | TMatrix => repeat KFloat 16
  | _ => []
  end.
Definition formats_known (cfg : scalarcfg) : bool :=
  forallb (fun t => opt_test (format_of cfg t) fmt_known) fixed_types.
Definition formats_match_wire_layout (cfg : scalarcfg) : bool :=
  forallb (fun t => opt_test (format_of cfg t) (fun f => fmt_eqb (fmt_of f) (wire_kinds t))) fixed_types.
(** SIZES agrees with [struct.calcsize] of the formats (ties [size_table] of the type-code configuration). *)
Definition sizes_match_formats (cfg : scalarcfg) (dc : dmxcfg) : bool :=
  forallb (fun t => opt_test (format_of cfg t) (fun f =>
             opt_test (size_of dc t) (fun sz => (sz =? N.of_nat (calcsize (fmt_of f)))%N))) fixed_types.
(** Multi-field types are unpacked into their class ([ *val]), single-field ones are not. *)
Definition splat_ok (cfg : scalarcfg) : bool :=
  forallb (fun t => match t with
                    | TTime | TMatrix => true      (* have their own functions *)
                    | _ => opt_test (assoc_type t (sc_splat cfg))
                             (fun s => Bool.eqb s (negb (Nat.eqb (List.length (wire_kinds t)) 1)))
                    end) fixed_types.

(** [_binconv_cls(name, fmt, Tup)]: the class each multi-field type is rebuilt with. *)
Definition expected_class (t : vtype) : option string :=
  match t with
  | TColor => Some "Color" | TAngle => Some "FrozenAngle" | TQuat => Some "Quaternion"
  | TVec2 => Some "Vec2" | TVec3 => Some "FrozenVec" | TVec4 => Some "Vec4" | _ => None
  end%string.
Definition ctor_classes_ok (l : list (vtype * string)) : bool :=
  forallb (fun t => match expected_class t with
                    | Some c => opt_test (assoc_type t l) (String.eqb c)
                    | None => true
                    end) all_vtypes.

Definition time_rounds_to_nearest (cfg : scalarcfg) : bool := rmode_is_nearest (sc_time_round cfg).
Definition time_scales_agree (cfg : scalarcfg) : bool := (sc_time_mul cfg =? sc_time_div cfg) && (0 <? sc_time_mul cfg).
Definition time_cfg_ok (cfg : scalarcfg) : bool := time_rounds_to_nearest cfg && time_scales_agree cfg.

Definition mat_slots_16 (cfg : scalarcfg) : bool := Nat.eqb (List.length (sc_mat_pack cfg)) 16.
Definition mslot_is (s : mslot) (r c : N) : bool := match s with MCell r' c' => ((r =? r') && (c =? c'))%N | _ => false end.
(** every cell is read, and read from a slot into which that cell was written *)
Definition mat_cells_read_where_written (cfg : scalarcfg) : bool :=
  forallb (fun rc : N * N => match find_cell (fst rc) (snd rc) (sc_mat_unpack cfg) with
                             | Some i => match nth_error (sc_mat_pack cfg) (N.to_nat i) with
                                         | Some s => mslot_is s (fst rc) (snd rc)
                                         | None => false
                                         end
                             | None => false
                             end) all_cells.
Definition mat_cells_in_range (cfg : scalarcfg) : bool :=
  forallb (fun s => match s with MCell r c => ((r <? 3) && (c <? 3))%N | _ => true end) (sc_mat_pack cfg).
Definition mat_cfg_ok (cfg : scalarcfg) : bool := mat_slots_16 cfg && mat_cells_read_where_written cfg && mat_cells_in_range cfg.

Definition scalar_cfg_ok (cfg : scalarcfg) : bool :=
  formats_known cfg && formats_match_wire_layout cfg && splat_ok cfg && time_cfg_ok cfg && mat_cfg_ok cfg.

(** ** Which values the wire type can represent *)
Definition int32_ok (z : Z) : bool := in_range true 4 z.
Definition f32_ok (b : N) : bool := (b <? 2 ^ 32)%N.
Definition byte_val_ok (z : Z) : bool := (0 <=? z) && (z <=? 255).
Definition ANGLE_360 : N := 1135869952%N.     (* 0x43B40000 = 360.0f; non-negative floats are ordered like their patterns *)

(** The values the wire type represents exactly ([fdiv]: binary64 division, for tick-exact times). *)
Definition sval_rep (fdiv : Q -> Q -> Q) (cfg : scalarcfg) (t : vtype) (v : sval) : Prop :=
  match t, v with
  | TInt, SvInt z => int32_ok z = true
  | TFloat, SvFloat b => f32_ok b = true
  | TBool, SvBool _ => True
  | TTime, SvTime q => exists k, int32_ok k = true /\ q = fdiv (inject_Z k) (inject_Z (sc_time_div cfg))
  | TColor, SvColor r g b a => byte_val_ok r && byte_val_ok g && byte_val_ok b && byte_val_ok a = true
  | TVec2, SvVec l | TVec3, SvVec l | TVec4, SvVec l | TQuat, SvVec l =>
      List.length l = arity t /\ forallb f32_ok l = true
  | TAngle, SvVec l => List.length l = arity t /\ forallb (fun b => (b <? ANGLE_360)%N) l = true
  | TMatrix, SvMat m => List.length m = 9%nat /\ forallb f32_ok m = true
  | _, _ => False
  end.

(** The pinned configuration (hand copy, for examples and refutations). *)
Definition pinned_scalar : scalarcfg := {|
  sc_formats := [(TInt, "<i"); (TFloat, "<f"); (TBool, "<?"); (TColor, "<4B"); (TAngle, "<3f"); (TQuat, "<4f");
                 (TVec2, "<2f"); (TVec3, "<3f"); (TVec4, "<4f"); (TTime, "<i"); (TMatrix, "<16f")]%string;
  sc_splat := [(TInt, false); (TFloat, false); (TBool, false); (TColor, true); (TAngle, true); (TQuat, true);
               (TVec2, true); (TVec3, true); (TVec4, true)];
  sc_time_round := RNearestEven; sc_time_mul := 10000; sc_time_div := 10000;
  sc_mat_pack := [MCell 0 0; MCell 0 1; MCell 0 2; MZero; MCell 1 0; MCell 1 1; MCell 1 2; MZero;
                  MCell 2 0; MCell 2 1; MCell 2 2; MZero; MZero; MZero; MZero; MOne]%N;
  sc_mat_unpack := [(0,0,0); (0,1,1); (0,2,2); (1,0,4); (1,1,5); (1,2,6); (2,0,8); (2,1,9); (2,2,10)]%N;
|}.
(** The same with [int()] instead of [round()] (seeded fault class: truncation). *)
Definition trunc_scalar : scalarcfg := {|
  sc_formats := sc_formats pinned_scalar; sc_splat := sc_splat pinned_scalar;
  sc_time_round := RTrunc; sc_time_mul := 10000; sc_time_div := 10000;
  sc_mat_pack := sc_mat_pack pinned_scalar; sc_mat_unpack := sc_mat_unpack pinned_scalar |}.
