(** C15 — facts about the objects regenerated from the source (Gen/VtfLayout_gen.v) that are not closed
    boolean computations: the offset formulas and the four scale_down strides, as FUNCTIONS of their arguments.
    Round 5: the two facts are stated here as propositions ([pixel_offsets_spec], [scale_strides_spec]) and are premises of
    the theorems below; they are proved (ring / lia) in two files of their own,
    Fmt/VtfGenPixelOffsetIs4TimesYWidthPlusX.v and Fmt/VtfGenScaleDownStridesSelectThe2x2ParentBlock.v, which the check
    compiles as two named obligations.  An edit of vtf.py / _py_vtf_readwrite.py that changes what the formulas compute
    therefore falsifies ONE named obligation (the premise is false for the faulty code) instead of stopping the whole build. *)
From Coq Require Import ZArith List Bool Lia.
From SV Require Import Fmt.VtfLayout Fmt.VtfLayoutProofs Gen.VtfLayout_gen.
Import ListNotations.
Open Scope Z_scope.

(** frame[x, y] and frame[x, y] = p address byte 4 * (y * width + x) *)
Definition pixel_offsets_spec : Prop :=
  (forall x y w h, getitem_off x y w h = pixel_off x y w) /\ (forall x y w h, setitem_off x y w h = pixel_off x y w).
(** scale_down: destination texel offset, source offset formula, and the four strides (horizontal / vertical step to the
    neighbour inside the 2x2 block, source columns / rows per destination column / row) *)
Definition scale_strides_spec : Prop :=
  (forall w x y, gen_dst_off w x y = texel_off w x y)
  /\ (forall pr pc x y, gen_src_off2 pr pc x y = 4 * (pr * y + pc * x))
  /\ scale_spec gen_scalecfg.

(** Pixel access: with all four rejections present, the bytes touched by an accepted access are inside the buffer. *)
Lemma gen_getitem_in_bounds : pixel_offsets_spec -> bounds_ok getitem_reject = true -> Z.leb getitem_span 4 = true ->
  forall x y w h, rejects getitem_reject x y w h = false ->
    0 <= x < w /\ 0 <= y < h /\ 0 <= getitem_off x y w h /\ getitem_off x y w h + getitem_span <= 4 * w * h.
Proof.
  intros [gen_getitem_off_spec _] Hb Hs x y w h Hr. apply Z.leb_le in Hs. rewrite gen_getitem_off_spec.
  destruct (accepted_in_bounds _ Hb x y w h Hr) as [A [B [C D]]]. repeat split; lia.
Qed.
Lemma gen_setitem_in_bounds : pixel_offsets_spec -> bounds_ok setitem_reject = true -> Z.leb setitem_span 4 = true ->
  forall x y w h, rejects setitem_reject x y w h = false ->
    0 <= x < w /\ 0 <= y < h /\ 0 <= setitem_off x y w h /\ setitem_off x y w h + setitem_span <= 4 * w * h.
Proof.
  intros [_ gen_setitem_off_spec] Hb Hs x y w h Hr. apply Z.leb_le in Hs. rewrite gen_setitem_off_spec.
  destruct (accepted_in_bounds _ Hb x y w h Hr) as [A [B [C D]]]. repeat split; lia.
Qed.

Lemma gen_scale_down_block : scale_strides_spec -> forall w h x y, 0 < w -> 0 < h -> 0 <= x < w -> 0 <= y < h ->
    let sw := 2 * w in let sh := 2 * h in
    src_offsets gen_scalecfg sw sh w h x y
    = [texel_off sw (2 * x) (2 * y); texel_off sw (2 * x + 1) (2 * y);
       texel_off sw (2 * x) (2 * y + 1); texel_off sw (2 * x + 1) (2 * y + 1)]
    /\ Forall (fun o => 0 <= o /\ o + 4 <= 4 * sw * sh) (src_offsets gen_scalecfg sw sh w h x y).
Proof. intros [_ [_ gen_scale_spec]]. exact (scale_down_block gen_scalecfg gen_scale_spec). Qed.

Lemma gen_bilinear_is_block_mean : scale_strides_spec -> terms_eqb bilinear_terms block_terms = true -> Z.eqb bilinear_div 4 = true ->
  forall src w h x y ch, 0 < w -> 0 < h -> 0 <= x < w -> 0 <= y < h ->
    let sw := 2 * w in let sh := 2 * h in
    bilinear gen_scalecfg bilinear_terms bilinear_div src sw sh w h x y ch
    = (src (texel_off sw (2 * x) (2 * y) + ch) + src (texel_off sw (2 * x + 1) (2 * y) + ch)
       + src (texel_off sw (2 * x) (2 * y + 1) + ch) + src (texel_off sw (2 * x + 1) (2 * y + 1) + ch)) / 4.
Proof.
  intros [_ [_ gen_scale_spec]] Ht Hd. apply Z.eqb_eq in Hd. exact (bilinear_is_block_mean gen_scalecfg bilinear_terms bilinear_div gen_scale_spec Ht Hd).
Qed.
