(** C15 — facts about the objects regenerated from the source (Gen/VtfLayout_gen.v) that are not closed
    boolean computations: the offset formulas and the four scale_down strides, as functions of their arguments.
    If an edit of vtf.py / _py_vtf_readwrite.py changes what these compute, this file stops compiling. *)
From Coq Require Import ZArith List Bool Lia.
From SV Require Import Fmt.VtfLayout Fmt.VtfLayoutProofs Gen.VtfLayout_gen.
Import ListNotations.
Open Scope Z_scope.

Lemma gen_getitem_off_spec : forall x y w h, getitem_off x y w h = pixel_off x y w.
Proof. intros. unfold getitem_off, pixel_off. ring. Qed.
Lemma gen_setitem_off_spec : forall x y w h, setitem_off x y w h = pixel_off x y w.
Proof. intros. unfold setitem_off, pixel_off. ring. Qed.

Lemma gen_dst_off_spec : forall w x y, gen_dst_off w x y = texel_off w x y.
Proof. intros. unfold gen_dst_off, texel_off. ring. Qed.
Lemma gen_src_off2_spec : forall pr pc x y, gen_src_off2 pr pc x y = 4 * (pr * y + pc * x).
Proof. intros. unfold gen_src_off2. ring. Qed.

Lemma gen_scale_spec : scale_spec gen_scalecfg.
Proof.
  intros sw sh w h Hs. cbn [horiz_off per_column vert_off per_row gen_scalecfg].
  unfold gen_per_row, gen_vert_off, gen_per_column, gen_horiz_off.
  destruct (Z.eqb_spec w sw), (Z.eqb_spec h sh); cbn [negb]; repeat split; lia.
Qed.

(** Pixel access: with all four rejections present, the bytes touched by an accepted access are inside the buffer. *)
Lemma gen_getitem_in_bounds : bounds_ok getitem_reject = true -> Z.leb getitem_span 4 = true ->
  forall x y w h, rejects getitem_reject x y w h = false ->
    0 <= x < w /\ 0 <= y < h /\ 0 <= getitem_off x y w h /\ getitem_off x y w h + getitem_span <= 4 * w * h.
Proof.
  intros Hb Hs x y w h Hr. apply Z.leb_le in Hs. rewrite gen_getitem_off_spec.
  destruct (accepted_in_bounds _ Hb x y w h Hr) as [A [B [C D]]]. repeat split; lia.
Qed.
Lemma gen_setitem_in_bounds : bounds_ok setitem_reject = true -> Z.leb setitem_span 4 = true ->
  forall x y w h, rejects setitem_reject x y w h = false ->
    0 <= x < w /\ 0 <= y < h /\ 0 <= setitem_off x y w h /\ setitem_off x y w h + setitem_span <= 4 * w * h.
Proof.
  intros Hb Hs x y w h Hr. apply Z.leb_le in Hs. rewrite gen_setitem_off_spec.
  destruct (accepted_in_bounds _ Hb x y w h Hr) as [A [B [C D]]]. repeat split; lia.
Qed.

Lemma gen_scale_down_block : forall w h x y, 0 < w -> 0 < h -> 0 <= x < w -> 0 <= y < h ->
    let sw := 2 * w in let sh := 2 * h in
    src_offsets gen_scalecfg sw sh w h x y
    = [texel_off sw (2 * x) (2 * y); texel_off sw (2 * x + 1) (2 * y);
       texel_off sw (2 * x) (2 * y + 1); texel_off sw (2 * x + 1) (2 * y + 1)]
    /\ Forall (fun o => 0 <= o /\ o + 4 <= 4 * sw * sh) (src_offsets gen_scalecfg sw sh w h x y).
Proof. exact (scale_down_block gen_scalecfg gen_scale_spec). Qed.

Lemma gen_bilinear_is_block_mean : terms_eqb bilinear_terms block_terms = true -> Z.eqb bilinear_div 4 = true ->
  forall src w h x y ch, 0 < w -> 0 < h -> 0 <= x < w -> 0 <= y < h ->
    let sw := 2 * w in let sh := 2 * h in
    bilinear gen_scalecfg bilinear_terms bilinear_div src sw sh w h x y ch
    = (src (texel_off sw (2 * x) (2 * y) + ch) + src (texel_off sw (2 * x + 1) (2 * y) + ch)
       + src (texel_off sw (2 * x) (2 * y + 1) + ch) + src (texel_off sw (2 * x + 1) (2 * y + 1) + ch)) / 4.
Proof.
  intros Ht Hd. apply Z.eqb_eq in Hd. exact (bilinear_is_block_mean gen_scalecfg bilinear_terms bilinear_div gen_scale_spec Ht Hd).
Qed.
