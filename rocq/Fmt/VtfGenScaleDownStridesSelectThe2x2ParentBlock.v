(** C15 — compiled by the check as the named obligation
    build:Fmt/VtfGenScaleDownStridesSelectThe2x2ParentBlock.vo : the destination offset, the source offset formula and the
    four strides that translate/c15_pixel.py reads from scale_down (Gen/VtfLayout_gen.v) are, for all sizes, those of the
    2x2 parent block ([scale_spec]); the shape of seeded fault c15_2 (the source HEIGHT as row stride) fails here. *)
From Coq Require Import ZArith List Bool Lia.
From SV Require Import Fmt.VtfLayout Fmt.VtfLayoutProofs Gen.VtfLayout_gen Fmt.VtfGenProofs.
Open Scope Z_scope.

Lemma scale_strides_hold : scale_strides_spec.
Proof.
  split; [|split].
  - intros. unfold gen_dst_off, texel_off. ring.
  - intros. unfold gen_src_off2. ring.
  - intros sw sh w h Hs. cbn [horiz_off per_column vert_off per_row gen_scalecfg].
    unfold gen_per_row, gen_vert_off, gen_per_column, gen_horiz_off.
    destruct (Z.eqb_spec w sw), (Z.eqb_spec h sh); cbn [negb]; repeat split; lia.
Qed.
