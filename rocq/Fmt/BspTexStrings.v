(** The texture name string table (bsp.py [_lmp_write_textures] / [_lmp_read_textures]): names are stored
    NUL-terminated in one block, the table holds an offset per name; the writer shares storage by searching
    the block written so far ([bytearray.find]) for the new name.  What is searched ([name ++ search_suffix])
    and what is appended when nothing is found ([name ++ append_suffix]) are read from the source by the
    translator (Gen/BspGlue_gen.v).  Executable definitions only; proofs in BspTexStringsProofs.v. *)
From Coq Require Import NArith List Bool PeanoNat.
Import ListNotations.
Open Scope N_scope.

Fixpoint prefix_eqb (p l : list N) : bool :=
  match p, l with
  | [], _ => true
  | x :: p', y :: l' => (x =? y) && prefix_eqb p' l'
  | _ :: _, [] => false
  end.

(** [bytes.find(p)] on [l], positions counted from [i]: the first occurrence. *)
Fixpoint find_sub (p l : list N) (i : nat) : option nat :=
  match l with
  | [] => if prefix_eqb p [] then Some i else None
  | _ :: l' => if prefix_eqb p l then Some i else find_sub p l' (S i)
  end.

(** One iteration of the writer's loop: state = (data block, offsets written to the table so far). *)
Definition tex_step (ss sa : list N) (st : list N * list nat) (name : list N) : list N * list nat :=
  let '(data, offs) := st in
  match find_sub (name ++ ss) data 0 with
  | Some i => (data, offs ++ [i])
  | None => (data ++ name ++ sa, offs ++ [List.length data])
  end.
Definition tex_write (ss sa : list N) (names : list (list N)) : list N * list nat :=
  fold_left (tex_step ss sa) names ([], []).

(** Reader: [tex_data.index(b'\0', off, off + win)] then [tex_data[off:idx]]; [None] = ValueError. *)
Fixpoint take_until0 (fuel : nat) (l : list N) : option (list N) :=
  match fuel with
  | O => None
  | S f => match l with
           | [] => None
           | x :: r => if x =? 0 then Some [] else option_map (cons x) (take_until0 f r)
           end
  end.
Definition tex_read (win : nat) (data : list N) (off : nat) : option (list N) := take_until0 win (skipn off data).

Definition nul_free (s : list N) : bool := forallb (fun b => negb (b =? 0)) s.

Fixpoint nl_eqb (a b : list N) : bool :=
  match a, b with
  | [], [] => true
  | x :: a', y :: b' => (x =? y) && nl_eqb a' b'
  | _, _ => false
  end.

(** The configuration read from the source: searched suffix, appended suffix, the longest name the writer's guard
    lets through, the reader's search window. *)
Definition texcfg := (list N * list N * nat * nat)%type.
Definition texcfg_search_terminated (c : texcfg) : bool := let '(ss, _, _, _) := c in nl_eqb ss [0].
Definition texcfg_append_terminated (c : texcfg) : bool := let '(_, sa, _, _) := c in nl_eqb sa [0].
Definition texcfg_guard_fits_window (c : texcfg) : bool := let '(_, _, maxlen, win) := c in (maxlen <? win)%nat.
Definition texcfg_ok (c : texcfg) : bool :=
  texcfg_search_terminated c && texcfg_append_terminated c && texcfg_guard_fits_window c.
