(* ChoreoBin.v -- binary choreo scenes (BVCD): the sequences of field widths, sub-record calls and loops each
   export_binary / parse_binary method can emit / consume (Gen/ChoreoBin_gen.v: both arms of every `if`, a `return`
   ends a path, a loop is one token naming the set of paths of its body), and the byte-level meaning of a flat
   sequence of widths.  Definitions only; lemmas in ChoreoBinProofs.v. *)
From Coq Require Import List NArith Bool Arith.
Import ListNotations.
Open Scope N_scope.

Inductive btok := TW (w : nat) | TCall (c : nat) | TLoop (body : list (list btok)).

(** sets of paths are compared as sets (recursively for loop bodies) *)
Fixpoint btok_eqb (a b : btok) : bool :=
  match a, b with
  | TW x, TW y | TCall x, TCall y => Nat.eqb x y
  | TLoop x, TLoop y =>
      let path_eqb := fix pe (m n : list btok) : bool :=
        match m, n with [] , [] => true | s :: m', t :: n' => btok_eqb s t && pe m' n' | _, _ => false end in
      forallb (fun u => existsb (fun v => path_eqb u v) y) x && forallb (fun v => existsb (fun u => path_eqb u v) x) y
  | _, _ => false
  end.
Fixpoint path_eqb (a b : list btok) : bool :=
  match a, b with [], [] => true | x :: a', y :: b' => btok_eqb x y && path_eqb a' b' | _, _ => false end.
Definition paths_sub (a b : list (list btok)) : bool := forallb (fun u => existsb (fun v => path_eqb u v) b) a.
Definition paths_eqb (a b : list (list btok)) : bool := paths_sub a b && paths_sub b a.
Definition classes_agree (l : list (list (list btok) * list (list btok))) : bool :=
  forallb (fun p => paths_eqb (fst p) (snd p) && negb (Nat.eqb (length (fst p)) 0)) l.

Fixpoint cb_nl_eqb (a b : list N) : bool :=
  match a, b with [], [] => true | x :: a', y :: b' => (x =? y) && cb_nl_eqb a' b' | _, _ => false end.

(** * Raw little-endian fields of a given width *)
Fixpoint le_n (w : nat) (v : N) : list N :=
  match w with O => [] | S k => v mod 256 :: le_n k (v / 256) end.
Fixpoint rd_n (w : nat) (b : list N) : option (N * list N) :=
  match w with
  | O => Some (0, b)
  | S k => match b with
           | [] => None
           | x :: t => match rd_n k t with Some (v, r) => Some (x + 256 * v, r) | None => None end
           end
  end.

(** a record = a flat sequence of widths; values are the raw unsigned field contents (float32 as its bit pattern,
    signed fields as two's complement) *)
Fixpoint emit (ws : list nat) (vals : list N) : option (list N) :=
  match ws, vals with
  | [], [] => Some []
  | w :: ws', v :: vals' =>
      if v <? 256 ^ N.of_nat w then
        match emit ws' vals' with Some b => Some (le_n w v ++ b) | None => None end
      else None
  | _, _ => None
  end.
Fixpoint consume (ws : list nat) (b : list N) : option (list N * list N) :=
  match ws with
  | [] => Some ([], b)
  | w :: ws' =>
      match rd_n w b with
      | None => None
      | Some (v, r) => match consume ws' r with Some (vs, r') => Some (v :: vs, r') | None => None end
      end
  end.

(** a counted list of records: count field of width [cw], then the records *)
Fixpoint emit_all (ws : list nat) (recs : list (list N)) : option (list N) :=
  match recs with
  | [] => Some []
  | r :: t => match emit ws r, emit_all ws t with Some a, Some b => Some (a ++ b) | _, _ => None end
  end.
Definition emit_counted (cw : nat) (ws : list nat) (recs : list (list N)) : option (list N) :=
  if N.of_nat (length recs) <? 256 ^ N.of_nat cw then
    match emit_all ws recs with
    | Some b => Some (le_n cw (N.of_nat (length recs)) ++ b)
    | None => None
    end
  else None.
Fixpoint consume_n (n : nat) (ws : list nat) (b : list N) : option (list (list N) * list N) :=
  match n with
  | O => Some ([], b)
  | S k => match consume ws b with
           | None => None
           | Some (v, r) => match consume_n k ws r with Some (vs, r') => Some (v :: vs, r') | None => None end
           end
  end.
Definition consume_counted (cw : nat) (ws : list nat) (b : list N) : option (list (list N) * list N) :=
  match rd_n cw b with
  | None => None
  | Some (n, r) => consume_n (N.to_nat n) ws r
  end.

(* ------------------------------------------------------------------ *)
(** * Layouts: a first-order description of what a class writes, its meaning as an encoder / decoder over raw field
    values, and the set of width paths it can take *)

Inductive sel := SelEq (idx : nat) | SelBit (idx : nat) (mask : N).
Definition sel_val (s : sel) (env : list N) : N :=
  match s with
  | SelEq i => nth i env 0
  | SelBit i m => if N.land (nth i env 0) m =? 0 then 0 else 1
  end.

Inductive lay :=
| LEnd
| LHead (ws : list nat) (k : lay)               (* the first record of a class; later tests look at its fields *)
| LRec (ws : list nat) (k : lay)
| LList (cw : nat) (item : lay) (k : lay)       (* count field of cw bytes, then that many items *)
| LOpt (item : lay) (k : lay)                   (* marker byte: 0 = absent *)
| LIf (s : sel) (key : N) (yes no : lay)        (* test on the head record *)
| LSub (c : nat) (body : lay) (k : lay).        (* the record of another class (export_binary / parse_binary call) *)

Inductive bval :=
| BE
| BN (vals : list N) (k : bval)
| BL (items : list bval) (k : bval)
| BO (o : option bval) (k : bval)
| BS (body : bval) (k : bval).

Definition oapp (a b : option (list N)) : option (list N) :=
  match a, b with Some x, Some y => Some (x ++ y) | _, _ => None end.

Fixpoint enc_items (f : bval -> option (list N)) (items : list bval) : option (list N) :=
  match items with [] => Some [] | x :: t => oapp (f x) (enc_items f t) end.

Fixpoint enc (l : lay) (env : list N) (v : bval) : option (list N) :=
  match l, v with
  | LEnd, BE => Some []
  | LHead ws k, BN vals kv => oapp (emit ws vals) (enc k vals kv)
  | LRec ws k, BN vals kv => oapp (emit ws vals) (enc k env kv)
  | LList cw item k, BL items kv =>
      if N.of_nat (length items) <? 256 ^ N.of_nat cw
      then oapp (Some (le_n cw (N.of_nat (length items)))) (oapp (enc_items (enc item []) items) (enc k env kv))
      else None
  | LOpt item k, BO None kv => oapp (Some [0]) (enc k env kv)
  | LOpt item k, BO (Some iv) kv => oapp (Some [1]) (oapp (enc item env iv) (enc k env kv))
  | LIf s key yes no, _ => if sel_val s env =? key then enc yes env v else enc no env v
  | LSub _ body k, BS bv kv => oapp (enc body [] bv) (enc k env kv)
  | _, _ => None
  end.

Fixpoint dec_items (n : nat) (f : list N -> option (bval * list N)) (b : list N) : option (list bval * list N) :=
  match n with
  | O => Some ([], b)
  | S m => match f b with
           | None => None
           | Some (x, r) => match dec_items m f r with Some (xs, r') => Some (x :: xs, r') | None => None end
           end
  end.

Fixpoint dec (l : lay) (env : list N) (b : list N) : option (bval * list N) :=
  match l with
  | LEnd => Some (BE, b)
  | LHead ws k =>
      match consume ws b with
      | None => None
      | Some (vals, r) => match dec k vals r with Some (kv, r') => Some (BN vals kv, r') | None => None end
      end
  | LRec ws k =>
      match consume ws b with
      | None => None
      | Some (vals, r) => match dec k env r with Some (kv, r') => Some (BN vals kv, r') | None => None end
      end
  | LList cw item k =>
      match rd_n cw b with
      | None => None
      | Some (n, r) =>
          match dec_items (N.to_nat n) (dec item []) r with
          | None => None
          | Some (items, r') => match dec k env r' with Some (kv, r'') => Some (BL items kv, r'') | None => None end
          end
      end
  | LOpt item k =>
      match b with
      | [] => None
      | m :: r =>
          if m =? 0 then match dec k env r with Some (kv, r') => Some (BO None kv, r') | None => None end
          else match dec item env r with
               | None => None
               | Some (iv, r') => match dec k env r' with Some (kv, r'') => Some (BO (Some iv) kv, r'') | None => None end
               end
      end
  | LIf s key yes no => if sel_val s env =? key then dec yes env b else dec no env b
  | LSub _ body k =>
      match dec body [] b with
      | None => None
      | Some (bv, r) => match dec k env r with Some (kv, r') => Some (BS bv kv, r') | None => None end
      end
  end.

(** every sequence of widths / calls / loops the layout can take *)
Fixpoint paths_of (l : lay) : list (list btok) :=
  match l with
  | LEnd => [[]]
  | LHead ws k | LRec ws k => map (app (map TW ws)) (paths_of k)
  | LList cw item k => map (fun p => TW cw :: TLoop (paths_of item) :: p) (paths_of k)
  | LOpt item k =>
      flat_map (fun kp => (TW 1 :: kp) :: map (fun ip => TW 1 :: ip ++ kp) (paths_of item)) (paths_of k)
  | LIf _ _ yes no => paths_of yes ++ paths_of no
  | LSub c _ k => map (cons (TCall c)) (paths_of k)
  end.

(* ------------------------------------------------------------------ *)
(** * The BVCD classes (choreo.py).  Class numbers as in Gen/ChoreoBin_gen.v. *)
Definition C_SCENE := 0%nat. Definition C_ACTOR := 1%nat. Definition C_CHANNEL := 2%nat. Definition C_EVENT := 3%nat.
Definition C_FLEX := 4%nat. Definition C_CURVE := 5%nat. Definition C_TAG := 6%nat. Definition C_TIMINGTAG := 7%nat.
Definition C_ABSTAG := 8%nat.

(** Curve: count byte, samples '<fB' (time float32, value byte) *)
Definition curve_lay : lay := LList 1 (LRec [4; 1]%nat LEnd) LEnd.
(** Tag / TimingTag: count byte, '<hB' (name index, value byte); AbsoluteTag: '<hH' *)
Definition tag_lay : lay := LList 1 (LRec [2; 1]%nat LEnd) LEnd.
Definition abstag_lay : lay := LList 1 (LRec [2; 2]%nat LEnd) LEnd.
(** FlexAnimTrack: '<hBffh' = name, flags, min, max, then the count of the magnitude samples '<fBh';
    flags bit 2: a '<H' count and the direction samples *)
Definition flex_sample : lay := LRec [4; 1; 2]%nat LEnd.
Definition flex_lay : lay :=
  LHead [2; 1; 4; 4]%nat (LList 2 flex_sample (LIf (SelBit 1 2) 1 (LList 2 flex_sample LEnd) LEnd)).
(** Event: '<bhffhhh' head (type, name, start, end, three parameters), ramp, '<Bf' (flags, distance), four tag lists,
    the gesture duration for Gesture events, the relative tag (marker byte + '<hh'), the flex tracks, and the tail of
    Loop ('<b') and Speak ('<bhb') events *)
Definition event_tail (loop speak : N) : lay :=
  LIf (SelEq 0) loop (LRec [1]%nat LEnd) (LIf (SelEq 0) speak (LRec [1; 2; 1]%nat LEnd) LEnd).
Definition event_rest (loop speak : N) : lay :=
  LOpt (LRec [2; 2]%nat LEnd) (LList 1 (LSub C_FLEX flex_lay LEnd) (event_tail loop speak)).
Definition event_lay (gesture loop speak : N) : lay :=
  LHead [1; 2; 4; 4; 2; 2; 2]%nat
    (LSub C_CURVE curve_lay
      (LRec [1; 4]%nat
        (LSub C_TAG tag_lay (LSub C_TIMINGTAG tag_lay (LSub C_ABSTAG abstag_lay (LSub C_ABSTAG abstag_lay
          (LIf (SelEq 0) gesture (LRec [4]%nat (event_rest loop speak)) (event_rest loop speak)))))))).
(** Channel / Actor: '<hB' (name, count), the events / channels, the active byte *)
Definition channel_lay (g l s : N) : lay :=
  LRec [2]%nat (LList 1 (LSub C_EVENT (event_lay g l s) LEnd) (LRec [1]%nat LEnd)).
Definition actor_lay (g l s : N) : lay :=
  LRec [2]%nat (LList 1 (LSub C_CHANNEL (channel_lay g l s) LEnd) (LRec [1]%nat LEnd)).
(** Scene: '<4sbIB' (magic, version, text CRC, event count), events, actors, ramp, ignore-phonemes byte *)
Definition scene_lay (g l s : N) : lay :=
  LRec [4; 1; 4]%nat
    (LList 1 (LSub C_EVENT (event_lay g l s) LEnd)
      (LList 1 (LSub C_ACTOR (actor_lay g l s) LEnd)
        (LSub C_CURVE curve_lay (LRec [1]%nat LEnd)))).
