(** Basic round-trip lemmas for the binary DMX model (Fmt/DmxBin.v): little-endian integers, NUL-terminated
    strings, the [rep] combinator and the sorted string table.  Used by Fmt/DmxBinProofs.v. *)
From Coq Require Import NArith ZArith List Bool Lia.
From SV Require Import Fmt.DmxCodes Fmt.DmxCodesProofs Fmt.DmxBin.
Import ListNotations.
Local Close Scope N_scope.

(** ** Lists *)
Lemma firstn_app_exact : forall A (a b : list A) n, length a = n -> firstn n (a ++ b) = a.
Proof. intros A a b n H. subst n. induction a; cbn; [destruct b; reflexivity | congruence]. Qed.

Lemma skipn_app_exact : forall A (a b : list A) n, length a = n -> skipn n (a ++ b) = b.
Proof. intros A a b n H. subst n. induction a; cbn; [reflexivity | assumption]. Qed.

Lemma ltb_app_exact : forall A (a b : list A) n, length a = n -> Nat.ltb (length (a ++ b)) n = false.
Proof. intros A a b n H. apply Nat.ltb_ge. rewrite app_length. lia. Qed.

(** ** Little-endian integers *)
Fixpoint p256 (w : nat) : N := match w with O => 1%N | S w' => (256 * p256 w')%N end.

Lemma p256_pow : forall w, Z.of_N (p256 w) = pow256 w.
Proof.
  unfold pow256. induction w.
  - reflexivity.
  - cbn [p256]. rewrite N2Z.inj_mul, IHw, Nat2Z.inj_succ, Z.pow_succ_r by lia. reflexivity.
Qed.

Lemma pow256_pos : forall w, (0 < pow256 w)%Z.
Proof. intros w. unfold pow256. apply Z.pow_pos_nonneg; lia. Qed.

Lemma le_bytes_length : forall w n, length (le_bytes w n) = w.
Proof. induction w; intros n; cbn [le_bytes length]; [reflexivity | rewrite IHw; reflexivity]. Qed.

Lemma le_val_le_bytes : forall w n, (n < p256 w)%N -> le_val (le_bytes w n) = n.
Proof.
  induction w; intros n H; cbn [le_bytes le_val p256] in *.
  - lia.
  - rewrite IHw.
    + pose proof (N.div_mod' n 256). lia.
    + apply N.div_lt_upper_bound; lia.
Qed.

Lemma put_int_length : forall w z, length (put_int w z) = w.
Proof. intros. apply le_bytes_length. Qed.

Lemma get_int_put_int : forall w z rest,
  (- (pow256 w / 2) <= z < pow256 w / 2)%Z ->
  get_int w (put_int w z ++ rest) = Some (z, rest).
Proof.
  intros w z rest Hz. unfold get_int.
  pose proof (put_int_length w z) as Hl.
  rewrite (ltb_app_exact _ _ _ _ Hl), (firstn_app_exact _ _ _ _ Hl), (skipn_app_exact _ _ _ _ Hl).
  pose proof (pow256_pos w) as HP.
  pose proof (Z.mul_div_le (pow256 w) 2 ltac:(lia)) as HH.
  pose proof (Z.mod_pos_bound z (pow256 w) HP) as Hm.
  unfold put_int. rewrite le_val_le_bytes.
  2:{ apply N2Z.inj_lt. rewrite p256_pow, Z2N.id by lia. lia. }
  rewrite Z2N.id by lia.
  set (P := pow256 w) in *. set (H := (P / 2)%Z) in *.
  assert (Hmod : (z mod P = if z <? 0 then z + P else z)%Z).
  { destruct (Z.ltb_spec z 0).
    - rewrite <- (Z_mod_plus_full z 1 P). replace (z + 1 * P)%Z with (z + P)%Z by lia. apply Z.mod_small. lia.
    - apply Z.mod_small. lia. }
  rewrite Hmod. f_equal. f_equal.
  destruct (Z.ltb_spec z 0); match goal with |- context [(?a <? ?b)%Z] => destruct (Z.ltb_spec a b) end; lia.
Qed.

Lemma pow256_2 : pow256 2 = 65536%Z. Proof. reflexivity. Qed.
Lemma pow256_4 : pow256 4 = 4294967296%Z. Proof. reflexivity. Qed.

Lemma half_pow256_4 : (pow256 4 / 2 = 2147483648)%Z. Proof. reflexivity. Qed.

Lemma get_int4_put_int4 : forall z rest, (-2147483648 <= z < 2147483648)%Z ->
  get_int 4 (put_int 4 z ++ rest) = Some (z, rest).
Proof. intros. apply get_int_put_int. rewrite half_pow256_4. lia. Qed.

Lemma int_fits_4 : forall n, int_fits 4 n -> (Z.of_nat n < 2147483648)%Z.
Proof. unfold int_fits. intros n H. rewrite half_pow256_4 in H. exact H. Qed.

Lemma int_fits_range : forall w n, int_fits w n -> (- (pow256 w / 2) <= Z.of_nat n < pow256 w / 2)%Z.
Proof. unfold int_fits. intros. lia. Qed.

Lemma get_int_put_nat : forall w n rest, int_fits w n ->
  get_int w (put_int w (Z.of_nat n) ++ rest) = Some (Z.of_nat n, rest).
Proof. intros. apply get_int_put_int, int_fits_range; assumption. Qed.

Lemma int_fits_le : forall w n m, (m <= n)%nat -> int_fits w n -> int_fits w m.
Proof. unfold int_fits. intros. lia. Qed.

(** ** NUL-terminated strings *)
Lemma get_cstr_app : forall b rest, ~ In 0%N b -> get_cstr (b ++ 0%N :: rest) = Some (b, rest).
Proof.
  induction b as [|a b IH]; intros rest H.
  - reflexivity.
  - cbn [app get_cstr]. destruct (N.eqb_spec a 0) as [E|E].
    + exfalso. apply H. left. assumption.
    + rewrite IH; [reflexivity|]. intro Hin. apply H. right. assumption.
Qed.

Lemma get_put_str : forall cenc cdec e s rest,
  str_ok cenc cdec e s -> get_str cdec e (put_str cenc e s ++ rest) = Some (s, rest).
Proof.
  intros cenc cdec e s rest [Hd Hz]. unfold get_str, put_str.
  rewrite <- app_assoc. cbn [app]. rewrite get_cstr_app by assumption. rewrite Hd. reflexivity.
Qed.

(** ** Fixed byte blocks *)
Lemma get_bytes_app : forall n b rest, length b = n -> get_bytes n (b ++ rest) = Some (b, rest).
Proof.
  intros n b rest H. unfold get_bytes.
  rewrite (ltb_app_exact _ _ _ _ H), (firstn_app_exact _ _ _ _ H), (skipn_app_exact _ _ _ _ H). reflexivity.
Qed.

Lemma read_upto_app : forall b rest, read_upto (length b) (b ++ rest) = Some (b, rest).
Proof.
  intros. unfold read_upto. rewrite (firstn_app_exact _ _ _ _ eq_refl), (skipn_app_exact _ _ _ _ eq_refl). reflexivity.
Qed.

(** ** [rep] *)
Lemma rep_flat_map_gen : forall A B (p : parser B) (w : A -> bytes) (f : A -> B) (l : list A) rest,
  Forall (fun x => forall r, p (w x ++ r) = Some (f x, r)) l ->
  rep p (length l) (flat_map w l ++ rest) = Some (map f l, rest).
Proof.
  intros A B p w f l rest H. induction H as [|x l Hx Hl IH]; cbn [length flat_map rep map app].
  - reflexivity.
  - rewrite <- app_assoc, Hx, IH. reflexivity.
Qed.

Lemma rep_flat_map : forall A (p : parser A) (w : A -> bytes) (l : list A) rest,
  Forall (fun x => forall r, p (w x ++ r) = Some (x, r)) l ->
  rep p (length l) (flat_map w l ++ rest) = Some (l, rest).
Proof.
  intros A p w l rest H. rewrite (rep_flat_map_gen A A p w (fun x => x) l rest H), map_id. reflexivity.
Qed.

Lemma concat_flat_map_id : forall (l : list bytes), concat l = flat_map (fun b => b) l.
Proof. induction l; cbn; congruence. Qed.

(** ** The string table *)
Lemma str_cmp_eq : forall a b, str_cmp a b = Eq <-> a = b.
Proof.
  induction a as [|x a IH]; destruct b as [|y b]; cbn [str_cmp]; try (split; [discriminate | discriminate]).
  - split; reflexivity.
  - destruct (N.compare_spec x y) as [E|E|E].
    + subst y. rewrite IH. split; [congruence | intros H; injection H; auto].
    + split; [discriminate | intros H; injection H; intros; lia].
    + split; [discriminate | intros H; injection H; intros; lia].
Qed.

Lemma str_cmp_refl : forall a, str_cmp a a = Eq.
Proof. intros. apply str_cmp_eq. reflexivity. Qed.

Lemma tab_insert_in_new : forall s l, In s (tab_insert s l).
Proof.
  induction l as [|x l IH]; cbn [tab_insert].
  - left. reflexivity.
  - destruct (str_cmp s x) eqn:E.
    + apply str_cmp_eq in E. subst. left. reflexivity.
    + left. reflexivity.
    + right. assumption.
Qed.

Lemma tab_insert_in_old : forall s y l, In y l -> In y (tab_insert s l).
Proof.
  induction l as [|x l IH]; cbn [tab_insert]; intros H.
  - destruct H.
  - destruct (str_cmp s x).
    + assumption.
    + right. assumption.
    + destruct H as [H|H]; [left; assumption | right; auto].
Qed.

Lemma fold_tab_insert_in : forall s l, In s l -> In s (fold_right tab_insert [] l).
Proof.
  induction l as [|x l IH]; cbn [fold_right]; intros H.
  - destruct H.
  - destruct H as [H|H].
    + subst. apply tab_insert_in_new.
    + apply tab_insert_in_old. auto.
Qed.

Lemma strtab_in : forall v d s, In s (used_strings v d) -> In s (strtab v d).
Proof. intros. unfold strtab. apply fold_tab_insert_in. assumption. Qed.

Lemma index_of_in : forall s tab, In s tab ->
  exists i, index_of s tab = Some i /\ nth_error tab (N.to_nat i) = Some s /\ (N.to_nat i < length tab)%nat.
Proof.
  induction tab as [|x tab IH]; intros H.
  - destruct H.
  - cbn [index_of]. unfold str_eqb. destruct (str_cmp s x) eqn:E.
    + apply str_cmp_eq in E. subst x. exists 0%N. cbn. repeat split. lia.
    + destruct H as [H|H]; [subst x; rewrite str_cmp_refl in E; discriminate|].
      destruct (IH H) as (i & Hi & Hn & Hl). exists (N.succ i). rewrite Hi. split; [reflexivity|].
      rewrite N2Nat.inj_succ. cbn [nth_error length]. split; [assumption | lia].
    + destruct H as [H|H]; [subst x; rewrite str_cmp_refl in E; discriminate|].
      destruct (IH H) as (i & Hi & Hn & Hl). exists (N.succ i). rewrite Hi. split; [reflexivity|].
      rewrite N2Nat.inj_succ. cbn [nth_error length]. split; [assumption | lia].
Qed.

Lemma get_put_tabref : forall v tab s rest,
  In s tab -> int_fits (db_ind_w v) (length tab) ->
  get_tabref v tab (put_tabref v tab s ++ rest) = Some (s, rest).
Proof.
  intros v tab s rest Hin Hfit. unfold get_tabref, put_tabref.
  destruct (index_of_in s tab Hin) as (i & Hi & Hn & Hl). rewrite Hi.
  rewrite get_int_put_int.
  2:{ unfold int_fits in Hfit. pose proof (pow256_pos (db_ind_w v)).
      pose proof (Z.mul_div_le (pow256 (db_ind_w v)) 2 ltac:(lia)). lia. }
  replace (Z.of_N i <? 0)%Z with false by (symmetry; apply Z.ltb_ge; lia).
  replace (Z.to_nat (Z.of_N i)) with (N.to_nat i) by lia.
  rewrite Hn. reflexivity.
Qed.
