(** C06, round 3: proofs about Fmt/VmfGuard.v (axiom-free). *)
From Coq Require Import List String Bool ZArith Lia.
From SV Require Import Fmt.VmfGuard.
Import ListNotations.
Open Scope string_scope.

Lemma optgroup_ok_spec primary g : optgroup_ok primary g = true ->
  exists m, og_guard g = GAnyTruthy m /\ assoc primary (og_arrays g) = Some m /\ In m (og_falsy_default g).
Proof.
  unfold optgroup_ok. destruct (og_guard g) as [m|m|]; try discriminate.
  destruct (assoc primary (og_arrays g)) as [pm|]; try discriminate.
  intros H. apply andb_true_iff in H. destruct H as [E H]. apply String.eqb_eq in E. subst pm.
  exists m. split; [reflexivity|split; [reflexivity|]].
  apply existsb_exists in H. destruct H as (x & Hx & Ex). apply String.eqb_eq in Ex. now subst x.
Qed.

Section Group.
  Variable vert : Type.
  Variable val : Type.
  Variable get : string -> vert -> val.
  Variable truthy : string -> vert -> bool.
  Variable dflt : vert.

  (** If a falsy member is the default one, the guard member survives for every list of vertices: either the group is
      written, or every vertex holds the default, which is what the reader leaves. *)
  Theorem guard_member_survives m :
    (forall v, truthy m v = false -> get m v = get m dflt) ->
    forall vs, map (get m) (parse_group vert dflt (List.length vs) (export_group vert truthy m vs)) = map (get m) vs.
  Proof.
    intros Hd vs. unfold export_group. destruct (existsb (truthy m) vs) eqn:E; [reflexivity|].
    cbn [parse_group]. induction vs as [|v vs IH]; [reflexivity|].
    cbn [existsb] in E. apply orb_false_iff in E. destruct E as [Ev Er].
    cbn [List.length repeat map]. rewrite (Hd v Ev), IH by exact Er. reflexivity.
  Qed.

  Theorem group_roundtrip primary g :
    optgroup_ok primary g = true ->
    (forall m, In m (og_falsy_default g) -> forall v, truthy m v = false -> get m v = get m dflt) ->
    exists m, assoc primary (og_arrays g) = Some m /\
      forall vs, map (get m) (parse_group vert dflt (List.length vs) (export_group vert truthy m vs)) = map (get m) vs.
  Proof.
    intros H Hd. destruct (optgroup_ok_spec _ _ H) as (m & _ & Ha & Hf).
    exists m. split; [exact Ha|]. apply guard_member_survives. apply Hd. exact Hf.
  Qed.
End Group.

(** The other members of the group do not survive when the guard member is default everywhere (limit of the
    representation), and a guard on another member loses the primary one: vertices = (blend, alpha). *)
Definition ex_get (m : string) (v : Z * Z) : Z := if String.eqb m "blend" then fst v else snd v.
Definition ex_truthy (m : string) (v : Z * Z) : bool := negb (Z.eqb (ex_get m v) 0).

Theorem unguarded_member_lost :
  exists vs, map (ex_get "alpha") (parse_group _ (0, 0)%Z (List.length vs) (export_group _ ex_truthy "blend" vs)) <> map (ex_get "alpha") vs.
Proof. exists [(0, 5)%Z]. vm_compute. discriminate. Qed.

Theorem guard_on_other_member_refuted :
  exists vs, map (ex_get "blend") (parse_group _ (0, 0)%Z (List.length vs) (export_group _ ex_truthy "alpha" vs)) <> map (ex_get "blend") vs.
Proof. exists [(7, 0)%Z]. vm_compute. discriminate. Qed.

Example optgroup_example :
  optgroup_ok "multiblend" (mk_optgroup [("multiblend", "multi_blend"); ("alphablend", "multi_alpha")] (GAnyTruthy "multi_blend")
                                        ["multi_blend"; "multi_alpha"] ["disp_multiblend"]) = true
  /\ optgroup_ok "multiblend" (mk_optgroup [("multiblend", "multi_blend"); ("colors", "multi_colors")] (GAnyNotNone "multi_colors")
                                           ["multi_blend"] []) = false.
Proof. split; reflexivity. Qed.
