(** Proofs about the VPK name resolution model (Fmt/VpkName.v). *)
From Coq Require Import List NArith Bool.
From SV Require Import Fmt.VpkDir SM.Vpk Fmt.VpkName Fmt.VpkNameSplit.
Import ListNotations.
Open Scope N_scope.

Section names.
  Variable normpath : bytes -> bytes.

  (** The string form and its 2-tuple (posixpath.split) always resolve alike; the 3-tuple obtained by
      splitting the file name at its last '.' resolves alike unless the file name ends in '.' and contains
      another '.' before it (then the 3-tuple form is split a second time). *)
  Lemma name_forms_agree s :
    let '(h, t) := split_path s in
    let '(n, e) := split_ext t [] in
    file_parts normpath (NPair h t) = file_parts normpath (NStr s)
    /\ ((e = [] -> rsplit1 46 n = None) -> file_parts normpath (NTriple h n e) = file_parts normpath (NStr s)).
  Proof.
    destruct (split_path s) as [h t] eqn:Hs.
    destruct (split_ext t []) as [n e] eqn:He.
    unfold file_parts. rewrite Hs. split; [now rewrite He|].
    intros H. rewrite He. destruct e as [|x e'].
    - unfold split_ext. rewrite (H eq_refl). reflexivity.
    - reflexivity.
  Qed.
End names.

(** The carved-out case is real: 'a/b.c.' resolves to ('a', 'b.c', '') but its 3-tuple to ('a', 'b', 'c'). *)
Lemma name_forms_trailing_dot_refuted :
  let s := [97; 47; 98; 46; 99; 46] in
  file_parts posix_normpath (NStr s) = ([], [97], [98; 46; 99])
  /\ file_parts posix_normpath (NTriple [97] [98; 46; 99] []) = ([99], [97], [98]).
Proof. vm_compute. split; reflexivity. Qed.

(** Non-vacuity of the premise of [name_forms_agree]: 'a/b.txt'. *)
Lemma name_forms_example :
  file_parts posix_normpath (NStr [97; 47; 98; 46; 116; 120; 116]) = ([116; 120; 116], [97], [98])
  /\ file_parts posix_normpath (NTriple [97] [98] [116; 120; 116]) = ([116; 120; 116], [97], [98])
  /\ file_parts posix_normpath (NPair [97] [98; 46; 116; 120; 116]) = ([116; 120; 116], [97], [98]).
Proof. vm_compute. repeat split; reflexivity. Qed.

(** ---- the same over the split statement read from the source ---- *)
Lemma file_parts_k_last normpath f : file_parts_k normpath (SplitLast 46) f = file_parts normpath f.
Proof. reflexivity. Qed.

(** For every split statement that cuts at the last '.', the three forms resolve alike (the 3-tuple being folder,
    name up to the last '.', extension after it), with the same carve-out as [name_forms_agree]. *)
Lemma name_forms_agree_k normpath k : split_kind_ok k = true -> forall s,
  let '(h, t) := split_path s in
  let '(n, e) := split_ext t [] in
  file_parts_k normpath k (NPair h t) = file_parts_k normpath k (NStr s)
  /\ ((e = [] -> rsplit1 46 n = None) -> file_parts_k normpath k (NTriple h n e) = file_parts_k normpath k (NStr s)).
Proof.
  intros Hk s. destruct k as [c|c|]; [|discriminate|discriminate]. cbn [split_kind_ok] in Hk. apply N.eqb_eq in Hk. subst c.
  exact (name_forms_agree normpath s).
Qed.

(** Splitting at the first '.' instead (str.partition): 'a/b.c.d' is stored under extension 'c.d', its 3-tuple
    ('a', 'b.c', 'd') under extension 'd'. *)
Lemma name_forms_first_dot_refuted :
  let s := [97; 47; 98; 46; 99; 46; 100] in
  split_kind_ok (SplitFirst 46) = false
  /\ file_parts_k posix_normpath (SplitFirst 46) (NStr s) = ([99; 46; 100], [97], [98])
  /\ file_parts_k posix_normpath (SplitFirst 46) (NTriple [97] [98; 46; 99] [100]) = ([100], [97], [98; 46; 99]).
Proof. vm_compute. repeat split; reflexivity. Qed.
