(** C14 — proofs about the graph <-> tree-of-blocks step of the nested KeyValues2 layout (Fmt/DmxKv2Graph.v). *)
From Coq Require Import NArith List Bool Lia PeanoNat Permutation.
From SV Require Import Text.Str Text.Tokenizer Fmt.DmxKv2 Fmt.DmxKv2Proofs Fmt.DmxKv2Nested Fmt.DmxKv2Graph.
Import ListNotations.
Open Scope nat_scope.

(** * map_opt *)
Lemma map_opt_in {A B} (f : A -> option B) : forall l r x, map_opt f l = Some r -> In x l -> exists y, f x = Some y /\ In y r.
Proof.
  induction l as [|a l IH]; intros r x H Hin; [destruct Hin|].
  cbn in H. destruct (f a) as [b|] eqn:Fa; [|discriminate]. destruct (map_opt f l) as [bs|] eqn:Fl; [|discriminate].
  injection H as <-. destruct Hin as [->|Hin].
  - exists b. split; [assumption|now left].
  - destruct (IH bs x eq_refl Hin) as [y [Hy Hi]]. exists y. split; [assumption|now right].
Qed.

(** * the un_* functions over lists *)
Definition un_items (l : list nitem) : list kitem * list kelem :=
  fold_right (fun it (acc : list kitem * list kelem) => let (ki, d1) := un_item it in let (kis, d2) := acc in (ki :: kis, d1 ++ d2)) ([], []) l.
Definition un_attrs (l : list nattr) : list kattr * list kelem :=
  fold_right (fun a (acc : list kattr * list kelem) => let (ka, d1) := un_attr a in let (kas, d2) := acc in (ka :: kas, d1 ++ d2)) ([], []) l.

Lemma un_elem_eq ty id nm attrs :
  un_elem (NElem ty id nm attrs) = ({| ke_type := ty; ke_id := id; ke_name := nm; ke_attrs := fst (un_attrs attrs) |}, snd (un_attrs attrs)).
Proof.
  cbn [un_elem]. match goal with |- (_, snd ?X) = _ => replace X with (un_attrs attrs); [reflexivity|] end.
  induction attrs as [|a r IH]; [reflexivity|]. unfold un_attrs in *. cbn [fold_right]. rewrite IH. reflexivity.
Qed.
Lemma un_attr_eq an at_ arr items :
  un_attr (NAttr an at_ arr items) = ({| ka_name := an; ka_type := at_; ka_arr := arr; ka_items := fst (un_items items) |}, snd (un_items items)).
Proof.
  cbn [un_attr]. match goal with |- (_, snd ?X) = _ => replace X with (un_items items); [reflexivity|] end.
  induction items as [|a r IH]; [reflexivity|]. unfold un_items in *. cbn [fold_right]. rewrite IH. reflexivity.
Qed.

Section Nest.
Variable g : gdoc.
Variable isroot : nat -> bool.

Notation ids := (ids g).
Definition flatk (i : nat) : kelem := flat_elem ids (nth i g dflt_gelem).
Notation nest_elem := (nest_elem g isroot false).
Notation blocks := (blocks g isroot).

Lemma nth_ids j : nth j ids [] = ge_id (nth j g dflt_gelem).
Proof. unfold DmxKv2Graph.ids. exact (map_nth ge_id g dflt_gelem j). Qed.

Lemma nest_elem_S f i : nest_elem (S f) i =
  match nth_error g i with
  | None => None
  | Some e =>
      match map_opt (fun a =>
              match map_opt (fun it =>
                      match it with
                      | GStr s => Some (NStr s)
                      | GRef GNull => Some NNull
                      | GRef (GStub u) => Some (NRef u)
                      | GRef (GElem j) =>
                          if isroot j then Some (NRef (nth j ids []))
                          else match nest_elem f j with Some t => Some (NInline t) | None => None end
                      end) (ga_items a) with
              | Some its => Some (NAttr (ga_name a) (ga_type a) (ga_arr a) its)
              | None => None
              end) (ge_attrs e) with
      | Some attrs => Some (NElem (ge_type e) (Some (ge_id e)) (ge_name e) attrs)
      | None => None
      end
  end.
Proof. reflexivity. Qed.

(** ** Soundness: the blocks written for element [i], read back, are exactly the elements [blocks f i] of the graph,
    each with its type, id, name, attributes in order and every element value naming the id of its target. *)
Definition item_fn (f : nat) (it : gitem) : option nitem :=
  match it with
  | GStr s => Some (NStr s)
  | GRef GNull => Some NNull
  | GRef (GStub u) => Some (NRef u)
  | GRef (GElem j) =>
      if isroot j then Some (NRef (nth j ids []))
      else match nest_elem f j with Some t => Some (NInline t) | None => None end
  end.

Definition sound_at (f : nat) : Prop :=
  forall i t, nest_elem f i = Some t ->
    i < length g /\ un_elem t = (flatk i, map flatk (List.tl (blocks f i))) /\ Forall (fun j => j < length g) (blocks f i).

Lemma items_sound f : sound_at f -> forall items its, map_opt (item_fn f) items = Some its ->
  un_items its = (map (flat_item ids) items, map flatk (flat_map (item_blocks isroot (blocks f)) items)) /\
  Forall (fun j => j < length g) (flat_map (item_blocks isroot (blocks f)) items).
Proof.
  intros IH. induction items as [|it r IHr]; intros its H.
  - injection H as <-. cbn. split; [reflexivity|constructor].
  - cbn [map_opt] in H. destruct (item_fn f it) as [ni|] eqn:Hi; [|discriminate].
    destruct (map_opt (item_fn f) r) as [nr|] eqn:Hr; [|discriminate]. injection H as <-.
    destruct (IHr nr eq_refl) as [E1 F1]. cbn [un_items fold_right]. fold (un_items nr). rewrite E1.
    cbn [map flat_map]. rewrite map_app.
    assert (un_item ni = (flat_item ids it, map flatk (item_blocks isroot (blocks f) it)) /\
            Forall (fun j => j < length g) (item_blocks isroot (blocks f) it)) as [E2 F2].
    { destruct it as [s|[j| |u]]; cbn [item_fn] in Hi.
      - injection Hi as <-. split; [reflexivity|constructor].
      - cbn [item_blocks]. destruct (isroot j) eqn:Rj.
        + injection Hi as <-. split; [reflexivity|constructor].
        + destruct (nest_elem f j) as [t|] eqn:Nj; [|discriminate]. injection Hi as <-.
          destruct (IH j t Nj) as [Lj [Ej Fj]]. cbn [un_item]. rewrite Ej. cbn [flat_item]. split; [|assumption].
          unfold id_text, flatk at 1. cbn [flat_elem ke_id]. rewrite nth_ids. f_equal.
          destruct f as [|f']; [discriminate Nj|]. reflexivity.
      - injection Hi as <-. split; [reflexivity|constructor].
      - injection Hi as <-. split; [reflexivity|constructor]. }
    rewrite E2. split; [reflexivity|]. apply Forall_app. split; assumption.
Qed.

Lemma attrs_sound f : sound_at f -> forall attrs nattrs,
  map_opt (fun a => match map_opt (item_fn f) (ga_items a) with
                    | Some its => Some (NAttr (ga_name a) (ga_type a) (ga_arr a) its) | None => None end) attrs = Some nattrs ->
  un_attrs nattrs = (map (flat_attr ids) attrs,
                     map flatk (flat_map (fun a => flat_map (item_blocks isroot (blocks f)) (ga_items a)) attrs)) /\
  Forall (fun j => j < length g) (flat_map (fun a => flat_map (item_blocks isroot (blocks f)) (ga_items a)) attrs).
Proof.
  intros IH. induction attrs as [|a r IHr]; intros nattrs H.
  - injection H as <-. cbn. split; [reflexivity|constructor].
  - cbn [map_opt] in H. destruct (map_opt (item_fn f) (ga_items a)) as [its|] eqn:Hi; [|discriminate].
    destruct (map_opt _ r) as [nr|] eqn:Hr; [|discriminate]. injection H as <-.
    destruct (IHr nr eq_refl) as [E1 F1]. destruct (items_sound f IH _ _ Hi) as [E2 F2].
    cbn [un_attrs fold_right]. fold (un_attrs nr). rewrite E1, un_attr_eq, E2. cbn [fst snd map flat_map]. rewrite map_app.
    split; [reflexivity|]. apply Forall_app. split; assumption.
Qed.

Lemma nest_sound : forall f, sound_at f.
Proof.
  induction f as [|f IH]; intros i t H; [discriminate|].
  rewrite nest_elem_S in H. destruct (nth_error g i) as [e|] eqn:Ne; [|discriminate].
  assert (Li : i < length g) by (apply nth_error_Some; congruence).
  assert (En : nth i g dflt_gelem = e) by (now apply nth_error_nth).
  fold (item_fn f) in H.
  destruct (map_opt _ (ge_attrs e)) as [attrs|] eqn:Ha; [|discriminate]. injection H as <-.
  destruct (attrs_sound f IH _ _ Ha) as [E F].
  split; [assumption|]. rewrite un_elem_eq, E. cbn [fst snd DmxKv2Graph.blocks List.tl]. subst e. split.
  - reflexivity.
  - constructor; assumption.
Qed.

Lemma nest_blocks_head f i t : nest_elem f i = Some t -> exists r, blocks f i = i :: r.
Proof. destruct f; [discriminate|]. intros _. eexists. reflexivity. Qed.

Lemma un_list_sound f i t : nest_elem f i = Some t -> un_list t = map flatk (blocks f i).
Proof.
  intros H. destruct (nest_sound f i t H) as [_ [E _]]. unfold un_list. rewrite E.
  destruct (nest_blocks_head f i t H) as [r Hr]. rewrite Hr. reflexivity.
Qed.

(** ** the whole document *)
Notation root_list := (root_list g isroot).
Notation nest_doc := (nest_doc g isroot false).
Notation all_blocks := (all_blocks g isroot).

Lemma unnest_roots F : forall l d, map_opt (nest_elem F) l = Some d -> unnest d = map flatk (flat_map (blocks F) l).
Proof.
  induction l as [|i r IH]; intros d H.
  - injection H as <-. reflexivity.
  - cbn [map_opt] in H. destruct (nest_elem F i) as [t|] eqn:Ni; [|discriminate].
    destruct (map_opt (nest_elem F) r) as [ts|] eqn:Hr; [|discriminate]. injection H as <-.
    cbn [unnest flat_map]. fold (unnest ts). rewrite map_app, (IH ts eq_refl), (un_list_sound F i t Ni). reflexivity.
Qed.

(** what the reader registers is the list of written blocks, element by element *)
Theorem unnest_nest d : nest_doc = Some d -> unnest d = map flatk all_blocks.
Proof. apply unnest_roots. Qed.

Lemma all_blocks_in_range d : nest_doc = Some d -> Forall (fun j => j < length g) all_blocks.
Proof.
  unfold DmxKv2Graph.nest_doc, DmxKv2Graph.all_blocks. generalize (S (length g)) as F. intros F.
  generalize root_list as l. induction l as [|i r IH] in d |- *; intros H; [constructor|].
  cbn [map_opt] in H. destruct (nest_elem F i) as [t|] eqn:Ni; [|discriminate].
  destruct (map_opt (nest_elem F) r) as [ts|] eqn:Hr; [|discriminate].
  cbn [flat_map]. apply Forall_app. split; [apply (nest_sound F i t Ni)|apply (IH ts eq_refl)].
Qed.

(** nothing is invented: every block read back is an element of the graph *)
Theorem nest_only_graph_elements d : nest_doc = Some d ->
  forall k, In k (unnest d) -> exists i, i < length g /\ k = flat_elem ids (nth i g dflt_gelem).
Proof.
  intros H k Hk. rewrite (unnest_nest d H) in Hk. apply in_map_iff in Hk. destruct Hk as [i [<- Hi]].
  exists i. split; [|reflexivity]. pose proof (all_blocks_in_range d H) as F. rewrite Forall_forall in F. now apply F.
Qed.

(** the exported element comes first *)
Theorem nest_root_first d : isroot 0 = true -> g <> [] -> nest_doc = Some d ->
  exists rest, unnest d = flat_elem ids (nth 0 g dflt_gelem) :: rest.
Proof.
  intros R0 Hg H. rewrite (unnest_nest d H). unfold DmxKv2Graph.all_blocks, DmxKv2Graph.root_list.
  destruct (length g) as [|n] eqn:L; [apply length_zero_iff_nil in L; congruence|].
  cbn [seq filter]. rewrite R0. cbn [flat_map DmxKv2Graph.blocks app map]. eexists. reflexivity.
Qed.

(** ** Completeness: every element reachable from the exported one is written *)
Lemma root_in_list j : j < length g -> isroot j = true -> In j root_list.
Proof. intros L R. apply filter_In. split; [apply in_seq; lia|assumption]. Qed.

Lemma children_nested f i t a j : nest_elem (S f) i = Some t -> In a (ge_attrs (nth i g dflt_gelem)) ->
  In (GRef (GElem j)) (ga_items a) -> isroot j = false -> exists t', nest_elem f j = Some t'.
Proof.
  intros H Ha Hj Rj. rewrite nest_elem_S in H. destruct (nth_error g i) as [e|] eqn:Ne; [|discriminate].
  rewrite (nth_error_nth _ _ dflt_gelem Ne) in Ha. fold (item_fn f) in H.
  destruct (map_opt _ (ge_attrs e)) as [attrs|] eqn:Hm; [|discriminate].
  destruct (map_opt_in _ _ _ a Hm Ha) as [na [Hna _]].
  destruct (map_opt (item_fn f) (ga_items a)) as [its|] eqn:Hi; [|discriminate].
  destruct (map_opt_in _ _ _ _ Hi Hj) as [ni [Hni _]]. cbn [item_fn] in Hni. rewrite Rj in Hni.
  destruct (nest_elem f j) as [t'|]; [|discriminate]. now exists t'.
Qed.

Lemma blocks_child f i a j : In a (ge_attrs (nth i g dflt_gelem)) -> In (GRef (GElem j)) (ga_items a) -> isroot j = false ->
  incl (blocks f j) (blocks (S f) i).
Proof.
  intros Ha Hj Rj x Hx. cbn [DmxKv2Graph.blocks]. right. apply in_flat_map. exists a. split; [assumption|].
  apply in_flat_map. exists (GRef (GElem j)). split; [assumption|]. cbn [item_blocks]. rewrite Rj. assumption.
Qed.

Definition refs_in_range : Prop :=
  forall i a j, In a (ge_attrs (nth i g dflt_gelem)) -> In (GRef (GElem j)) (ga_items a) -> j < length g.

Theorem nest_complete d : isroot 0 = true -> g <> [] -> refs_in_range -> nest_doc = Some d ->
  forall j, reach g j -> In (flat_elem ids (nth j g dflt_gelem)) (unnest d).
Proof.
  intros R0 Hg Hrange H j Hr. rewrite (unnest_nest d H). change (flat_elem ids (nth j g dflt_gelem)) with (flatk j). apply in_map. revert j Hr.
  assert (Hroot : forall j, j < length g -> isroot j = true ->
            exists f t, nest_elem f j = Some t /\ incl (blocks f j) all_blocks).
  { intros j L R. pose proof (root_in_list j L R) as Hin.
    destruct (map_opt_in _ _ _ j H Hin) as [t [Ht _]]. exists (S (length g)), t. split; [assumption|].
    intros x Hx. unfold DmxKv2Graph.all_blocks. apply in_flat_map. exists j. split; assumption. }
  assert (Q : forall j, reach g j -> exists f t, nest_elem f j = Some t /\ incl (blocks f j) all_blocks).
  { induction 1 as [|i j a Hi IH Ha Hj].
    - apply Hroot; [destruct (length g) eqn:L; [apply length_zero_iff_nil in L; congruence|lia]|assumption].
    - destruct IH as [f [t [Ht Hinc]]]. destruct (isroot j) eqn:Rj.
      + apply Hroot; [apply (Hrange i a j Ha Hj)|assumption].
      + destruct f as [|f']; [discriminate Ht|].
        destruct (children_nested f' i t a j Ht Ha Hj Rj) as [t' Ht']. exists f', t'. split; [assumption|].
        intros x Hx. apply Hinc. apply (blocks_child f' i a j Ha Hj Rj). assumption. }
  intros j Hr. destruct (Q j Hr) as [f [t [Ht Hinc]]]. apply Hinc.
  destruct (nest_blocks_head f j t Ht) as [r ->]. now left.
Qed.

(** ** references by id go to top-level blocks or stubs only: an inline block is never referred to by its id, so leaving
    its id out ([cull_uuid]) loses no reference *)
Lemma inline_blocks_not_roots f : forall i, Forall (fun j => isroot j = false) (List.tl (blocks f i)).
Proof.
  induction f as [|f IH]; intros i; [constructor|]. cbn [DmxKv2Graph.blocks List.tl].
  apply Forall_forall. intros x Hx. apply in_flat_map in Hx. destruct Hx as [a [_ Hx]].
  apply in_flat_map in Hx. destruct Hx as [it [_ Hx]]. destruct it as [s|[j| |u]]; cbn [item_blocks] in Hx; try destruct Hx.
  destruct (isroot j) eqn:Rj; [destruct Hx|]. destruct f as [|f']; [destruct Hx|].
  cbn [DmxKv2Graph.blocks] in Hx. destruct Hx as [<-|Hx]; [assumption|].
  specialize (IH j). cbn [DmxKv2Graph.blocks List.tl] in IH. rewrite Forall_forall in IH. now apply IH.
Qed.
End Nest.

(** * The root rule *)
Section Rule.
Variable fold : str -> str.
Variable vtnames : list str.
Variable c : rootcfg.
Hypothesis Hc : root_rule_ok c = true.

Lemma rule_parts : rc_self_count c = 1 /\ rc_first c = 1 /\ rc_incr c = 1 /\ rcmp_ok (rc_cmp c) (rc_thr c) = true /\
  rc_keyword_roots c = true /\ rc_self_root c = true /\ rc_flat_all c = true.
Proof.
  pose proof Hc as H. unfold root_rule_ok in H. rewrite !andb_true_iff in H. rewrite !Nat.eqb_eq in H. tauto.
Qed.

Lemma rcmp_spec a : 1 <= a -> rcmp_eval (rc_cmp c) a (rc_thr c) = Nat.leb 2 a.
Proof.
  intros Ha. destruct rule_parts as [_ [_ [_ [Hk _]]]]. destruct (rc_cmp c); cbn in Hk |- *; try discriminate;
    apply Nat.eqb_eq in Hk; rewrite Hk; destruct a as [|[|a]]; try lia; reflexivity.
Qed.

(** the exported element is a root; in the flat layout every element is; an element whose type is an attribute type
    keyword is; and an element that is not a root is referred to at most once in the whole graph *)
Theorem root_rule_spec flat g j :
  is_root fold vtnames c flat g j =
  flat || Nat.leb 2 (occ g j + (if Nat.eqb j 0 then 1 else 0)) || type_is_keyword fold vtnames (ge_type (nth j g dflt_gelem)) || Nat.eqb j 0.
Proof.
  destruct rule_parts as [H1 [H2 [H3 [_ [H5 [H6 H7]]]]]]. unfold is_root, use_count. rewrite H1, H2, H3, H5, H6, H7.
  rewrite !andb_true_r, !andb_true_l. destruct j as [|j].
  - cbn [Nat.eqb]. rewrite !orb_true_r. reflexivity.
  - cbn [Nat.eqb]. rewrite !orb_false_r. f_equal. f_equal. destruct (occ g (S j)) as [|k] eqn:Ho.
    + destruct rule_parts as [_ [_ [_ [Hk _]]]]. destruct (rc_cmp c); cbn in Hk; try discriminate;
        apply Nat.eqb_eq in Hk; rewrite Hk; reflexivity.
    + rewrite rcmp_spec by lia. destruct k; reflexivity.
Qed.

Corollary non_root_used_at_most_once flat g j : is_root fold vtnames c flat g j = false -> occ g j <= 1 /\ j <> 0 /\
  type_is_keyword fold vtnames (ge_type (nth j g dflt_gelem)) = false /\ flat = false.
Proof.
  rewrite root_rule_spec. intros H. apply orb_false_elim in H. destruct H as [H H4].
  apply orb_false_elim in H. destruct H as [H H3]. apply orb_false_elim in H. destruct H as [H1 H2].
  apply Nat.eqb_neq in H4. apply Nat.leb_gt in H2. repeat split; try assumption. lia.
Qed.

Corollary exported_element_is_root flat g : is_root fold vtnames c flat g 0 = true.
Proof. rewrite root_rule_spec. cbn. now rewrite orb_true_r. Qed.
End Rule.
