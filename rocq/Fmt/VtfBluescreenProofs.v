(** C15 — proofs about the bluescreen codecs (Fmt/VtfBluescreen.v). *)
From Coq Require Import NArith Arith List Bool Lia.
From SV Require Import Fmt.VtfPixelExpr Fmt.VtfPixelExprProofs Fmt.VtfBluescreen.
Import ListNotations.
Open Scope N_scope.

Lemma eval_eq_chain : forall rho x c k yes no,
  eval rho (eq_chain x c k yes no) = if agree (eval rho x) c k then eval rho yes else eval rho no.
Proof.
  intros rho x c k yes no. induction k as [|k IH]; [reflexivity|].
  cbn [eq_chain agree]. destruct (N.testbit c (N.of_nat k)) eqn:Ec; cbn [eval]; rewrite IH;
    destruct (N.testbit (eval rho x) (N.of_nat k)); cbn; reflexivity.
Qed.

Lemma agree_0 : forall v, v < 256 -> agree v 0 8 = (v =? 0).
Proof.
  intros v Hv. apply eqb_prop.
  exact (forall_byte (fun v => Bool.eqb (agree v 0 8) (v =? 0)) ltac:(vm_compute; reflexivity) v Hv).
Qed.
Lemma agree_255 : forall v, v < 256 -> agree v 255 8 = (v =? 255).
Proof.
  intros v Hv. apply eqb_prop.
  exact (forall_byte (fun v => Bool.eqb (agree v 255 8) (v =? 255)) ltac:(vm_compute; reflexivity) v Hv).
Qed.
Lemma testbit7 : forall a, a < 256 -> N.testbit a 7 = negb (a <? 128).
Proof.
  intros a Ha. apply eqb_prop.
  exact (forall_byte (fun a => Bool.eqb (N.testbit a 7) (negb (a <? 128))) ltac:(vm_compute; reflexivity) a Ha).
Qed.

Lemma eval_is_key : forall rho c0 c1 c2 yes no, bytes rho -> In c0 [0; 255] -> In c1 [0; 255] -> In c2 [0; 255] ->
  eval rho (is_key c0 c1 c2 yes no)
  = if (lookup rho 0 =? c0) && (lookup rho 1 =? c1) && (lookup rho 2 =? c2) then eval rho yes else eval rho no.
Proof.
  intros rho c0 c1 c2 yes no Hb H0 H1 H2. unfold is_key, eq_byte. rewrite !eval_eq_chain. cbn [eval].
  pose proof (lookup_byte rho 0 Hb) as B0. pose proof (lookup_byte rho 1 Hb) as B1. pose proof (lookup_byte rho 2 Hb) as B2.
  assert (A : forall v c, v < 256 -> In c [0; 255] -> agree v c 8 = (v =? c)).
  { intros v c Hv [<-|[<-|[]]]; [apply agree_0 | apply agree_255]; exact Hv. }
  rewrite (A _ _ B0 H0), (A _ _ B1 H1), (A _ _ B2 H2).
  destruct (lookup rho 0 =? c0), (lookup rho 1 =? c1), (lookup rho 2 =? c2); reflexivity.
Qed.

Lemma exprs_eqb_eq : forall l1 l2, exprs_eqb l1 l2 = true -> l1 = l2.
Proof.
  induction l1 as [|a r IH]; intros [|b r2] H; cbn in H; try discriminate; [reflexivity|].
  apply andb_true_iff in H. destruct H as [H1 H2]. apply expr_eqb_eq in H1. apply IH in H2. now subst.
Qed.
Lemma codec_eqb_eq : forall c d, codec_eqb c d = true -> bpp c = bpp d /\ save_e c = save_e d /\ load_e c = load_e d.
Proof.
  intros c d H. unfold codec_eqb in H. apply andb_true_iff in H. destruct H as [H H3]. apply andb_true_iff in H. destruct H as [H1 H2].
  apply Nat.eqb_eq in H1. apply exprs_eqb_eq in H2, H3. auto.
Qed.

(** what [save] stores *)
Lemma bs_save_run : forall bgr r g b a, a < 256 ->
  run (bs_save bgr) [r; g; b; a] = in_order bgr (bluescreen_stored r g b a).
Proof.
  intros bgr r g b a Ha. unfold bs_save, run, bluescreen_stored, in_order.
  destruct bgr; cbn [map eval vA vR vG vB lookup nth]; rewrite (testbit7 a Ha); destruct (a <? 128); reflexivity.
Qed.

(** what [load] makes of three stored bytes (given in r, g, b order) *)
Lemma bs_load_run : forall bgr r g b, r < 256 -> g < 256 -> b < 256 ->
  run (bs_load bgr) (in_order bgr [r; g; b])
  = if (r =? 0) && (g =? 0) && (b =? 255) then [0; 0; 0; 0] else [r; g; b; 255].
Proof.
  intros bgr r g b Hr Hg Hb. unfold bs_load, run, in_order.
  destruct bgr; cbn [map rev app].
  - assert (Hbytes : bytes [b; g; r]) by (repeat constructor; assumption).
    rewrite !(eval_is_key [b; g; r]) by (try exact Hbytes; cbn; tauto). cbn [eval lookup nth].
    destruct (r =? 0), (g =? 0), (b =? 255); reflexivity.
  - assert (Hbytes : bytes [r; g; b]) by (repeat constructor; assumption).
    rewrite !(eval_is_key [r; g; b]) by (try exact Hbytes; cbn; tauto). cbn [eval lookup nth].
    destruct (r =? 0), (g =? 0), (b =? 255); reflexivity.
Qed.

(** Load after save is the documented behaviour, three legal bytes are stored per pixel. *)
Theorem bs_load_of_save : forall bgr c, bs_ok bgr c = true ->
  forall r g b a, r < 256 -> g < 256 -> b < 256 -> a < 256 ->
    run (load_e c) (run (save_e c) [r; g; b; a]) = bluescreen_q r g b a
    /\ run (save_e c) [r; g; b; a] = in_order bgr (bluescreen_stored r g b a)
    /\ bytes (run (save_e c) [r; g; b; a]) /\ length (run (save_e c) [r; g; b; a]) = bpp c.
Proof.
  intros bgr c H r g b a Hr Hg Hb Ha. destruct (codec_eqb_eq _ _ H) as [E1 [E2 E3]]. rewrite E1, E2, E3. cbn [bs_codec bpp save_e load_e].
  rewrite (bs_save_run bgr r g b a Ha). unfold bluescreen_stored, bluescreen_q.
  destruct (a <? 128) eqn:Ea.
  - rewrite (bs_load_run bgr 0 0 255) by reflexivity. cbn. repeat split; try reflexivity.
    + destruct bgr; cbn; repeat constructor.
    + destruct bgr; reflexivity.
  - rewrite (bs_load_run bgr r g b Hr Hg Hb). repeat split; try reflexivity.
    + destruct bgr; cbn; repeat constructor; assumption.
    + destruct bgr; reflexivity.
Qed.

(** Opaque pixels (alpha >= 128) that are not pure blue keep their colour exactly and come back with alpha 255. *)
Corollary bs_exact_on_opaque_non_blue : forall bgr c, bs_ok bgr c = true ->
  forall r g b a, r < 256 -> g < 256 -> b < 256 -> a < 256 -> 128 <= a -> (r, g, b) <> (0, 0, 255) ->
    run (load_e c) (run (save_e c) [r; g; b; a]) = [r; g; b; 255].
Proof.
  intros bgr c H r g b a Hr Hg Hb Ha Ho Hn. destruct (bs_load_of_save bgr c H r g b a Hr Hg Hb Ha) as [E _]. rewrite E.
  unfold bluescreen_q. assert (Ea : a <? 128 = false) by (apply N.ltb_ge; exact Ho). rewrite Ea.
  destruct (N.eqb_spec r 0), (N.eqb_spec g 0), (N.eqb_spec b 255); cbn; try reflexivity. subst. now elim Hn.
Qed.

(** Storing loaded pixels again changes nothing: save(load d) = d for every three stored bytes. *)
Theorem bs_stored_fixpoint : forall bgr c, bs_ok bgr c = true ->
  forall r g b, r < 256 -> g < 256 -> b < 256 ->
    run (save_e c) (run (load_e c) (in_order bgr [r; g; b])) = in_order bgr [r; g; b].
Proof.
  intros bgr c H r g b Hr Hg Hb. destruct (codec_eqb_eq _ _ H) as [E1 [E2 E3]]. rewrite E2, E3. cbn [bs_codec save_e load_e].
  rewrite (bs_load_run bgr r g b Hr Hg Hb).
  destruct (N.eqb_spec r 0), (N.eqb_spec g 0), (N.eqb_spec b 255); cbn [andb];
    try (rewrite bs_save_run by reflexivity; unfold bluescreen_stored; cbn; reflexivity).
  subst. rewrite bs_save_run by reflexivity. reflexivity.
Qed.

(** ... hence save(load(save p)) = save p: a second round trip changes nothing. *)
Corollary bs_second_round_trip : forall bgr c, bs_ok bgr c = true ->
  forall r g b a, r < 256 -> g < 256 -> b < 256 -> a < 256 ->
    run (save_e c) (run (load_e c) (run (save_e c) [r; g; b; a])) = run (save_e c) [r; g; b; a].
Proof.
  intros bgr c H r g b a Hr Hg Hb Ha. destruct (bs_load_of_save bgr c H r g b a Hr Hg Hb Ha) as [_ [E _]]. rewrite E.
  unfold bluescreen_stored. destruct (a <? 128).
  - apply (bs_stored_fixpoint bgr c H 0 0 255); reflexivity.
  - apply (bs_stored_fixpoint bgr c H r g b Hr Hg Hb).
Qed.

Example bs_ok_inhabited : bs_ok false (bs_codec false) = true /\ bs_ok true (bs_codec true) = true /\ wf (bs_codec false) = true /\ wf (bs_codec true) = true.
Proof. vm_compute. repeat split; reflexivity. Qed.

(** The nearby wrong shape (alpha tested on bit 6): a pixel with alpha 64 is stored with its colour instead of the key,
    a pixel with alpha 128 is stored as the key; and the documented behaviour is not the identity on opaque pure blue. *)
Theorem bs_wrong_bit_refuted :
  bs_ok false {| bpp := 3; save_e := bs_save_bit6; load_e := bs_load false |} = false
  /\ run bs_save_bit6 [1; 2; 3; 64] = [1; 2; 3] /\ bluescreen_stored 1 2 3 64 = [0; 0; 255]
  /\ run bs_save_bit6 [1; 2; 3; 128] = [0; 0; 255]
  /\ bluescreen_q 0 0 255 255 = [0; 0; 0; 0].
Proof. vm_compute. repeat split; reflexivity. Qed.
