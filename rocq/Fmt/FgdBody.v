(** C16 — the body of an entity definition at token level: the lines between `[` and `]` as EntityDef.export writes
    them (keyvalue lines in order, then the inputs, the outputs, the @resources block; blank / comment lines in between
    arrive as extra NEWLINE tokens) and the loop of EntityDef.parse that reads them (NEWLINE skipped, `input` / `output` /
    `@resources` recognised case-insensitively, every other word starts a keyvalue; @snippet is not modelled).
    Composes the line models of Fmt/FgdLine.v. *)
From Coq Require Import List NArith Arith Bool.
From SV Require Import Fmt.FgdLine.
Import ListNotations.
Open Scope N_scope.

Definition KW_INPUT : str := [105; 110; 112; 117; 116].
Definition KW_OUTPUT : str := [111; 117; 116; 112; 117; 116].

Section Body.
Variable tag_norm : str -> str.
Variable tags_valid : list str -> bool.
Variable vt : Type.
Variable vt_text : vt -> str.
Variable vt_lookup : str -> option (bool * vt).
Variables vt_is_bool vt_is_flags vt_is_choices : vt -> bool.
Variable io_text : vt -> str.
Variable io_lookup : str -> option vt.
Variable dec : N -> str.
Variable undec : str -> option N.
Variable pow2 : N -> bool.
Variable cfg : line_cfg.
Variable rt : Type.
Variable rt_text : rt -> str.
Variable rt_lookup : str -> option rt.

Inductive item := IKv (k : kvline vt) | IIn (o : ioline vt) | IOut (o : ioline vt).
Definition resources : Type := option (list (rt * str * list str)).

(** one line (with its value list, if any) *)
Definition item_toks (label custom : bool) (it : item) : list tok :=
  match it with
  | IKv k => kv_toks vt vt_text vt_is_bool vt_is_flags dec cfg label custom k
  | IIn o => TStr KW_INPUT :: io_toks vt io_text custom o
  | IOut o => TStr KW_OUTPUT :: io_toks vt io_text custom o
  end.
(** the body: every item may be preceded by NEWLINEs (the `// Inputs` / `// Outputs` comment lines), then the
    resources, then the closing bracket *)
Definition body_toks (label custom : bool) (items : list (nat * item)) (res : resources) : list tok :=
  concat (map (fun p => repeat TNl (fst p) ++ item_toks label custom (snd p)) items)
  ++ res_toks cfg rt rt_text custom res ++ [TBrClose].

Record body := mk_body { b_kvs : list (kvline vt); b_ins : list (ioline vt); b_outs : list (ioline vt); b_res : resources }.

(** the `while True:` loop of EntityDef.parse after the `[`; None = the parser raises *)
Fixpoint body_parse (fuel : nat) (b : body) (ts : list tok) : option (body * list tok) :=
  match fuel with
  | O => None
  | S f =>
      match ts with
      | TBrClose :: r => Some (b, r)
      | TNl :: r => body_parse f b r
      | TStr w :: r =>
          if str_eqb (lower w) KW_INPUT then
            match io_parse tag_norm tags_valid vt io_lookup r with
            | Some (o, r') => body_parse f (mk_body (b_kvs b) (b_ins b ++ [o]) (b_outs b) (b_res b)) r'
            | None => None
            end
          else if str_eqb (lower w) KW_OUTPUT then
            match io_parse tag_norm tags_valid vt io_lookup r with
            | Some (o, r') => body_parse f (mk_body (b_kvs b) (b_ins b) (b_outs b ++ [o]) (b_res b)) r'
            | None => None
            end
          else if str_eqb (lower w) AT_RESOURCES then
            match res_parse tag_norm tags_valid rt rt_lookup (match b_res b with Some l => l | None => [] end) r with
            | Some (l, r') => body_parse f (mk_body (b_kvs b) (b_ins b) (b_outs b) (Some l)) r'
            | None => None
            end
          else
            match kv_parse tag_norm tags_valid vt vt_lookup vt_is_bool vt_is_flags vt_is_choices dec undec pow2 w r with
            | Some (k, r') => body_parse f (mk_body (b_kvs b ++ [k]) (b_ins b) (b_outs b) (b_res b)) r'
            | None => None
            end
      | _ => None
      end
  end.
Definition body_read (ts : list tok) : option (body * list tok) := body_parse (S (length ts)) (mk_body [] [] [] None) ts.
End Body.
