(** [Element.from_kv1] with the *name a test looks at* made explicit (round 3).

    A Keyvalues leaf has two names: [child.name] (casefolded) and [child.real_name] (as written).  The first loop of
    from_kv1 tests the leaf's name twice — against the reserved names {"name", "subkeys"} and against the leaf names seen
    so far — and the element's dict is keyed by the casefolded name.  Which of the two names each test reads is taken
    from the source by translate/c14_dmx.py ([gen_kv1_reserved_sel], [gen_kv1_dup_sel]); [Fmt/DmxKv1.v] is the instance
    where both read the casefolded one.  Executable definitions only; proofs in DmxKv1SelProofs.v. *)
From Coq Require Import NArith List Bool.
From SV Require Import Fmt.DmxKv1.
Import ListNotations.

Inductive namesel := NFolded | NReal.
Definition sel_is_folded (s : namesel) : bool := match s with NFolded => true | NReal => false end.

Section Sel.
  Variable fold : kstr -> kstr.
  Variable cfg : kv1cfg.
  Variables rs ds : namesel.      (* the reserved-name test, the duplicate-leaf test *)

  Definition pick (s : namesel) (n : kstr) : kstr := match s with NFolded => fold n | NReal => n end.

  Definition scan_step_sel (st : scan_st) (c : kv) : scan_st :=
    match c with
    | KBlock _ _ => {| leaf_names := leaf_names st; has_leaf := has_leaf st; has_block := true; no_inline := no_inline st |}
    | KLeaf n _ =>
        let ni := if kmem (pick rs n) (reserved cfg) then true else no_inline st in
        if kmem (pick ds n) (leaf_names st)
        then {| leaf_names := leaf_names st; has_leaf := true; has_block := has_block st; no_inline := true |}
        else {| leaf_names := pick ds n :: leaf_names st; has_leaf := true; has_block := has_block st; no_inline := ni |}
    end.

  Fixpoint from_kv1_sel (t : kv) : el :=
    match t with
    | KLeaf n v => El (t_leaf cfg) (dset (fold (k_value_w cfg)) (k_value_w cfg, inl v) (new_members n))
    | KBlock on ch =>
        let st := fold_left scan_step_sel ch scan_init in
        let no_inl := no_inline st || (has_block st && has_leaf st) in
        let m0 := new_members (match on with Some n => n | None => [] end) in
        let m1 := if no_inl || has_block st
                  then dset (fold (k_subkeys_w cfg)) (k_subkeys_w cfg, inr []) m0 else m0 in
        El (match on with Some _ => t_block cfg | None => t_root cfg end)
           (fold_left (place fold cfg no_inl) (map (fun c => (c, from_kv1_sel c)) ch) m1)
    end.
End Sel.

Definition kv1_sel_ok (rs ds : namesel) : bool := sel_is_folded rs && sel_is_folded ds.

(** ASCII lower-casing, standing in for casefold in the computed examples. *)
Definition kv_lower (s : kstr) : kstr := map (fun c => if (65 <=? c)%N && (c <=? 90)%N then (c + 32)%N else c) s.
