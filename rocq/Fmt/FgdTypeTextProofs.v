(** C16 — proofs about the type text of keyvalue / input / output lines (Fmt/FgdTypeText.v). *)
From Coq Require Import List NArith Arith Bool Lia.
From SV Require Import Fmt.FgdLine Fmt.FgdTypeText.
Import ListNotations.
Open Scope N_scope.

Lemma tt_str_eqb_eq a : forall b, str_eqb a b = true -> a = b.
Proof.
  induction a as [|x a IH]; intros [|y b] H; cbn in H; try discriminate; auto.
  apply andb_true_iff in H as [H1 H2]. apply N.eqb_eq in H1. subst. f_equal. auto.
Qed.
Lemma tt_str_eqb_refl a : str_eqb a a = true.
Proof. induction a; cbn; auto. rewrite N.eqb_refl. auto. Qed.
Lemma sexpr_eqb_eq a : forall b, sexpr_eqb a b = true -> a = b.
Proof. induction a; intros [] H; cbn in H; try discriminate; auto; f_equal; auto. Qed.

Section Laws.
Variable fold : str -> str.
Variable tab : list (str * str).
Hypothesis fold_idem : forall s, fold (fold s) = fold s.
Hypothesis fold_strip : forall s, fold (strip s) = strip (fold s).
Hypothesis fold_tl : forall s, fold (tl s) = tl (fold s).

(** an expression with a casefold anywhere in it is the casefold of the expression without *)
Lemma seval_norm e raw :
  seval fold e raw = if has_fold e then fold (seval fold (unfold e) raw) else seval fold (unfold e) raw.
Proof.
  induction e; cbn; auto.
  - rewrite IHe. destruct (has_fold e); auto.
  - rewrite IHe. destruct (has_fold e); auto.
  - rewrite IHe. destruct (has_fold e); auto.
Qed.
Lemma seval_nofold e : has_fold e = false -> unfold e = e.
Proof. induction e; cbn; intros; try discriminate; f_equal; auto. Qed.

Lemma lookup_ok_sem k f base raw : lookup_ok k f base = true ->
  seval fold k raw = fold (seval fold base raw) /\ seval fold f raw = seval fold base raw.
Proof.
  unfold lookup_ok. intros H. apply andb_true_iff in H as [H H3]. apply andb_true_iff in H as [H1 H2].
  apply sexpr_eqb_eq in H2, H3. subst f. split; auto.
  rewrite seval_norm, H1, H2. auto.
Qed.

(** every generated keyvalue program that passes the obligation IS the hand model, on all token texts *)
Theorem kv_prog_is_model p : kv_prog_ok p = true -> forall raw, trun fold tab p raw = spec_kv fold tab raw.
Proof.
  destruct p as [| |e thn els]; try discriminate. destruct thn as [k1 f1| |]; try discriminate. destruct els as [k2 f2| |]; try discriminate.
  cbn [kv_prog_ok]. intros H raw. apply andb_true_iff in H as [H H3]. apply andb_true_iff in H as [H1 H2].
  apply sexpr_eqb_eq in H1. subst e.
  destruct (lookup_ok_sem _ _ _ raw H2) as [A1 A2]. destruct (lookup_ok_sem _ _ _ raw H3) as [B1 B2].
  cbn [trun]. rewrite A1, A2, B1, B2. cbn [seval]. unfold spec_kv, classify. cbn [snd]. reflexivity.
Qed.
Theorem io_prog_is_model special p : io_prog_ok special p = true -> forall raw, trun fold tab p raw = spec_io fold tab special raw.
Proof.
  destruct p as [|e lit m rest|]; try discriminate. destruct rest as [k f| |]; try discriminate.
  cbn [io_prog_ok]. intros H raw. apply andb_true_iff in H as [H H4]. apply andb_true_iff in H as [H H3]. apply andb_true_iff in H as [H1 H2].
  apply sexpr_eqb_eq in H1. apply tt_str_eqb_eq in H2, H3. subst e lit m.
  destruct (lookup_ok_sem _ _ _ raw H4) as [A1 A2].
  cbn [trun]. rewrite A1, A2. cbn [seval]. unfold spec_io, classify. reflexivity.
Qed.

(** a program that passes keeps the text of an unknown type untouched by casefold *)
Lemma kv_prog_ok_verbatim p : kv_prog_ok p = true -> fallback_verbatim p = true.
Proof.
  destruct p as [| |e thn els]; try discriminate. destruct thn as [k1 f1| |]; try discriminate. destruct els as [k2 f2| |]; try discriminate.
  cbn [kv_prog_ok fallback_verbatim]. unfold lookup_ok. intros H.
  apply andb_true_iff in H as [H H3]. apply andb_true_iff in H as [_ H2].
  apply andb_true_iff in H2 as [_ H2]. apply andb_true_iff in H3 as [_ H3].
  apply sexpr_eqb_eq in H2, H3. subst. reflexivity.
Qed.

(** * Round trips of the hand model *)
(** object -> text -> object: a custom name that is stripped, does not start with '*' and is not a spelling of a known type *)
Theorem kv_custom_roundtrip s : strip s = s -> starts_star s = false -> assoc (fold s) tab = None ->
  spec_kv fold tab (kv_type_text (Custom s)) = (false, Custom s).
Proof. intros H1 H2 H3. unfold spec_kv, classify. cbn [kv_type_text]. rewrite H1, H2, H3. reflexivity. Qed.
Theorem io_custom_roundtrip special io_text s : strip s = s -> str_eqb s EHANDLE = false -> assoc (fold s) tab = None ->
  spec_io fold tab special (io_type_text io_text (Custom s)) = (false, Custom s).
Proof. intros H1 H2 H3. unfold spec_io, classify. cbn [io_type_text]. rewrite H1, H2, H3. reflexivity. Qed.

Lemma assoc_in k : forall c, assoc k tab = Some c -> exists k', In (k', c) tab.
Proof.
  induction tab as [|[a b] r IH]; cbn; intros c H; try discriminate.
  destruct (str_eqb k a).
  - injection H as <-. eauto.
  - destruct (IH _ H) as [k' ?]. eauto.
Qed.
Lemma classify_known s c : tab_ok fold tab = true -> classify fold tab s = Known c -> canon_ok fold tab c = true.
Proof.
  unfold classify, tab_ok. intros T H. destruct (assoc (fold s) tab) eqn:E; try discriminate. injection H as ->.
  destruct (assoc_in _ _ E) as [k' I]. rewrite forallb_forall in T. apply (T _ I).
Qed.
Lemma canon_reads_back c : canon_ok fold tab c = true -> spec_kv fold tab c = (false, Known c).
Proof.
  unfold canon_ok. intros H. apply andb_true_iff in H as [H H3]. apply andb_true_iff in H as [H1 H2].
  apply tt_str_eqb_eq in H1. apply negb_true_iff in H2. unfold spec_kv, classify. rewrite H1, H2.
  destruct (assoc (fold c) tab); try discriminate. apply tt_str_eqb_eq in H3. subst. reflexivity.
Qed.
(** text -> object -> text -> object: whatever spelling was read (any case, blanks, a leading '*'), a known type is written
    canonically and the canonical text reads back as the same member *)
Theorem kv_known_idempotent raw b c : tab_ok fold tab = true -> spec_kv fold tab raw = (b, Known c) ->
  spec_kv fold tab (kv_type_text (Known c)) = (false, Known c).
Proof.
  intros T H. cbn [kv_type_text]. apply canon_reads_back. unfold spec_kv in H.
  destruct (starts_star (strip raw)); injection H as _ H; eapply classify_known; eauto.
Qed.
(** for inputs / outputs the member decays: [io_text] is what IODef.export writes for a member, [decay] the member it reads back as *)
Theorem io_known_idempotent special io_text decay raw c :
  (forall c, spec_io fold tab special (io_text c) = (false, Known (decay c))) -> (forall c, io_text (decay c) = io_text c) ->
  spec_io fold tab special raw = (false, Known c) ->
  let text2 := io_type_text io_text (Known c) in
  io_type_text io_text (snd (spec_io fold tab special text2)) = text2.
Proof. intros H1 H2 _. cbn [io_type_text]. rewrite H1. cbn. apply H2. Qed.
End Laws.

(** * str.casefold on ASCII is [lower], which satisfies the three laws *)
Definition lowc (c : N) : N := if (65 <=? c) && (c <=? 90) then c + 32 else c.
Lemma lower_map s : lower s = map lowc s.
Proof. reflexivity. Qed.
Lemma lowc_idem c : lowc (lowc c) = lowc c.
Proof.
  unfold lowc. destruct ((65 <=? c) && (c <=? 90)) eqn:E; [|rewrite E; reflexivity].
  apply andb_true_iff in E as [E1 E2]. apply N.leb_le in E1, E2.
  replace (c + 32 <=? 90) with false by (symmetry; apply N.leb_gt; lia). rewrite andb_false_r. reflexivity.
Qed.
Lemma lowc_blank c : blankc (lowc c) = blankc c.
Proof.
  unfold lowc. destruct ((65 <=? c) && (c <=? 90)) eqn:E; [|reflexivity].
  apply andb_true_iff in E as [E1 E2]. apply N.leb_le in E1, E2. unfold blankc.
  repeat match goal with |- context [?a =? ?b] => destruct (N.eqb_spec a b); try lia end; try reflexivity.
Qed.
Lemma lower_idem s : lower (lower s) = lower s.
Proof. unfold lower. rewrite map_map. apply map_ext. intros c. exact (lowc_idem c). Qed.
Lemma lower_lstrip s : lower (lstrip s) = lstrip (lower s).
Proof.
  induction s as [|c s IH]; auto. change (lower (c :: s)) with (lowc c :: lower s). cbn [lstrip]. rewrite lowc_blank.
  destruct (blankc c); auto.
Qed.
Lemma lower_rev s : lower (rev s) = rev (lower s).
Proof. unfold lower. apply map_rev. Qed.
Lemma lower_strip s : lower (strip s) = strip (lower s).
Proof. unfold strip. rewrite lower_rev, lower_lstrip, lower_rev, lower_lstrip. reflexivity. Qed.
Lemma lower_tl s : lower (tl s) = tl (lower s).
Proof. destruct s; reflexivity. Qed.

(** composition: a program pair and a table that pass the obligations, with ASCII casefold *)
Theorem type_text_property_gen pk pi tab special :
  kv_prog_ok pk = true -> io_prog_ok special pi = true -> tab_ok lower tab = true ->
  (forall s, strip s = s -> starts_star s = false -> assoc (lower s) tab = None ->
     trun lower tab pk (kv_type_text (Custom s)) = (false, Custom s)) /\
  (forall io_text s, strip s = s -> str_eqb s EHANDLE = false -> assoc (lower s) tab = None ->
     trun lower tab pi (io_type_text io_text (Custom s)) = (false, Custom s)) /\
  (forall raw b c, trun lower tab pk raw = (b, Known c) ->
     trun lower tab pk (kv_type_text (Known c)) = (false, Known c)).
Proof.
  intros K I T. repeat split.
  - intros s H1 H2 H3. rewrite (kv_prog_is_model lower tab lower_idem lower_strip lower_tl pk K). apply kv_custom_roundtrip; auto.
  - intros io_text s H1 H2 H3. rewrite (io_prog_is_model lower tab lower_idem lower_strip lower_tl special pi I). apply io_custom_roundtrip; auto.
  - intros raw b c H. rewrite (kv_prog_is_model lower tab lower_idem lower_strip lower_tl pk K) in *. eapply kv_known_idempotent; eauto.
Qed.

(** I/O lines, for the members of the generated decay table: the text IODef.export writes for a member reads back as the decayed
    member (the documented I/O type decay), and parse + export reproduces that text *)
Theorem io_decay_fixpoint fold tab sp decay_tab special : io_decay_ok fold tab sp decay_tab special = true ->
  forall c d, In (c, d) decay_tab ->
  let text := io_type_text (io_text_of decay_tab special) (Known c) in
  spec_io fold tab sp text = (false, Known (io_decay_of decay_tab c)) /\
  io_type_text (io_text_of decay_tab special) (snd (spec_io fold tab sp text)) = text.
Proof.
  unfold io_decay_ok. intros H c d I. rewrite forallb_forall in H. specialize (H _ I). cbn [fst] in H.
  unfold io_member_ok in H. cbn [io_type_text].
  destruct (spec_io fold tab sp (io_text_of decay_tab special c)) as [b t] eqn:E.
  destruct b; try discriminate. destruct t as [k|]; try discriminate.
  apply andb_true_iff in H as [H1 H2]. apply tt_str_eqb_eq in H1, H2. subst k.
  split; [reflexivity|]. cbn [snd io_type_text]. exact H2.
Qed.
