(** Proofs about the SMD bone numbering (Fmt/SmdNumber.v). *)
From Coq Require Import List NArith Bool PeanoNat Lia Permutation.
Import ListNotations.
From SV Require Import Fmt.SmdNumber.
Open Scope N_scope.

Definition inv (idx : list (N * nat)) (names : list N) : Prop :=
  forall k i, lookup k idx = Some i -> nth_error names i = Some k.

Lemma inv_push : forall idx names k, inv idx names -> inv ((k, List.length names) :: idx) (names ++ [k]).
Proof.
  intros idx names k H k' i L. cbn [lookup] in L. destruct (k' =? k) eqn:E.
  - injection L as <-. apply N.eqb_eq in E. subst k'. rewrite nth_error_app2 by lia. rewrite Nat.sub_diag. reflexivity.
  - specialize (H k' i L). rewrite nth_error_app1; [exact H|]. apply nth_error_Some. rewrite H. discriminate.
Qed.

Lemma omap_app_nil : forall (x : option (list (N * option N))), option_map (app []) x = x.
Proof. intros [x|]; reflexivity. Qed.

Lemma omap_comp : forall (a b : list (N * option N)) x,
  option_map (app a) (option_map (app b) x) = option_map (app (a ++ b)) x.
Proof. intros a b [x|]; cbn; [rewrite app_assoc|]; reflexivity. Qed.

Lemma omap_cons : forall (e : N * option N) (a : list (N * option N)) x,
  option_map (cons e) (option_map (app a) x) = option_map (app (e :: a)) x.
Proof. intros e a [x|]; reflexivity. Qed.

(** one pass: the bones it numbers ([done], in order) and the ones it leaves are the bones it was given; the reader takes the
    lines of the pass and gives back exactly the records of [done] *)
Lemma pass_spec : forall todo idx next names rem idx' next' ls,
  next = List.length names -> inv idx names ->
  pass todo idx next = (rem, idx', next', ls) ->
  exists done,
    Permutation (done ++ rem) todo /\
    next' = List.length (names ++ map bkey done) /\ inv idx' (names ++ map bkey done) /\
    (List.length rem + List.length done = List.length todo)%nat /\
    forall tail, read_nodes names (ls ++ tail) =
                 option_map (app (map bone_rec done)) (read_nodes (names ++ map bkey done) tail).
Proof.
  induction todo as [|b r IH]; intros idx next names rem idx' next' ls Hn Hinv H; cbn [pass] in H.
  - injection H as <- <- <- <-. exists []. cbn [map app List.length]. rewrite app_nil_r.
    repeat split; try assumption; try reflexivity. intro tail. rewrite omap_app_nil. reflexivity.
  - destruct (ready idx b) as [pi|] eqn:R.
    + destruct (pass r ((bkey b, next) :: idx) (S next)) as [[[rem1 idx1] next1] ls1] eqn:P. injection H as <- <- <- <-.
      subst next.
      assert (Hlen : S (List.length names) = List.length (names ++ [bkey b])) by (rewrite app_length; cbn; lia).
      destruct (IH _ _ (names ++ [bkey b]) _ _ _ _ Hlen (inv_push idx names (bkey b) Hinv) P)
        as (done & Hp & Hn' & Hi' & Hl & Hr).
      exists (b :: done). cbn [map]. rewrite <- app_assoc in Hn', Hi', Hr. cbn [app] in Hn', Hi', Hr.
      split; [cbn [app]; constructor; exact Hp|]. split; [exact Hn'|]. split; [exact Hi'|]. split; [cbn [List.length]; lia|].
      intro tail. cbn [app read_nodes]. rewrite Nat.eqb_refl. cbn [negb].
      unfold ready in R. destruct (bpar b) as [p|] eqn:Bp.
      * destruct (lookup p idx) as [i|] eqn:L; [|discriminate]. injection R as <-.
        rewrite (Hinv p i L). rewrite Hr. rewrite omap_cons. unfold bone_rec at 2. rewrite Bp. reflexivity.
      * injection R as <-. rewrite Hr. rewrite omap_cons. unfold bone_rec at 2. rewrite Bp. reflexivity.
    + destruct (pass r idx next) as [[[rem1 idx1] next1] ls1] eqn:P. injection H as <- <- <- <-.
      destruct (IH _ _ names _ _ _ _ Hn Hinv P) as (done & Hp & Hn' & Hi' & Hl & Hr).
      exists done. split; [apply Permutation_sym, Permutation_cons_app, Permutation_sym; exact Hp|].
      split; [exact Hn'|]. split; [exact Hi'|]. split; [cbn [List.length]; lia|]. exact Hr.
Qed.

Lemma passes_spec : forall fuel todo idx next names ls,
  next = List.length names -> inv idx names ->
  passes fuel todo idx next = Some ls ->
  exists perm, Permutation perm todo /\
    forall tail, read_nodes names (ls ++ tail) =
                 option_map (app (map bone_rec perm)) (read_nodes (names ++ map bkey perm) tail).
Proof.
  induction fuel as [|f IH]; intros todo idx next names ls Hn Hinv H.
  - destruct todo; cbn [passes] in H; [|discriminate]. injection H as <-. exists []. split; [constructor|].
    intro tail. cbn [map app]. rewrite app_nil_r, omap_app_nil. reflexivity.
  - destruct todo as [|b r]; cbn [passes] in H.
    + injection H as <-. exists []. split; [constructor|]. intro tail. cbn [map app]. rewrite app_nil_r, omap_app_nil. reflexivity.
    + destruct (pass (b :: r) idx next) as [[[rem idx1] next1] ls1] eqn:P.
      destruct (Nat.eqb (List.length rem) (List.length (b :: r))); [discriminate|].
      destruct (passes f rem idx1 next1) as [ls2|] eqn:Q; [|discriminate]. cbn [option_map] in H. injection H as <-.
      destruct (pass_spec _ _ _ names _ _ _ _ Hn Hinv P) as (done & Hp & Hn' & Hi' & _ & Hr).
      destruct (IH _ _ _ (names ++ map bkey done) _ Hn' Hi' Q) as (perm2 & Hp2 & Hr2).
      exists (done ++ perm2). split.
      * eapply Permutation_trans; [apply Permutation_app_head; exact Hp2 | exact Hp].
      * intro tail. rewrite <- app_assoc. rewrite Hr, Hr2, omap_comp. rewrite !map_app, app_assoc. reflexivity.
Qed.

(** The nodes section reads back: whenever [Mesh.export] writes the section (no [ValueError]), the reader accepts every line
    (numbers consecutive from 0, every parent number defined by an earlier line) and returns, in file order, exactly the
    (name, parent name) records of the bones of [todo] -- each bone once, none invented, parents by NAME as in the mesh. *)
Theorem number_reads_back : forall bs ls, number bs = Some ls ->
  exists perm, Permutation perm (dedupe bs) /\ read_nodes [] ls = Some (map bone_rec perm).
Proof.
  intros bs ls H. unfold number in H.
  assert (I0 : inv [] []) by (intros k i E; discriminate E).
  destruct (passes_spec _ _ _ _ [] _ eq_refl I0 H) as (perm & Hp & Hr).
  exists perm. split; [exact Hp|]. specialize (Hr []). rewrite app_nil_r in Hr. rewrite Hr. cbn [read_nodes option_map].
    rewrite app_nil_r. reflexivity.
Qed.

(** with pairwise distinct keys (what the reader can represent: its result is keyed by the name) nothing is dropped *)
Lemma dedupe_aux_id : forall bs seen, NoDup (map bkey bs) -> (forall b, In b bs -> ~ In (bkey b) seen) -> dedupe_aux seen bs = bs.
Proof.
  induction bs as [|b r IH]; intros seen Hnd Hs; [reflexivity|]. cbn [dedupe_aux].
  destruct (existsb (N.eqb (bkey b)) seen) eqn:E.
  - apply existsb_exists in E. destruct E as (k & Hk & Ek). apply N.eqb_eq in Ek. subst k. exfalso. exact (Hs b (or_introl eq_refl) Hk).
  - f_equal. cbn [map] in Hnd. inversion Hnd as [|? ? Hnot Hnd']; subst. apply IH; [exact Hnd'|].
    intros b' Hb' [Hin|Hin]; [apply Hnot; rewrite Hin; apply in_map; exact Hb' | exact (Hs b' (or_intror Hb') Hin)].
Qed.

Theorem number_reads_back_distinct : forall bs ls, NoDup (map bkey bs) -> number bs = Some ls ->
  exists perm, Permutation perm bs /\ read_nodes [] ls = Some (map bone_rec perm).
Proof.
  intros bs ls Hnd H. destruct (number_reads_back bs ls H) as (perm & Hp & Hr). exists perm. split; [|exact Hr].
  unfold dedupe in Hp. rewrite dedupe_aux_id in Hp; [exact Hp | exact Hnd | intros b _ []].
Qed.

(** examples: children before parents in the dict, a cycle, a parent outside the mesh, and two bones under one key (the class of
    the case-folding comparison: the second bone and the distinction between the parents of "muzzle" are gone) *)
Example ex_children_first :
  number [mkBone 3 (Some 2); mkBone 2 (Some 1); mkBone 1 None] =
  Some [(0%nat, 1, None); (1%nat, 2, Some 0%nat); (2%nat, 3, Some 1%nat)].
Proof. reflexivity. Qed.
Example ex_same_pass : number [mkBone 1 None; mkBone 2 (Some 1); mkBone 3 (Some 2)] =
  Some [(0%nat, 1, None); (1%nat, 2, Some 0%nat); (2%nat, 3, Some 1%nat)].
Proof. reflexivity. Qed.
Example ex_cycle : number [mkBone 1 (Some 2); mkBone 2 (Some 1)] = None.
Proof. reflexivity. Qed.
Example ex_parent_outside : number [mkBone 1 None; mkBone 2 (Some 9)] = None.
Proof. reflexivity. Qed.
Theorem number_equal_keys_merge_refuted :
  number [mkBone 0 None; mkBone 1 (Some 0); mkBone 1 (Some 0); mkBone 3 (Some 1)] =
  Some [(0%nat, 0, None); (1%nat, 1, Some 0%nat); (2%nat, 3, Some 1%nat)] /\
  ~ NoDup (map bkey [mkBone 0 None; mkBone 1 (Some 0); mkBone 1 (Some 0); mkBone 3 (Some 1)]).
Proof.
  split; [reflexivity|]. intro H. cbn in H. inversion H as [|? ? _ H1]; subst. inversion H1 as [|? ? Hn _]; subst. apply Hn. left. reflexivity.
Qed.
