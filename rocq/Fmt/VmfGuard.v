(** C06, round 3: optional groups of displacement arrays (the multiblend arrays).  The writer emits the group only when a
    guard holds at some vertex; the reader leaves the vertex defaults when the blocks are absent.  Definitions only;
    proofs are in Fmt/VmfGuardProofs.v. *)
From Coq Require Import List String Bool.
Import ListNotations.
Open Scope string_scope.

(** The guard found in the source (translate/c06_prog.py): any(v.m for v in verts) -- some vertex has a truthy member m;
    any(v.m is not None for v in verts); anything else. *)
Inductive guardform := GAnyTruthy (m : string) | GAnyNotNone (m : string) | GOther.

Record optgroup := mk_optgroup {
  og_arrays : list (string * string);   (* block name written under the guard, vertex member it carries *)
  og_guard : guardform;
  og_falsy_default : list string;       (* members whose value in a freshly parsed vertex is falsy (DispVertex defaults) *)
  og_options : list string              (* export options and-ed to the guard *)
}.

Fixpoint assoc (k : string) (l : list (string * string)) : option string :=
  match l with [] => None | (a, b) :: r => if String.eqb a k then Some b else assoc k r end.

(** The group is written exactly when the member carried by its [primary] array is non-default somewhere. *)
Definition optgroup_ok (primary : string) (g : optgroup) : bool :=
  match og_guard g, assoc primary (og_arrays g) with
  | GAnyTruthy m, Some pm => String.eqb m pm && existsb (String.eqb m) (og_falsy_default g)
  | _, _ => false
  end.

(** Model: vertices of any type; [truthy m v] is Python's truth value of member m of v, [get m v] its content. *)
Section Group.
  Variable vert : Type.
  Variable val : Type.
  Variable get : string -> vert -> val.
  Variable truthy : string -> vert -> bool.
  Variable dflt : vert.                                  (* the vertex the reader allocates *)

  Definition export_group (m : string) (vs : list vert) : option (list vert) :=
    if existsb (truthy m) vs then Some vs else None.
  Definition parse_group (n : nat) (o : option (list vert)) : list vert :=
    match o with Some l => l | None => repeat dflt n end.
End Group.
