(** How the objects generated from bsp.py (Gen/BspFormats_gen.v: layout tables, reader/writer format sites per
    lump, static-prop record ladders, Ns guards, detail-prop dispatch) are interpreted, and the boolean
    obligations the check discharges about them.  Generic in the generated objects; no proofs here. *)
From Coq Require Import List String NArith Bool PeanoNat.
From SV Require Import Bin.LE Bin.Struct.
Import ListNotations.
Open Scope string_scope.
Open Scope list_scope.

Inductive site :=
| SLit (f : string)          (* a literal format string *)
| SKey (k : string)          (* self.lump_layout[k] *)
| SKeyNative (k : string).   (* self.lump_layout[k].format[1] * n : the element code without the "<" *)

(** name, applicability ("*", "VITAMIN", "!VITAMIN"), alternatives on the reading side, on the writing side *)
Definition stream := (string * string * list (list site) * list (list site))%type.

Fixpoint assoc {A} (k : string) (l : list (string * A)) : option A :=
  match l with
  | [] => None
  | (k', v) :: r => if String.eqb k k' then Some v else assoc k r
  end.

Definition drop1 (s : string) : string := match s with String _ r => r | EmptyString => EmptyString end.

Definition site_fmt (lay : list (string * string)) (s : site) : option fmt :=
  match s with
  | SLit f => parse_fmt f
  | SKey k => match assoc k lay with Some f => parse_fmt f | None => None end
  | SKeyNative k => match assoc k lay with Some f => parse_fmt (drop1 f) | None => None end
  end.

Fixpoint cat_opt (l : list (option fmt)) : option fmt :=
  match l with
  | [] => Some []
  | None :: _ => None
  | Some f :: r => match cat_opt r with Some g => Some (f ++ g) | None => None end
  end.
Definition alt_fmt (lay : list (string * string)) (a : list site) : option fmt := cat_opt (map (site_fmt lay) a).
Definition strs_fmt (l : list string) : option fmt := cat_opt (map parse_fmt l).

Definition applies (appl lname : string) : bool :=
  if String.eqb appl "*" then true
  else if String.eqb appl "VITAMIN" then String.eqb lname "VITAMIN"
  else if String.eqb appl "!VITAMIN" then negb (String.eqb lname "VITAMIN")
  else false.

Definition alt_is (lay : list (string * string)) (f0 : fmt) (a : list site) : bool :=
  match alt_fmt lay a with Some f => fmt_eqb f f0 | None => false end.

(** All alternatives on both sides have one and the same (well-formed) layout. *)
Definition stream_ok_in (lay : list (string * string)) (st : stream) : bool :=
  let '(_, _, ralts, walts) := st in
  match ralts, walts with
  | r0 :: _, _ :: _ =>
      match alt_fmt lay r0 with
      | Some f0 => wf_fmt f0 && forallb (alt_is lay f0) ralts && forallb (alt_is lay f0) walts
      | None => false
      end
  | _, _ => false
  end.

Definition stream_ok (layouts : list (string * list (string * string))) (st : stream) : bool :=
  let '(_, appl, _, _) := st in
  existsb (fun l => applies appl (fst l)) layouts &&
  forallb (fun l => if applies appl (fst l) then stream_ok_in (snd l) st else true) layouts.

Definition stream_named (n : string) (sts : list stream) : option stream :=
  find (fun st => let '(n', _, _, _) := st in String.eqb n n') sts.
Definition stream_ok_named (layouts : list (string * list (string * string))) (sts : list stream) (n : string) : bool :=
  match stream_named n sts with Some st => stream_ok layouts st | None => false end.

(** * Static prop records *)
Definition prop_ok (v : string * nat * list string * list string) : bool :=
  let '(_, size, rd, wr) := v in
  match strs_fmt rd, strs_fmt wr with
  | Some r, Some w => fmt_eqb r w && wf_fmt r && Nat.eqb (calcsize r) size
  | _, _ => false
  end.

Fixpoint strs_eqb (a b : list string) : bool :=
  match a, b with
  | [], [] => true
  | x :: a', y :: b' => String.eqb x y && strs_eqb a' b'
  | _, _ => false
  end.
Definition fields_ok (v : string * list string * list string) : bool :=
  let '(_, rd, wr) := v in strs_eqb rd wr && negb (Nat.eqb (List.length rd) 0).

(** * Overlay block: the writer emits n face indexes and 4*(count-n) pad bytes where the reader reads count ints *)
Definition int32 : kind := KInt true 4.
Definition overlay_writer_fmt (h t : fmt) (count n : nat) : fmt :=
  h ++ repeat int32 n ++ repeat KPad (4 * (count - n)) ++ t.
Definition overlay_reader_fmt (h t : fmt) (count : nat) : fmt := h ++ repeat int32 count ++ t.

Definition overlay_ok (reader head : string) (tail : list string) (count wmax rmax : nat) (faces : list (nat * string)) : bool :=
  match parse_fmt reader, parse_fmt head, strs_fmt tail with
  | Some r, Some h, Some t =>
      fmt_eqb r (overlay_reader_fmt h t count) && wf_fmt r && (wmax <=? count)%nat && (rmax <=? count)%nat &&
      strs_eqb (map (fun _ => "") faces) (map (fun _ => "") (seq 0 (S wmax))) &&
      forallb (fun p => match parse_fmt (snd p) with
                        | Some f => (fst p <=? wmax)%nat && fmt_eqb f (repeat int32 (fst p) ++ repeat KPad (4 * (count - fst p)))
                        | None => false
                        end) faces &&
      forallb (fun n => existsb (fun p => Nat.eqb (fst p) n) faces) (seq 0 (S wmax))
  | _, _, _ => false
  end.

(** * Ns pack sites *)
Definition ns_ok (s : string * nat * option (nat * nat)) : bool :=
  match s with
  | (_, width, Some (_, hi)) => (hi <=? width)%nat
  | (_, _, None) => false
  end.
(** For a NUL-terminated name field the guard must leave room for the terminator. *)
Definition ns_ok_cstring (s : string * nat * option (nat * nat)) : bool :=
  match s with
  | (_, width, Some (_, hi)) => (hi <? width)%nat
  | (_, _, None) => false
  end.

(** * Detail prop dispatch *)
Fixpoint is_anc (fuel : nat) (h : list (string * string)) (c d : string) : bool :=
  String.eqb c d ||
  match fuel with
  | O => false
  | S f => match assoc c h with
           | Some p => if String.eqb p "" then false else is_anc f h p d
           | None => false
           end
  end.
(** [isinstance(obj, d)] for an object whose class is exactly [c]. *)
Definition isinstance (h : list (string * string)) (c d : string) : bool := is_anc (List.length h) h c d.

Definition writer_branch (h : list (string * string)) (tests : list (string * list nat)) (c : string) : option (string * list nat) :=
  find (fun t => isinstance h c (fst t)) tests.

Fixpoint assoc_nat (k : nat) (l : list (nat * string)) : option string :=
  match l with
  | [] => None
  | (k', v) :: r => if Nat.eqb k k' then Some v else assoc_nat k r
  end.

Definition class_dispatch_ok (h : list (string * string)) (tests : list (string * list nat)) (rd : list (nat * string)) (c : string) : bool :=
  match writer_branch h tests c with
  | Some t' => String.eqb (fst t') c && negb (Nat.eqb (List.length (snd t')) 0) &&
               forallb (fun code => match assoc_nat code rd with Some c' => String.eqb c' c | None => false end) (snd t')
  | None => false
  end.

(** Every instantiable class (every class with a base) is dispatched to its own branch and its codes read back
    as that class. *)
Definition concrete (h : list (string * string)) : list string :=
  map fst (filter (fun cb => negb (String.eqb (snd cb) "")) h).
Definition dispatch_ok (h : list (string * string)) (tests : list (string * list nat)) (rd : list (nat * string)) : bool :=
  negb (Nat.eqb (List.length (concrete h)) 0) && forallb (class_dispatch_ok h tests rd) (concrete h).
