(* SceneSummary.v -- Entry.from_scene (choreo.py): the summary stored with a scene in scenes.image.
     duration_ms   = round(scene.duration() * 1000.0)
     last_speak_ms = round(scene.duration(EventType.Speak) * 1000.0)
     sounds        = sorted(set(scene.used_sounds()))
   Times of binary scenes are float32 values; value * 1000.0 is then exact in double arithmetic (24 + 10 bits), so
   round() is round-half-even of an exact rational.  A time is represented by the integer t with value t / 2^SCALE
   (every non-negative float32 below 2^100 is such a t).  Model and proofs (own file of C20). *)
From Coq Require Import List ZArith NArith Bool Lia Sorted Permutation.
Import ListNotations.

Definition SCALE : Z := 160.
Definition DEN : Z := 2 ^ SCALE.

(** Python round() of the exact rational n / d (d > 0): half to even *)
Definition rhe (n d : Z) : Z :=
  let q := (n / d)%Z in let r := (n mod d)%Z in
  if (2 * r <? d)%Z then q else if (d <? 2 * r)%Z then (q + 1)%Z else if Z.even q then q else (q + 1)%Z.
Definition ms (t : Z) : Z := rhe (1000 * t) DEN.

Record sev := mkSev {
  sv_kind : N;              (* EventType value *)
  sv_start : Z; sv_end : Z; (* scaled times *)
  sv_has_end : bool;        (* end_time != -1.0 *)
  sv_param0 : list N;
  sv_cctype : N;            (* CaptionType value: 0 Master, 1 Slave, 2 Disabled *)
  sv_cctoken : list N;
  sv_combined : bool
}.

Definition ev_time (e : sev) : Z := if sv_has_end e then sv_end e else sv_start e.
(** max(..., default=0.0); event times of the representable scenes are non-negative, so folding from 0 is the same *)
Definition duration (filter : option N) (evs : list sev) : Z :=
  fold_right (fun e acc => match filter with
                           | Some k => if (sv_kind e =? k)%N then Z.max (ev_time e) acc else acc
                           | None => Z.max (ev_time e) acc
                           end) 0%Z evs.

(** SpeakEvent.playback_caption *)
Definition caption (master slave : N) (e : sev) : list (list N) :=
  let tok := match sv_cctoken e with [] => sv_param0 e | t => t end in
  if (sv_cctype e =? master)%N then [tok]
  else if (sv_cctype e =? slave)%N then (if sv_combined e then [] else [tok])
  else [].
Definition used (speak master slave : N) (e : sev) : list (list N) :=
  if (sv_kind e =? speak)%N then sv_param0 e :: caption master slave e else [].

(** sorted(set(...)) of strings: code-point lexicographic order *)
Fixpoint str_ltb (a b : list N) : bool :=
  match a, b with
  | _, [] => false
  | [], _ :: _ => true
  | x :: a', y :: b' => (x <? y)%N || ((x =? y)%N && str_ltb a' b')
  end.
Fixpoint str_eqb (a b : list N) : bool :=
  match a, b with [], [] => true | x :: a', y :: b' => (x =? y)%N && str_eqb a' b' | _, _ => false end.
Fixpoint ins (s : list N) (l : list (list N)) : list (list N) :=
  match l with
  | [] => [s]
  | h :: t => if str_eqb s h then l else if str_ltb s h then s :: l else h :: ins s t
  end.
Definition sort_set (l : list (list N)) : list (list N) := fold_right ins [] l.

Definition summary_of (speak master slave : N) (evs : list sev) : Z * Z * list (list N) :=
  (ms (duration None evs), ms (duration (Some speak) evs), sort_set (flat_map (used speak master slave) evs)).

(* ------------------------------------------------------------------ *)
Lemma DEN_pos : (0 < DEN)%Z.
Proof. reflexivity. Qed.

Lemma rhe_mono n1 n2 d : (0 < d)%Z -> (n1 <= n2)%Z -> (rhe n1 d <= rhe n2 d)%Z.
Proof.
  intros Hd Hn. unfold rhe.
  pose proof (Z.div_mod n1 d ltac:(lia)) as E1. pose proof (Z.div_mod n2 d ltac:(lia)) as E2.
  pose proof (Z.mod_pos_bound n1 d Hd) as B1. pose proof (Z.mod_pos_bound n2 d Hd) as B2.
  pose proof (Z.div_le_mono n1 n2 d Hd Hn) as Q.
  set (q1 := (n1 / d)%Z) in *. set (q2 := (n2 / d)%Z) in *. set (r1 := (n1 mod d)%Z) in *. set (r2 := (n2 mod d)%Z) in *.
  assert (C : (q1 < q2)%Z \/ (q1 = q2 /\ r1 <= r2)%Z) by nia.
  destruct (Z.ltb_spec (2 * r1) d), (Z.ltb_spec (2 * r2) d), (Z.ltb_spec d (2 * r1)), (Z.ltb_spec d (2 * r2));
    destruct (Z.even q1) eqn:Ev1, (Z.even q2) eqn:Ev2; try lia;
    destruct C as [C | [C1 C2]]; try lia; try (subst q2; congruence).
Qed.

Lemma ms_mono a b : (a <= b)%Z -> (ms a <= ms b)%Z.
Proof. intros H. unfold ms. apply rhe_mono; [apply DEN_pos|lia]. Qed.

Lemma duration_filter_le k evs : (duration (Some k) evs <= duration None evs)%Z.
Proof.
  induction evs as [|e t IH]; cbn [duration fold_right]; [lia|].
  fold (duration (Some k) t) (duration None t). destruct (sv_kind e =? k)%N; lia.
Qed.

(** the last-speak time never exceeds the duration *)
Theorem last_speak_le_duration speak master slave evs :
  let '(d, l, _) := summary_of speak master slave evs in (l <= d)%Z.
Proof. cbn. apply ms_mono, duration_filter_le. Qed.

Lemma duration_nonneg f evs : (0 <= duration f evs)%Z.
Proof.
  induction evs as [|e t IH]; cbn [duration fold_right]; [lia|]. fold (duration f t).
  destruct f as [k|]; [destruct (sv_kind e =? k)%N|]; lia.
Qed.

(** the duration does not depend on the order of the events (events, then actors and their channels, in the code) *)
Lemma duration_perm f evs evs' : Permutation evs evs' -> duration f evs = duration f evs'.
Proof.
  induction 1 as [|x l l' _ IH|x y l|l l' l'' _ IH1 _ IH2]; cbn [duration fold_right].
  - reflexivity.
  - fold (duration f l) (duration f l'). rewrite IH. reflexivity.
  - fold (duration f l). destruct f as [k|]; [destruct (sv_kind x =? k)%N, (sv_kind y =? k)%N|]; lia.
  - congruence.
Qed.

Lemma str_eqb_eq a : forall b, str_eqb a b = true -> a = b.
Proof.
  induction a as [|x a IH]; intros [|y b]; cbn; try discriminate; [reflexivity|].
  intros H. apply andb_prop in H as [H1 H2]. apply N.eqb_eq in H1. f_equal; auto.
Qed.
Lemma str_eqb_refl a : str_eqb a a = true.
Proof. induction a as [|x a IH]; cbn; [reflexivity|]. rewrite N.eqb_refl, IH. reflexivity. Qed.

Lemma str_ltb_trans a : forall b c, str_ltb a b = true -> str_ltb b c = true -> str_ltb a c = true.
Proof.
  induction a as [|x a IH]; intros [|y b] [|z c]; cbn; try discriminate; try reflexivity.
  intros H1 H2. apply orb_true_iff in H1. apply orb_true_iff in H2. apply orb_true_iff.
  destruct H1 as [H1 | H1], H2 as [H2 | H2].
  - left. apply N.ltb_lt in H1, H2. apply N.ltb_lt. lia.
  - apply andb_prop in H2 as [E _]. apply N.eqb_eq in E. subst. left; exact H1.
  - apply andb_prop in H1 as [E _]. apply N.eqb_eq in E. subst. left; exact H2.
  - apply andb_prop in H1 as [E1 L1]. apply andb_prop in H2 as [E2 L2]. apply N.eqb_eq in E1, E2. subst.
    right. rewrite N.eqb_refl. cbn. eapply IH; eassumption.
Qed.

Lemma str_total a : forall b, str_eqb a b = false -> str_ltb a b = false -> str_ltb b a = true.
Proof.
  induction a as [|x a IH]; intros [|y b]; cbn; try discriminate; try reflexivity.
  intros He Hl. apply orb_false_iff in Hl as [L1 L2]. apply N.ltb_ge in L1.
  destruct (N.eqb_spec x y) as [->|Hne].
  - cbn in He, L2. rewrite N.eqb_refl. cbn. apply orb_true_iff. right. apply IH; assumption.
  - apply orb_true_iff. left. apply N.ltb_lt. lia.
Qed.

Definition str_lt (a b : list N) : Prop := str_ltb a b = true.

Lemma ins_In s l x : In x (ins s l) <-> x = s \/ In x l.
Proof.
  induction l as [|h t IH]; cbn [ins].
  - cbn. intuition.
  - destruct (str_eqb s h) eqn:E.
    + apply str_eqb_eq in E. subst. cbn. intuition.
    + destruct (str_ltb s h); cbn [In]; [intuition|]. rewrite IH. intuition.
Qed.

Lemma ins_sorted s l : StronglySorted str_lt l -> StronglySorted str_lt (ins s l).
Proof.
  induction 1 as [|h t Hs IH Hh]; cbn [ins]; [repeat constructor|].
  destruct (str_eqb s h) eqn:E; [constructor; assumption|].
  destruct (str_ltb s h) eqn:L.
  - constructor; [constructor; assumption|]. constructor; [exact L|].
    eapply Forall_impl; [|exact Hh]. intros a Ha. eapply str_ltb_trans; [exact L|exact Ha].
  - constructor; [exact IH|]. rewrite Forall_forall. intros x Hx. apply ins_In in Hx as [->|Hx].
    + apply str_total; assumption.
    + rewrite Forall_forall in Hh. apply Hh, Hx.
Qed.

(** sounds: strictly increasing (so duplicate-free) and exactly the sounds used *)
Theorem sort_set_sorted l : StronglySorted str_lt (sort_set l).
Proof. induction l as [|s t IH]; [constructor|]. cbn [sort_set fold_right]. apply ins_sorted, IH. Qed.
Theorem sort_set_In l x : In x (sort_set l) <-> In x l.
Proof.
  induction l as [|s t IH]; [reflexivity|]. cbn [sort_set fold_right In]. fold (sort_set t). rewrite ins_In, IH. intuition.
Qed.

(** two strictly sorted lists with the same members are equal: the sounds do not depend on the order of the events *)
Lemma str_lt_irrefl a : ~ str_lt a a.
Proof.
  unfold str_lt. induction a as [|x a IH]; cbn; [discriminate|]. rewrite N.ltb_irrefl, N.eqb_refl. cbn. exact IH.
Qed.
Lemma sorted_same_members_eq : forall l1 l2, StronglySorted str_lt l1 -> StronglySorted str_lt l2 ->
  (forall x, In x l1 <-> In x l2) -> l1 = l2.
Proof.
  induction l1 as [|a l1 IH]; intros [|b l2] S1 S2 H.
  - reflexivity.
  - exfalso. apply (proj2 (H b)). left; reflexivity.
  - exfalso. apply (proj1 (H a)). left; reflexivity.
  - inversion S1 as [|? ? S1' F1]; subst. inversion S2 as [|? ? S2' F2]; subst.
    rewrite Forall_forall in F1, F2.
    assert (a = b).
    { destruct (proj1 (H a) (or_introl eq_refl)) as [E|Ia]; [symmetry; exact E|].
      destruct (proj2 (H b) (or_introl eq_refl)) as [E|Ib]; [exact E|].
      exfalso. apply (str_lt_irrefl a). eapply str_ltb_trans; [apply F1, Ib|apply F2, Ia]. }
    subst b. f_equal. apply IH; try assumption. intros x. split; intros Hx.
    + destruct (proj1 (H x) (or_intror Hx)) as [E|Hx']; [|exact Hx']. subst x. exfalso. apply (str_lt_irrefl a), F1, Hx.
    + destruct (proj2 (H x) (or_intror Hx)) as [E|Hx']; [|exact Hx']. subst x. exfalso. apply (str_lt_irrefl a), F2, Hx.
Qed.

Theorem summary_order_independent speak master slave evs evs' : Permutation evs evs' ->
  summary_of speak master slave evs = summary_of speak master slave evs'.
Proof.
  intros P. unfold summary_of. rewrite (duration_perm None _ _ P), (duration_perm (Some speak) _ _ P). f_equal.
  apply sorted_same_members_eq; try apply sort_set_sorted.
  intros x. rewrite !sort_set_In, !in_flat_map. split; intros (e & He & Hx); exists e; split; try exact Hx.
  - eapply Permutation_in; eassumption.
  - eapply Permutation_in; [apply Permutation_sym|]; eassumption.
Qed.

(** non-vacuity / examples: 1.0005 s rounds half to even (1000.5 -> 1000), 0.0015 s -> 2 ms would need 1.5 -> 2 *)
Example ex_round : rhe 2001 2 = 1000%Z /\ rhe 3 2 = 2%Z /\ rhe 5 2 = 2%Z /\ rhe 7 4 = 2%Z.
Proof. repeat split. Qed.
