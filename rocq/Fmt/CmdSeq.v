(** Hammer command sequences (srctools/cmdseq.py): executable model of [write] and [parse].

    Bytes and characters are [N]; a file is a [list N].  The model is parameterised by a configuration record
    [cfg] whose instance [gen_cfg] is regenerated from cmdseq.py on every run (Gen/CmdSeqFmt_gen.v): header bytes,
    both struct formats (native alignment, codes B / i / <n>s), field widths used by pad_string, the float32 bit
    pattern of the version tag and the reader's threshold, the SpecialCommand table.

    Python facts modelled:  [pad_string] raises if the text is longer than the field or not ASCII; [strip_cstring]
    cuts at the first NUL and raises on a non-ASCII byte before it; [struct] packs an [<n>s] field by padding with
    NULs (the writer always passes exactly n bytes); native mode aligns [i] to 4 bytes with zero padding and adds no
    trailing padding; [SpecialCommand(v)] raises for a value outside the enum; the result of [parse] is a dict, so a
    repeated sequence name overwrites the earlier value but keeps its position; every exception is [None] here. *)
From Coq Require Import List NArith ZArith Bool Arith Lia.
Import ListNotations.
Open Scope N_scope.

(** ** struct formats *)
Inductive fld := FB | FI | FS (n : nat).
Inductive val := VB (b : N) | VI (i : N) | VS (s : list N).

Definition le32 (n : N) : list N :=
  [n mod 256; (n / 256) mod 256; (n / 65536) mod 256; (n / 16777216) mod 256].
Definition de32 (a b c d : N) : N := a + 256 * b + 65536 * c + 16777216 * d.

(** padding needed before a 4-aligned field at offset [off] *)
Definition pad4 (off : nat) : nat := (4 - off mod 4) mod 4.
Definition zeros (k : nat) : list N := repeat 0 k.

(** [pack off fmt vals]: bytes of the record whose first byte is at offset [off] (None = struct.error / arity) *)
Fixpoint pack (off : nat) (fmt : list fld) (vals : list val) : option (list N) :=
  match fmt, vals with
  | [], [] => Some []
  | FB :: fmt', VB b :: vals' =>
      if b <? 256 then option_map (fun r => b :: r) (pack (off + 1) fmt' vals') else None
  | FI :: fmt', VI i :: vals' =>
      if i <? 4294967296
      then option_map (fun r => zeros (pad4 off) ++ le32 i ++ r) (pack (off + pad4 off + 4) fmt' vals')
      else None
  | FS n :: fmt', VS s :: vals' =>
      if (length s =? n)%nat then option_map (fun r => s ++ r) (pack (off + n) fmt' vals') else None
  | _, _ => None
  end.

(** readers over the remaining input *)
Definition rd_bytes (n : nat) (inp : list N) : option (list N * list N) :=
  if (n <=? length inp)%nat then Some (firstn n inp, skipn n inp) else None.

Definition rd_u32 (inp : list N) : option (N * list N) :=
  match inp with
  | a :: b :: c :: d :: r => Some (de32 a b c d, r)
  | _ => None
  end.

Fixpoint unpack (off : nat) (fmt : list fld) (inp : list N) : option (list val * list N) :=
  match fmt with
  | [] => Some ([], inp)
  | FB :: fmt' =>
      match inp with
      | b :: r => match unpack (off + 1) fmt' r with Some (vs, r') => Some (VB b :: vs, r') | None => None end
      | [] => None
      end
  | FI :: fmt' =>
      match rd_bytes (pad4 off) inp with
      | Some (_, r0) =>
          match rd_u32 r0 with
          | Some (i, r) => match unpack (off + pad4 off + 4) fmt' r with Some (vs, r') => Some (VI i :: vs, r') | None => None end
          | None => None
          end
      | None => None
      end
  | FS n :: fmt' =>
      match rd_bytes n inp with
      | Some (s, r) => match unpack (off + n) fmt' r with Some (vs, r') => Some (VS s :: vs, r') | None => None end
      | None => None
      end
  end.

(** ** strings *)
Definition asciib (s : list N) : bool := forallb (fun c => c <? 128) s.

Definition pad_string (s : list N) (w : nat) : option (list N) :=
  if (length s <=? w)%nat && asciib s then Some (s ++ zeros (w - length s)) else None.

Fixpoint upto_nul (s : list N) : list N :=
  match s with
  | [] => []
  | c :: r => if c =? 0 then [] else c :: upto_nul r
  end.

Definition strip_cstring (s : list N) : option (list N) :=
  let p := upto_nul s in if asciib p then Some p else None.

(** ** configuration (generated) *)
Record cfg := {
  c_header : list N;
  c_version_bits : N;          (* float32 bit pattern written as the version tag *)
  c_thr_num : Z; c_thr_log2den : Z; c_thr_strict : bool;   (* reader: version < num / 2^log2den  (or <=) selects the old struct *)
  c_name_w : nat;
  c_fmt_v2 : list fld; c_fmt_v1 : list fld;
  c_exe_w : nat; c_args_w : nat; c_ens_w : nat;
  c_specials : list (N * list N)     (* SpecialCommand value -> display name written into the exe field *)
}.

(** float32 bit pattern compared with the positive dyadic rational num / 2^k, exactly as the double comparison
    [version < thr] does (float32 -> double conversion is exact; NaN compares false). *)
Definition f32_below (bits : N) (num k : Z) (strict : bool) : bool :=
  let s := N.testbit bits 31 in
  let e := Z.of_N ((bits / 8388608) mod 256) in
  let m := Z.of_N (bits mod 8388608) in
  if (e =? 255)%Z then (if (m =? 0)%Z then s else false)
  else if s then true
  else
    let M := (if (e =? 0)%Z then m else 8388608 + m)%Z in
    let E := (if (e =? 0)%Z then -149 else e - 150)%Z in
    let sh := (E + k)%Z in
    let cmp := fun a b => if strict then (a <? b)%Z else (a <=? b)%Z in
    if (0 <=? sh)%Z then cmp (M * 2 ^ sh)%Z num else cmp M (num * 2 ^ (- sh))%Z.

(** ** values *)
Inductive exe_t := ExeStr (s : list N) | ExeSpecial (v : N).
Record cmd := mkCmd {
  exe : exe_t; args : list N; enabled : bool; ensure_file : option (list N); use_proc_win : bool; no_wait : bool }.
Definition seqs := list (list N * list cmd).

Definition b2n (b : bool) : N := if b then 1 else 0.
Definition n2b (n : N) : bool := negb (n =? 0).

Fixpoint lookup (k : N) (l : list (N * list N)) : option (list N) :=
  match l with
  | [] => None
  | (k', v) :: r => if k =? k' then Some v else lookup k r
  end.

Definition obind {A B} (o : option A) (f : A -> option B) : option B := match o with Some a => f a | None => None end.
Notation "x <- o ;; k" := (obind o (fun x => k)) (at level 61, o at next level, right associativity).

(** ** writer *)
Definition write_cmd (c : cfg) (x : cmd) : option (list N) :=
  se <- (match exe x with
         | ExeSpecial v => option_map (fun nm => (v, nm)) (lookup v (c_specials c))
         | ExeStr s => Some (0, s)
         end) ;;
  exe_p <- pad_string (snd se) (c_exe_w c) ;;
  args_p <- pad_string (args x) (c_args_w c) ;;
  ens <- (match ensure_file x with
          | Some e => option_map (fun p => (1, p)) (pad_string e (c_ens_w c))
          | None => Some (0, zeros (c_ens_w c))
          end) ;;
  pack 0 (c_fmt_v2 c)
    [VB (b2n (enabled x)); VI (fst se); VS exe_p; VS args_p; VI 1; VI (fst ens); VS (snd ens);
     VI (b2n (use_proc_win x)); VI (b2n (no_wait x))].

Fixpoint write_cmds (c : cfg) (l : list cmd) : option (list N) :=
  match l with
  | [] => Some []
  | x :: r => b <- write_cmd c x ;; br <- write_cmds c r ;; Some (b ++ br)
  end.

Definition lenN {A} (l : list A) : N := N.of_nat (length l).

Fixpoint write_seqs (c : cfg) (l : seqs) : option (list N) :=
  match l with
  | [] => Some []
  | (name, cmds) :: r =>
      np <- pad_string name (c_name_w c) ;;
      u <- (if lenN cmds <? 4294967296 then Some tt else None) ;;
      bc <- write_cmds c cmds ;;
      br <- write_seqs c r ;;
      Some (np ++ le32 (lenN cmds) ++ bc ++ br)
  end.

Definition write (c : cfg) (v : seqs) : option (list N) :=
  u <- (if lenN v <? 4294967296 then Some tt else None) ;;
  b <- write_seqs c v ;;
  Some (c_header c ++ le32 (c_version_bits c) ++ le32 (lenN v) ++ b).

(** ** reader *)
Definition parse_cmd (c : cfg) (fmt : list fld) (inp : list N) : option (cmd * list N) :=
  r <- unpack 0 fmt inp ;;
  match fst r with
  | VB en :: VI sp :: VS ex :: VS ar :: VI _ :: VI chk :: VS ens :: VI pw :: rest =>
      nw <- (match rest with [] => Some 0 | [VI n] => Some n | _ => None end) ;;
      e <- (if sp =? 0 then option_map ExeStr (strip_cstring ex)
            else match lookup sp (c_specials c) with Some _ => Some (ExeSpecial sp) | None => None end) ;;
      en_f <- (if chk =? 0 then Some None else option_map Some (strip_cstring ens)) ;;
      a <- strip_cstring ar ;;
      Some (mkCmd e a (n2b en) en_f (n2b pw) (n2b nw), snd r)
  | _ => None
  end.

(** [cnt] records, with fuel (every record consumes at least one byte) *)
Fixpoint parse_cmds (fuel : nat) (c : cfg) (fmt : list fld) (cnt : N) (inp : list N) : option (list cmd * list N) :=
  if cnt =? 0 then Some ([], inp) else
  match fuel with
  | O => None
  | S f =>
      r <- parse_cmd c fmt inp ;;
      rs <- parse_cmds f c fmt (cnt - 1) (snd r) ;;
      Some (fst r :: fst rs, snd rs)
  end.

Fixpoint parse_seqs (fuel : nat) (c : cfg) (fmt : list fld) (cnt : N) (inp : list N) : option (seqs * list N) :=
  if cnt =? 0 then Some ([], inp) else
  match fuel with
  | O => None
  | S f =>
      nm <- rd_bytes (c_name_w c) inp ;;
      name <- strip_cstring (fst nm) ;;
      k <- rd_u32 (snd nm) ;;
      cs <- parse_cmds (S (length inp)) c fmt (fst k) (snd k) ;;
      rs <- parse_seqs f c fmt (cnt - 1) (snd cs) ;;
      Some ((name, fst cs) :: fst rs, snd rs)
  end.

Fixpoint str_eqb (a b : list N) : bool :=
  match a, b with
  | [], [] => true
  | x :: a', y :: b' => (x =? y) && str_eqb a' b'
  | _, _ => false
  end.

(** Python dict insertion: overwrite in place or append *)
Fixpoint dict_set (k : list N) (v : list cmd) (d : seqs) : seqs :=
  match d with
  | [] => [(k, v)]
  | (k', v') :: r => if str_eqb k k' then (k', v) :: r else (k', v') :: dict_set k v r
  end.
Definition dict_of (l : seqs) : seqs := fold_left (fun d kv => dict_set (fst kv) (snd kv) d) l [].

Definition parse (c : cfg) (inp : list N) : option seqs :=
  h <- rd_bytes (length (c_header c)) inp ;;
  u <- (if str_eqb (fst h) (c_header c) then Some tt else None) ;;
  v <- rd_u32 (snd h) ;;
  let fmt := if f32_below (fst v) (c_thr_num c) (c_thr_log2den c) (c_thr_strict c) then c_fmt_v1 c else c_fmt_v2 c in
  n <- rd_u32 (snd v) ;;
  r <- parse_seqs (S (length inp)) c fmt (fst n) (snd n) ;;
  Some (dict_of (fst r)).

(** ** representability and the configuration obligations (boolean, evaluated by the kernel on [gen_cfg]) *)
Definition str_okb (w : nat) (s : list N) : bool :=
  (length s <=? w)%nat && forallb (fun c => (0 <? c) && (c <? 128)) s.

Definition cmd_okb (c : cfg) (x : cmd) : bool :=
  (match exe x with
   | ExeStr s => str_okb (c_exe_w c) s
   | ExeSpecial v => match lookup v (c_specials c) with Some _ => true | None => false end
   end)
  && str_okb (c_args_w c) (args x)
  && (match ensure_file x with Some e => str_okb (c_ens_w c) e | None => true end).

Fixpoint nodupb (l : list (list N)) : bool :=
  match l with
  | [] => true
  | x :: r => negb (existsb (str_eqb x) r) && nodupb r
  end.

Definition repr_okb (c : cfg) (v : seqs) : bool :=
  (lenN v <? 4294967296)
  && forallb (fun s => str_okb (c_name_w c) (fst s) && (lenN (snd s) <? 4294967296) && forallb (cmd_okb c) (snd s)) v
  && nodupb (map fst v).

Definition fld_eqb (a b : fld) : bool :=
  match a, b with
  | FB, FB | FI, FI => true
  | FS n, FS m => (n =? m)%nat
  | _, _ => false
  end.
Fixpoint fmt_eqb (a b : list fld) : bool :=
  match a, b with
  | [], [] => true
  | x :: a', y :: b' => fld_eqb x y && fmt_eqb a' b'
  | _, _ => false
  end.

(** the record layout the model's writer fills in: B i <exe>s <args>s i i <ens>s i i *)
Definition fmt_v2_shape (c : cfg) : bool :=
  fmt_eqb (c_fmt_v2 c) [FB; FI; FS (c_exe_w c); FS (c_args_w c); FI; FI; FS (c_ens_w c); FI; FI].

Definition specials_okb (c : cfg) : bool :=
  forallb (fun kv => negb (fst kv =? 0) && (fst kv <? 4294967296) && str_okb (c_exe_w c) (snd kv)) (c_specials c).

Definition version_selects_v2 (c : cfg) : bool :=
  (c_version_bits c <? 4294967296)
  && negb (f32_below (c_version_bits c) (c_thr_num c) (c_thr_log2den c) (c_thr_strict c)).

Definition cfg_okb (c : cfg) : bool := fmt_v2_shape c && specials_okb c && version_selects_v2 c.
