(** C16 — the entity keyword round trip (Fmt/FgdKindKw.v). *)
From Coq Require Import List NArith Arith Bool.
From SV Require Import Fmt.FgdLine Fmt.FgdKindKw Fmt.FgdTypeText Fmt.FgdTypeTextProofs.
Import ListNotations.
Open Scope N_scope.

Lemma kw_eqb_eq a b : kw_eqb a b = true -> a = b.
Proof. destruct a, b; cbn; try discriminate; intros H; try (apply tt_str_eqb_eq in H; subst); reflexivity. Qed.

(** for every list of directives, kinds and writer operations that passes the (computed) obligation, every kind of the list is
    written as a keyword that the top-level dispatch reads back as that kind — never as a directive, never as an error *)
Theorem kind_keyword_roundtrip folded directives kinds ops :
  kinds_read_back folded directives kinds ops = true ->
  forall v, In v kinds -> kw_dispatch folded directives kinds (kind_written ops v) = KKind v.
Proof.
  unfold kinds_read_back. intros H v I. rewrite forallb_forall in H. apply kw_eqb_eq. apply H. exact I.
Qed.
