(* ScenesImageCfgProofs.v -- the configured scenes.image writer is the hand model; sort site; pool order. *)
From Coq Require Import List NArith ZArith Lia Bool Arith Sorted Permutation.
From SV Require Import Fmt.ScenesImage Fmt.ScenesImageProofs Fmt.ScenesImageCfg.
Import ListNotations.
Local Open Scope N_scope.

(* ------------------------------------------------------------------ *)
(** * Decidable equalities are sound *)

Lemma eattr_eqb_eq a b : eattr_eqb a b = true -> a = b.
Proof. destruct a, b; cbn; congruence. Qed.
Lemma hsrc_eqb_eq a b : hsrc_eqb a b = true -> a = b.
Proof. destruct a, b; cbn; congruence. Qed.
Lemma esrc_eqb_eq a b : esrc_eqb a b = true -> a = b.
Proof. destruct a, b; cbn; try congruence. intros H; apply eattr_eqb_eq in H; congruence. Qed.
Lemma ssrc_eqb_eq a b : ssrc_eqb a b = true -> a = b.
Proof. destruct a, b; cbn; try congruence. intros H; apply eattr_eqb_eq in H; congruence. Qed.
Lemma sndsrc_eqb_eq a b : sndsrc_eqb a b = true -> a = b.
Proof. destruct a, b; cbn; congruence. Qed.
Lemma sortkey_eqb_eq a b : sortkey_eqb a b = true -> a = b.
Proof. destruct a, b; cbn; try congruence. intros H; apply eattr_eqb_eq in H; congruence. Qed.
Lemma sfld_eqb_eq a b : sfld_eqb a b = true -> a = b.
Proof. destruct a, b; cbn; try congruence. intros H; apply Nat.eqb_eq in H; congruence. Qed.
Lemma bytes_eqb_eq a : forall b, bytes_eqb a b = true -> a = b.
Proof.
  induction a as [|x a IH]; intros [|y b]; cbn; try congruence.
  intros H. apply andb_prop in H as [H1 H2]. apply N.eqb_eq in H1. f_equal; auto.
Qed.
Lemma bytes_eqb_refl a : bytes_eqb a a = true.
Proof. induction a as [|x a IH]; cbn; [reflexivity|]. rewrite N.eqb_refl, IH. reflexivity. Qed.

(* ------------------------------------------------------------------ *)
(** * struct.pack over an accepted format *)

Definition fits (k0 : sfld) (v : fval) : Prop :=
  match k0, v with
  | SU, VN n => n < 4294967296 | SI, VN n => n < 2147483648 | SS w, VB b => length b = w | _, _ => False
  end.
Definition enc (v : fval) : list N := match v with VN n => le32 n | VB b => b end.

Lemma pack_one_ok k k0 v : accepts k k0 = true -> fits k0 v -> pack_one k v = Some (enc v).
Proof.
  destruct k0 as [| |w0], k as [| |w], v as [n|b]; cbn; try discriminate; try contradiction; intros Ha H.
  - destruct (N.ltb_spec n 4294967296); [reflexivity|lia].
  - destruct (N.ltb_spec n 4294967296); [reflexivity|lia].
  - destruct (N.ltb_spec n 2147483648); [reflexivity|lia].
  - apply Nat.eqb_eq in Ha. subst w. rewrite H, Nat.eqb_refl. reflexivity.
Qed.

Lemma pack_fields_ok {S : Type} (eqb : S -> S -> bool) (val : S -> option fval) :
  (forall a b, eqb a b = true -> a = b) ->
  forall l l0 vals, accepts_list eqb l l0 = true ->
    Forall2 (fun p v => val (snd p) = Some v /\ fits (fst p) v) l0 vals ->
    pack_fields val l = Some (flat_map enc vals).
Proof.
  intros Heq. induction l as [|[k s] t IH]; intros [|[k0 s0] t0] vals Ha HF; cbn in Ha; try discriminate.
  - inversion HF; reflexivity.
  - apply andb_prop in Ha as [Ha Ht]. apply andb_prop in Ha as [Hk Hs]. apply Heq in Hs; subst s0.
    inversion HF as [|p v l' vs [Hv Hf] HF']; subst. cbn [fst snd] in *.
    cbn [pack_fields flat_map]. rewrite Hv, (pack_one_ok _ _ _ Hk Hf), (IH _ _ Ht HF'). reflexivity.
Qed.

Lemma accepts_size k k0 : accepts k k0 = true -> fld_size k = fld_size k0.
Proof.
  destruct k0, k; cbn; try discriminate; try reflexivity. intros H; apply Nat.eqb_eq in H; subst; reflexivity.
Qed.

Lemma accepts_list_size {S : Type} (eqb : S -> S -> bool) :
  forall l l0, accepts_list eqb l l0 = true -> fmt_size l = fmt_size l0.
Proof.
  induction l as [|[k s] t IH]; intros [|[k0 s0] t0] Ha; cbn in Ha; try discriminate; [reflexivity|].
  apply andb_prop in Ha as [Ha Ht]. apply andb_prop in Ha as [Hk _].
  cbn [fmt_size fold_right fst]. fold (fmt_size t) (fmt_size t0). rewrite (accepts_size _ _ Hk), (IH _ Ht). reflexivity.
Qed.

Lemma concatM_ok {A : Type} (f : A -> option (list N)) (g : A -> list N) (P : A -> Prop) :
  (forall a, P a -> f a = Some (g a)) -> forall l, Forall P l -> concatM f l = Some (flat_map g l).
Proof.
  intros H. induction 1 as [|a l Ha _ IH]; cbn [concatM flat_map]; [reflexivity|].
  rewrite (H _ Ha), IH. reflexivity.
Qed.

(* ------------------------------------------------------------------ *)
(** * Splitting the obligations *)

Lemma icfg_okb_split c : icfg_okb c = true ->
  magic_okb c = true /\ hdr_okb c = true /\ ent_okb c = true /\ sum_okb c = true /\ snd_okb c = true /\
  pooloff_okb c = true /\ version_okb c = true /\ sort_table_okb c = true /\ sort_pool_okb c = true /\ flags_okb c = true.
Proof. unfold icfg_okb. rewrite !andb_true_iff. tauto. Qed.

Lemma long_version_w c : icfg_okb c = true -> ic_long_version_w c = 3.
Proof.
  intros H. apply icfg_okb_split in H as (_ & _ & _ & _ & _ & _ & H & _).
  unfold version_okb in H. rewrite !andb_true_iff in H. destruct H as [[H _] _]. apply N.eqb_eq in H. exact H.
Qed.

Lemma table_sorts c : icfg_okb c = true -> ic_sort_dict c = SKAttr ACrc /\ ic_sort_iter c = SKAttr ACrc.
Proof.
  intros H. apply icfg_okb_split in H as (_ & _ & _ & _ & _ & _ & _ & H & _).
  unfold sort_table_okb in H. rewrite !andb_true_iff in H. destruct H as [[H1 H2] H3].
  apply eattr_eqb_eq in H3. rewrite H3 in *. split; apply sortkey_eqb_eq; assumption.
Qed.

Lemma pool_sorts c : icfg_okb c = true -> ic_pool_sort_dict c = SKAttr ACrc /\ ic_pool_sort_iter c = SKAttr ACrc.
Proof.
  intros H. apply icfg_okb_split in H as (_ & _ & _ & _ & _ & _ & _ & _ & H & _).
  unfold sort_pool_okb in H. rewrite !andb_true_iff in H. destruct H as [H1 H2].
  split; apply sortkey_eqb_eq; assumption.
Qed.

(* ------------------------------------------------------------------ *)
(** * The generic sort *)

Lemma insert_by_crc e l : insert_by e_crc e l = insert_crc e l.
Proof. induction l as [|h t IH]; cbn [insert_by insert_crc]; [reflexivity|]. rewrite IH. reflexivity. Qed.

Lemma sort_by_crc_eq es : sort_by e_crc es = sort_by_crc es.
Proof.
  induction es as [|e t IH]; [reflexivity|]. cbn [sort_by sort_by_crc fold_right].
  fold (sort_by e_crc t) (sort_by_crc t). rewrite IH. apply insert_by_crc.
Qed.

Section Sort.
  Context {A : Type} (key : A -> N).
  Definition key_le (a b : A) : Prop := key a <= key b.

  Lemma insert_by_perm x l : Permutation (x :: l) (insert_by key x l).
  Proof.
    induction l as [|h t IH]; cbn [insert_by]; [apply Permutation_refl|].
    destruct (key x <=? key h); [apply Permutation_refl|].
    eapply perm_trans; [apply perm_swap|]. apply perm_skip. exact IH.
  Qed.

  Lemma sort_by_perm l : Permutation l (sort_by key l).
  Proof.
    induction l as [|x t IH]; [apply perm_nil|]. cbn [sort_by fold_right].
    eapply perm_trans; [apply perm_skip; exact IH|]. apply insert_by_perm.
  Qed.

  Lemma insert_by_sorted x l : StronglySorted key_le l -> StronglySorted key_le (insert_by key x l).
  Proof.
    induction 1 as [|h t Hs IH Hh]; cbn [insert_by].
    - constructor; constructor.
    - destruct (N.leb_spec (key x) (key h)) as [Hle|Hlt].
      + constructor; [constructor; assumption|]. constructor; [exact Hle|].
        eapply Forall_impl; [|exact Hh]. unfold key_le. intros a Ha. lia.
      + constructor; [exact IH|].
        eapply Permutation_Forall; [apply insert_by_perm|]. constructor; [unfold key_le; lia|exact Hh].
  Qed.

  Lemma sort_by_sorted l : StronglySorted key_le (sort_by key l).
  Proof. induction l as [|x t IH]; [constructor|]. cbn [sort_by fold_right]. apply insert_by_sorted. exact IH. Qed.

  (** two sorted lists with the same distinct keys are the same list *)
  Lemma sorted_perm_unique : forall l1 l2, StronglySorted key_le l1 -> StronglySorted key_le l2 ->
    NoDup (map key l1) -> Permutation l1 l2 -> l1 = l2.
  Proof.
    induction l1 as [|a l1 IH]; intros l2 S1 S2 ND P.
    - apply Permutation_nil in P. subst. reflexivity.
    - destruct l2 as [|b l2]; [apply Permutation_sym, Permutation_nil in P; discriminate|].
      inversion S1 as [|? ? S1' F1]; subst. inversion S2 as [|? ? S2' F2]; subst.
      cbn [map] in ND. inversion ND as [|? ? Hnin ND']; subst.
      assert (Hab : a = b).
      { assert (Ia : In a (b :: l2)) by (eapply Permutation_in; [exact P|left; reflexivity]).
        assert (Ib : In b (a :: l1)) by (eapply Permutation_in; [apply Permutation_sym; exact P|left; reflexivity]).
        destruct Ia as [E|Ia]; [symmetry; exact E|]. destruct Ib as [E|Ib]; [exact E|].
        rewrite Forall_forall in F1, F2. pose proof (F1 _ Ib) as L1. pose proof (F2 _ Ia) as L2.
        unfold key_le in *. assert (K : key a = key b) by lia.
        exfalso. apply Hnin. rewrite K. apply in_map. exact Ib. }
      subst b. f_equal. apply IH; try assumption. eapply Permutation_cons_inv; exact P.
  Qed.

  Lemma sort_by_perm_unique l1 l2 : Permutation l1 l2 -> NoDup (map key l1) -> sort_by key l1 = sort_by key l2.
  Proof.
    intros P ND. apply sorted_perm_unique; try apply sort_by_sorted.
    - eapply Permutation_NoDup; [|exact ND]. apply Permutation_map, sort_by_perm.
    - eapply perm_trans; [apply Permutation_sym, sort_by_perm|]. eapply perm_trans; [exact P|apply sort_by_perm].
  Qed.

  Lemma sort_by_keys_sorted l : StronglySorted N.le (map key (sort_by key l)).
  Proof. apply StronglySorted_map. apply sort_by_sorted. Qed.
End Sort.

Lemma sort_by_map {A B : Type} (f : A -> B) (kb : B -> N) (ka : A -> N) :
  (forall a, kb (f a) = ka a) -> forall l, sort_by kb (map f l) = map f (sort_by ka l).
Proof.
  intros H. induction l as [|x t IH]; [reflexivity|]. cbn [map sort_by fold_right].
  fold (sort_by kb (map f t)) (sort_by ka t). rewrite IH. clear IH.
  induction (sort_by ka t) as [|h r IH]; cbn [map insert_by]; [reflexivity|].
  rewrite !H. destruct (ka x <=? ka h); cbn [map]; [reflexivity|]. rewrite IH. reflexivity.
Qed.

(** the table is sorted by whatever attribute is stored in it, whenever the sort key is that attribute *)
Theorem table_sorted_by_stored_attribute (a : eattr) (kes : list (N * entry)) :
  StronglySorted N.le (map (ekey a) (order_g ekey (SKAttr a) kes)).
Proof. cbn [order_g]. apply sort_by_keys_sorted. Qed.

(* ------------------------------------------------------------------ *)
(** * The configured writer is the hand model *)

Definition entry_fits (v : N) (e : entry) : Prop :=
  e_crc e < 4294967296 /\ e_dur e < 4294967296 /\ (v = 3 -> e_last e < 2147483648) /\
  Forall (fun i => i < 2147483648) (e_sounds e).

Lemma snd_pack_ok c idx : icfg_okb c = true -> Forall (fun i => i < 2147483648) idx ->
  concatM (fun i => pack_fields (sndval i) (ic_snd_w c)) idx = Some (flat_map le32 idx).
Proof.
  intros H. apply icfg_okb_split in H as (_ & _ & _ & _ & H & _).
  unfold snd_okb in H. apply andb_prop in H as [H _].
  apply concatM_ok. intros i Hi.
  rewrite (pack_fields_ok sndsrc_eqb (sndval i) sndsrc_eqb_eq _ _ [VN i] H).
  - cbn [flat_map enc]. rewrite app_nil_r. reflexivity.
  - repeat constructor. exact Hi.
Qed.

Lemma summary_g_ok c v e : icfg_okb c = true -> (v = 2 \/ v = 3) -> entry_fits v e ->
  lenN (e_sounds e) < 2147483648 -> summary_g c v e = Some (summary v e).
Proof.
  intros H Hv (Hc & Hd & Hl & Hs) Hn. unfold summary_g, summary.
  rewrite (snd_pack_ok c _ H Hs), (long_version_w c H).
  apply icfg_okb_split in H as (_ & _ & _ & H & _).
  unfold sum_okb in H. rewrite !andb_true_iff in H. destruct H as [[[HL _] HS] _].
  destruct Hv as [-> | ->]; cbn [N.eqb Pos.eqb].
  - rewrite (pack_fields_ok ssrc_eqb (sval e) ssrc_eqb_eq _ _ [VN (e_dur e); VN (lenN (e_sounds e))] HS).
    + cbn [flat_map enc]. rewrite app_nil_r. cbn [app]. rewrite <- !app_assoc. reflexivity.
    + repeat constructor; assumption.
  - rewrite (pack_fields_ok ssrc_eqb (sval e) ssrc_eqb_eq _ _ [VN (e_dur e); VN (e_last e); VN (lenN (e_sounds e))] HL).
    + cbn [flat_map enc]. rewrite app_nil_r. rewrite <- !app_assoc. reflexivity.
    + repeat constructor; cbn [fst snd fits]; auto.
Qed.

Lemma recs_g_ok c v es : icfg_okb c = true -> (v = 2 \/ v = 3) ->
  forall soff doff bound,
    Forall (entry_fits v) es ->
    soff + lenN (flat_map (summary v) es) <= bound ->
    doff + lenN (flat_map e_blob es) <= bound ->
    bound < 2147483648 ->
    recs_g c v es soff doff = Some (flat_map rec_bytes (recs v es soff doff)).
Proof.
  intros H Hv. induction es as [|e t IH]; intros soff doff bound Hf Hs Hd Hb; [reflexivity|].
  cbn [recs_g recs flat_map] in *. rewrite !lenN_app in *.
  pose proof (Forall_inv Hf) as He. pose proof (lenN_summary v e) as Ls.
  assert (Hn : lenN (e_sounds e) < 2147483648) by (destruct (v =? 3); lia).
  rewrite (summary_g_ok c v e H Hv He Hn).
  rewrite (IH _ _ bound (Forall_inv_tail Hf)) by lia.
  pose proof H as H'. apply icfg_okb_split in H' as (_ & _ & H' & _).
  unfold ent_okb in H'. apply andb_prop in H' as [H' _].
  destruct He as (Hc & _).
  rewrite (pack_fields_ok esrc_eqb _ esrc_eqb_eq _ _ [VN (e_crc e); VN doff; VN (lenN (e_blob e)); VN soff] H').
  - cbn [flat_map enc rec_bytes]. rewrite app_nil_r, <- !app_assoc. reflexivity.
  - repeat constructor; cbn [fst snd fits]; lia.
Qed.

Lemma sums_g_ok c v l : icfg_okb c = true -> (v = 2 \/ v = 3) -> Forall (entry_fits v) l ->
  lenN (flat_map (summary v) l) < 2147483648 ->
  concatM (summary_g c v) l = Some (flat_map (summary v) l).
Proof.
  intros H Hv Hf. induction Hf as [|e t He _ IH]; intros Hb; [reflexivity|].
  cbn [concatM flat_map] in *. rewrite lenN_app in Hb. pose proof (lenN_summary v e) as Ls.
  rewrite (summary_g_ok c v e H Hv He) by (destruct (v =? 3); lia).
  rewrite IH by lia. reflexivity.
Qed.

Lemma layout_g_ok c v pool l : icfg_okb c = true -> (v = 2 \/ v = 3) -> Forall (entry_fits v) l ->
  lenN (layout v pool l) < 2147483648 ->
  layout_g c v pool l = Some (layout v pool l).
Proof.
  intros H Hv Hf Hlen. rewrite lenN_layout in Hlen.
  pose proof H as Hs. apply icfg_okb_split in Hs as (Hm & Hh & He & _ & _ & Hp & _).
  unfold magic_okb in Hm. apply andb_prop in Hm as [Hm _]. apply bytes_eqb_eq in Hm.
  unfold hdr_okb in Hh. apply andb_prop in Hh as [Hh _].
  unfold ent_okb in He. apply andb_prop in He as [He _].
  unfold pooloff_okb in Hp. apply andb_prop in Hp as [Hp Hslot]. apply Nat.eqb_eq in Hslot.
  unfold layout_g, layout. cbv zeta.
  rewrite (accepts_list_size _ _ _ Hh), (accepts_list_size _ _ _ He), Hslot, Hm.
  change (fmt_size ref_hdr) with 20. change (fmt_size ref_ent) with 16. change (N.of_nat 4) with 4.
  set (strs := flat_map str_bytes pool) in *.
  set (str_start := 20 + 4 * lenN pool) in *.
  set (scene_off := str_start + lenN strs) in *.
  rewrite (pack_fields_ok hsrc_eqb _ hsrc_eqb_eq _ _
             [VB magic; VN v; VN (lenN l); VN (lenN pool); VN scene_off] Hh).
  2:{ repeat constructor; cbn [fst snd fits]; try reflexivity; try (unfold scene_off, str_start; lia). }
  rewrite (concatM_ok _ le32 (fun o => o < 2147483648)).
  2:{ intros o Ho. apply (pack_one_ok _ SI (VN o) Hp). exact Ho. }
  2:{ eapply Forall_impl; [|apply (str_offsets_bound pool str_start (str_start + lenN strs)); apply N.le_refl].
      cbv beta. intros o Ho. unfold str_start in *. lia. }
  rewrite (sums_g_ok c v l H Hv Hf) by lia.
  rewrite (recs_g_ok c v l H Hv _ _ (scene_off + 16 * lenN l + lenN (flat_map (summary v) l) + lenN (flat_map e_blob l)) Hf)
    by (unfold scene_off, str_start; lia).
  cbn [flat_map enc]. unfold sec_header. rewrite app_nil_r, <- !app_assoc. reflexivity.
Qed.

Lemma image_ok_entry_fits v pool es : image_ok_w v pool es -> Forall (entry_fits v) es.
Proof.
  intros [(Hv & Hpool & Hes & Hlen) Hl]. rewrite Forall_forall in *. intros e He.
  destruct (Hes e He) as (Hc & Hd & _ & Hi). repeat split; try assumption.
  - intros E. apply (Hl E e He).
  - eapply Forall_impl; [|exact Hi]. cbv beta. intros i Hi'.
    rewrite img_write_layout, lenN_layout in Hlen. lia.
Qed.

Theorem save_g_is_img_write c is_dict version pool kes :
  icfg_okb c = true -> image_ok_w version pool (map snd kes) ->
  img_save_g c is_dict version pool kes = Some (img_write version pool (map snd kes)).
Proof.
  intros H Hok. unfold img_save_g.
  destruct (table_sorts c H) as [Sd Si].
  assert (E : order_g ekey (if is_dict then ic_sort_dict c else ic_sort_iter c) kes = sort_by_crc (map snd kes)).
  { destruct is_dict; [rewrite Sd|rewrite Si]; cbn [order_g ekey]; apply sort_by_crc_eq. }
  rewrite E, img_write_layout. pose proof (image_ok_entry_fits _ _ _ Hok) as Hf.
  destruct Hok as [(Hv & _ & _ & Hlen) _].
  apply layout_g_ok; try assumption.
  eapply Permutation_Forall; [apply sort_by_crc_perm|exact Hf].
Qed.

Theorem save_g_roundtrip c is_dict version pool kes :
  icfg_okb c = true -> image_ok_w version pool (map snd kes) ->
  exists b, img_save_g c is_dict version pool kes = Some b /\
    img_parse b = Some (version, pool, map (to_pentry version pool) (sort_by_crc (map snd kes))).
Proof.
  intros H Hok. eexists. split; [apply save_g_is_img_write; assumption|].
  apply image_roundtrip. exact (proj1 Hok).
Qed.

Theorem save_g_table_sorted c is_dict version pool kes :
  icfg_okb c = true -> image_ok_w version pool (map snd kes) ->
  exists b ps, img_save_g c is_dict version pool kes = Some b /\ img_parse b = Some (version, pool, ps) /\
    StronglySorted N.le (map p_crc ps) /\ Permutation (map (fun ke => e_crc (snd ke)) kes) (map p_crc ps).
Proof.
  intros H Hok. destruct (image_sorted_by_crc version pool (map snd kes) (proj1 Hok)) as (ps & P & S & _ & Pm).
  exists (img_write version pool (map snd kes)), ps. split; [apply save_g_is_img_write; assumption|].
  split; [exact P|]. split; [exact S|]. rewrite map_map in Pm. exact Pm.
Qed.

(* ------------------------------------------------------------------ *)
(** * The string pool *)

Lemma index_of_Some s pool i : index_of s pool = Some i -> nth i pool [] = s /\ (i < length pool)%nat.
Proof.
  revert i. induction pool as [|h t IH]; intros i; cbn [index_of]; [discriminate|].
  destruct (bytes_eqb s h) eqn:E.
  - intros [= <-]. apply bytes_eqb_eq in E. subst. cbn. split; [reflexivity|lia].
  - destruct (index_of s t) as [j|]; cbn [option_map]; [|discriminate].
    intros [= <-]. destruct (IH j eq_refl) as [A B]. cbn [nth length]. split; [exact A|lia].
Qed.

Lemma index_of_In s pool : In s pool -> exists i, index_of s pool = Some i.
Proof.
  induction pool as [|h t IH]; [intros []|]. intros [->|Hin]; cbn [index_of].
  - rewrite bytes_eqb_refl. eexists; reflexivity.
  - destruct (bytes_eqb s h); [eexists; reflexivity|]. destruct (IH Hin) as [i ->]. eexists; reflexivity.
Qed.

Lemma index_of_None s pool : index_of s pool = None -> ~ In s pool.
Proof. intros H Hin. destruct (index_of_In s pool Hin) as [i E]. congruence. Qed.

Lemma pidx_ok pool s : In s pool -> nth (N.to_nat (pidx pool s)) pool [] = s /\ pidx pool s < lenN pool.
Proof.
  intros Hin. unfold pidx. destruct (index_of_In s pool Hin) as [i E]. rewrite E, Nat2N.id.
  destruct (index_of_Some _ _ _ E) as [A B]. split; [exact A|unfold lenN; lia].
Qed.

Lemma add_pool_incl pool s x : In x pool -> In x (add_pool pool s).
Proof. unfold add_pool. destruct (index_of s pool); [auto|]. intros; apply in_or_app; left; assumption. Qed.
Lemma add_pool_adds pool s : In s (add_pool pool s).
Proof.
  unfold add_pool. destruct (index_of s pool) as [i|] eqn:E.
  - destruct (index_of_Some _ _ _ E) as [A B]. rewrite <- A. apply nth_In. exact B.
  - apply in_or_app; right; left; reflexivity.
Qed.
Lemma fold_add_incl l : forall pool x, In x pool -> In x (fold_left add_pool l pool).
Proof. induction l as [|s t IH]; intros pool x H; cbn [fold_left]; [exact H|]. apply IH, add_pool_incl, H. Qed.
Lemma fold_add_adds l : forall pool x, In x l -> In x (fold_left add_pool l pool).
Proof.
  induction l as [|s t IH]; intros pool x; [intros []|]. intros [->|H]; cbn [fold_left].
  - apply fold_add_incl, add_pool_adds.
  - apply IH, H.
Qed.
Lemma fill_pool_incl es : forall pool x, In x pool -> In x (fill_pool pool es).
Proof.
  unfold fill_pool. induction es as [|e t IH]; intros pool x H; cbn [fold_left]; [exact H|].
  apply IH. unfold fill_entry. apply fold_add_incl, H.
Qed.
Lemma fill_pool_sounds es : forall pool e x, In e es -> In x (s_sounds e) -> In x (fill_pool pool es).
Proof.
  unfold fill_pool. induction es as [|h t IH]; intros pool e x; [intros []|]. intros [->|He] Hx; cbn [fold_left].
  - apply (fill_pool_incl t). unfold fill_entry. apply fold_add_adds, in_or_app. left; exact Hx.
  - eapply IH; eassumption.
Qed.

(** with every sound in the pool, reading the stored indexes back gives the sounds *)
Lemma to_pentry_resolve version pool e : Forall (fun x => In x pool) (s_sounds e) ->
  to_pentry version pool (resolve pool e) = to_pentry_s version e.
Proof.
  intros H. unfold to_pentry, to_pentry_s, resolve. cbn [e_crc e_dur e_last e_sounds e_blob]. f_equal.
  rewrite map_map. induction H as [|x l Hx _ IH]; cbn [map]; [reflexivity|].
  rewrite (proj1 (pidx_ok pool x Hx)), IH. reflexivity.
Qed.

Lemma order_s_perm k (kes : list (N * sentry)) : Permutation (map snd kes) (order_g skey k kes).
Proof.
  destruct k as [a| |]; cbn [order_g].
  - apply sort_by_perm.
  - apply Permutation_map, sort_by_perm.
  - apply Permutation_refl.
Qed.

Theorem save_s_roundtrip c is_dict version pool0 kes :
  icfg_okb c = true ->
  let pool := pool_g c is_dict pool0 kes in
  image_ok_w version pool (map (resolve pool) (map snd kes)) ->
  exists b, img_save_s c is_dict version pool0 kes = Some b /\
    img_parse b = Some (version, pool, map (to_pentry_s version) (sort_by s_crc (map snd kes))).
Proof.
  intros H pool Hok. unfold img_save_s. fold pool.
  assert (Em : map snd (map (fun ke : N * sentry => (fst ke, resolve pool (snd ke))) kes) = map (resolve pool) (map snd kes))
    by (rewrite !map_map; reflexivity).
  destruct (save_g_roundtrip c is_dict version pool _ H ltac:(rewrite Em; exact Hok)) as (b & Hb & Hp).
  exists b. split; [exact Hb|]. rewrite Hp, Em. f_equal. f_equal.
  rewrite <- sort_by_crc_eq, (sort_by_map (resolve pool) e_crc s_crc) by reflexivity.
  rewrite map_map. apply map_ext_in. intros e He. apply to_pentry_resolve.
  rewrite Forall_forall. intros x Hx. unfold pool, pool_g.
  eapply fill_pool_sounds; [|exact Hx].
  eapply Permutation_in; [apply order_s_perm|].
  eapply Permutation_in; [apply Permutation_sym, sort_by_perm|exact He].
Qed.

(** the file does not depend on the order (or the form: dict / iterable, whatever the dict keys are) in which the
    caller passes the entries, as long as no two share a checksum *)
Theorem save_s_order_independent c d1 d2 version pool0 kes1 kes2 :
  icfg_okb c = true -> Permutation (map snd kes1) (map snd kes2) -> NoDup (map s_crc (map snd kes1)) ->
  img_save_s c d1 version pool0 kes1 = img_save_s c d2 version pool0 kes2.
Proof.
  intros H P ND. unfold img_save_s, img_save_g, pool_g.
  destruct (table_sorts c H) as [Sd Si]. destruct (pool_sorts c H) as [Pd Pi].
  assert (Ep : forall (d : bool) (kes : list (N * sentry)), order_g skey (if d then ic_pool_sort_dict c else ic_pool_sort_iter c) kes = sort_by s_crc (map snd kes))
    by (intros [|] kes; [rewrite Pd|rewrite Pi]; reflexivity).
  assert (Et : forall (d : bool) (kes : list (N * entry)), order_g ekey (if d then ic_sort_dict c else ic_sort_iter c) kes = sort_by e_crc (map snd kes))
    by (intros [|] kes; [rewrite Sd|rewrite Si]; reflexivity).
  rewrite !Ep, !Et. rewrite (sort_by_perm_unique s_crc _ _ P ND).
  set (pool := fill_pool pool0 (sort_by s_crc (map snd kes2))).
  rewrite !map_map. cbn [snd].
  rewrite <- !(map_map snd (resolve pool)), !(sort_by_map (resolve pool) e_crc s_crc) by reflexivity.
  rewrite (sort_by_perm_unique s_crc _ _ P ND). reflexivity.
Qed.

(* ------------------------------------------------------------------ *)
(** * Non-vacuity and refuted variants *)

Example ref_cfg_ok : icfg_okb ref_cfg = true.
Proof. vm_compute. reflexivity. Qed.

Example ex_save_s_parses :
  match img_save_s ref_cfg true 3 [] [(30, ex_s1); (10, ex_s2); (20, ex_s3)] with
  | Some b => img_parse b = Some (3, [[99]; [97]; [121]; [98]; [120]],
                                  map (to_pentry_s 3) [ex_s2; ex_s3; ex_s1])
  | None => False
  end.
Proof. vm_compute. reflexivity. Qed.

Example ex_image_ok_w :
  let pool := pool_g ref_cfg true [] [(30, ex_s1); (10, ex_s2); (20, ex_s3)] in
  image_ok_w 3 pool (map (resolve pool) [ex_s1; ex_s2; ex_s3]).
Proof.
  split.
  - apply image_okb_sound. vm_compute. reflexivity.
  - intros _. repeat constructor.
Qed.

(** the seeded-fault class "table ordered by the dict key": when the keys are stale (entries renamed after insertion)
    the written table is not sorted by the stored checksum, and the file is not what the list form gives *)
Example dict_key_cfg_rejected : sort_table_okb cfg_dict_key = false /\ sort_pool_okb cfg_dict_key = false.
Proof. split; vm_compute; reflexivity. Qed.
Example sort_by_dict_key_refuted :
  (* stored under 5 and 7, checksums 30 and 10 *)
  parsed_crcs (img_save_s cfg_dict_key true 3 [] [(5, ex_s1); (7, ex_s2)]) = Some [30; 10]
  /\ img_save_s cfg_dict_key true 3 [] [(5, ex_s1); (7, ex_s2)] <> img_save_s cfg_dict_key false 3 [] [(5, ex_s1); (7, ex_s2)].
Proof. split; [vm_compute; reflexivity|vm_compute; discriminate]. Qed.

(** the pinned tree (before the repair): pool filled in the caller's order, table sorted afterwards: equal images
    passed in different orders give different files *)
Example pool_unsorted_cfg_rejected : sort_pool_okb cfg_pool_unsorted = false /\ sort_table_okb cfg_pool_unsorted = true.
Proof. split; vm_compute; reflexivity. Qed.
Example pool_in_caller_order_refuted :
  img_save_s cfg_pool_unsorted false 3 [] [(0, ex_s1); (0, ex_s2)]
  <> img_save_s cfg_pool_unsorted false 3 [] [(0, ex_s2); (0, ex_s1)].
Proof. vm_compute. discriminate. Qed.

(** a table sorted by another attribute than the one stored in it *)
Example sort_by_other_attribute_refuted :
  sort_table_okb cfg_sort_other = false /\
  parsed_crcs (img_save_s cfg_sort_other false 3 [] [(0, ex_s1); (0, ex_s2)]) = Some [30; 10].
Proof. split; vm_compute; reflexivity. Qed.

(** the signed last-speak field: a value the hand model would write cannot be packed *)
Example last_speak_signed : summary_g ref_cfg 3 (mkEntry 1 5 2147483648 [] []) = None
                            /\ summary_g ref_cfg 2 (mkEntry 1 5 2147483648 [] []) = Some (summary 2 (mkEntry 1 5 2147483648 [] [])).
Proof. split; vm_compute; reflexivity. Qed.
