(** C01 — model of [Keyvalues.serialise] / [_serialise]: an interpreter of the write templates that
    translate/c01_kvser.py extracts from the f-strings of the source (Gen/KVSer_gen.v). *)
From Coq Require Import List NArith Bool.
From SV Require Import KV.KvBase KV.KvLex.
Import ListNotations.
Open Scope N_scope.

Record env := { v_cur : str; v_indent : str; v_open : str; v_close : str }.

Definition var_val (e : env) (v : tvar) : str :=
  match v with VCurIndent => v_cur e | VIndent => v_indent e | VOpenBrace => v_open e | VCloseBrace => v_close e end.

Definition render_piece (E : escfg) (e : env) (name value : str) (p : piece) : str :=
  match p with
  | PLit s => s
  | PVar v => var_val e v
  | PRaw FName => name
  | PRaw FValue => value
  | PEsc FName => escape E name
  | PEsc FValue => escape E value
  | POther => []
  end.

Definition render (E : escfg) (e : env) (name value : str) (t : list piece) : str :=
  flat_map (render_piece E e name value) t.

(** Does the root test of the source succeed on a node named [n]?  ([n] is a string: never [None].) *)
Definition root_like (rt : roottest) (n : str) : bool :=
  match rt, n with RTFalsy, [] => true | _, _ => false end.

Section Ser.
  Variable C : sercfg.
  Variable E : escfg.
  Variable o : seropts.

  (** [serialise]: open_brace / close_brace are computed once from [indent] and [indent_braces]. *)
  Definition brace_env : env := {| v_cur := []; v_indent := o_indent o; v_open := []; v_close := [] |}.
  Definition open_brace : str :=
    render E brace_env [] [] (if o_indent_braces o then t_open_ind C else t_open_plain C).
  Definition close_brace : str :=
    render E brace_env [] [] (if o_indent_braces o then t_close_ind C else t_close_plain C).
  Definition mkenv (cur : str) : env :=
    {| v_cur := cur; v_indent := o_indent o; v_open := open_brace; v_close := close_brace |}.

  (** [_serialise] on a named node with the given cur_indent.  A block on which the root test of the source
      succeeds is written like the root: children only. *)
  Fixpoint ser_node (cur : str) (k : kv) : str :=
    match k with
    | Leaf n v => render E (mkenv cur) n v (t_leaf C)
    | Block n cs =>
        if root_like (t_root_test C) n
        then flat_map (ser_node (render E (mkenv cur) [] [] (t_root_indent C))) cs
        else
        render E (mkenv cur) n [] (t_head C)
        ++ flat_map (ser_node (render E (mkenv cur) n [] (t_child_indent C))) cs
        ++ render E (mkenv cur) n [] (t_tail C)
    end.

  (** [Keyvalues.root(children).serialise(indent, indent_braces, start_indent)]: the root ignores start_indent. *)
  Definition serialise_doc (d : list kv) : str :=
    flat_map (ser_node (render E (mkenv (o_start o)) [] [] (t_root_indent C))) d.

  (** [k.serialise(...)] on a named node. *)
  Definition serialise_node (k : kv) : str := ser_node (o_start o) k.
End Ser.

(** Expected token stream of a document. *)
Fixpoint toks (k : kv) : list tok :=
  match k with
  | Leaf n v => [TStr n; TStr v; TNL]
  | Block n cs => [TStr n; TNL; TBO; TNL] ++ flat_map toks cs ++ [TBC; TNL]
  end.
Definition toks_doc (d : list kv) : list tok := flat_map toks d.
