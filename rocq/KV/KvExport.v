(** C01 — model of the deprecated writer [Keyvalues.export()] (interpreter of its regenerated templates), the
    decidable side condition [xcfg_ok], and its round trip: ''.join(tree.export()) parses back to the tree. *)
From Coq Require Import List NArith Bool Lia.
From SV Require Import KV.KvBase KV.KvLex KV.KvParse KV.KvSer KV.KvSym KV.KvLexProofs KV.KvSymProofs KV.KvParseProofs
  KV.KvRoundtrip.
Import ListNotations.
Open Scope N_scope.

(** export() has no indentation parameters: every variable is empty. *)
Definition xenv : env := {| v_cur := []; v_indent := []; v_open := []; v_close := [] |}.

Section Exp.
  Variable X : expcfg.
  Variable E : escfg.

  (** The yields [ys] of one node, each with the prefixes [w] that the enclosing generators put in front. *)
  Definition xlines (w n v : str) (ys : list (list piece)) : str :=
    flat_map (fun y => w ++ render E xenv n v y) ys.

  Fixpoint exp_node (w : str) (k : kv) : str :=
    match k with
    | Leaf n v => xlines w n v (x_leaf X)
    | Block n cs =>
        if root_like (x_root_test X) n then flat_map (exp_node w) cs
        else xlines w n [] (x_head X)
             ++ flat_map (exp_node (w ++ render E xenv [] [] (x_prefix X))) cs
             ++ xlines w n [] (x_tail X)
    end.

  (** [''.join(Keyvalues.root(children).export())] and [''.join(node.export())] *)
  Definition export_doc (d : list kv) : str := flat_map (exp_node []) d.
  Definition export_node (k : kv) : str := exp_node [] k.

  (** Symbolic form of a group of yields: each starts with whitespace (the accumulated prefixes). *)
  Definition sx (ys : list (list piece)) : list schar := flat_map (fun y => SW :: sflat [] [] y) ys.

  Definition xhead_ok : bool := lexes_to (sx (x_head X)) [STStr FName; SNL; SBO; SNL].
  Definition xtail_ok : bool := lexes_to (sx (x_tail X)) [SBC; SNL].
  Definition xleaf_ok : bool := lexes_to (sx (x_leaf X)) [STStr FName; STStr FValue; SNL].
  Definition xprefix_ok : bool := ws_tpl (x_prefix X).
  Definition xroot_test_ok : bool := match x_root_test X with RTIsNone => true | _ => false end.
  Definition xcfg_ok : bool := xhead_ok && xtail_ok && xleaf_ok && xprefix_ok && xroot_test_ok.
End Exp.

Section ExpProofs.
  Variable X : expcfg.
  Variable E : escfg.
  Hypothesis HX : xcfg_ok X = true.
  Hypothesis HE : esc_ok E = true.

  Lemma xcfg_parts : xhead_ok X = true /\ xtail_ok X = true /\ xleaf_ok X = true /\ xprefix_ok X = true
                     /\ xroot_test_ok X = true.
  Proof. unfold xcfg_ok in HX. repeat (apply andb_true_iff in HX as [HX ?]). repeat split; assumption. Qed.

  Lemma xlines_conc w n v ys : ws_only w = true -> conc E n v (sx ys) (xlines E w n v ys).
  Proof.
    intros Hw. induction ys as [|y ys IH]; [constructor|].
    unfold sx, xlines in *. cbn [flat_map].
    change ((SW :: sflat [] [] y) ++ ?r) with (SW :: (sflat [] [] y ++ r)).
    rewrite <- app_assoc. apply conc_w; [exact Hw|]. apply conc_app; [|exact IH].
    apply render_conc; cbn [xenv v_cur v_indent v_open v_close]; try reflexivity; constructor.
  Qed.

  Lemma xprefix_ws w : ws_only w = true -> ws_only (w ++ render E xenv [] [] (x_prefix X)) = true.
  Proof.
    intros Hw. destruct xcfg_parts as (_ & _ & _ & Hp & _). rewrite ws_only_app, Hw. cbn [andb].
    unfold xprefix_ok in Hp. induction (x_prefix X) as [|p t IH]; [reflexivity|].
    cbn [ws_tpl forallb] in Hp. apply andb_true_iff in Hp as [Hp Ht].
    unfold render in *. cbn [flat_map]. rewrite ws_only_app, (IH Ht), andb_true_r.
    destruct p as [s|[]|f|f|]; try discriminate; cbn [render_piece var_val xenv v_cur v_indent]; auto.
  Qed.

  Lemma exp_node_lexes : forall k w l, ws_only w = true ->
    exists l', lexes E l (exp_node X E w k) (toks k) l'.
  Proof.
    destruct xcfg_parts as (Hh & Ht & Hl & _ & Hrt).
    assert (Hroot : forall n, root_like (x_root_test X) n = false).
    { intros n. unfold xroot_test_ok in Hrt. destruct (x_root_test X); try discriminate. reflexivity. }
    induction k as [n v | n cs IH] using kv_ind'; intros w l Hw.
    - cbn [exp_node toks].
      exact (lexes_to_sound E HE n v _ _ _ l Hl (xlines_conc w n v (x_leaf X) Hw)).
    - cbn [exp_node toks]. rewrite Hroot.
      destruct (lexes_to_sound E HE n [] _ _ _ l Hh (xlines_conc w n [] (x_head X) Hw)) as [l1 H1].
      set (w' := w ++ render E xenv [] [] (x_prefix X)).
      assert (Hw' : ws_only w' = true) by (apply xprefix_ws; exact Hw).
      assert (Hcs : forall l, exists l', lexes E l (flat_map (exp_node X E w') cs) (flat_map toks cs) l').
      { clear H1. induction IH as [|k ks Hk _ IHks]; intros l0.
        - exists l0. apply lexes_nil.
        - cbn [flat_map]. destruct (Hk w' l0 Hw') as [la Ha]. destruct (IHks la) as [lb Hb].
          exists lb. eapply lexes_app; eassumption. }
      destruct (Hcs l1) as [l2 H2].
      destruct (lexes_to_sound E HE n [] _ _ _ l2 Ht (xlines_conc w n [] (x_tail X) Hw)) as [l3 H3].
      exists l3. cbn [map inst fld] in H1, H3.
      eapply lexes_app; [exact H1|]. eapply lexes_app; [exact H2 | exact H3].
  Qed.

  Theorem lex_export_doc d : lex_all E (export_doc X E d) = (toks_doc d, None).
  Proof.
    assert (H : forall l, exists l', lexes E l (export_doc X E d) (toks_doc d) l').
    { unfold export_doc, toks_doc. induction d as [|k ks IH]; intros l.
      - exists l. apply lexes_nil.
      - cbn [flat_map]. destruct (exp_node_lexes k [] l eq_refl) as [la Ha]. destruct (IH la) as [lb Hb].
        exists lb. eapply lexes_app; eassumption. }
    destruct (H 1) as [l' Hl]. eapply lexes_all, Hl.
  Qed.

  Theorem lex_export_node k : lex_all E (export_node X E k) = (toks k, None).
  Proof. destruct (exp_node_lexes k [] 1 eq_refl) as [l' H]. eapply lexes_all, H. Qed.
End ExpProofs.

(** Round trip through the deprecated writer, for every setting of the parse options that leaves the fields legal. *)
Lemma export_roundtrip_doc X E P : xcfg_ok X = true -> esc_ok E = true -> pcfg_ok P = true ->
  forall flag_on O d, po_single_block O = false ->
  po_newline_keys O || doc_names_ok d = true -> po_newline_values O || doc_values_ok d = true ->
  parse_kv_opts P O E flag_on (export_doc X E d) = POk d.
Proof.
  intros HX HE HP flag_on O d Hsb Hn Hv. unfold parse_kv_opts. rewrite (lex_export_doc X E HX HE d).
  apply parse_toks_doc_opts; [exact Hsb | now apply doc_ok_of].
Qed.

Lemma export_roundtrip_node X E P : xcfg_ok X = true -> esc_ok E = true -> pcfg_ok P = true ->
  forall flag_on O k, po_single_block O = false ->
  po_newline_keys O || names_ok k = true -> po_newline_values O || values_ok k = true ->
  parse_kv_opts P O E flag_on (export_node X E k) = POk [k].
Proof.
  intros HX HE HP flag_on O k Hsb Hn Hv. unfold parse_kv_opts. rewrite (lex_export_node X E HX HE k).
  apply parse_toks_node_opts; [exact Hsb | now apply kv_ok_of].
Qed.

(** Reference instance (the repaired export()) and the pinned shape with the raw block name. *)
Definition ref_expcfg (head_name : piece) : expcfg := {|
  x_root_test := RTIsNone;
  x_head := [[PLit [34]; head_name; PLit [34; 10]]; [PLit [9; 123; 10]]];
  x_prefix := [PLit [9]];
  x_tail := [[PLit [9; 125; 10]]];
  x_leaf := [[PLit [34]; PEsc FName; PLit [34; 32; 34]; PEsc FValue; PLit [34; 10]]] |}.
Lemma ref_xcfg_ok : xcfg_ok (ref_expcfg (PEsc FName)) = true.
Proof. vm_compute. reflexivity. Qed.
Lemma raw_export_rejected : xcfg_ok (ref_expcfg (PRaw FName)) = false.
Proof. vm_compute. reflexivity. Qed.
Lemma raw_export_refuted :
  parse_kv ref_pcfg ref_escfg (fun _ => false) (export_doc (ref_expcfg (PRaw FName)) ref_escfg raw_block_witness)
  = PErr (ELex LUnterminated).
Proof. vm_compute. reflexivity. Qed.
