(** C01 — the decidable side condition on the generated write templates ([cfg_ok]) and on the generated
    escape tables ([esc_ok]).

    A template is flattened into symbolic characters (a literal character, a whitespace-only variable, an
    escaped field, or something unknown) and lexed symbolically; [cfg_ok] demands that the head of a block
    lexes to  name NL { NL,  its tail to  } NL  and a leaf to  name value NL  -- for both settings of
    indent_braces -- and that the indents handed to children are whitespace.  KvSymProofs.v shows that the
    symbolic lexer is sound for the character-level tokenizer model, whatever the field contents. *)
From Coq Require Import List NArith Bool.
From SV Require Import KV.KvBase KV.KvLex.
Import ListNotations.
Open Scope N_scope.

Definition is_ws (c : char) : bool := (c =? SP) || (c =? TAB).
Definition ws_only (s : str) : bool := forallb is_ws s.
Definition ws_opts (o : seropts) : bool := ws_only (o_indent o) && ws_only (o_start o).

(** * Escape tables *)
Definition opt_char_eqb (a b : option char) : bool :=
  match a, b with Some x, Some y => x =? y | None, None => true | _, _ => false end.

(** The characters that end or alter a quoted string are never written raw. *)
Definition esc_special_ok (E : escfg) (d : char) : bool :=
  negb (mem d (e_excl E)) && match rlookup d (e_table E) with Some _ => true | None => false end.

(** Every character that escape_text replaces is restored by the tokenizer's table. *)
Definition esc_entry_ok (E : escfg) (sc : char * char) : bool :=
  mem (snd sc) (e_excl E) ||
  match rlookup (snd sc) (e_table E) with
  | Some s' => negb (s' =? LF) && opt_char_eqb (lookup s' (e_table E)) (Some (snd sc))
  | None => false
  end.

Definition esc_quote_ok E := esc_special_ok E DQ.
Definition esc_backslash_ok E := esc_special_ok E BS.
Definition esc_cr_ok E := esc_special_ok E CR.
Definition esc_lf_ok E := esc_special_ok E LF.
Definition esc_inverse_ok E := forallb (esc_entry_ok E) (e_table E).
Definition esc_ok (E : escfg) : bool :=
  esc_quote_ok E && esc_backslash_ok E && esc_cr_ok E && esc_lf_ok E && esc_inverse_ok E.

(** * Symbolic templates *)
Inductive schar := SC (c : char) | SW | SE (f : field) | SBad.
Inductive stok := STStr (f : field) | SNL | SBO | SBC.

Definition sflat_brace (t : list piece) : list schar :=
  flat_map (fun p => match p with
                     | PLit s => map SC s
                     | PVar VIndent | PVar VCurIndent => [SW]
                     | _ => [SBad]
                     end) t.

Definition sflat_piece (ob cb : list schar) (p : piece) : list schar :=
  match p with
  | PLit s => map SC s
  | PVar VCurIndent | PVar VIndent => [SW]
  | PVar VOpenBrace => ob
  | PVar VCloseBrace => cb
  | PEsc f => [SE f]
  | PRaw _ | POther => [SBad]
  end.
Definition sflat (ob cb : list schar) (t : list piece) : list schar := flat_map (sflat_piece ob cb) t.

Fixpoint slex (sl : list schar) : option (list stok) :=
  match sl with
  | [] => Some []
  | SW :: r => slex r
  | SC c :: r =>
      if is_ws c then slex r
      else if c =? LF then option_map (cons SNL) (slex r)
      else if c =? 123 then option_map (cons SBO) (slex r)
      else if c =? 125 then option_map (cons SBC) (slex r)
      else if c =? DQ then
        match r with
        | SE f :: SC c2 :: r2 => if c2 =? DQ then option_map (cons (STStr f)) (slex r2) else None
        | _ => None
        end
      else None
  | _ => None
  end.

Fixpoint stoks_eqb (a b : list stok) : bool :=
  match a, b with
  | [], [] => true
  | x :: a', y :: b' =>
      match x, y with
      | STStr FName, STStr FName | STStr FValue, STStr FValue | SNL, SNL | SBO, SBO | SBC, SBC => true
      | _, _ => false
      end && stoks_eqb a' b'
  | _, _ => false
  end.

Definition lexes_to (sl : list schar) (want : list stok) : bool :=
  match slex sl with Some ts => stoks_eqb ts want | None => false end.

Definition ws_tpl (t : list piece) : bool :=
  forallb (fun p => match p with
                    | PVar VCurIndent | PVar VIndent => true
                    | PLit s => ws_only s
                    | _ => false
                    end) t.

Section CfgOk.
  Variable C : sercfg.
  Definition s_open (ib : bool) := sflat_brace (if ib then t_open_ind C else t_open_plain C).
  Definition s_close (ib : bool) := sflat_brace (if ib then t_close_ind C else t_close_plain C).
  Definition s_tpl (ib : bool) (t : list piece) := sflat (s_open ib) (s_close ib) t.

  Definition head_ok (ib : bool) := lexes_to (s_tpl ib (t_head C)) [STStr FName; SNL; SBO; SNL].
  Definition tail_ok (ib : bool) := lexes_to (s_tpl ib (t_tail C)) [SBC; SNL].
  Definition leaf_ok (ib : bool) := lexes_to (s_tpl ib (t_leaf C)) [STStr FName; STStr FValue; SNL].
  Definition child_indent_ok := ws_tpl (t_child_indent C).
  Definition root_indent_ok := ws_tpl (t_root_indent C).

  (** Only the nameless root is written without its own header: the root test is [is None]. *)
  Definition root_test_ok : bool := match t_root_test C with RTIsNone => true | _ => false end.

  Definition cfg_ok : bool :=
    head_ok true && head_ok false && tail_ok true && tail_ok false && leaf_ok true && leaf_ok false
    && child_indent_ok && root_indent_ok && root_test_ok.
End CfgOk.

(** * Decisive sites of the parser *)
(** The 'Illegal newline' tests reject nothing but line feeds and carriage returns. *)
Definition brk_only_lfcr (t : brktest) : bool :=
  match t with BTChars l => forallb (fun c => (c =? LF) || (c =? CR)) l | BTOther => false end.
Definition key_break_ok (P : parsecfg) : bool := brk_only_lfcr (p_key_break P).
Definition value_break_ok (P : parsecfg) : bool := brk_only_lfcr (p_value_break P).
Definition pcfg_ok (P : parsecfg) : bool := key_break_ok P && value_break_ok P.
