(** C01 — "the text is independent of the indentation options apart from whitespace", at the level of the
    text: deleting the blanks (space, tab) that stand outside quoted strings from the serialised text gives a
    canonical text that is a function of the tree alone. *)
From Coq Require Import List NArith Bool Lia.
From SV Require Import KV.KvBase KV.KvLex KV.KvSer KV.KvSym KV.KvLexProofs KV.KvSymProofs.
Import ListNotations.
Open Scope N_scope.

(** Where a left-to-right reader is: outside a quoted string, inside, or inside just after a backslash. *)
Inductive smode := SOut | SIn | SInEsc.

Fixpoint strip (m : smode) (s : str) : str :=
  match s with
  | [] => []
  | c :: r =>
      match m with
      | SOut => if is_ws c then strip SOut r else c :: strip (if c =? DQ then SIn else SOut) r
      | SIn => c :: strip (if c =? BS then SInEsc else if c =? DQ then SOut else SIn) r
      | SInEsc => c :: strip SIn r
      end
  end.

(** Delete blanks outside quotes. *)
Definition strip_blanks (s : str) : str := strip SOut s.

Definition quoted (E : escfg) (s : str) : str := DQ :: escape E s ++ [DQ].

(** The canonical text of a tree: no indentation at all. *)
Fixpoint canon (E : escfg) (k : kv) : str :=
  match k with
  | Leaf n v => quoted E n ++ quoted E v ++ [LF]
  | Block n cs => quoted E n ++ [LF; 123; LF] ++ flat_map (canon E) cs ++ [125; LF]
  end.
Definition canon_doc (E : escfg) (d : list kv) : str := flat_map (canon E) d.

Definition stok_text (E : escfg) (n v : str) (t : stok) : str :=
  match t with STStr f => quoted E (fld f n v) | SNL => [LF] | SBO => [123] | SBC => [125] end.

(** [strips s t]: read from outside a string, [s] is stripped to [t] and ends outside a string. *)
Definition strips (s t : str) : Prop := forall rest, strip SOut (s ++ rest) = t ++ strip SOut rest.

Lemma strips_nil : strips [] [].
Proof. intros rest. reflexivity. Qed.

Lemma strips_app a ta b tb : strips a ta -> strips b tb -> strips (a ++ b) (ta ++ tb).
Proof. intros Ha Hb rest. now rewrite <- !app_assoc, Ha, Hb. Qed.

Lemma strips_ws w : ws_only w = true -> strips w [].
Proof.
  induction w as [|c w IH]; intros H rest; [reflexivity|].
  cbn [ws_only forallb] in H. apply andb_true_iff in H as [Hc Hw].
  cbn [app strip]. rewrite Hc. now apply IH.
Qed.

Lemma strips_plain c : is_ws c = false -> c <> DQ -> strips [c] [c].
Proof. intros Hw Hq rest. cbn [app strip]. rewrite Hw. apply N.eqb_neq in Hq. now rewrite Hq. Qed.

Section StripEsc.
  Variable E : escfg.
  Hypothesis HE : esc_ok E = true.

  Lemma strip_esc_char c rest : strip SIn (esc_char E c ++ rest) = esc_char E c ++ strip SIn rest.
  Proof.
    unfold esc_char. destruct (mem c (e_excl E)) eqn:Hm.
    - destruct (raw_ordinary E HE c (or_introl Hm)) as (H1 & H2 & _). apply N.eqb_neq in H1, H2.
      cbn [app strip]. now rewrite H1, H2.
    - destruct (rlookup c (e_table E)) as [s|] eqn:Hr.
      + cbn [app strip]. reflexivity.
      + destruct (raw_ordinary E HE c (or_intror Hr)) as (H1 & H2 & _). apply N.eqb_neq in H1, H2.
        cbn [app strip]. now rewrite H1, H2.
  Qed.

  Lemma strip_escape s rest : strip SIn (escape E s ++ rest) = escape E s ++ strip SIn rest.
  Proof.
    induction s as [|c s IH]; [reflexivity|]. unfold escape in *. cbn [flat_map].
    now rewrite <- !app_assoc, strip_esc_char, IH.
  Qed.

  Lemma strips_quoted s : strips (quoted E s) (quoted E s).
  Proof.
    intros rest. unfold quoted. cbn [app strip]. rewrite <- !app_assoc, strip_escape. cbn [app strip].
    reflexivity.
  Qed.

  Variables n v : str.

  Lemma slex_strips : forall k sl, (length sl <= k)%nat -> forall ts s,
    slex sl = Some ts -> conc E n v sl s -> strips s (flat_map (stok_text E n v) ts).
  Proof.
    induction k as [|k IH]; intros sl Hk ts s Hs Hc.
    - destruct sl; [|cbn in Hk; lia]. cbn in Hs. injection Hs as <-. inversion Hc; subst. apply strips_nil.
    - destruct sl as [|[c| |f|] r]; cbn [slex] in Hs; try discriminate.
      + injection Hs as <-. inversion Hc; subst. apply strips_nil.
      + cbn [length] in Hk. inversion Hc as [|c' sl' s' Hc'| | |]; subst.
        destruct (is_ws c) eqn:Hw.
        { change (c :: s') with ([c] ++ s').
          change (flat_map (stok_text E n v) ts) with ([] ++ flat_map (stok_text E n v) ts).
          apply strips_app; [apply strips_ws; cbn; now rewrite Hw | apply (IH r); auto; lia]. }
        assert (Hone : forall c0 t0 ts', c0 = c -> stok_text E n v t0 = [c0] -> c0 <> DQ ->
                  slex r = Some ts' -> strips (c :: s') (flat_map (stok_text E n v) (t0 :: ts'))).
        { intros c0 t0 ts' -> Ht Hq Hr. cbn [flat_map]. rewrite Ht. change (c :: s') with ([c] ++ s').
          apply strips_app; [apply strips_plain; assumption | apply (IH r); auto; lia]. }
        destruct (c =? LF) eqn:E1.
        { apply N.eqb_eq in E1. destruct (slex r) as [ts'|] eqn:Hr; [|discriminate].
          cbn [option_map] in Hs. injection Hs as <-. apply (Hone LF SNL ts'); [now symmetry | reflexivity | discriminate | reflexivity]. }
        destruct (c =? 123) eqn:E2.
        { apply N.eqb_eq in E2. destruct (slex r) as [ts'|] eqn:Hr; [|discriminate].
          cbn [option_map] in Hs. injection Hs as <-. apply (Hone 123 SBO ts'); [now symmetry | reflexivity | discriminate | reflexivity]. }
        destruct (c =? 125) eqn:E3.
        { apply N.eqb_eq in E3. destruct (slex r) as [ts'|] eqn:Hr; [|discriminate].
          cbn [option_map] in Hs. injection Hs as <-. apply (Hone 125 SBC ts'); [now symmetry | reflexivity | discriminate | reflexivity]. }
        destruct (c =? DQ) eqn:E4; [|discriminate].
        apply N.eqb_eq in E4; subst.
        destruct r as [|[| |f|] [|[c2| | |] r2]]; try discriminate.
        destruct (c2 =? DQ) eqn:E5; [|discriminate]. apply N.eqb_eq in E5; subst.
        destruct (slex r2) as [ts'|] eqn:Hr; [|discriminate].
        cbn [option_map] in Hs. injection Hs as <-.
        inversion Hc' as [| |  |f' sl2 s2 Hc2|]; subst.
        inversion Hc2 as [|c3 sl3 s3 Hc3| | |]; subst.
        cbn [length] in Hk.
        replace (DQ :: escape E (fld f n v) ++ DQ :: s3) with (quoted E (fld f n v) ++ s3)
          by (unfold quoted; cbn [app]; now rewrite <- app_assoc).
        cbn [flat_map stok_text]. apply strips_app; [apply strips_quoted | apply (IH r2); auto; lia].
      + cbn [length] in Hk. inversion Hc as [| |w sl' s' Hw Hc'| |]; subst.
        change (flat_map (stok_text E n v) ts) with ([] ++ flat_map (stok_text E n v) ts).
        apply strips_app; [apply strips_ws; exact Hw | apply (IH r); auto; lia].
  Qed.

  Lemma lexes_to_strips sl want s :
    lexes_to sl want = true -> conc E n v sl s -> strips s (flat_map (stok_text E n v) want).
  Proof.
    unfold lexes_to. destruct (slex sl) as [ts|] eqn:Hs; [|discriminate]. intros Heq Hc.
    apply stoks_eqb_eq in Heq. subst. eapply slex_strips; eauto.
  Qed.
End StripEsc.

Section SerStrip.
  Variable C : sercfg.
  Variable E : escfg.
  Variable o : seropts.
  Hypothesis HC : cfg_ok C = true.
  Hypothesis HE : esc_ok E = true.
  Hypothesis HO : ws_opts o = true.

  Lemma ser_node_strips : forall k cur, ws_only cur = true -> strips (ser_node C E o cur k) (canon E k).
  Proof.
    destruct (cfg_parts C o HC) as (Hh & Ht & Hl & Hci & _ & _).
    induction k as [n v | n cs IH] using kv_ind'; intros cur Hc.
    - cbn [ser_node canon].
      pose proof (lexes_to_strips E HE n v _ _ _ Hl (tpl_conc C E o HO n v cur (t_leaf C) Hc)) as H.
      cbn [flat_map stok_text fld app] in H. exact H.
    - cbn [ser_node canon]. rewrite (root_like_never C o HC).
      pose proof (lexes_to_strips E HE n [] _ _ _ Hh (tpl_conc C E o HO n [] cur (t_head C) Hc)) as H1.
      pose proof (lexes_to_strips E HE n [] _ _ _ Ht (tpl_conc C E o HO n [] cur (t_tail C) Hc)) as H3.
      cbn [flat_map stok_text fld app] in H1, H3.
      set (ci := render E (mkenv C E o cur) n [] (t_child_indent C)).
      assert (Hci' : ws_only ci = true) by (apply ws_tpl_render; assumption).
      assert (Hcs : strips (flat_map (ser_node C E o ci) cs) (flat_map (canon E) cs)).
      { clear H1 H3. induction IH as [|k ks Hk _ IHks]; [apply strips_nil|].
        cbn [flat_map]. apply strips_app; [apply Hk; exact Hci' | exact IHks]. }
      replace (quoted E n ++ [LF; 123; LF] ++ flat_map (canon E) cs ++ [125; LF])
        with ((quoted E n ++ [LF; 123; LF]) ++ flat_map (canon E) cs ++ [125; LF])
        by now rewrite <- app_assoc.
      apply strips_app; [exact H1|]. apply strips_app; [exact Hcs | exact H3].
  Qed.

  Theorem strip_serialise_doc d : strip_blanks (serialise_doc C E o d) = canon_doc E d.
  Proof.
    destruct (cfg_parts C o HC) as (_ & _ & _ & _ & Hri & _).
    unfold serialise_doc, canon_doc, strip_blanks.
    set (ri := render E (mkenv C E o (o_start o)) [] [] (t_root_indent C)).
    assert (Hri' : ws_only ri = true) by (apply ws_tpl_render; [assumption.. | apply Hstart; assumption]).
    assert (H : strips (flat_map (ser_node C E o ri) d) (flat_map (canon E) d)).
    { induction d as [|k ks IH]; [apply strips_nil|]. cbn [flat_map].
      apply strips_app; [apply ser_node_strips; exact Hri' | exact IH]. }
    specialize (H []). now rewrite !app_nil_r in H.
  Qed.

  Theorem strip_serialise_node k : strip_blanks (serialise_node C E o k) = canon E k.
  Proof.
    pose proof (ser_node_strips k (o_start o) (Hstart o HO) []) as H. now rewrite !app_nil_r in H.
  Qed.
End SerStrip.

Lemma ws_canonical_doc C E : cfg_ok C = true -> esc_ok E = true ->
  forall o d, ws_opts o = true -> strip_blanks (serialise_doc C E o d) = canon_doc E d.
Proof. intros HC HE o d HO. now apply strip_serialise_doc. Qed.

Lemma ws_canonical_node C E : cfg_ok C = true -> esc_ok E = true ->
  forall o k, ws_opts o = true -> strip_blanks (serialise_node C E o k) = canon E k.
Proof. intros HC HE o k HO. now apply strip_serialise_node. Qed.
