(** C01 — the deprecated generator [Keyvalues.export()] as a program of instructions, regenerated from the source
    (translate/c01_kvaux.py -> Gen/KVAux_gen.v [gen_xprog]): per branch (root / named block / leaf) the statements in
    order, each one a [yield] of a template, the hand-on of the children's lines with the constant put in front of each,
    a store to / a mutating call on a tree object.  The translator fails closed on any other statement.

    [xexec] runs a program on a tree and returns the tree afterwards together with the text yielded; a store replaces the
    node by [upd node] for an ARBITRARY [upd].  As for [_serialise] (KV/KvWProg.v): a program without store / mutate
    instructions returns the tree it was given ([xexec_pure_tree]), and a program whose yields are those of the
    structural reading [gen_expcfg] yields exactly the text of the export model [exp_node] ([xexec_text]). *)
From Coq Require Import List NArith Bool Arith Lia.
From SV Require Import KV.KvBase KV.KvLex KV.KvSer KV.KvExport KV.KvWProg.
Import ListNotations.
Open Scope N_scope.

Inductive xinstr := XYield (t : list piece) | XChildren (pre : list piece) | XStore | XMutate.
Record xprog := { xp_root : list xinstr; xp_block : list xinstr; xp_leaf : list xinstr }.

Definition xinstr_pure (i : xinstr) : bool := match i with XYield _ | XChildren _ => true | _ => false end.
Definition xprog_pure (P : xprog) : bool :=
  forallb xinstr_pure (xp_root P) && forallb xinstr_pure (xp_block P) && forallb xinstr_pure (xp_leaf P).

Section XExec.
  Variables (X : expcfg) (E : escfg) (P : xprog).
  Variable upd : kv -> kv.

  (** [w]: the constants the enclosing generators put in front of every line handed on. *)
  Definition xstep (ex : str -> kv -> kv * str) (w : str) (k : kv) (i : xinstr) : kv * str :=
    match i with
    | XYield t => (k, w ++ render E xenv (node_name k) (node_value k) t)
    | XChildren pre =>
        let (cs', s) := map_exec (ex (w ++ render E xenv [] [] pre)) (node_children k) in (set_children k cs', s)
    | XStore | XMutate => (upd k, [])
    end.
  Fixpoint xrun (ex : str -> kv -> kv * str) (w : str) (k : kv) (l : list xinstr) : kv * str :=
    match l with
    | [] => (k, [])
    | i :: r => let (k1, s1) := xstep ex w k i in let (k2, s2) := xrun ex w k1 r in (k2, s1 ++ s2)
    end.
  Definition xbranch (k : kv) : list xinstr :=
    match k with
    | Leaf _ _ => xp_leaf P
    | Block n _ => if root_like (x_root_test X) n then xp_root P else xp_block P
    end.
  Fixpoint xexec (fuel : nat) (w : str) (k : kv) : kv * str :=
    match fuel with
    | O => (k, [])
    | S m => xrun (xexec m) w k (xbranch k)
    end.

  Lemma xrun_pure ex : (forall w c, fst (ex w c) = c) ->
    forall l w k, forallb xinstr_pure l = true -> fst (xrun ex w k l) = k.
  Proof.
    intros H. induction l as [|i r IH]; intros w k Hp; [reflexivity|]. cbn [forallb] in Hp.
    apply andb_true_iff in Hp as [Hi Hr]. cbn [xrun].
    assert (H1 : fst (xstep ex w k i) = k).
    { destruct i; try discriminate; cbn [xstep]; [reflexivity|].
      pose proof (map_exec_pure (ex (w ++ render E xenv [] [] pre)) (node_children k) (H _)) as Hm.
      destruct (map_exec _ _) as [cs' s]. cbn in *. subst. apply set_children_id. }
    destruct (xstep ex w k i) as [k1 s1]. cbn in H1. subst k1.
    specialize (IH w k Hr). destruct (xrun ex w k r) as [k2 s2]. exact IH.
  Qed.

  Theorem xexec_pure_tree : xprog_pure P = true -> forall fuel w k, fst (xexec fuel w k) = k.
  Proof.
    unfold xprog_pure. intros H. apply andb_true_iff in H as [H H3]. apply andb_true_iff in H as [H1 H2].
    induction fuel as [|m IH]; intros w k; [reflexivity|]. cbn [xexec].
    apply xrun_pure; [exact IH|]. unfold xbranch. destruct k as [n v|n cs]; [exact H3|].
    now destruct (root_like (x_root_test X) n).
  Qed.

  (** * A program whose yields are those of the structural reading yields the export model's text *)
  Fixpoint yields_of (l : list xinstr) : option (list (list piece)) :=
    match l with
    | [] => Some []
    | XYield t :: r => option_map (cons t) (yields_of r)
    | _ => None
    end.
  Fixpoint xsplit (l : list xinstr) : option (list (list piece) * list piece * list (list piece)) :=
    match l with
    | XYield t :: r => option_map (fun x => match x with (a, c, b) => (t :: a, c, b) end) (xsplit r)
    | XChildren pre :: r => option_map (fun b => ([], pre, b)) (yields_of r)
    | _ => None
    end.
  Fixpoint pl_eqb (a b : list (list piece)) : bool :=
    match a, b with
    | [], [] => true
    | x :: a', y :: b' => pieces_eqb x y && pl_eqb a' b'
    | _, _ => false
    end.
  Lemma pl_eqb_eq a : forall b, pl_eqb a b = true -> a = b.
  Proof.
    induction a as [|x a IH]; destruct b as [|y b]; cbn; try discriminate; [reflexivity|].
    intros H. apply andb_true_iff in H as [H1 H2]. apply pieces_eqb_eq in H1. apply IH in H2. now subst.
  Qed.
  Definition xprog_text_ok : bool :=
    match xsplit (xp_root P), xsplit (xp_block P), yields_of (xp_leaf P) with
    | Some (ra, rc, rb), Some (ba, bc, bb), Some lf =>
        pl_eqb ra [] && pieces_eqb rc [] && pl_eqb rb []
        && pl_eqb ba (x_head X) && pieces_eqb bc (x_prefix X) && pl_eqb bb (x_tail X) && pl_eqb lf (x_leaf X)
    | _, _, _ => false
    end.

  Lemma xrun_yields ex w k : forall l ys, yields_of l = Some ys ->
    xrun ex w k l = (k, xlines E w (node_name k) (node_value k) ys).
  Proof.
    induction l as [|i r IH]; intros ys H; cbn [yields_of] in H.
    - inversion H. reflexivity.
    - destruct i; try discriminate. destruct (yields_of r) as [ys'|]; [|discriminate]. inversion H; subst.
      cbn [xrun xstep]. rewrite (IH ys' eq_refl). reflexivity.
  Qed.

  Lemma map_exec_xtext ex w cs : (forall c, In c cs -> ex c = (c, exp_node X E w c)) ->
    map_exec ex cs = (cs, flat_map (exp_node X E w) cs).
  Proof.
    induction cs as [|c r IH]; intros H; [reflexivity|]. cbn [map_exec flat_map].
    rewrite (H c (or_introl eq_refl)), IH; [reflexivity|]. intros c' Hc. apply H. now right.
  Qed.

  Lemma xrun_split ex w n cs : forall l a c b, xsplit l = Some (a, c, b) ->
    (forall ch, In ch cs -> ex (w ++ render E xenv [] [] c) ch = (ch, exp_node X E (w ++ render E xenv [] [] c) ch)) ->
    xrun ex w (Block n cs) l
    = (Block n cs, xlines E w n [] a ++ flat_map (exp_node X E (w ++ render E xenv [] [] c)) cs ++ xlines E w n [] b).
  Proof.
    induction l as [|i r IH]; intros a c b H Hex; cbn [xsplit] in H; [discriminate|].
    destruct i; try discriminate.
    - destruct (xsplit r) as [[[a' c'] b']|]; [|discriminate]. inversion H; subst.
      cbn [xrun xstep node_name node_value]. rewrite (IH a' c b eq_refl Hex).
      unfold xlines. cbn [flat_map]. now rewrite <- !app_assoc.
    - destruct (yields_of r) as [b'|] eqn:Hw; [|discriminate]. inversion H; subst.
      cbn [xrun xstep node_name node_children set_children].
      rewrite (map_exec_xtext _ _ cs Hex). rewrite (xrun_yields ex w (Block n cs) r b Hw).
      cbn [node_name node_value xlines flat_map app]. reflexivity.
  Qed.

  Theorem xexec_text : xprog_text_ok = true -> forall fuel k w, (kv_depth k <= fuel)%nat ->
    xexec fuel w k = (k, exp_node X E w k).
  Proof.
    unfold xprog_text_ok. intros H.
    destruct (xsplit (xp_root P)) as [[[ra rc] rb]|] eqn:HR; [|discriminate].
    destruct (xsplit (xp_block P)) as [[[ba bc] bb]|] eqn:HB; [|discriminate].
    destruct (yields_of (xp_leaf P)) as [lf|] eqn:HL; [|discriminate].
    repeat (apply andb_true_iff in H as [H ?]).
    repeat match goal with Y : pieces_eqb _ _ = true |- _ => apply pieces_eqb_eq in Y end.
    repeat match goal with Y : pl_eqb _ _ = true |- _ => apply pl_eqb_eq in Y end. subst.
    induction fuel as [|m IH]; intros k w Hd.
    - destruct k; cbn in Hd; lia.
    - destruct k as [n v|n cs]; cbn [xexec xbranch exp_node].
      + apply (xrun_yields (xexec m) w (Leaf n v) _ _ HL).
      + assert (Hch : forall w' ch, In ch cs -> xexec m w' ch = (ch, exp_node X E w' ch)).
        { intros w' ch Hin. apply IH. cbn [kv_depth] in Hd. apply le_S_n in Hd.
          clear - Hin Hd. induction cs as [|c r IHr]; [destruct Hin|]. cbn [fold_right] in Hd.
          destruct Hin as [->|Hin]; [lia|]. apply IHr; [lia|exact Hin]. }
        destruct (root_like (x_root_test X) n) eqn:Hrl.
        * rewrite (xrun_split (xexec m) w n cs _ _ _ _ HR (fun ch Hin => Hch _ ch Hin)).
          cbn [render flat_map xlines app]. now rewrite !app_nil_r.
        * now rewrite (xrun_split (xexec m) w n cs _ _ _ _ HB (fun ch Hin => Hch _ ch Hin)).
  Qed.
End XExec.

(** The reference program: what the translator reads off today's [export()]. *)
Definition ref_xprog (head_name : piece) : xprog := {|
  xp_root := [XChildren []];
  xp_block := [XYield [PLit [34]; head_name; PLit [34; 10]]; XYield [PLit [9; 123; 10]]; XChildren [PLit [9]];
               XYield [PLit [9; 125; 10]]];
  xp_leaf := [XYield [PLit [34]; PEsc FName; PLit [34; 32; 34]; PEsc FValue; PLit [34; 10]]] |}.
Lemma ref_xprog_ok : xprog_pure (ref_xprog (PEsc FName)) = true
                     /\ xprog_text_ok (ref_expcfg (PEsc FName)) (ref_xprog (PEsc FName)) = true.
Proof. split; reflexivity. Qed.

(** The nearby wrong shape: export() sorting the children before handing them on. *)
Definition sorting_xprog : xprog := {|
  xp_root := XMutate :: xp_root (ref_xprog (PEsc FName));
  xp_block := xp_block (ref_xprog (PEsc FName));
  xp_leaf := xp_leaf (ref_xprog (PEsc FName)) |}.
Lemma sorting_xprog_rejected : xprog_pure sorting_xprog = false.
Proof. reflexivity. Qed.
