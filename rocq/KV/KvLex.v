(** C01 — model of [escape_text] and of [Tokenizer] as configured by [Keyvalues.parse]
    (string_bracket=True, string_parens=True, allow_escapes=True, no star comments, no comment tokens,
    no colon/plus operators), on a flat character list.

    The tokenizer is written as a character-driven transducer: a mode (where in [_get_token] /
    [_handle_string] / [_handle_comment] / the bracket loops the Python code is), the line number and the
    [_last_was_cr] flag.  "Un-reading" a character ([self._char_index -= 1]) is re-dispatching the same
    character in the normal mode.  Chunked delivery is not modelled here (see C03 / the search). *)
From Coq Require Import List NArith Bool.
From SV Require Import KV.KvBase.
Import ListNotations.
Open Scope N_scope.

(** * escape_text (multiline=False), over the generated tables *)
Fixpoint lookup (e : char) (t : list (char * char)) : option char :=
  match t with [] => None | (s, c) :: r => if s =? e then Some c else lookup e r end.

(** ESCAPES_INV = {char: '\\'+sym for sym, char in ESCAPES.items()}: the LAST symbol of a character wins. *)
Fixpoint rlookup (c : char) (t : list (char * char)) : option char :=
  match t with
  | [] => None
  | (s, c') :: r => match rlookup c r with
                    | Some s' => Some s'
                    | None => if c' =? c then Some s else None
                    end
  end.

Definition mem (c : char) (l : list char) : bool := existsb (N.eqb c) l.

Definition esc_char (E : escfg) (c : char) : str :=
  if mem c (e_excl E) then [c] else
  match rlookup c (e_table E) with Some s => [BS; s] | None => [c] end.

Definition escape (E : escfg) (s : str) : str := flat_map (esc_char E) s.

(** * Tokenizer *)
Inductive mode :=
| MNorm                          (* main loop of _get_token *)
| MStr (acc : str) (cr : bool)   (* _handle_string; acc reversed; cr = its local last_was_cr *)
| MEsc (acc : str)               (* _handle_string just after a backslash *)
| MFlag (acc : str)              (* inside [ ... *)
| MParen (acc : str)             (* inside ( ... *)
| MSlash                         (* _handle_comment: one '/' read *)
| MComment                       (* inside a // comment *)
| MDirective                     (* #name (value unused by the parser: always an error) *)
| MBare (acc : str).             (* bare string *)

Record lst := mkL { l_mode : mode; l_line : N; l_cr : bool }.

(** [SErr out e]: the tokens [out] are still delivered (a bare string / directive ended by the offending
    character), then the tokenizer raises [e]. *)
Inductive sres := SOk (st : lst) (out : list tok) | SErr (out : list tok) (e : lexerr).

(** BARE_DISALLOWED: double quote, quote, braces, semicolon, comma, equals, brackets, parentheses, CR, LF, TAB, space *)
Definition bare_disallowed (c : char) : bool :=
  mem c [34; 39; 123; 125; 59; 44; 61; 91; 93; 40; 41; 13; 10; 9; 32].

Definition norm_step (line : N) (cr : bool) (c : char) : sres :=
  if c =? 123 then SOk (mkL MNorm line cr) [TBO]
  else if c =? 125 then SOk (mkL MNorm line cr) [TBC]
  else if (c =? 61) || (c =? 44) then SOk (mkL MNorm line cr) [TOther]
  else if c =? CR then SOk (mkL MNorm (line + 1) true) [TNL]
  else if c =? LF then
    (if cr then SOk (mkL MNorm line false) [] else SOk (mkL MNorm (line + 1) false) [TNL])
  else if (c =? SP) || (c =? TAB) then SOk (mkL MNorm line false) []
  else if c =? 47 then SOk (mkL MSlash line false) []
  else if c =? DQ then SOk (mkL (MStr [] false) line false) []
  else if c =? 91 then SOk (mkL (MFlag []) line false) []
  else if c =? 40 then SOk (mkL (MParen []) line false) []
  else if (c =? 65279) && (line =? 1) then SOk (mkL MNorm line false) []
  else if c =? 93 then SErr [] LCloseBracket
  else if c =? 41 then SErr [] LCloseParen
  else if c =? 35 then SOk (mkL MDirective line false) []
  else if negb (bare_disallowed c) then SOk (mkL (MBare [c]) line false) []
  else SErr [] LUnexpectedChar.

Definition prepend (t : tok) (r : sres) : sres :=
  match r with SOk st out => SOk st (t :: out) | SErr out e => SErr (t :: out) e end.

Definition lstep (E : escfg) (st : lst) (c : char) : sres :=
  let line := l_line st in
  let cr := l_cr st in
  match l_mode st with
  | MNorm => norm_step line cr c
  | MStr acc scr =>
      if c =? DQ then SOk (mkL MNorm line cr) [TStr (rev acc)]
      else if c =? CR then SOk (mkL (MStr (LF :: acc) true) (line + 1) cr) []
      else if c =? LF then
        (if scr then SOk (mkL (MStr acc false) line cr) []
         else SOk (mkL (MStr (LF :: acc) false) (line + 1) cr) [])
      else if c =? BS then SOk (mkL (MEsc acc) line cr) []
      else SOk (mkL (MStr (c :: acc) false) line cr) []
  | MEsc acc =>
      if c =? LF then SOk (mkL (MStr acc false) line cr) []
      else match lookup c (e_table E) with
           | Some x => SOk (mkL (MStr (x :: acc) false) line cr) []
           | None => SOk (mkL (MStr (c :: BS :: acc) false) line cr) []
           end
  | MFlag acc =>
      if c =? 93 then SOk (mkL MNorm line cr) [TFlag (rev acc)]
      else if c =? LF then SErr [] LFlagNewline
      else if c =? 91 then SErr [] LFlagNest
      else SOk (mkL (MFlag (c :: acc)) line cr) []
  | MParen acc =>
      if c =? 41 then SOk (mkL MNorm line cr) [TOther]
      else if c =? LF then SOk (mkL (MParen (c :: acc)) (line + 1) cr) []
      else if c =? 40 then SErr [] LParenNest
      else SOk (mkL (MParen (c :: acc)) line cr) []
  | MSlash =>
      if c =? 42 then SErr [] LStarComment
      else if c =? 47 then SOk (mkL MComment line cr) []
      else SErr [] LSingleSlash
  | MComment =>
      if c =? LF then norm_step line cr c else SOk st []
  | MDirective =>
      if bare_disallowed c then prepend TOther (norm_step line cr c) else SOk st []
  | MBare acc =>
      if bare_disallowed c then prepend (TStr (rev acc)) (norm_step line cr c)
      else SOk (mkL (MBare (c :: acc)) line cr) []
  end.

(** Run over a character list. Result: tokens produced, and either the first error or the final state. *)
Fixpoint lex_run (E : escfg) (st : lst) (inp : str) : list tok * (lexerr + lst) :=
  match inp with
  | [] => ([], inr st)
  | c :: r =>
      match lstep E st c with
      | SErr out e => (out, inl e)
      | SOk st' out => let '(ts, fin) := lex_run E st' r in (out ++ ts, fin)
      end
  end.

(** End of input in each mode. *)
Definition lex_end (st : lst) : list tok * option lexerr :=
  match l_mode st with
  | MNorm | MComment => ([], None)
  | MStr _ _ => ([], Some LUnterminated)
  | MEsc _ => ([], Some LNoEscape)
  | MFlag _ => ([], Some LFlagEof)
  | MParen _ => ([], Some LParenEof)
  | MSlash => ([], Some LSingleSlash)
  | MDirective => ([TOther], None)
  | MBare acc => ([TStr (rev acc)], None)
  end.

Definition lex_init : lst := mkL MNorm 1 false.

(** All tokens of a text, and the error (if any) that the tokenizer raises after them. *)
Definition lex_all (E : escfg) (inp : str) : list tok * option lexerr :=
  match lex_run E lex_init inp with
  | (ts, inl e) => (ts, Some e)
  | (ts, inr st) => let '(ts', e) := lex_end st in (ts ++ ts', e)
  end.
