(** C01 — one statement of the whole property, composed from the parts.

    Generated objects (all regenerated from the source on every run; their side conditions are decidable and are
    discharged in the kernel by the check):
      [C]  write templates of [_serialise] + brace templates of [serialise]        [cfg_ok]
      [E]  ESCAPES and the characters [escape_text] leaves alone                     [esc_ok]
      [P]  line-break sets and emptiness guards of [parse]                           [pcfg_ok]
      [T F] the token loop of [parse] and the checks after it, as decision trees     [loop_ok]
      [TB] the constant tables of the C03 tokenizer model                            [tables_match]
      [ps] the execution paths of the wrapper [serialise()]                          [delivery_ok]
      [fp] [_read_flag] as a decision tree                                           [flagprog_ok]
      [W]  [_serialise] as a program of write / child-loop / store instructions      [wprog_pure], [wprog_text_ok]  *)
From Coq Require Import List NArith Bool.
From SV Require Import Text.Str Text.Prog Text.Tokenizer.
From SV Require Import KV.KvBase KV.KvLex KV.KvParse KV.KvSer KV.KvSym KV.KvParseProofs KV.KvRoundtrip KV.KvStrip
  KV.KvRefine KV.KvFlags KV.KvLoop KV.KvLoopRef KV.KvLoopEquiv KV.KvLoopRoundtrip KV.KvWriter KV.KvFlagProg KV.KvWProg
  KV.KvShift.
Import ListNotations.

(** The object [serialise] is called on and the document that must come back. *)
Definition obj_doc (x : kv + list kv) : list kv := match x with inl k => [k] | inr d => d end.
Definition obj_names_ok (x : kv + list kv) : bool := doc_names_ok (obj_doc x).
Definition obj_values_ok (x : kv + list kv) : bool := doc_values_ok (obj_doc x).
Definition obj_canon (E : escfg) (x : kv + list kv) : str := canon_doc E (obj_doc x).

(** The flag predicate computed by the regenerated [_read_flag] ([None]: the program fell off its end). *)
Definition flag_of (fp : ftree) casefold (flags defaults : list (KvBase.str * bool)) (s : KvBase.str) : bool :=
  match eval_ftree casefold flags defaults s fp with Some b => b | None => false end.

Lemma flag_of_read_flag fp : flagprog_ok fp = true -> forall cf fl df s,
  flag_of fp cf fl df s = read_flag cf fl df s.
Proof. intros H cf fl df s. unfold flag_of. now rewrite (flagprog_is_read_flag fp H). Qed.

Lemma canon_doc_single E k : canon_doc E [k] = canon E k.
Proof. unfold canon_doc. cbn [flat_map]. apply app_nil_r. Qed.

Section Whole.
  Variables (C : sercfg) (E : escfg) (P : parsecfg) (T F : ptree) (TB : tables) (ps : list serpath) (fp : ftree)
            (W : wprog).
  Hypothesis HC : cfg_ok C = true.
  Hypothesis HE : esc_ok E = true.
  Hypothesis HP : pcfg_ok P = true.
  Hypothesis HL : loop_ok T F P = true.
  Hypothesis HT : tables_match TB E = true.
  Hypothesis HD : delivery_ok ps = true.
  Hypothesis HF : flagprog_ok fp = true.
  Hypothesis HW : wprog_pure W = true.
  Hypothesis HX : wprog_text_ok C W = true.

  Lemma ser_obj_roundtrip_tree flag_on O o x : po_single_block O = false -> ws_opts o = true ->
    po_newline_keys O || obj_names_ok x = true -> po_newline_values O || obj_values_ok x = true ->
    parse_kv_tree T F P O E flag_on (ser_obj C E o x) = POk (obj_doc x).
  Proof.
    intros Hsb HO Hn Hv. destruct x as [k|d]; cbn [ser_obj obj_doc].
    - apply (tree_roundtrip_node C E P T F HC HE HP HL); try assumption.
      + unfold obj_names_ok, doc_names_ok in Hn. cbn in Hn. now rewrite andb_true_r in Hn.
      + unfold obj_values_ok, doc_values_ok in Hv. cbn in Hv. now rewrite andb_true_r in Hv.
    - now apply (tree_roundtrip_doc C E P T F HC HE HP HL).
  Qed.

  (** THE PROPERTY.  For every tree [x] (a named node or a root document: any depth and width, empty blocks, duplicate
      names, empty strings, every code point in names and values), every whitespace-only [indent] / [start_indent], both
      brace styles, every setting of newline_keys / newline_values / single_line, every [flags=] mapping, default table
      and casefold function -- names free of line breaks unless newline_keys, values unless newline_values --, on EVERY
      execution path [p] of [serialise()] (file given or not):

      1. the path delivers a text [txt] (to the file, or as the returned string), and the return value is right;
      2. [txt] is the text of the writer model, and it is also what the instruction program [W] writes;
      3. running the writer leaves the tree unchanged, whatever a store instruction would do (there is none);
      4. parsing [txt] with the regenerated token loop and the regenerated [_read_flag] gives the tree back:
         same shape, order, exact names and values, no error;
      5. so does parsing it through the tokenizer reader model however it is cut into chunks (a str, a list of chunks,
         a file object), and that parse equals the one of 4;
      6. for any other whitespace-only option set the token stream is the same, and the text with the blanks outside
         quotes deleted is a function of the tree alone;
      7. the flag predicate used is [read_flag] of KV/KvFlags.v. *)
  Theorem whole_property : forall casefold flags defaults O o x p,
    po_single_block O = false -> ws_opts o = true ->
    po_newline_keys O || obj_names_ok x = true -> po_newline_values O || obj_values_ok x = true ->
    In p ps ->
    let flag := flag_of fp casefold flags defaults in
    exists txt,
      (path_text C E o x p = Some txt /\ sp_ret_ok p = true) /\
      (txt = ser_obj C E o x /\
       forall upd fuel k cur, (kv_depth k <= fuel)%nat -> snd (wexec C E o W upd fuel cur k) = ser_node C E o cur k) /\
      (forall upd fuel k cur, fst (wexec C E o W upd fuel cur k) = k) /\
      parse_kv_tree T F P O E flag txt = POk (obj_doc x) /\
      (forall cs n f, concat cs = txt -> (length txt < n)%nat -> (length txt < f)%nat ->
         parse_kv_reader P O TB flag n f (chk_of_chunks cs) = parse_kv_tree T F P O E flag txt) /\
      (forall o2, ws_opts o2 = true ->
         lex_all E txt = lex_all E (ser_obj C E o2 x) /\ strip_blanks txt = obj_canon E x) /\
      (forall s, flag s = read_flag casefold flags defaults s).
  Proof.
    intros cf fl df O o x p Hsb HO Hn Hv Hin flag.
    destruct (delivery_is_writer_text C E ps HD (sp_file_none p) o x) as [Hall _].
    destruct (Hall p Hin) as [Htxt Hret]. exists (ser_obj C E o x).
    split; [now split|]. split; [split; [reflexivity|]|].
    { intros upd fuel k cur Hd. now rewrite (wexec_text C E o W upd HX fuel k cur Hd). }
    split; [intros upd fuel k cur; now apply wexec_pure_tree|].
    split; [now apply ser_obj_roundtrip_tree|]. split; [|split; [|intros s; now apply flag_of_read_flag]].
    - intros cs n f Hcs Hlen Hlf. rewrite <- Hcs in *.
      rewrite (parse_any_delivery_chunks TB E HT P O flag cs n f Hlen Hlf).
      symmetry. apply (loop_ok_parse T F P HL).
    - intros o2 HO2. destruct x as [k|d]; cbn [ser_obj obj_canon obj_doc].
      + split; [now apply (indent_independent_tokens_node C E HC HE)|].
        unfold obj_canon, obj_doc. rewrite canon_doc_single. now apply ws_canonical_node.
      + split; [now apply (indent_independent_tokens C E HC HE)|]. unfold obj_canon, obj_doc. now apply ws_canonical_doc.
  Qed.

  (** ... and there is a path for each way of calling: with or without a file, with either brace style. *)
  Theorem whole_property_paths_exist : forall file_none o,
    exists p, In p ps /\ sp_file_none p = file_none /\ sp_ib p = o_indent_braces o.
  Proof. intros fn o. exact (proj2 (delivery_is_writer_text C E ps HD fn o (inr []))). Qed.

  (** The flag predicate of the statement is [_read_flag] as modelled by KV/KvFlags.v. *)
  Theorem whole_property_flags : forall cf fl df s, flag_of fp cf fl df s = read_flag cf fl df s.
  Proof. exact (flag_of_read_flag fp HF). Qed.
End Whole.

(** Today's reference objects satisfy every hypothesis (the check discharges the same for the regenerated ones). *)
Lemma ref_tables_match_ref_escfg : tables_match ref_tables ref_escfg = true.
Proof. vm_compute. reflexivity. Qed.

Lemma whole_property_hypotheses_satisfiable :
  cfg_ok (ref_sercfg (PEsc FName)) = true /\ esc_ok ref_escfg = true /\ pcfg_ok ref_pcfg = true /\
  loop_ok ref_ptree ref_pfinal ref_pcfg = true /\ tables_match ref_tables ref_escfg = true /\
  delivery_ok ref_serpaths = true /\ flagprog_ok ref_flagprog = true /\
  wprog_pure (ref_wprog (PEsc FName)) = true /\ wprog_text_ok (ref_sercfg (PEsc FName)) (ref_wprog (PEsc FName)) = true.
Proof.
  split; [exact ref_cfg_ok|]. split; [exact ref_esc_ok|]. split; [exact ref_pcfg_ok|]. split; [exact ref_loop_ok|].
  split; [exact ref_tables_match_ref_escfg|]. repeat split; vm_compute; reflexivity.
Qed.

(** The reference templates are sequences of writer lines ([lines_ok] of KV/KvShift.v), for both brace styles. *)
Lemma ref_sercfg_lines_ok o : lines_ok (ref_sercfg (PEsc FName)) o = true.
Proof. destruct o as [i [|] s]; reflexivity. Qed.
