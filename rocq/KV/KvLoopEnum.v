(** C01 — bounded in-kernel comparison of a regenerated loop tree with the hand-written token loop: every token
    string up to a length over the 9-symbol alphabet of KV/KvEnum.v, all 16 option vectors, both endings.  This is
    evidence that does not depend on the tree being syntactically equal to the reference tree. *)
From Coq Require Import List NArith Bool.
From SV Require Import KV.KvBase KV.KvLex KV.KvParse KV.KvLoop KV.KvEnum.
Import ListNotations.
Open Scope N_scope.

Definition pres_eqb (a b : pres) : bool :=
  match a, b with
  | POk x, POk y => doc_eqb x y
  | PNode x, PNode y => kv_eqb x y
  | PErr x, PErr y => perr_code x =? perr_code y
  | _, _ => false
  end.
Definition tree_agrees_on (T F : ptree) (P : parsecfg) (bits fin : N) (w : list N) : bool :=
  let tf := (map sym_tok w, fin_of_code fin) in
  pres_eqb (parse_toks_opts P (mkopts bits) enum_flag tf) (parse_toks_tree T F P (mkopts bits) enum_flag tf).
Definition all_bits : list N := [0; 1; 2; 3; 4; 5; 6; 7; 8; 9; 10; 11; 12; 13; 14; 15].
Definition tree_disagreements (T F : ptree) (P : parsecfg) (n : nat) : list (N * N * list N) :=
  flat_map (fun bits => flat_map (fun fin =>
    map (fun w => (bits, fin, w)) (filter (fun w => negb (tree_agrees_on T F P bits fin w)) (words sym_alpha n)))
    [0; 1]) all_bits.
Definition tree_agrees_upto (T F : ptree) (P : parsecfg) (n : nat) : bool :=
  match tree_disagreements T F P n with [] => true | _ => false end.

(** The exhaustive token-level correspondence of the check, for the parser given by a regenerated loop tree: the same
    encoding and checksum as [tok_shard_hash] of KV/KvEnum.v, so the implementation's checksums can be compared with
    both the hand-written token loop and the tree read off the source. *)
Definition tree_case (T F : ptree) (P : parsecfg) (bits fin : N) (w : list N) : list N :=
  bits :: fin :: N.of_nat (length w) :: w
  ++ enc_pres (parse_toks_tree T F P (mkopts bits) enum_flag (map sym_tok w, fin_of_code fin)).
Definition tree_shard_hash (T F : ptree) (P : parsecfg) (bits fin : N) (n : nat) : Uint63.int :=
  sum_hash (map (fun w => hfin (hash_list (tree_case T F P bits fin w))) (words sym_alpha n)).
Definition tree_shard_cases (T F : ptree) (P : parsecfg) (bits fin : N) (n : nat) : list (list N) :=
  map (tree_case T F P bits fin) (words sym_alpha n).
