(** C01 — KeyValues1: basic types shared by the model files, the generated file Gen/KVSer_gen.v and the proofs.

    Characters are [N] code points (every value 0..0x10FFFF, lone surrogates included, can occur in a Python
    [str]); strings are [list N].  A document is the list of children of the nameless root object returned by
    [Keyvalues.parse] / built by [Keyvalues.root]. *)
From Coq Require Import List NArith Bool.
Import ListNotations.
Open Scope N_scope.

Definition char := N.
Definition str := list char.

Definition DQ : char := 34.   (* double quote *)
Definition BS : char := 92.   (* backslash *)
Definition LF : char := 10.
Definition CR : char := 13.
Definition SP : char := 32.
Definition TAB : char := 9.

(** * Trees *)
Inductive kv := Leaf (n v : str) | Block (n : str) (cs : list kv).

Section KvInd.
  Variable P : kv -> Prop.
  Hypothesis HL : forall n v, P (Leaf n v).
  Hypothesis HB : forall n cs, Forall P cs -> P (Block n cs).
  Fixpoint kv_ind' (k : kv) : P k :=
    match k with
    | Leaf n v => HL n v
    | Block n cs => HB n cs ((fix go (l : list kv) : Forall P l :=
        match l with [] => Forall_nil _ | x :: r => Forall_cons _ (kv_ind' x) (go r) end) cs)
    end.
End KvInd.

Fixpoint str_eqb (a b : str) : bool :=
  match a, b with
  | [], [] => true
  | x :: a', y :: b' => (x =? y) && str_eqb a' b'
  | _, _ => false
  end.

Fixpoint kv_eqb (a b : kv) : bool :=
  match a, b with
  | Leaf n v, Leaf n' v' => str_eqb n n' && str_eqb v v'
  | Block n cs, Block n' cs' =>
      str_eqb n n' &&
      (fix go (l l' : list kv) : bool :=
         match l, l' with
         | [], [] => true
         | x :: r, y :: r' => kv_eqb x y && go r r'
         | _, _ => false
         end) cs cs'
  | _, _ => false
  end.

Fixpoint doc_eqb (a b : list kv) : bool :=
  match a, b with
  | [], [] => true
  | x :: r, y :: r' => kv_eqb x y && doc_eqb r r'
  | _, _ => false
  end.

(** Names the format can carry: no line break (Keyvalues.parse, newline_keys=False, rejects LF and CR in keys). *)
Definition has_linebreak (s : str) : bool := existsb (fun c => (c =? LF) || (c =? CR)) s.

Fixpoint names_ok (k : kv) : bool :=
  match k with
  | Leaf n _ => negb (has_linebreak n)
  | Block n cs => negb (has_linebreak n) && forallb names_ok cs
  end.
Definition doc_names_ok (d : list kv) : bool := forallb names_ok d.

(** * Tokens as seen by Keyvalues.parse (Tokenizer with string_bracket=True, other options default). *)
Inductive tok :=
| TStr (s : str)      (* Token.STRING, quoted or bare *)
| TNL                 (* Token.NEWLINE *)
| TBO | TBC           (* { } *)
| TFlag (s : str)     (* Token.PROP_FLAG  [text] *)
| TOther.             (* EQUALS, COMMA, PAREN_ARGS, DIRECTIVE: all rejected by the parser *)

Inductive lexerr :=
| LFlagNewline | LFlagNest | LFlagEof | LParenNest | LParenEof | LCloseBracket | LCloseParen
| LStarComment | LSingleSlash | LNoEscape | LUnterminated | LUnexpectedChar.

Inductive perr :=
| ELex (e : lexerr)
| EBlockAfterValue     (* "{" although the last line had an inline value *)
| EBlockRequired       (* something other than "{" after a lone name *)
| ENewlineKey
| EExpectedNewline     (* tokenizer.expect(NEWLINE) after a [flag] failed *)
| EMultipleNames
| ETooManyClose
| EUnexpected          (* tokenizer.error(token_type, token_value) *)
| EEofBlock            (* lone name at end of file *)
| EEofOpen             (* unclosed blocks at end of file *)
| EIndex               (* IndexError escaping from cur_block_contents[-1] / root[0] on an empty list *)
| ENewlineValue.       (* newline_values=False and a line break in a value *)

(** [POk d]: the root object with children [d]; [PNode k]: single_block=True returned one node. *)
Inductive pres := POk (d : list kv) | PNode (k : kv) | PErr (e : perr).

(** * Decisive sites of Keyvalues.parse regenerated from the source (Gen/KVSer_gen.v) *)
(** The test guarding 'Illegal newline found in key/value': a disjunction of ['c' in text] over single
    characters ([BTChars]), or anything else ([BTOther]: kept so that the obligation, not the translator, fails). *)
Inductive brktest := BTChars (l : list char) | BTOther.
Record parsecfg := {
  p_key_break : brktest;        (* ... and not newline_keys *)
  p_value_break : brktest;      (* ... and not newline_values *)
  p_replace_guard : bool;       (* both flag-replacement tests check that the block has a child before [-1] *)
  p_single_block_guard : bool;  (* the single_block early return at a closing brace checks that root has a child *)
}.

(** Options of Keyvalues.parse that the model covers (allow_escapes is passed to the tokenizer; only True is modelled). *)
Record popts := { po_newline_keys : bool; po_newline_values : bool; po_single_line : bool; po_single_block : bool }.
Definition default_popts : popts :=
  {| po_newline_keys := false; po_newline_values := true; po_single_line := false; po_single_block := false |}.

(** * Templates of the writer (generated from the f-strings of Keyvalues._serialise / serialise) *)
Inductive tvar := VCurIndent | VIndent | VOpenBrace | VCloseBrace.
Inductive field := FName | FValue.
Inductive piece :=
| PLit (s : str)          (* literal text of the f-string *)
| PVar (v : tvar)         (* {cur_indent} {indent} {open_brace} {close_brace} *)
| PRaw (f : field)        (* {self._real_name} / {self._value} interpolated as is *)
| PEsc (f : field)        (* {escape_text(self._real_name)} / {escape_text(self._value)} *)
| POther.                 (* any other interpolation (kept so that the obligation, not the translator, fails) *)

(** The test that makes _serialise / export() treat a block as the nameless root: [self._real_name is None]
    ([RTIsNone]: never true of a named node), a truth test such as [not self._real_name] ([RTFalsy]: also true
    of a block named by the empty string), or anything else. *)
Inductive roottest := RTIsNone | RTFalsy | RTOther.

Record sercfg := {
  t_root_test : roottest;       (* the root test of _serialise *)
  t_open_ind : list piece;      (* open_brace when indent_braces *)
  t_close_ind : list piece;
  t_open_plain : list piece;    (* open_brace otherwise *)
  t_close_plain : list piece;
  t_head : list piece;          (* all writes of a named block before its children *)
  t_child_indent : list piece;  (* the cur_indent passed to the children of a named block *)
  t_tail : list piece;          (* all writes of a named block after its children *)
  t_leaf : list piece;          (* all writes of a leaf *)
  t_root_indent : list piece;   (* the cur_indent passed to the children of the root *)
}.

(** Templates of the deprecated writer [Keyvalues.export()] (a generator of lines): the yields before and after
    the children of a named block, the constant put in front of every line of the children, the yields of a leaf. *)
Record expcfg := {
  x_root_test : roottest;
  x_head : list (list piece);
  x_prefix : list piece;
  x_tail : list (list piece);
  x_leaf : list (list piece);
}.

Record escfg := {
  e_table : list (char * char);   (* tokenizer.ESCAPES: symbol after the backslash -> character *)
  e_excl : list char;             (* characters of ESCAPES' values that ESCAPE_RE does not match *)
}.

Record seropts := { o_indent : str; o_indent_braces : bool; o_start : str }.
