(** C01 — [Keyvalues.parse(..., allow_escapes=False)]: the C03 reader-program tokenizer model with the option switched
    off, composed with the token loop.  No general theorem is proved for this option (the writer has no counterpart:
    [serialise] always escapes); the model is compared with the implementation on every run
    ([correspondence:parse-chunked], a quarter of the cases), and the statements below are computed witnesses:
    the round trip does NOT hold under it as soon as a string contains a character that [escape_text] escapes. *)
From Coq Require Import List NArith Bool.
From SV Require Import Text.Str Text.Prog Text.Tokenizer.
From SV Require Import KV.KvBase KV.KvLex KV.KvParse KV.KvSer KV.KvSym KV.KvRoundtrip KV.KvRefine.
Import ListNotations.
Open Scope N_scope.

Definition kv_topts_noesc : opts := {|
  string_bracket := true; string_parens := true; allow_escapes := false; allow_star_comments := false;
  preserve_comments := false; colon_operator := false; plus_operator := false |}.

Definition parse_kv_reader_noesc (P : parsecfg) (O : popts) (T : tables) (flag_on : KvBase.str -> bool) (n f : nat)
    (s : chk) : pres :=
  parse_toks_opts P O flag_on (conv_trace (tokens_chk T kv_topts_noesc n f 1 false s)).

Definition ref_text (k : kv) : KvBase.str := serialise_node (ref_sercfg (PEsc FName)) ref_escfg default_opts k.

(** A tab in a value is written as backslash + t and read back as those two characters. *)
Lemma noesc_tab_refuted :
  parse_kv_reader_noesc ref_pcfg default_popts ref_tables (fun _ => false) 60 60 (chk_of_str (ref_text (Leaf [97] [120; 9; 121])))
  = POk [Leaf [97] [120; 92; 116; 121]].
Proof. vm_compute. reflexivity. Qed.

(** A quote in a value is written as backslash + quote; the quote then ends the string: a parse error. *)
Lemma noesc_quote_refuted :
  parse_kv_reader_noesc ref_pcfg default_popts ref_tables (fun _ => false) 60 60 (chk_of_str (ref_text (Leaf [97] [120; 34; 121])))
  = PErr EMultipleNames.
Proof. vm_compute. reflexivity. Qed.

(** Strings without such characters do come back (one computed instance, not a theorem). *)
Example noesc_plain_example :
  parse_kv_reader_noesc ref_pcfg default_popts ref_tables (fun _ => false) 60 60
    (chk_of_str (ref_text (Block [97] [Leaf [98] [99; 32; 100]])))
  = POk [Block [97] [Leaf [98] [99; 32; 100]]].
Proof. vm_compute. reflexivity. Qed.
