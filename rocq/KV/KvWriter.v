(** C01 — the public wrapper [Keyvalues.serialise(file=None, *, indent, indent_braces, start_indent)] as the list of
    its execution paths, regenerated from the source by translate/c01_kvser.py [tr_serialise] (symbolic execution of
    the body: which buffer / file every [_serialise] call and every [write] goes to, what is read back with
    [getvalue()], what is returned) -> Gen/KVAux_gen.v [gen_serpaths].

    A path records the two things its tests asked ([file is None], [indent_braces]; any other test is counted), the
    segments that reached the destination -- the caller's file when one was given, otherwise the returned value -- and
    whether the return value is right for the path.  [delivery_ok] accepts exactly the paths on which the destination
    receives, unprocessed and once, what [_serialise] writes when it is handed the caller's [start_indent]; for such
    paths the text delivered is [serialise_node] / [serialise_doc] of KV/KvSer.v, whether or not a file was given
    (so "serialise(file) writes what serialise() returns" and "the indent is written by the templates of the writer
    only, never by a later pass over the text" are theorems about the generated object). *)
From Coq Require Import List NArith Bool.
From SV Require Import KV.KvBase KV.KvLex KV.KvParse KV.KvSer KV.KvSym KV.KvRoundtrip.
Import ListNotations.
Open Scope N_scope.

(** What [_serialise] was given as cur_indent: the caller's start_indent, the empty string, something else. *)
Inductive startarg := SAStart | SAEmpty | SAOther.
(** One segment of the text that reached the destination: the writes of one [_serialise] call, a literal text written
    by [serialise] itself, or a text that went through some other function first. *)
Inductive sseg := SSer (a : startarg) | SLit | SPost.
Record serpath := {
  sp_file_none : bool;        (* the path on which [file is None] *)
  sp_ib : bool;               (* the path on which [indent_braces] holds *)
  sp_extra_tests : nat;       (* tests of anything else on the path *)
  sp_segs : list sseg;        (* what reached the file / the returned string, in order *)
  sp_ret_ok : bool;           (* returns the text when file is None, None otherwise *)
}.

Definition path_direct (p : serpath) : bool :=
  match sp_segs p with [SSer SAStart] => true | _ => false end && sp_ret_ok p && Nat.eqb (sp_extra_tests p) 0.
Definition path_for (fn ib : bool) (p : serpath) : bool := Bool.eqb (sp_file_none p) fn && Bool.eqb (sp_ib p) ib.
Definition covers (ps : list serpath) (fn ib : bool) : bool := existsb (path_for fn ib) ps.
Definition delivery_direct (ps : list serpath) : bool := forallb path_direct ps.
Definition delivery_total (ps : list serpath) : bool :=
  covers ps true true && covers ps true false && covers ps false true && covers ps false false.
Definition delivery_ok (ps : list serpath) : bool := delivery_direct ps && delivery_total ps.

Section Deliver.
  Variable C : sercfg.
  Variable E : escfg.

  (** The object [serialise] is called on: a named node, or the nameless root with its children. *)
  Definition ser_obj (o : seropts) (x : kv + list kv) : str :=
    match x with inl k => serialise_node C E o k | inr d => serialise_doc C E o d end.

  Definition with_start (o : seropts) (s : str) : seropts :=
    {| o_indent := o_indent o; o_indent_braces := o_indent_braces o; o_start := s |}.

  (** The text of a segment, where the model knows it. *)
  Definition seg_text (o : seropts) (x : kv + list kv) (s : sseg) : option str :=
    match s with
    | SSer SAStart => Some (ser_obj o x)
    | SSer SAEmpty => Some (ser_obj (with_start o []) x)
    | _ => None
    end.
  Fixpoint segs_text (o : seropts) (x : kv + list kv) (l : list sseg) : option str :=
    match l with
    | [] => Some []
    | s :: r => match seg_text o x s, segs_text o x r with Some a, Some b => Some (a ++ b) | _, _ => None end
    end.
  Definition path_text (o : seropts) (x : kv + list kv) (p : serpath) : option str := segs_text o x (sp_segs p).

  Lemma path_direct_text p o x : path_direct p = true ->
    path_text o x p = Some (ser_obj o x) /\ sp_ret_ok p = true.
  Proof.
    unfold path_direct, path_text. intros H.
    apply andb_true_iff in H as [H _]. apply andb_true_iff in H as [H Hr]. split; [|exact Hr].
    destruct (sp_segs p) as [|[[| |]| |] [|? ?]]; try discriminate.
    cbn [segs_text seg_text]. now rewrite app_nil_r.
  Qed.

  (** Every path of an accepted [serialise] delivers exactly the writer model's text, with the right return value;
      and for each combination of (file given or not, indent_braces) there is such a path. *)
  Theorem delivery_is_writer_text ps : delivery_ok ps = true -> forall fn o x,
    (forall p, In p ps -> path_text o x p = Some (ser_obj o x) /\ sp_ret_ok p = true) /\
    (exists p, In p ps /\ sp_file_none p = fn /\ sp_ib p = o_indent_braces o).
  Proof.
    unfold delivery_ok, delivery_direct. intros H fn o x. apply andb_true_iff in H as [Hd Ht]. split.
    - intros p Hin. rewrite forallb_forall in Hd. now apply path_direct_text, Hd.
    - assert (Hc : covers ps fn (o_indent_braces o) = true).
      { unfold delivery_total in Ht. repeat (apply andb_true_iff in Ht as [Ht ?]).
        destruct fn, (o_indent_braces o); assumption. }
      unfold covers in Hc. apply existsb_exists in Hc as [p [Hin Hp]]. exists p. split; [exact Hin|].
      unfold path_for in Hp. apply andb_true_iff in Hp as [H1 H2].
      apply Bool.eqb_prop in H1. apply Bool.eqb_prop in H2. now split.
  Qed.

  (** serialise(file) writes to the file exactly the string that serialise() returns. *)
  Corollary file_and_returned_text_agree ps : delivery_ok ps = true -> forall o x p q,
    In p ps -> In q ps -> sp_file_none p = true -> sp_file_none q = false ->
    path_text o x p = path_text o x q /\ path_text o x p = Some (ser_obj o x).
  Proof.
    intros H o x p q Hp Hq _ _. destruct (delivery_is_writer_text ps H true o x) as [Hall _].
    destruct (Hall p Hp) as [-> _]. destruct (Hall q Hq) as [-> _]. now split.
  Qed.
End Deliver.

(** The reference instance: what the translator produces for today's source. *)
Definition ref_serpaths : list serpath :=
  [ {| sp_file_none := true;  sp_ib := true;  sp_extra_tests := 0; sp_segs := [SSer SAStart]; sp_ret_ok := true |};
    {| sp_file_none := true;  sp_ib := false; sp_extra_tests := 0; sp_segs := [SSer SAStart]; sp_ret_ok := true |};
    {| sp_file_none := false; sp_ib := true;  sp_extra_tests := 0; sp_segs := [SSer SAStart]; sp_ret_ok := true |};
    {| sp_file_none := false; sp_ib := false; sp_extra_tests := 0; sp_segs := [SSer SAStart]; sp_ret_ok := true |} ].
Lemma ref_delivery_ok : delivery_ok ref_serpaths = true.
Proof. reflexivity. Qed.

(** * The nearby wrong shape (seeded fault c01_6): the offset applied by a pass over the finished text

    [indent_lines pre text]: [pre] in front of the text and after every character at which [str.splitlines] breaks a
    line (what [textwrap.indent] does to lines that are not blank).  Such a pass cannot tell a line the writer
    started from a line separator inside a quoted string: FS (0x1c), GS, RS, NEL, LS, PS are written raw. *)
Definition splitlines_break (c : char) : bool :=
  existsb (N.eqb c) [10; 11; 12; 13; 28; 29; 30; 133; 8232; 8233].
Fixpoint indent_after (pre : str) (l : str) : str :=
  match l with
  | [] => []
  | c :: r => c :: (if splitlines_break c then match r with [] => [] | _ => pre ++ indent_after pre r end
                    else indent_after pre r)
  end.
Definition indent_lines (pre text : str) : str := match text with [] => [] | _ => pre ++ indent_after pre text end.

Definition post_serpaths : list serpath :=
  [ {| sp_file_none := true;  sp_ib := true;  sp_extra_tests := 1; sp_segs := [SPost]; sp_ret_ok := true |};
    {| sp_file_none := true;  sp_ib := true;  sp_extra_tests := 1; sp_segs := [SSer SAEmpty]; sp_ret_ok := true |} ].
Lemma post_delivery_rejected : delivery_ok post_serpaths = false.
Proof. reflexivity. Qed.

(** On ordinary text the pass gives what the templates give ... *)
Lemma post_indent_plain_same :
  let o := {| o_indent := [TAB]; o_indent_braces := true; o_start := [TAB] |} in
  let k := Block [97] [Leaf [98] [99]] in
  indent_lines [TAB] (serialise_node (ref_sercfg (PEsc FName)) ref_escfg (with_start o []) k)
  = serialise_node (ref_sercfg (PEsc FName)) ref_escfg o k.
Proof. vm_compute. reflexivity. Qed.

(** ... but a name containing FS comes back with the indent inside it. *)
Lemma post_indent_refuted :
  let o := {| o_indent := [TAB]; o_indent_braces := true; o_start := [TAB] |} in
  let k := Leaf [97; 28; 98] [99] in
  names_ok k = true /\ ws_opts o = true /\
  parse_kv ref_pcfg ref_escfg (fun _ => false)
    (indent_lines [TAB] (serialise_node (ref_sercfg (PEsc FName)) ref_escfg (with_start o []) k))
  = POk [Leaf [97; 28; 9; 98] [99]].
Proof. vm_compute. repeat split; reflexivity. Qed.
