(** C01 — how start_indent / cur_indent enters the text: only at the start of a line the writer itself started.

    The positive counterpart of [kv_roundtrip_postprocessed_indent_refuted] (KV/KvWriter.v).  [shift pre text] puts
    [pre] in front of every line of [text], a line being what ends at a LINE FEED (and nothing else: not at the other
    characters at which [str.splitlines] breaks).  For write templates accepted by [lines_ok] -- every template is a
    sequence of lines, each of which starts with exactly one [cur_indent], continues with literal characters other than
    LF, [indent], escaped fields, and ends with a literal LF; the indent handed to the children is [cur_indent] followed
    by pieces that do not depend on it -- the text written with cur_indent [cur] is the text written with the empty
    cur_indent, shifted by [cur]: [ser_node_shift].  So the indent is a property of the templates: it is never inside a
    quoted string, because raw line feeds never are ([escape] writes LF as backslash + n). *)
From Coq Require Import List NArith Bool.
From SV Require Import KV.KvBase KV.KvLex KV.KvSer KV.KvSym KV.KvLexProofs.
Import ListNotations.
Open Scope N_scope.

Fixpoint shift_after (pre : str) (l : str) : str :=
  match l with
  | [] => []
  | c :: r => c :: (if c =? LF then match r with [] => [] | _ => pre ++ shift_after pre r end else shift_after pre r)
  end.
Definition shift (pre text : str) : str := match text with [] => [] | _ => pre ++ shift_after pre text end.

Definition no_lf (s : str) : bool := forallb (fun c => negb (c =? LF)) s.
(** Empty, or ending in a line feed. *)
Fixpoint closed (s : str) : bool :=
  match s with [] => true | [c] => c =? LF | _ :: r => closed r end.

Lemma shift_after_nolf pre a r : no_lf a = true -> shift_after pre (a ++ r) = a ++ shift_after pre r.
Proof.
  induction a as [|c a IH]; intros H; [reflexivity|]. cbn [no_lf forallb] in H. apply andb_true_iff in H as [Hc Ha].
  apply negb_true_iff in Hc. cbn [app shift_after]. rewrite Hc. now rewrite IH.
Qed.

Lemma shift_after_lf pre r : shift_after pre (LF :: r) = LF :: shift pre r.
Proof. cbn [shift_after]. rewrite N.eqb_refl. now destruct r. Qed.

Lemma closed_app a b : closed a = true -> closed b = true -> closed (a ++ b) = true.
Proof.
  induction a as [|c a IH]; intros Ha Hb; [exact Hb|]. destruct a as [|d a].
  - cbn [app]. destruct b; [exact Ha|exact Hb].
  - cbn [app closed] in *. now apply IH.
Qed.

(** [shift] distributes over the concatenation of closed texts. *)
Lemma shift_after_closed_app pre a b : closed a = true -> a <> [] ->
  shift_after pre (a ++ b) = shift_after pre a ++ shift pre b.
Proof.
  induction a as [|c a IH]; intros Hc Hne; [congruence|]. destruct a as [|d a].
  - cbn [closed] in Hc. apply N.eqb_eq in Hc. subst c. cbn [app]. rewrite shift_after_lf.
    cbn [shift_after]. now rewrite N.eqb_refl.
  - change ((c :: d :: a) ++ b) with (c :: (d :: a) ++ b). cbn [shift_after].
    assert (IH' : shift_after pre ((d :: a) ++ b) = shift_after pre (d :: a) ++ shift pre b) by (apply IH; [exact Hc|discriminate]).
    destruct (c =? LF).
    + change ((d :: a) ++ b) with (d :: a ++ b) in *. rewrite IH'. cbn [app]. now rewrite app_assoc.
    + now rewrite IH'.
Qed.
Lemma shift_closed_app pre a b : closed a = true -> shift pre (a ++ b) = shift pre a ++ shift pre b.
Proof.
  intros Hc. destruct a as [|c a]; [reflexivity|]. unfold shift at 1 2. cbn [app].
  change (c :: a ++ b) with ((c :: a) ++ b). rewrite shift_after_closed_app; [|exact Hc|discriminate].
  now rewrite app_assoc.
Qed.
(** Shifting twice is shifting by the concatenation (the inner prefix has no line feed). *)
Lemma shift_after_cons pre c r :
  shift_after pre (c :: r) = c :: (if c =? LF then shift pre r else shift_after pre r).
Proof. cbn [shift_after]. destruct (c =? LF); [now destruct r|reflexivity]. Qed.

Lemma shift_after_nonempty pre c r : shift_after pre (c :: r) <> [].
Proof. rewrite shift_after_cons. discriminate. Qed.

Lemma shift_after_shift_after p w : no_lf w = true -> forall t,
  shift_after p (shift_after w t) = shift_after (p ++ w) t.
Proof.
  intros Hw. induction t as [|c r IH]; [reflexivity|]. rewrite !shift_after_cons. destruct (c =? LF) eqn:Hc.
  - f_equal. destruct r as [|d r]; [reflexivity|]. unfold shift.
    destruct (w ++ shift_after w (d :: r)) eqn:Hwr.
    + apply app_eq_nil in Hwr as [_ Hwr]. now apply shift_after_nonempty in Hwr.
    + rewrite <- Hwr. rewrite shift_after_nolf by exact Hw. rewrite IH. now rewrite app_assoc.
  - f_equal. exact IH.
Qed.
Lemma shift_shift p w t : no_lf w = true -> shift p (shift w t) = shift (p ++ w) t.
Proof.
  intros Hw. destruct t as [|c r]; [reflexivity|]. unfold shift.
  destruct (w ++ shift_after w (c :: r)) eqn:Hwr.
  - apply app_eq_nil in Hwr as [_ Hwr]. now apply shift_after_nonempty in Hwr.
  - rewrite <- Hwr. rewrite shift_after_nolf by exact Hw. rewrite shift_after_shift_after by exact Hw.
    now rewrite app_assoc.
Qed.

(** * Templates as lines *)
Inductive lsym := LC (c : char) | LCur | LInd | LEsc (f : field) | LBad.

Definition bflat (t : list piece) : list lsym :=
  flat_map (fun p => match p with
                     | PLit s => map LC s
                     | PVar VIndent => [LInd]
                     | PVar VCurIndent => []          (* empty while the braces are computed *)
                     | _ => [LBad]
                     end) t.
Definition lflat_piece (ob cb : list lsym) (p : piece) : list lsym :=
  match p with
  | PLit s => map LC s
  | PVar VCurIndent => [LCur]
  | PVar VIndent => [LInd]
  | PVar VOpenBrace => ob
  | PVar VCloseBrace => cb
  | PEsc f => [LEsc f]
  | PRaw _ | POther => [LBad]
  end.
Definition lflat (ob cb : list lsym) (t : list piece) : list lsym := flat_map (lflat_piece ob cb) t.

(** [lines_from start l]: [l] is a sequence of lines; [start] = a new line begins here. *)
Fixpoint lines_from (start : bool) (l : list lsym) : bool :=
  match l with
  | [] => start
  | LCur :: r => start && lines_from false r
  | LC c :: r => negb start && (if c =? LF then lines_from true r else lines_from false r)
  | LInd :: r | LEsc _ :: r => negb start && lines_from false r
  | LBad :: _ => false
  end.

Section Shift.
  Variables (C : sercfg) (E : escfg) (o : seropts).
  Hypothesis HE : esc_ok E = true.
  Hypothesis HI : no_lf (o_indent o) = true.

  Definition l_open := bflat (if o_indent_braces o then t_open_ind C else t_open_plain C).
  Definition l_close := bflat (if o_indent_braces o then t_close_ind C else t_close_plain C).
  Definition l_tpl (t : list piece) := lflat l_open l_close t.

  (** Every template is a sequence of lines; the braces, used in the middle of a line, end it; the indent of the children
      is cur_indent followed by indents; the root is never a named node. *)
  Definition child_tpl_ok (t : list piece) : bool :=
    match t with
    | PVar VCurIndent :: r => forallb (fun p => match p with PVar VIndent => true | _ => false end) r
    | _ => false
    end.
  Definition lines_ok : bool :=
    lines_from true (l_tpl (t_head C)) && lines_from true (l_tpl (t_tail C)) && lines_from true (l_tpl (t_leaf C))
    && child_tpl_ok (t_child_indent C) && match t_root_test C with RTIsNone => true | _ => false end.

  Lemma escape_no_lf s : no_lf (escape E s) = true.
  Proof.
    unfold escape, no_lf. induction s as [|c s IH]; [reflexivity|]. cbn [flat_map]. rewrite forallb_app. apply andb_true_iff. split; [|exact IH].
    unfold esc_char. destruct (mem c (e_excl E)) eqn:Hm.
    - destruct (raw_ordinary E HE c (or_introl Hm)) as [_ [_ [_ Hlf]]]. cbn. apply N.eqb_neq in Hlf. now rewrite Hlf.
    - destruct (rlookup c (e_table E)) as [x|] eqn:Hr.
      + destruct (escaped_restored E HE c x Hm Hr) as [Hx _]. cbn. apply N.eqb_neq in Hx. now rewrite Hx.
      + destruct (raw_ordinary E HE c (or_intror Hr)) as [_ [_ [_ Hlf]]]. cbn. apply N.eqb_neq in Hlf. now rewrite Hlf.
  Qed.

  Lemma closed_app_r a x : x <> [] -> closed (a ++ x) = closed x.
  Proof.
    intros Hx. induction a as [|c a IH]; [reflexivity|]. cbn [app]. destruct (a ++ x) eqn:Hax.
    - apply app_eq_nil in Hax as [_ ->]. congruence.
    - exact IH.
  Qed.

  Lemma closed_cons_lf x : closed x = true -> closed (LF :: x) = true.
  Proof. destruct x; [reflexivity|]. intros H. exact H. Qed.

  Section Node.
  Variables n v : str.
  Definition lsym_text (cur : str) (s : lsym) : str :=
    match s with
    | LC c => [c] | LCur => cur | LInd => o_indent o
    | LEsc FName => escape E n | LEsc FValue => escape E v | LBad => []
    end.
  Definition lrender (cur : str) (l : list lsym) : str := flat_map (lsym_text cur) l.

  Lemma lrender_lines cur : forall l,
    (lines_from true l = true ->
       lrender cur l = shift cur (lrender [] l) /\ closed (lrender cur l) = true) /\
    (lines_from false l = true ->
       lrender cur l = shift_after cur (lrender [] l) /\ lrender cur l <> [] /\ lrender [] l <> [] /\ closed (lrender cur l) = true).
  Proof.
    induction l as [|s r [IHs IHm]]; (split; [intros Hs | intros Hm]); cbn [lines_from] in *; try discriminate.
    - now split.
    - (* at a line start *) destruct s; cbn [negb andb] in Hs; try discriminate.
      cbn [lrender flat_map lsym_text app] in *. destruct (IHm Hs) as [Heq [Hne [Hne0 Hcl]]]. fold (lrender cur r) (lrender [] r) in *.
      split.
      + unfold shift. destruct (lrender [] r) eqn:Hr; [congruence|]. now rewrite Heq.
      + now rewrite closed_app_r.
    - (* inside a line *) destruct s; cbn [negb andb] in Hm; try discriminate.
      + (* a literal character *) cbn [lrender flat_map lsym_text app] in *. fold (lrender cur r) (lrender [] r).
        rewrite shift_after_cons. destruct (c =? LF) eqn:Hc.
        * destruct (IHs Hm) as [Heq Hcl]. fold (lrender cur r) (lrender [] r) in *. rewrite Heq. repeat split; try discriminate.
          apply N.eqb_eq in Hc. subst c. rewrite <- Heq. now apply closed_cons_lf.
        * destruct (IHm Hm) as [Heq [Hne [Hne0 Hcl]]]. fold (lrender cur r) (lrender [] r) in *. rewrite Heq. repeat split; try discriminate.
          rewrite <- Heq. change (c :: lrender cur r) with ([c] ++ lrender cur r). now rewrite closed_app_r.
      + (* indent *) cbn [lrender flat_map lsym_text] in *. fold (lrender cur r) (lrender [] r).
        destruct (IHm Hm) as [Heq [Hne [Hne0 Hcl]]]. fold (lrender cur r) (lrender [] r) in *.
        rewrite shift_after_nolf by exact HI. rewrite Heq. repeat split.
        * intros H. apply app_eq_nil in H as [_ H]. rewrite <- Heq in H. congruence.
        * intros H. apply app_eq_nil in H as [_ H]. congruence.
        * rewrite <- Heq. now rewrite closed_app_r.
      + (* an escaped field *) cbn [lrender flat_map] in *. fold (lrender cur r) (lrender [] r).
        destruct (IHm Hm) as [Heq [Hne [Hne0 Hcl]]]. fold (lrender cur r) (lrender [] r) in *.
        assert (Hf : no_lf (lsym_text [] (LEsc f)) = true /\ lsym_text cur (LEsc f) = lsym_text [] (LEsc f))
          by (destruct f; cbn [lsym_text]; split; auto using escape_no_lf).
        destruct Hf as [Hnl Hsame]. rewrite Hsame. rewrite shift_after_nolf by exact Hnl. rewrite Heq. repeat split.
        * intros H. apply app_eq_nil in H as [_ H]. rewrite <- Heq in H. congruence.
        * intros H. apply app_eq_nil in H as [_ H]. congruence.
        * rewrite <- Heq. now rewrite closed_app_r.
  Qed.
  Definition nobad (l : list lsym) : bool := forallb (fun s => match s with LBad => false | _ => true end) l.
  Lemma lines_nobad : forall l st, lines_from st l = true -> nobad l = true.
  Proof.
    induction l as [|s r IH]; intros st H; [reflexivity|]. cbn [nobad forallb lines_from] in *.
    destruct s; try discriminate; cbn [andb].
    - apply andb_true_iff in H as [_ H]. destruct (c =? LF); now apply IH in H.
    - apply andb_true_iff in H as [_ H]. now apply IH in H.
    - apply andb_true_iff in H as [_ H]. now apply IH in H.
    - apply andb_true_iff in H as [_ H]. now apply IH in H.
  Qed.

  Lemma lrender_LC cur (s : str) : lrender cur (map LC s) = s.
  Proof. unfold lrender. induction s as [|c s IH]; [reflexivity|]. cbn [map flat_map lsym_text app]. now rewrite IH. Qed.
  Lemma lrender_app cur a b : lrender cur (a ++ b) = lrender cur a ++ lrender cur b.
  Proof. unfold lrender. apply flat_map_app. Qed.

  Lemma brace_render cur t : render E (brace_env o) [] [] t = lrender cur (bflat t).
  Proof.
    unfold render, bflat. induction t as [|p t IH]; [reflexivity|]. cbn [flat_map]. rewrite lrender_app, <- IH. f_equal.
    destruct p as [s|[]|[]|[]|]; cbn [render_piece var_val brace_env v_cur v_indent v_open v_close];
      try (now rewrite lrender_LC); unfold lrender, escape; cbn [flat_map lsym_text app]; try reflexivity;
      now rewrite app_nil_r.
  Qed.

  Lemma render_lrender cur t : nobad (l_tpl t) = true ->
    render E (mkenv C E o cur) n v t = lrender cur (l_tpl t).
  Proof.
    unfold render, l_tpl, lflat. induction t as [|p t IH]; intros H; [reflexivity|]. cbn [flat_map] in *.
    unfold nobad in H. rewrite forallb_app in H. apply andb_true_iff in H as [Hp Ht].
    rewrite lrender_app, <- (IH Ht). f_equal.
    destruct p as [s|[]|[]|[]|]; cbn [lflat_piece render_piece var_val mkenv v_cur v_indent v_open v_close] in *;
      try discriminate.
    - now rewrite lrender_LC.
    - unfold lrender. cbn [flat_map lsym_text]. now rewrite app_nil_r.
    - unfold lrender. cbn [flat_map lsym_text]. now rewrite app_nil_r.
    - unfold open_brace, l_open. apply brace_render.
    - unfold close_brace, l_close. apply brace_render.
    - unfold lrender. cbn [flat_map lsym_text]. now rewrite app_nil_r.
    - unfold lrender. cbn [flat_map lsym_text]. now rewrite app_nil_r.
  Qed.
  End Node.

  (** The indent handed to the children: cur_indent followed by something that does not depend on it. *)
  Lemma child_render t : child_tpl_ok t = true -> exists w, no_lf w = true /\
    forall n cur, render E (mkenv C E o cur) n [] t = cur ++ w.
  Proof.
    destruct t as [|[s|[]|f|f|] r]; try discriminate. cbn [child_tpl_ok]. intros H.
    assert (G : exists w, no_lf w = true /\ forall n cur, render E (mkenv C E o cur) n [] r = w).
    { induction r as [|p r IH]; [exists []; now split|]. cbn [forallb] in H. apply andb_true_iff in H as [Hp Hr].
      destruct (IH Hr) as [w [Hw Hall]]. destruct p as [s|[]|f|f|]; try discriminate.
      exists (o_indent o ++ w). split.
      - unfold no_lf in *. rewrite forallb_app. apply andb_true_iff. split; [exact HI|exact Hw].
      - intros n cur. unfold render in *. cbn [flat_map render_piece var_val mkenv v_indent]. now rewrite Hall. }
    destruct G as [w [Hw Hall]]. exists w. split; [exact Hw|]. intros n cur. unfold render in *. cbn [flat_map render_piece var_val mkenv v_cur].
    now rewrite Hall.
  Qed.

  Lemma shift_flat_map pre (f : kv -> str) cs : (forall c, In c cs -> closed (f c) = true) ->
    shift pre (flat_map f cs) = flat_map (fun c => shift pre (f c)) cs /\ closed (flat_map f cs) = true.
  Proof.
    induction cs as [|c r IH]; intros H; [now split|]. cbn [flat_map].
    destruct IH as [IH1 IH2]; [intros c' Hc'; apply H; now right|].
    rewrite shift_closed_app by (apply H; now left). rewrite IH1. split; [reflexivity|].
    apply closed_app; [apply H; now left|exact IH2].
  Qed.

  Lemma flat_map_ext_In (f g : kv -> str) cs : (forall c, In c cs -> f c = g c) -> flat_map f cs = flat_map g cs.
  Proof.
    induction cs as [|c r IH]; intros H; [reflexivity|]. cbn [flat_map]. rewrite (H c (or_introl eq_refl)), IH; [reflexivity|].
    intros c' Hc'. apply H. now right.
  Qed.

  Theorem ser_node_shift : lines_ok = true -> forall k cur,
    ser_node C E o cur k = shift cur (ser_node C E o [] k) /\ closed (ser_node C E o cur k) = true.
  Proof.
    unfold lines_ok. intros H. apply andb_true_iff in H as [H Hrt]. apply andb_true_iff in H as [H Hch].
    apply andb_true_iff in H as [H Hlf]. apply andb_true_iff in H as [Hhd Htl].
    induction k as [n v|n cs IH] using kv_ind'; intros cur.
    - cbn [ser_node]. rewrite !(render_lrender n v _ _ (lines_nobad _ _ Hlf)).
      exact (proj1 (lrender_lines n v cur _) Hlf).
    - cbn [ser_node]. assert (Hroot : root_like (t_root_test C) n = false) by (destruct (t_root_test C); try discriminate; reflexivity).
      rewrite Hroot. destruct (child_render _ Hch) as [w [Hw Hci]]. rewrite !Hci. cbn [app].
      rewrite !(render_lrender n [] _ _ (lines_nobad _ _ Hhd)), !(render_lrender n [] _ _ (lines_nobad _ _ Htl)).
      destruct (proj1 (lrender_lines n [] cur _) Hhd) as [Hh1 Hh2]. destruct (proj1 (lrender_lines n [] cur _) Htl) as [Ht1 Ht2].
      destruct (proj1 (lrender_lines n [] [] _) Hhd) as [_ Hh0]. destruct (proj1 (lrender_lines n [] [] _) Htl) as [_ Ht0].
      rewrite Forall_forall in IH.
      assert (Hk : forall x c, In c cs -> closed (ser_node C E o x c) = true) by (intros x c Hc; apply (IH c Hc x)).
      destruct (shift_flat_map cur (ser_node C E o w) cs (Hk w)) as [Hf1 Hf0].
      destruct (shift_flat_map cur (ser_node C E o (cur ++ w)) cs (Hk (cur ++ w))) as [_ Hfc].
      split.
      + rewrite shift_closed_app by exact Hh0. rewrite shift_closed_app by exact Hf0. rewrite <- Hh1, <- Ht1, Hf1.
        f_equal. f_equal. apply flat_map_ext_In. intros c Hc.
        rewrite (proj1 (IH c Hc (cur ++ w))), (proj1 (IH c Hc w)). now rewrite shift_shift.
      + apply closed_app; [exact Hh2|]. apply closed_app; [exact Hfc|exact Ht2].
  Qed.
End Shift.

(** [serialise()] on a named node with start_indent [s] is the text written with the empty start_indent, every writer
    line shifted by [s]. *)
Definition with_start0 (o : seropts) : seropts :=
  {| o_indent := o_indent o; o_indent_braces := o_indent_braces o; o_start := [] |}.

Lemma ser_node_start_irrelevant C E o cur k : ser_node C E (with_start0 o) cur k = ser_node C E o cur k.
Proof. destruct o as [i b s]. reflexivity. Qed.

Theorem serialise_node_shift C E o : esc_ok E = true -> no_lf (o_indent o) = true -> lines_ok C o = true ->
  forall k, serialise_node C E o k = shift (o_start o) (serialise_node C E (with_start0 o) k).
Proof.
  intros HE HI HL k. unfold serialise_node. cbn [with_start0 o_start]. rewrite ser_node_start_irrelevant.
  exact (proj1 (ser_node_shift C E o HE HI HL k (o_start o))).
Qed.

(** The reference templates are lines, for both brace styles ... *)
Definition ref_sercfg' (leaf : list piece) : sercfg := {|
  t_root_test := RTIsNone;
  t_open_ind := [PVar VIndent; PLit [123; 10]]; t_close_ind := [PVar VIndent; PLit [125; 10]];
  t_open_plain := [PLit [123; 10]]; t_close_plain := [PLit [125; 10]];
  t_head := [PVar VCurIndent; PLit [34]; PEsc FName; PLit [34; 10]; PVar VCurIndent; PVar VOpenBrace];
  t_child_indent := [PVar VCurIndent; PVar VIndent];
  t_tail := [PVar VCurIndent; PVar VCloseBrace];
  t_leaf := leaf;
  t_root_indent := [] |}.
Definition ref_leaf : list piece := [PVar VCurIndent; PLit [34]; PEsc FName; PLit [34; 32; 34]; PEsc FValue; PLit [34; 10]].
Lemma ref_lines_ok o : lines_ok (ref_sercfg' ref_leaf) o = true.
Proof. destruct o as [i [|] s]; reflexivity. Qed.

(** ... and a leaf template with the indent inside the quotes is not. *)
Lemma indent_inside_quotes_rejected o :
  lines_ok (ref_sercfg' [PLit [34]; PVar VCurIndent; PEsc FName; PLit [34; 32; 34]; PEsc FValue; PLit [34; 10]]) o = false.
Proof. destruct o as [i [|] s]; reflexivity. Qed.
