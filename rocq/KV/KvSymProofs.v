(** C01 — soundness of the symbolic template lexer, and the token stream of a serialised tree:
    for every template configuration accepted by [cfg_ok], every escape table accepted by [esc_ok], all
    whitespace-only indent options and all trees, the tokenizer model turns the serialised text into
    [toks_doc d] and stops without an error. *)
From Coq Require Import List NArith Bool Lia.
From SV Require Import KV.KvBase KV.KvLex KV.KvSer KV.KvSym KV.KvLexProofs.
Import ListNotations.
Open Scope N_scope.

Definition fld (f : field) (n v : str) : str := match f with FName => n | FValue => v end.
Definition inst (n v : str) (t : stok) : tok :=
  match t with STStr f => TStr (fld f n v) | SNL => TNL | SBO => TBO | SBC => TBC end.

(** [conc E n v sl s]: the concrete text [s] is an instance of the symbolic text [sl] for a node with name
    [n] and value [v]. *)
Inductive conc (E : escfg) (n v : str) : list schar -> str -> Prop :=
| conc_nil : conc E n v [] []
| conc_c c sl s : conc E n v sl s -> conc E n v (SC c :: sl) (c :: s)
| conc_w w sl s : ws_only w = true -> conc E n v sl s -> conc E n v (SW :: sl) (w ++ s)
| conc_e f sl s : conc E n v sl s -> conc E n v (SE f :: sl) (escape E (fld f n v) ++ s)
| conc_bad x sl s : conc E n v sl s -> conc E n v (SBad :: sl) (x ++ s).

Lemma conc_app E n v a x b y : conc E n v a x -> conc E n v b y -> conc E n v (a ++ b) (x ++ y).
Proof.
  induction 1; intros Hb; cbn [app]; rewrite <- ?app_assoc; try constructor; auto.
Qed.

Lemma conc_lit E n v s : conc E n v (map SC s) s.
Proof. induction s; cbn [map]; constructor; auto. Qed.
Lemma conc_w1 E n v w : ws_only w = true -> conc E n v [SW] w.
Proof. intros H. rewrite <- (app_nil_r w). constructor; [exact H | constructor]. Qed.
Lemma conc_e1 E n v f : conc E n v [SE f] (escape E (fld f n v)).
Proof. rewrite <- (app_nil_r (escape _ _)). constructor. constructor. Qed.
Lemma conc_bad1 E n v x : conc E n v [SBad] x.
Proof. rewrite <- (app_nil_r x). constructor. constructor. Qed.

Lemma render_brace_conc E n v ind t : ws_only ind = true ->
  conc E n v (sflat_brace t) (render E {| v_cur := []; v_indent := ind; v_open := []; v_close := [] |} [] [] t).
Proof.
  intros Hi. induction t as [|p t IH]; [constructor|].
  unfold sflat_brace, render in *. cbn [flat_map]. apply conc_app; [|exact IH].
  destruct p as [s|[]|f|f|]; cbn [render_piece var_val v_cur v_indent v_open v_close];
    try apply conc_lit; try apply conc_bad1; apply conc_w1; auto.
Qed.

Lemma render_conc E n v e ob cb t :
  ws_only (v_cur e) = true -> ws_only (v_indent e) = true ->
  conc E n v ob (v_open e) -> conc E n v cb (v_close e) ->
  conc E n v (sflat ob cb t) (render E e n v t).
Proof.
  intros Hc Hi Ho Hcl. induction t as [|p t IH]; [constructor|].
  unfold sflat, render in *. cbn [flat_map]. apply conc_app; [|exact IH].
  destruct p as [s|[]|[]|[]|]; cbn [render_piece sflat_piece var_val];
    try apply conc_lit; try apply conc_bad1; try (apply conc_w1; assumption); try assumption.
  - apply (conc_e1 E n v FName).
  - apply (conc_e1 E n v FValue).
Qed.

Lemma stoks_eqb_eq a : forall b, stoks_eqb a b = true -> a = b.
Proof.
  induction a as [|x a IH]; destruct b as [|y b]; cbn [stoks_eqb]; try discriminate; [reflexivity|].
  intros H. apply andb_true_iff in H as [H1 H2]. apply IH in H2. subst.
  destruct x as [[]| | |], y as [[]| | |]; try discriminate; reflexivity.
Qed.

Section Sound.
  Variable E : escfg.
  Hypothesis HE : esc_ok E = true.
  Variables n v : str.

  Lemma slex_sound : forall k sl, (length sl <= k)%nat -> forall ts s l,
    slex sl = Some ts -> conc E n v sl s -> exists l', lexes E l s (map (inst n v) ts) l'.
  Proof.
    induction k as [|k IH]; intros sl Hk ts s l Hs Hc.
    - destruct sl; [|cbn in Hk; lia]. cbn in Hs. injection Hs as <-. inversion Hc; subst.
      exists l. apply lexes_nil.
    - destruct sl as [|[c| |f|] r]; cbn [slex] in Hs; try discriminate.
      + injection Hs as <-. inversion Hc; subst. exists l. apply lexes_nil.
      + (* SC c *)
        cbn [length] in Hk. inversion Hc as [|c' sl' s' Hc'| | |]; subst.
        destruct (is_ws c) eqn:Hw.
        { destruct (IH r ltac:(lia) ts s' l Hs Hc') as [l' H]. exists l'.
          change (c :: s') with ([c] ++ s'). change (map (inst n v) ts) with ([] ++ map (inst n v) ts).
          eapply lexes_app; [apply lexes_ws1; exact Hw | exact H]. }
        destruct (c =? LF) eqn:E1.
        { apply N.eqb_eq in E1; subst. destruct (slex r) as [ts'|] eqn:Hr; [|discriminate].
          cbn [option_map] in Hs. injection Hs as <-.
          destruct (IH r ltac:(lia) ts' s' (l + 1) Hr Hc') as [l' H]. exists l'.
          change (LF :: s') with ([LF] ++ s'). cbn [map inst]. change (TNL :: ?x) with ([TNL] ++ x).
          eapply lexes_app; [apply lexes_lf | exact H]. }
        destruct (c =? 123) eqn:E2.
        { apply N.eqb_eq in E2; subst. destruct (slex r) as [ts'|] eqn:Hr; [|discriminate].
          cbn [option_map] in Hs. injection Hs as <-.
          destruct (IH r ltac:(lia) ts' s' l Hr Hc') as [l' H]. exists l'.
          change (123 :: s') with ([123] ++ s'). cbn [map inst]. change (TBO :: ?x) with ([TBO] ++ x).
          eapply lexes_app; [apply lexes_bo | exact H]. }
        destruct (c =? 125) eqn:E3.
        { apply N.eqb_eq in E3; subst. destruct (slex r) as [ts'|] eqn:Hr; [|discriminate].
          cbn [option_map] in Hs. injection Hs as <-.
          destruct (IH r ltac:(lia) ts' s' l Hr Hc') as [l' H]. exists l'.
          change (125 :: s') with ([125] ++ s'). cbn [map inst]. change (TBC :: ?x) with ([TBC] ++ x).
          eapply lexes_app; [apply lexes_bc | exact H]. }
        destruct (c =? DQ) eqn:E4; [|discriminate].
        apply N.eqb_eq in E4; subst.
        destruct r as [|[| |f|] [|[c2| | |] r2]]; try discriminate.
        destruct (c2 =? DQ) eqn:E5; [|discriminate]. apply N.eqb_eq in E5; subst.
        destruct (slex r2) as [ts'|] eqn:Hr; [|discriminate].
        cbn [option_map] in Hs. injection Hs as <-.
        inversion Hc' as [| |  |f' sl2 s2 Hc2|]; subst.
        inversion Hc2 as [|c3 sl3 s3 Hc3| | |]; subst.
        cbn [length] in Hk.
        destruct (IH r2 ltac:(lia) ts' s3 l Hr Hc3) as [l' H]. exists l'.
        replace (DQ :: escape E (fld f n v) ++ DQ :: s3) with ((DQ :: escape E (fld f n v) ++ [DQ]) ++ s3)
          by (cbn [app]; now rewrite <- app_assoc).
        cbn [map inst]. change (TStr ?a :: ?x) with ([TStr a] ++ x).
        eapply lexes_app; [apply lexes_quoted; exact HE | exact H].
      + (* SW *)
        cbn [length] in Hk. inversion Hc as [| |w sl' s' Hw Hc'| |]; subst.
        destruct (IH r ltac:(lia) ts s' l Hs Hc') as [l' H]. exists l'.
        change (map (inst n v) ts) with ([] ++ map (inst n v) ts).
        eapply lexes_app; [apply lexes_ws; exact Hw | exact H].
  Qed.

  Lemma lexes_to_sound sl want s l :
    lexes_to sl want = true -> conc E n v sl s -> exists l', lexes E l s (map (inst n v) want) l'.
  Proof.
    unfold lexes_to. destruct (slex sl) as [ts|] eqn:Hs; [|discriminate]. intros Heq Hc.
    apply stoks_eqb_eq in Heq. subst. eapply slex_sound; eauto.
  Qed.
End Sound.

Lemma ws_only_app a b : ws_only (a ++ b) = ws_only a && ws_only b.
Proof. apply forallb_app. Qed.

Section SerLex.
  Variable C : sercfg.
  Variable E : escfg.
  Variable o : seropts.
  Hypothesis HC : cfg_ok C = true.
  Hypothesis HE : esc_ok E = true.
  Hypothesis HO : ws_opts o = true.

  Let ib := o_indent_braces o.

  Lemma Hind : ws_only (o_indent o) = true.
  Proof. unfold ws_opts in HO. now apply andb_true_iff in HO as [? _]. Qed.
  Lemma Hstart : ws_only (o_start o) = true.
  Proof. unfold ws_opts in HO. now apply andb_true_iff in HO as [_ ?]. Qed.

  Lemma cfg_parts :
    head_ok C ib = true /\ tail_ok C ib = true /\ leaf_ok C ib = true
    /\ child_indent_ok C = true /\ root_indent_ok C = true /\ root_test_ok C = true.
  Proof.
    unfold cfg_ok in HC. repeat (apply andb_true_iff in HC as [HC ?]).
    destruct ib; repeat split; assumption.
  Qed.

  Lemma tpl_conc n v cur t : ws_only cur = true ->
    conc E n v (s_tpl C ib t) (render E (mkenv C E o cur) n v t).
  Proof.
    intros Hc. apply render_conc; cbn [mkenv v_cur v_indent v_open v_close]; auto using Hind.
    - unfold open_brace, s_open, brace_env. fold ib. apply render_brace_conc, Hind.
    - unfold close_brace, s_close, brace_env. fold ib. apply render_brace_conc, Hind.
  Qed.

  Lemma ws_tpl_render n v cur t : ws_tpl t = true -> ws_only cur = true ->
    ws_only (render E (mkenv C E o cur) n v t) = true.
  Proof.
    intros Ht Hc. induction t as [|p t IH]; [reflexivity|].
    cbn [ws_tpl forallb] in Ht. apply andb_true_iff in Ht as [Hp Ht].
    unfold render in *. cbn [flat_map]. rewrite ws_only_app, (IH Ht), andb_true_r.
    destruct p as [s|[]|f|f|]; try discriminate; cbn [render_piece var_val mkenv v_cur v_indent]; auto using Hind.
  Qed.

  (** With the root test [is None] no named block is written as if it were the root. *)
  Lemma root_like_never n : root_like (t_root_test C) n = false.
  Proof.
    destruct cfg_parts as (_ & _ & _ & _ & _ & Hrt). unfold root_test_ok in Hrt.
    destruct (t_root_test C); try discriminate. reflexivity.
  Qed.

  Lemma ser_node_lexes : forall k cur l, ws_only cur = true ->
    exists l', lexes E l (ser_node C E o cur k) (toks k) l'.
  Proof.
    destruct cfg_parts as (Hh & Ht & Hl & Hci & _ & _).
    induction k as [n v | n cs IH] using kv_ind'; intros cur l Hc.
    - cbn [ser_node toks].
      exact (lexes_to_sound E HE n v _ _ _ l Hl (tpl_conc n v cur (t_leaf C) Hc)).
    - cbn [ser_node toks]. rewrite root_like_never.
      destruct (lexes_to_sound E HE n [] _ _ _ l Hh (tpl_conc n [] cur (t_head C) Hc)) as [l1 H1].
      set (ci := render E (mkenv C E o cur) n [] (t_child_indent C)).
      assert (Hci' : ws_only ci = true) by (apply ws_tpl_render; assumption).
      assert (Hcs : forall l, exists l', lexes E l (flat_map (ser_node C E o ci) cs) (flat_map toks cs) l').
      { clear H1. induction IH as [|k ks Hk _ IHks]; intros l0.
        - exists l0. apply lexes_nil.
        - cbn [flat_map]. destruct (Hk ci l0 Hci') as [la Ha]. destruct (IHks la) as [lb Hb].
          exists lb. eapply lexes_app; eassumption. }
      destruct (Hcs l1) as [l2 H2].
      destruct (lexes_to_sound E HE n [] _ _ _ l2 Ht (tpl_conc n [] cur (t_tail C) Hc)) as [l3 H3].
      exists l3. cbn [map inst fld] in H1, H3.
      eapply lexes_app; [exact H1|]. eapply lexes_app; [exact H2 | exact H3].
  Qed.

  Lemma serialise_doc_lexes d l : exists l', lexes E l (serialise_doc C E o d) (toks_doc d) l'.
  Proof.
    destruct cfg_parts as (_ & _ & _ & _ & Hri & _).
    unfold serialise_doc, toks_doc.
    set (ri := render E (mkenv C E o (o_start o)) [] [] (t_root_indent C)).
    assert (Hri' : ws_only ri = true) by (apply ws_tpl_render; [assumption | apply Hstart]).
    revert l. induction d as [|k ks IH]; intros l.
    - exists l. apply lexes_nil.
    - cbn [flat_map]. destruct (ser_node_lexes k ri l Hri') as [la Ha]. destruct (IH la) as [lb Hb].
      exists lb. eapply lexes_app; eassumption.
  Qed.

  Theorem lex_serialise_doc d : lex_all E (serialise_doc C E o d) = (toks_doc d, None).
  Proof. destruct (serialise_doc_lexes d 1) as [l' H]. eapply lexes_all, H. Qed.

  Theorem lex_serialise_node k : lex_all E (serialise_node C E o k) = (toks k, None).
  Proof.
    destruct (ser_node_lexes k (o_start o) 1 Hstart) as [l' H]. eapply lexes_all, H.
  Qed.
End SerLex.
