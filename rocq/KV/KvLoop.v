(** C01 — the token loop of [Keyvalues.parse] as a *decision tree regenerated from the source*.

    [translate/c01_kvloop.py] walks the body of [for token_type, token_value in tokenizer:] symbolically
    (continuation inlined into every branch, so `if ...: raise/continue/return` followed by more code, `elif`
    chains and nested `if/else` all give the same tree; tests already decided on the path are pruned; the heap
    operations on [cur_block] / [cur_block_contents] / [open_keyvalues] / [keyvalue] along a path are summarised
    into one structural operation on the block stack) and emits a [ptree]: inner nodes test one [atom] of the
    state at the start of the iteration / of the tokens read so far, or read one more token; a leaf says what one
    pass through the loop body does.  This file gives the tree a semantics ([ploop]); KV/KvLoopProofs.v proves
    that the reference tree [ref_ptree] (what the translator produces for today's source) runs exactly like the
    hand-written [prun] of KV/KvParse.v on every token list.  The check discharges [ptree_eqb gen_ptree ref_ptree]. *)
From Coq Require Import List NArith Bool.
From SV Require Import KV.KvBase KV.KvLex KV.KvParse.
Import ListNotations.
Open Scope N_scope.

(** Kind of a token as the parser distinguishes them; [KEof]: the tokenizer has nothing more. *)
Inductive tkind := KStr | KNL | KBO | KBC | KFlag | KOther | KEof.
Inductive optname := ONewlineKeys | ONewlineValues | OSingleLine | OSingleBlock.

Inductive atom :=
| ATok (i : nat) (k : tkind)   (* token i (0 = the loop's token, 1, 2 = the tokens fetched by tokenizer()) is of kind k *)
| ABl (b : bl)                 (* block_line is b *)
| ACfr                         (* can_flag_replace *)
| AOpt (o : optname)
| ABrk (i : nat)               (* the source's line-break test on the text of token i (0: key, 1: value; parsecfg) *)
| AFlagOn (i : nat)            (* _read_flag(flags, text of token i) *)
| ACurIsRoot                   (* cur_block is root  <->  open_keyvalues == [root] *)
| AParentIsRoot                (* open_keyvalues[-2] is root: after a pop the current block is root *)
| AHasChild                    (* cur_block_contents is not empty *)
| ALastNameEq                  (* cur_block_contents[-1]._real_name == token_value *)
| ALastIsBlock                 (* cur_block_contents[-1].has_children()  (not isinstance(.value, str)) *)
| AParentHasChild.             (* the contents of open_keyvalues[-2] are not empty (root._value after the pop) *)

(** The one structural operation of a pass.  The node built from the tokens is [Leaf tok0 tok1] or [Block tok0 []]. *)
Inductive sop :=
| SNone
| SAppendLeaf | SAppendBlock       (* cur_block_contents.append(keyvalue) *)
| SReplaceLeaf | SReplaceBlock     (* cur_block_contents[-1] = keyvalue *)
| SOpenLast                        (* cur_block = cur_block_contents[-1]; contents = cur_block._value = []; push *)
| SOpenDummy                       (* cur_block = <new node not in the tree>; contents = cur_block._value = []; push *)
| SPop                             (* open_keyvalues.pop(); cur_block = open_keyvalues[-1]; contents = cur_block._value *)
| SUnknown.                        (* the path does not re-establish the loop invariant / builds an incomplete node *)

Inductive pexit :=
| XContinue            (* next iteration *)
| XRaise (e : perr)
| XReturnKv            (* return keyvalue *)
| XReturnRoot0         (* return root[0] *)
| XReturnRoot.         (* return root (after the loop) *)

Inductive ptree :=
| PIf (a : atom) (t f : ptree)
| PRead (k : ptree)                 (* x, y = tokenizer() *)
| PExpectNL (k : ptree)             (* tokenizer.expect(NEWLINE) *)
| PLeaf (s : sop) (b : option bl) (c : option bool) (unread : bool) (x : pexit).
    (* structural operation, new block_line / can_flag_replace (None: unchanged), push_back of the last token read *)

(** * Decidable equality *)
Definition tkind_eqb (a b : tkind) : bool :=
  match a, b with KStr, KStr | KNL, KNL | KBO, KBO | KBC, KBC | KFlag, KFlag | KOther, KOther | KEof, KEof => true | _, _ => false end.
Definition bl_eqb (a b : bl) : bool :=
  match a, b with BNone, BNone | BSkip, BSkip | BExpect, BExpect => true | _, _ => false end.
Definition optname_eqb (a b : optname) : bool :=
  match a, b with ONewlineKeys, ONewlineKeys | ONewlineValues, ONewlineValues | OSingleLine, OSingleLine
                | OSingleBlock, OSingleBlock => true | _, _ => false end.
Definition atom_eqb (a b : atom) : bool :=
  match a, b with
  | ATok i k, ATok j l => Nat.eqb i j && tkind_eqb k l
  | ABl x, ABl y => bl_eqb x y
  | ACfr, ACfr | ACurIsRoot, ACurIsRoot | AParentIsRoot, AParentIsRoot | AHasChild, AHasChild
  | ALastNameEq, ALastNameEq | ALastIsBlock, ALastIsBlock | AParentHasChild, AParentHasChild => true
  | AOpt x, AOpt y => optname_eqb x y
  | ABrk i, ABrk j | AFlagOn i, AFlagOn j => Nat.eqb i j
  | _, _ => false
  end.
Definition sop_eqb (a b : sop) : bool :=
  match a, b with
  | SNone, SNone | SAppendLeaf, SAppendLeaf | SAppendBlock, SAppendBlock | SReplaceLeaf, SReplaceLeaf
  | SReplaceBlock, SReplaceBlock | SOpenLast, SOpenLast | SOpenDummy, SOpenDummy | SPop, SPop => true
  | _, _ => false      (* SUnknown equals nothing, not even itself *)
  end.
Definition perr_eqb (a b : perr) : bool :=
  match a, b with
  | ELex _, ELex _ => false      (* never written by the translator *)
  | EBlockAfterValue, EBlockAfterValue | EBlockRequired, EBlockRequired | ENewlineKey, ENewlineKey
  | EExpectedNewline, EExpectedNewline | EMultipleNames, EMultipleNames | ETooManyClose, ETooManyClose
  | EUnexpected, EUnexpected | EEofBlock, EEofBlock | EEofOpen, EEofOpen | EIndex, EIndex
  | ENewlineValue, ENewlineValue => true
  | _, _ => false
  end.
Definition pexit_eqb (a b : pexit) : bool :=
  match a, b with
  | XContinue, XContinue | XReturnKv, XReturnKv | XReturnRoot0, XReturnRoot0 | XReturnRoot, XReturnRoot => true
  | XRaise e, XRaise f => perr_eqb e f
  | _, _ => false
  end.
Definition opt_eqb {A} (f : A -> A -> bool) (a b : option A) : bool :=
  match a, b with None, None => true | Some x, Some y => f x y | _, _ => false end.
Fixpoint ptree_eqb (a b : ptree) : bool :=
  match a, b with
  | PIf x t f, PIf y t' f' => atom_eqb x y && ptree_eqb t t' && ptree_eqb f f'
  | PRead k, PRead k' | PExpectNL k, PExpectNL k' => ptree_eqb k k'
  | PLeaf s b c u x, PLeaf s' b' c' u' x' =>
      sop_eqb s s' && opt_eqb bl_eqb b b' && opt_eqb Bool.eqb c c' && Bool.eqb u u' && pexit_eqb x x'
  | _, _ => false
  end.

(** * Semantics *)
Record mstate := { m_stk : list frame; m_cur : frame; m_b : bl; m_cfr : bool }.

Definition kind_of (o : option tok) : tkind :=
  match o with
  | None => KEof | Some (TStr _) => KStr | Some TNL => KNL | Some TBO => KBO | Some TBC => KBC
  | Some (TFlag _) => KFlag | Some TOther => KOther
  end.
Definition text_of (o : option tok) : str :=
  match o with Some (TStr s) => s | Some (TFlag s) => s | _ => [] end.

Inductive sres := SCont (s : mstate) (rest : list tok) | SDone (r : pres).

Section Loop.
  Variable P : parsecfg.
  Variable O : popts.
  Variable flag_on : str -> bool.
  Variable fin : option lexerr.

  Definition opt_val (o : optname) : bool :=
    match o with
    | ONewlineKeys => po_newline_keys O | ONewlineValues => po_newline_values O
    | OSingleLine => po_single_line O | OSingleBlock => po_single_block O
    end.

  (** [ts]: the tokens not yet consumed at the start of the pass; its head is the loop's token. *)
  Definition eval_atom (a : atom) (s : mstate) (ts : list tok) : bool :=
    match a with
    | ATok i k => tkind_eqb (kind_of (nth_error ts i)) k
    | ABl b => bl_eqb (m_b s) b
    | ACfr => m_cfr s
    | AOpt o => opt_val o
    | ABrk i => brk (if Nat.eqb i 0 then p_key_break P else p_value_break P) (text_of (nth_error ts i))
    | AFlagOn i => flag_on (text_of (nth_error ts i))
    | ACurIsRoot => match m_stk s with [] => true | _ => false end
    | AParentIsRoot => match m_stk s with [_] => true | _ => false end
    | AHasChild => match snd (m_cur s) with [] => false | _ => true end
    | ALastNameEq => match snd (m_cur s) with
                     | last :: _ => str_eqb (kv_name last) (text_of (nth_error ts 0))
                     | [] => false end
    | ALastIsBlock => match snd (m_cur s) with last :: _ => is_block last | [] => false end
    | AParentHasChild => match m_stk s with
                         | (_, pcs) :: _ => match fst (m_cur s), pcs with None, [] => false | _, _ => true end
                         | [] => false end
    end.

  (** The structural operation; [None]: an index error (only on paths the source cannot take, see the proofs). *)
  Definition apply_sop (o : sop) (s : mstate) (ts : list tok) : option (list frame * frame) :=
    let n := text_of (nth_error ts 0) in
    let v := text_of (nth_error ts 1) in
    let stk := m_stk s in let cur := m_cur s in
    match o with
    | SNone => Some (stk, cur)
    | SAppendLeaf => Some (stk, (fst cur, Leaf n v :: snd cur))
    | SAppendBlock => Some (stk, (fst cur, Block n [] :: snd cur))
    | SReplaceLeaf => match snd cur with _ :: cs => Some (stk, (fst cur, Leaf n v :: cs)) | [] => None end
    | SReplaceBlock => match snd cur with _ :: cs => Some (stk, (fst cur, Block n [] :: cs)) | [] => None end
    | SOpenLast => match snd cur with
                   | Block bn _ :: cs => Some ((fst cur, cs) :: stk, (Some bn, []))
                   | _ => None end
    | SOpenDummy => Some (cur :: stk, (None, []))
    | SPop => match stk with
              | (pn, pcs) :: stk' =>
                  Some (stk', (pn, match fst cur with Some bn => Block bn (rev (snd cur)) :: pcs | None => pcs end))
              | [] => None end
    | SUnknown => None
    end.

  Definition apply_leaf (o : sop) (b : option bl) (c : option bool) (unread : bool) (x : pexit)
      (nread : nat) (s : mstate) (ts : list tok) : sres :=
    match x with
    | XRaise e => SDone (PErr e)
    | _ =>
      match apply_sop o s ts with
      | None => SDone (PErr EIndex)
      | Some (stk, cur) =>
        match x with
        | XContinue =>
            SCont {| m_stk := stk; m_cur := cur;
                     m_b := match b with Some b' => b' | None => m_b s end;
                     m_cfr := match c with Some c' => c' | None => m_cfr s end |}
                  (skipn (if unread then pred nread else nread) ts)
        | XReturnKv =>
            SDone (match o with
                   | SAppendLeaf | SReplaceLeaf => PNode (Leaf (text_of (nth_error ts 0)) (text_of (nth_error ts 1)))
                   | SAppendBlock | SReplaceBlock => PNode (Block (text_of (nth_error ts 0)) [])
                   | _ => PErr EIndex end)
        | XReturnRoot0 => SDone (match rev (snd cur) with x :: _ => PNode x | [] => PErr EIndex end)
        | XReturnRoot => SDone (POk (rev (snd cur)))
        | XRaise e => SDone (PErr e)
        end
      end
    end.

  (** One pass through the loop body; [nread]: how many tokens of [ts] have been fetched so far. *)
  Fixpoint pstep (t : ptree) (nread : nat) (s : mstate) (ts : list tok) : sres :=
    match t with
    | PIf a t1 t2 => if eval_atom a s ts then pstep t1 nread s ts else pstep t2 nread s ts
    | PRead k =>
        match nth_error ts nread, fin with
        | None, Some e => SDone (PErr (ELex e))
        | _, _ => pstep k (S nread) s ts
        end
    | PExpectNL k =>
        match nth_error ts nread with
        | Some TNL => pstep k (S nread) s ts
        | Some _ => SDone (PErr EExpectedNewline)
        | None => SDone (match fin with Some e => PErr (ELex e) | None => PErr EExpectedNewline end)
        end
    | PLeaf o b c u x => apply_leaf o b c u x nread s ts
    end.

  (** The loop: [T] is the body, [F] the checks after the loop. *)
  Fixpoint ploop (fuel : nat) (T F : ptree) (s : mstate) (ts : list tok) : pres :=
    match fuel with
    | 0%nat => PErr EIndex
    | S fuel' =>
        match ts with
        | [] => match fin with
                | Some e => PErr (ELex e)
                | None => match pstep F 0 s [] with SDone r => r | SCont _ _ => PErr EIndex end
                end
        | _ :: _ => match pstep T 1 s ts with
                    | SDone r => r
                    | SCont s' rest => ploop fuel' T F s' rest
                    end
        end
    end.
End Loop.

Definition m_init : mstate := {| m_stk := []; m_cur := (None, []); m_b := BNone; m_cfr := false |}.

(** [Keyvalues.parse] with the loop body [T] and the final checks [F]. *)
Definition parse_toks_tree (T F : ptree) (P : parsecfg) (O : popts) (flag_on : str -> bool)
    (tf : list tok * option lexerr) : pres :=
  ploop P O flag_on (snd tf) (S (length (fst tf))) T F m_init (fst tf).
Definition parse_kv_tree (T F : ptree) (P : parsecfg) (O : popts) (E : escfg) (flag_on : str -> bool) (text : str) : pres :=
  parse_toks_tree T F P O flag_on (lex_all E text).

(** * Diagnostics for the check: the part of a tree that concerns one kind of loop token, and the absence of
    paths on which the translator could not summarise the heap operations. *)
Fixpoint restrict0 (k : tkind) (t : ptree) : ptree :=
  match t with
  | PIf (ATok 0 k') a b => if tkind_eqb k k' then restrict0 k a else restrict0 k b
  | PIf x a b => PIf x (restrict0 k a) (restrict0 k b)
  | PRead a => PRead (restrict0 k a)
  | PExpectNL a => PExpectNL (restrict0 k a)
  | PLeaf _ _ _ _ _ => t
  end.
Definition same_on (k : tkind) (a b : ptree) : bool := ptree_eqb (restrict0 k a) (restrict0 k b).
Fixpoint no_unknown (t : ptree) : bool :=
  match t with
  | PIf _ a b => no_unknown a && no_unknown b
  | PRead a | PExpectNL a => no_unknown a
  | PLeaf SUnknown _ _ _ _ => false
  | PLeaf _ _ _ _ _ => true
  end.
(** How many leaves perform each stack operation (push = open a block, pop = close one). *)
Fixpoint count_sop (f : sop -> bool) (t : ptree) : nat :=
  match t with
  | PIf _ a b => count_sop f a + count_sop f b
  | PRead a | PExpectNL a => count_sop f a
  | PLeaf s _ _ _ _ => if f s then 1 else 0
  end.
