(** C01 — lemmas about the tokenizer model: compositionality over concatenation, and what it does on the
    pieces a serialiser writes (whitespace, braces, newline, a quoted escaped field). *)
From Coq Require Import List NArith Bool Lia.
From SV Require Import KV.KvBase KV.KvLex KV.KvSym.
Import ListNotations.
Open Scope N_scope.

Definition norm (l : N) : lst := mkL MNorm l false.

Definition tcons (ts : list tok) (r : list tok * (lexerr + lst)) : list tok * (lexerr + lst) :=
  (ts ++ fst r, snd r).

Lemma tcons_nil r : tcons [] r = r.
Proof. destruct r; reflexivity. Qed.

Lemma tcons_tcons a b r : tcons a (tcons b r) = tcons (a ++ b) r.
Proof. unfold tcons; cbn [fst snd]. now rewrite app_assoc. Qed.

Lemma lex_run_cons E st c r st' out :
  lstep E st c = SOk st' out -> lex_run E st (c :: r) = tcons out (lex_run E st' r).
Proof. intros H. cbn [lex_run]. rewrite H. destruct (lex_run E st' r); reflexivity. Qed.

(** [lexes E l text ts l']: from the normal mode at line [l] (no pending CR) the text produces exactly the
    tokens [ts] and leaves the tokenizer in the normal mode at line [l'], whatever follows. *)
Definition lexes (E : escfg) (l : N) (text : str) (ts : list tok) (l' : N) : Prop :=
  forall rest, lex_run E (norm l) (text ++ rest) = tcons ts (lex_run E (norm l') rest).

Lemma lexes_nil E l : lexes E l [] [] l.
Proof. intros rest. now rewrite tcons_nil. Qed.

Lemma lexes_app E l a ta l1 b tb l2 :
  lexes E l a ta l1 -> lexes E l1 b tb l2 -> lexes E l (a ++ b) (ta ++ tb) l2.
Proof. intros Ha Hb rest. rewrite <- app_assoc, Ha, Hb. apply tcons_tcons. Qed.

Lemma lexes_all E text ts l' : lexes E 1 text ts l' -> lex_all E text = (ts, None).
Proof.
  intros H. unfold lex_all. specialize (H []). rewrite app_nil_r in H.
  change lex_init with (norm 1). rewrite H. cbn. now rewrite !app_nil_r.
Qed.

Lemma lexes_char E l c t l' :
  norm_step l false c = SOk (norm l') t -> lexes E l [c] t l'.
Proof. intros H rest. cbn [app]. now apply lex_run_cons. Qed.

Lemma lexes_lf E l : lexes E l [LF] [TNL] (l + 1).
Proof. apply lexes_char. reflexivity. Qed.
Lemma lexes_bo E l : lexes E l [123] [TBO] l.
Proof. apply lexes_char. reflexivity. Qed.
Lemma lexes_bc E l : lexes E l [125] [TBC] l.
Proof. apply lexes_char. reflexivity. Qed.

Lemma is_ws_cases c : is_ws c = true -> c = SP \/ c = TAB.
Proof. unfold is_ws. rewrite orb_true_iff, !N.eqb_eq. tauto. Qed.

Lemma lexes_ws1 E l c : is_ws c = true -> lexes E l [c] [] l.
Proof. intros H. apply lexes_char. destruct (is_ws_cases c H) as [-> | ->]; reflexivity. Qed.

Lemma lexes_ws E l w : ws_only w = true -> lexes E l w [] l.
Proof.
  induction w as [|c w IH]; intros H.
  - apply lexes_nil.
  - cbn [ws_only forallb] in H. apply andb_true_iff in H as [Hc Hw].
    change (c :: w) with ([c] ++ w). change (@nil tok) with (@nil tok ++ []).
    eapply lexes_app; [apply lexes_ws1; exact Hc | apply IH; exact Hw].
Qed.

(** * Quoted, escaped fields *)
Lemma rlookup_in c t s : rlookup c t = Some s -> In (s, c) t.
Proof.
  induction t as [|[s0 c0] t IH]; cbn [rlookup]; [discriminate|].
  destruct (rlookup c t) as [s'|] eqn:R.
  - intros [= <-]. right. now apply IH.
  - destruct (c0 =? c) eqn:Ec; [|discriminate]. intros [= <-]. apply N.eqb_eq in Ec. subst. now left.
Qed.

Lemma mem_false_neq c d l : mem d l = false -> mem c l = true -> c <> d.
Proof. intros Hd Hc ->. congruence. Qed.

Section Esc.
  Variable E : escfg.
  Hypothesis HE : esc_ok E = true.

  Lemma esc_specials d : In d [DQ; BS; CR; LF] ->
    mem d (e_excl E) = false /\ exists s, rlookup d (e_table E) = Some s.
  Proof.
    unfold esc_ok, esc_quote_ok, esc_backslash_ok, esc_cr_ok, esc_lf_ok in HE.
    apply andb_true_iff in HE as [HE Hi]. apply andb_true_iff in HE as [HE Hlf].
    apply andb_true_iff in HE as [HE Hcr]. apply andb_true_iff in HE as [Hdq Hbs].
    assert (G : forall d, esc_special_ok E d = true ->
                mem d (e_excl E) = false /\ exists s, rlookup d (e_table E) = Some s).
    { intros d0 Hd0. unfold esc_special_ok in Hd0. apply andb_true_iff in Hd0 as [A B].
      apply negb_true_iff in A. split; [exact A|]. destruct (rlookup d0 (e_table E)); [eauto|discriminate]. }
    cbn [In]. intros [<-|[<-|[<-|[<-|[]]]]]; apply G; assumption.
  Qed.

  (** A character written raw by [esc_char] is an ordinary character for [_handle_string]. *)
  Lemma raw_ordinary c :
    (mem c (e_excl E) = true \/ rlookup c (e_table E) = None) ->
    c <> DQ /\ c <> BS /\ c <> CR /\ c <> LF.
  Proof.
    intros H.
    assert (G : forall d, In d [DQ; BS; CR; LF] -> c <> d).
    { intros d Hd ->. destruct (esc_specials d Hd) as [A [s B]]. destruct H; congruence. }
    repeat split; apply G; cbn; tauto.
  Qed.

  Lemma escaped_restored c s :
    mem c (e_excl E) = false -> rlookup c (e_table E) = Some s ->
    s <> LF /\ lookup s (e_table E) = Some c.
  Proof.
    intros Hm Hr. pose proof (rlookup_in _ _ _ Hr) as Hin.
    unfold esc_ok in HE. apply andb_true_iff in HE as [_ Hinv]. unfold esc_inverse_ok in Hinv.
    rewrite forallb_forall in Hinv. specialize (Hinv _ Hin). unfold esc_entry_ok in Hinv. cbn [snd] in Hinv.
    rewrite Hm, Hr in Hinv. cbn [orb] in Hinv. apply andb_true_iff in Hinv as [A B].
    apply negb_true_iff, N.eqb_neq in A. split; [exact A|].
    destruct (lookup s (e_table E)) as [x|]; cbn [opt_char_eqb] in B; [|discriminate].
    apply N.eqb_eq in B. now subst.
  Qed.

  Lemma str_step_ordinary acc l cr c :
    c <> DQ -> c <> BS -> c <> CR -> c <> LF ->
    lstep E (mkL (MStr acc false) l cr) c = SOk (mkL (MStr (c :: acc) false) l cr) [].
  Proof.
    intros H1 H2 H3 H4. unfold lstep; cbn [l_mode l_line l_cr].
    apply N.eqb_neq in H1, H2, H3, H4. now rewrite H1, H2, H3, H4.
  Qed.

  Lemma esc_char_step c acc l cr rest :
    lex_run E (mkL (MStr acc false) l cr) (esc_char E c ++ rest)
    = lex_run E (mkL (MStr (c :: acc) false) l cr) rest.
  Proof.
    unfold esc_char. destruct (mem c (e_excl E)) eqn:Hm.
    - destruct (raw_ordinary c (or_introl Hm)) as (H1 & H2 & H3 & H4). cbn [app].
      erewrite lex_run_cons by (apply str_step_ordinary; assumption). apply tcons_nil.
    - destruct (rlookup c (e_table E)) as [s|] eqn:Hr.
      + destruct (escaped_restored c s Hm Hr) as [Hs Hl]. cbn [app].
        erewrite lex_run_cons by (unfold lstep; cbn [l_mode l_line l_cr]; reflexivity).
        erewrite lex_run_cons.
        2:{ unfold lstep; cbn [l_mode l_line l_cr]. apply N.eqb_neq in Hs. rewrite Hs, Hl. reflexivity. }
        now rewrite !tcons_nil.
      + destruct (raw_ordinary c (or_intror Hr)) as (H1 & H2 & H3 & H4). cbn [app].
        erewrite lex_run_cons by (apply str_step_ordinary; assumption). apply tcons_nil.
  Qed.

  Lemma escape_run s : forall acc l cr rest,
    lex_run E (mkL (MStr acc false) l cr) (escape E s ++ rest)
    = lex_run E (mkL (MStr (rev s ++ acc) false) l cr) rest.
  Proof.
    induction s as [|c s IH]; intros acc l cr rest; [reflexivity|].
    unfold escape in *. cbn [flat_map]. rewrite <- app_assoc, esc_char_step, IH.
    cbn [rev]. now rewrite <- app_assoc.
  Qed.

  (** The embedding lemma: a quoted escaped field is consumed exactly and yields the field. *)
  Lemma lexes_quoted l s : lexes E l (DQ :: escape E s ++ [DQ]) [TStr s] l.
  Proof.
    intros rest. cbn [app]. erewrite lex_run_cons by reflexivity. rewrite tcons_nil.
    rewrite <- app_assoc, escape_run. cbn [app].
    erewrite lex_run_cons by reflexivity. now rewrite app_nil_r, rev_involutive.
  Qed.
End Esc.
