(** C01 — the round trip, assembled; necessity of the side conditions (witnesses by computation). *)
From Coq Require Import List NArith Bool.
From SV Require Import KV.KvBase KV.KvLex KV.KvParse KV.KvSer KV.KvSym KV.KvLexProofs KV.KvSymProofs KV.KvParseProofs.
Import ListNotations.
Open Scope N_scope.

Definition doc_values_ok (d : list kv) : bool := forallb values_ok d.

Lemma doc_ok_of P O : pcfg_ok P = true -> forall d,
  po_newline_keys O || doc_names_ok d = true -> po_newline_values O || doc_values_ok d = true ->
  forallb (kv_ok P O) d = true.
Proof.
  intros HP d Hn Hv. apply forallb_forall. intros k Hin. apply kv_ok_of; [exact HP| |].
  - destruct (po_newline_keys O); [reflexivity|]. cbn [orb] in *. unfold doc_names_ok in Hn.
    rewrite forallb_forall in Hn. now apply Hn.
  - destruct (po_newline_values O); [reflexivity|]. cbn [orb] in *. unfold doc_values_ok in Hv.
    rewrite forallb_forall in Hv. now apply Hv.
Qed.

Section RT.
  Variable C : sercfg.
  Variable E : escfg.
  Variable P : parsecfg.
  Hypothesis HC : cfg_ok C = true.
  Hypothesis HE : esc_ok E = true.
  Hypothesis HP : pcfg_ok P = true.

  (** Any setting of newline_keys / newline_values / single_line, single_block off. *)
  Lemma roundtrip_doc_opts flag_on O o d : po_single_block O = false -> ws_opts o = true ->
    po_newline_keys O || doc_names_ok d = true -> po_newline_values O || doc_values_ok d = true ->
    parse_kv_opts P O E flag_on (serialise_doc C E o d) = POk d.
  Proof.
    intros Hsb HO Hn Hv. unfold parse_kv_opts. rewrite (lex_serialise_doc C E o HC HE HO d).
    apply parse_toks_doc_opts; [exact Hsb | now apply doc_ok_of].
  Qed.

  Lemma roundtrip_node_opts flag_on O o k : po_single_block O = false -> ws_opts o = true ->
    po_newline_keys O || names_ok k = true -> po_newline_values O || values_ok k = true ->
    parse_kv_opts P O E flag_on (serialise_node C E o k) = POk [k].
  Proof.
    intros Hsb HO Hn Hv. unfold parse_kv_opts. rewrite (lex_serialise_node C E o HC HE HO k).
    apply parse_toks_node_opts; [exact Hsb | now apply kv_ok_of].
  Qed.

  (** single_block=True: the node itself comes back (not wrapped in a root), also when more text follows. *)
  Lemma roundtrip_single_block_node flag_on O o k : po_single_block O = true -> ws_opts o = true ->
    po_newline_keys O || names_ok k = true -> po_newline_values O || values_ok k = true ->
    parse_kv_opts P O E flag_on (serialise_node C E o k) = PNode k.
  Proof.
    intros Hsb HO Hn Hv. unfold parse_kv_opts. rewrite (lex_serialise_node C E o HC HE HO k).
    pose proof (parse_toks_single_block P O flag_on k [] None Hsb (kv_ok_of P O HP k Hn Hv)) as H.
    unfold toks_doc in H. cbn [flat_map] in H. now rewrite app_nil_r in H.
  Qed.

  Lemma roundtrip_single_block_doc flag_on O o k ks : po_single_block O = true -> ws_opts o = true ->
    po_newline_keys O || names_ok k = true -> po_newline_values O || values_ok k = true ->
    parse_kv_opts P O E flag_on (serialise_doc C E o (k :: ks)) = PNode k.
  Proof.
    intros Hsb HO Hn Hv. unfold parse_kv_opts. rewrite (lex_serialise_doc C E o HC HE HO (k :: ks)).
    exact (parse_toks_single_block P O flag_on k ks None Hsb (kv_ok_of P O HP k Hn Hv)).
  Qed.

  (** Default options. *)
  Lemma roundtrip_doc flag_on o d : ws_opts o = true -> doc_names_ok d = true ->
    parse_kv P E flag_on (serialise_doc C E o d) = POk d.
  Proof.
    intros HO Hd. apply roundtrip_doc_opts; [reflexivity | exact HO | exact Hd | reflexivity].
  Qed.

  Lemma roundtrip_node flag_on o k : ws_opts o = true -> names_ok k = true ->
    parse_kv P E flag_on (serialise_node C E o k) = POk [k].
  Proof.
    intros HO Hk. apply roundtrip_node_opts; [reflexivity | exact HO | exact Hk | reflexivity].
  Qed.

  Lemma indent_independent_tokens o1 o2 d : ws_opts o1 = true -> ws_opts o2 = true ->
    lex_all E (serialise_doc C E o1 d) = lex_all E (serialise_doc C E o2 d).
  Proof.
    intros H1 H2. now rewrite (lex_serialise_doc C E o1 HC HE H1 d), (lex_serialise_doc C E o2 HC HE H2 d).
  Qed.

  Lemma indent_independent_tokens_node o1 o2 k : ws_opts o1 = true -> ws_opts o2 = true ->
    lex_all E (serialise_node C E o1 k) = lex_all E (serialise_node C E o2 k).
  Proof.
    intros H1 H2. now rewrite (lex_serialise_node C E o1 HC HE H1 k), (lex_serialise_node C E o2 HC HE H2 k).
  Qed.
End RT.

(** * Reference instances: the hypotheses are satisfiable, and each is needed. *)

(** tokenizer.ESCAPES / ESCAPE_RE of the pinned tree. *)
Definition ref_escfg : escfg := {|
  e_table := [(110, 10); (116, 9); (118, 11); (98, 8); (114, 13); (102, 12); (97, 7); (34, 34); (39, 39);
              (47, 47); (92, 92); (63, 63)];
  e_excl := [63; 47] |}.

(** The templates of _serialise with the block name passed through escape_text. *)
Definition ref_sercfg_rt (rt : roottest) (head_name : piece) : sercfg := {|
  t_root_test := rt;
  t_open_ind := [PVar VIndent; PLit [123; 10]];
  t_close_ind := [PVar VIndent; PLit [125; 10]];
  t_open_plain := [PLit [123; 10]];
  t_close_plain := [PLit [125; 10]];
  t_head := [PVar VCurIndent; PLit [34]; head_name; PLit [34; 10]; PVar VCurIndent; PVar VOpenBrace];
  t_child_indent := [PVar VCurIndent; PVar VIndent];
  t_tail := [PVar VCurIndent; PVar VCloseBrace];
  t_leaf := [PVar VCurIndent; PLit [34]; PEsc FName; PLit [34; 32; 34]; PEsc FValue; PLit [34; 10]];
  t_root_indent := [] |}.
Definition ref_sercfg := ref_sercfg_rt RTIsNone.

(** The two 'Illegal newline' tests of Keyvalues.parse ('\n' in s or '\r' in s), replacement tests guarded. *)
Definition ref_pcfg : parsecfg :=
  {| p_key_break := BTChars [10; 13]; p_value_break := BTChars [10; 13]; p_replace_guard := true; p_single_block_guard := true |}.
Lemma ref_pcfg_ok : pcfg_ok ref_pcfg = true.
Proof. vm_compute. reflexivity. Qed.

Lemma ref_cfg_ok : cfg_ok (ref_sercfg (PEsc FName)) = true.
Proof. vm_compute. reflexivity. Qed.
Lemma ref_esc_ok : esc_ok ref_escfg = true.
Proof. vm_compute. reflexivity. Qed.

Definition default_opts : seropts := {| o_indent := [TAB]; o_indent_braces := true; o_start := [] |}.

(** DESIGN section 7 #1: with the block name written raw (the pinned _serialise), a block named  a, double quote, b  does
    not survive; [cfg_ok] rejects exactly that template. *)
Definition raw_block_witness : list kv := [Block [97; 34; 98] []].

Lemma raw_block_name_rejected : cfg_ok (ref_sercfg (PRaw FName)) = false.
Proof. vm_compute. reflexivity. Qed.

Lemma raw_block_name_refuted :
  doc_names_ok raw_block_witness = true /\
  parse_kv ref_pcfg ref_escfg (fun _ => false)
    (serialise_doc (ref_sercfg (PRaw FName)) ref_escfg default_opts raw_block_witness)
  = PErr (ELex LUnterminated).
Proof. split; vm_compute; reflexivity. Qed.

(** A name with a line break is outside the format: the parser rejects the (correctly escaped) text. *)
Lemma linebreak_name_refuted :
  parse_kv ref_pcfg ref_escfg (fun _ => false)
    (serialise_doc (ref_sercfg (PEsc FName)) ref_escfg default_opts [Leaf [97; 10] [98]])
  = PErr ENewlineKey.
Proof. vm_compute. reflexivity. Qed.

(** A non-whitespace indent string is outside the clause "apart from whitespace": the text changes tokens. *)
Lemma nonws_indent_refuted :
  parse_kv ref_pcfg ref_escfg (fun _ => false)
    (serialise_doc (ref_sercfg (PEsc FName)) ref_escfg
       {| o_indent := [120]; o_indent_braces := true; o_start := [] |} [Block [97] [Leaf [98] [99]]])
  <> POk [Block [97] [Leaf [98] [99]]].
Proof. vm_compute. discriminate. Qed.

(** An escape table that leaves the quote unescaped is rejected by [esc_ok]. *)
Lemma esc_without_quote_rejected :
  esc_ok {| e_table := [(110, 10); (116, 9); (114, 13); (92, 92)]; e_excl := [] |} = false.
Proof. vm_compute. reflexivity. Qed.

(** Seeded fault class "root test by truth value": with [not self._real_name] in place of [is None] a block
    named by the empty string loses its header and braces; [cfg_ok] rejects that test. *)
Definition falsy_root_witness : list kv := [Block [] [Leaf [97] [98]]].
Lemma falsy_root_test_rejected : cfg_ok (ref_sercfg_rt RTFalsy (PEsc FName)) = false.
Proof. vm_compute. reflexivity. Qed.
Lemma falsy_root_test_refuted :
  doc_names_ok falsy_root_witness = true /\
  parse_kv ref_pcfg ref_escfg (fun _ => false)
    (serialise_doc (ref_sercfg_rt RTFalsy (PEsc FName)) ref_escfg default_opts falsy_root_witness)
  = POk [Leaf [97] [98]].
Proof. split; vm_compute; reflexivity. Qed.

(** Seeded fault class "more characters count as a line break in a key": a parser that also rejects a
    vertical tab refuses text the writer produced for a legal name; [pcfg_ok] rejects that test. *)
Definition wide_break_pcfg : parsecfg :=
  {| p_key_break := BTChars [10; 13; 11]; p_value_break := BTChars [10; 13]; p_replace_guard := true; p_single_block_guard := true |}.
Lemma wide_key_break_rejected : pcfg_ok wide_break_pcfg = false.
Proof. vm_compute. reflexivity. Qed.
Lemma wide_key_break_refuted :
  doc_names_ok [Leaf [97; 11; 98] [99]] = true /\
  parse_kv wide_break_pcfg ref_escfg (fun _ => false)
    (serialise_doc (ref_sercfg (PEsc FName)) ref_escfg default_opts [Leaf [97; 11; 98] [99]])
  = PErr ENewlineKey.
Proof. split; vm_compute; reflexivity. Qed.

(** newline_keys=True lifts the restriction on names (theorem [roundtrip_doc_opts]); the witness of
    [linebreak_name_refuted] then comes back. *)
Lemma linebreak_name_newline_keys :
  parse_kv_opts ref_pcfg {| po_newline_keys := true; po_newline_values := true; po_single_line := false;
                            po_single_block := false |} ref_escfg (fun _ => false)
    (serialise_doc (ref_sercfg (PEsc FName)) ref_escfg default_opts [Leaf [97; 10] [98]])
  = POk [Leaf [97; 10] [98]].
Proof. vm_compute. reflexivity. Qed.

(** newline_values=False: values with a line break are refused, so the premise on values is needed. *)
Lemma linebreak_value_refuted :
  parse_kv_opts ref_pcfg {| po_newline_keys := false; po_newline_values := false; po_single_line := false;
                            po_single_block := false |} ref_escfg (fun _ => false)
    (serialise_doc (ref_sercfg (PEsc FName)) ref_escfg default_opts [Leaf [97] [98; 13]])
  = PErr ENewlineValue.
Proof. vm_compute. reflexivity. Qed.
