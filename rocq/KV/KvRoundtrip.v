(** C01 — the round trip, assembled; necessity of the side conditions (witnesses by computation). *)
From Coq Require Import List NArith Bool.
From SV Require Import KV.KvBase KV.KvLex KV.KvParse KV.KvSer KV.KvSym KV.KvLexProofs KV.KvSymProofs KV.KvParseProofs.
Import ListNotations.
Open Scope N_scope.

Section RT.
  Variable C : sercfg.
  Variable E : escfg.
  Hypothesis HC : cfg_ok C = true.
  Hypothesis HE : esc_ok E = true.

  Lemma roundtrip_doc flag_on o d : ws_opts o = true -> doc_names_ok d = true ->
    parse_kv E flag_on (serialise_doc C E o d) = POk d.
  Proof.
    intros HO Hd. unfold parse_kv. rewrite (lex_serialise_doc C E o HC HE HO d).
    now apply parse_toks_doc.
  Qed.

  Lemma roundtrip_node flag_on o k : ws_opts o = true -> names_ok k = true ->
    parse_kv E flag_on (serialise_node C E o k) = POk [k].
  Proof.
    intros HO Hk. unfold parse_kv. rewrite (lex_serialise_node C E o HC HE HO k).
    now apply parse_toks_node.
  Qed.

  Lemma indent_independent_tokens o1 o2 d : ws_opts o1 = true -> ws_opts o2 = true ->
    lex_all E (serialise_doc C E o1 d) = lex_all E (serialise_doc C E o2 d).
  Proof.
    intros H1 H2. now rewrite (lex_serialise_doc C E o1 HC HE H1 d), (lex_serialise_doc C E o2 HC HE H2 d).
  Qed.

  Lemma indent_independent_tokens_node o1 o2 k : ws_opts o1 = true -> ws_opts o2 = true ->
    lex_all E (serialise_node C E o1 k) = lex_all E (serialise_node C E o2 k).
  Proof.
    intros H1 H2. now rewrite (lex_serialise_node C E o1 HC HE H1 k), (lex_serialise_node C E o2 HC HE H2 k).
  Qed.
End RT.

(** * Reference instances: the hypotheses are satisfiable, and each is needed. *)

(** tokenizer.ESCAPES / ESCAPE_RE of the pinned tree. *)
Definition ref_escfg : escfg := {|
  e_table := [(110, 10); (116, 9); (118, 11); (98, 8); (114, 13); (102, 12); (97, 7); (34, 34); (39, 39);
              (47, 47); (92, 92); (63, 63)];
  e_excl := [63; 47] |}.

(** The templates of _serialise with the block name passed through escape_text. *)
Definition ref_sercfg (head_name : piece) : sercfg := {|
  t_open_ind := [PVar VIndent; PLit [123; 10]];
  t_close_ind := [PVar VIndent; PLit [125; 10]];
  t_open_plain := [PLit [123; 10]];
  t_close_plain := [PLit [125; 10]];
  t_head := [PVar VCurIndent; PLit [34]; head_name; PLit [34; 10]; PVar VCurIndent; PVar VOpenBrace];
  t_child_indent := [PVar VCurIndent; PVar VIndent];
  t_tail := [PVar VCurIndent; PVar VCloseBrace];
  t_leaf := [PVar VCurIndent; PLit [34]; PEsc FName; PLit [34; 32; 34]; PEsc FValue; PLit [34; 10]];
  t_root_indent := [] |}.

Lemma ref_cfg_ok : cfg_ok (ref_sercfg (PEsc FName)) = true.
Proof. vm_compute. reflexivity. Qed.
Lemma ref_esc_ok : esc_ok ref_escfg = true.
Proof. vm_compute. reflexivity. Qed.

Definition default_opts : seropts := {| o_indent := [TAB]; o_indent_braces := true; o_start := [] |}.

(** DESIGN section 7 #1: with the block name written raw (the pinned _serialise), a block named  a, double quote, b  does
    not survive; [cfg_ok] rejects exactly that template. *)
Definition raw_block_witness : list kv := [Block [97; 34; 98] []].

Lemma raw_block_name_rejected : cfg_ok (ref_sercfg (PRaw FName)) = false.
Proof. vm_compute. reflexivity. Qed.

Lemma raw_block_name_refuted :
  doc_names_ok raw_block_witness = true /\
  parse_kv ref_escfg (fun _ => false)
    (serialise_doc (ref_sercfg (PRaw FName)) ref_escfg default_opts raw_block_witness)
  = PErr (ELex LUnterminated).
Proof. split; vm_compute; reflexivity. Qed.

(** A name with a line break is outside the format: the parser rejects the (correctly escaped) text. *)
Lemma linebreak_name_refuted :
  parse_kv ref_escfg (fun _ => false)
    (serialise_doc (ref_sercfg (PEsc FName)) ref_escfg default_opts [Leaf [97; 10] [98]])
  = PErr ENewlineKey.
Proof. vm_compute. reflexivity. Qed.

(** A non-whitespace indent string is outside the clause "apart from whitespace": the text changes tokens. *)
Lemma nonws_indent_refuted :
  parse_kv ref_escfg (fun _ => false)
    (serialise_doc (ref_sercfg (PEsc FName)) ref_escfg
       {| o_indent := [120]; o_indent_braces := true; o_start := [] |} [Block [97] [Leaf [98] [99]]])
  <> POk [Block [97] [Leaf [98] [99]]].
Proof. vm_compute. discriminate. Qed.

(** An escape table that leaves the quote unescaped is rejected by [esc_ok]. *)
Lemma esc_without_quote_rejected :
  esc_ok {| e_table := [(110, 10); (116, 9); (114, 13); (92, 92)]; e_excl := [] |} = false.
Proof. vm_compute. reflexivity. Qed.
