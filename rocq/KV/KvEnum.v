(** C01 — exhaustive small-scope correspondence of the token loop: every token string up to a length over a
    9-symbol alphabet, under every option vector, is run through [parse_toks_opts] inside the kernel's VM and
    through the real [Keyvalues.parse] (fed by a scripted tokenizer); the results are compared through a 63-bit
    checksum per option vector (the literal results of a shard are only printed to locate a disagreement). *)
From Coq Require Import List NArith ZArith Bool Uint63.
From SV Require Import KV.KvBase KV.KvLex KV.KvParse.
Import ListNotations.
Open Scope N_scope.

Definition lexerr_code (e : lexerr) : N := match e with
  | LFlagNewline => 1 | LFlagNest => 2 | LFlagEof => 3 | LParenNest => 4 | LParenEof => 5 | LCloseBracket => 6
  | LCloseParen => 7 | LStarComment => 8 | LSingleSlash => 9 | LNoEscape => 10 | LUnterminated => 11
  | LUnexpectedChar => 12 end.
Definition perr_code (e : perr) : N := match e with
  | ELex e => lexerr_code e | EBlockAfterValue => 20 | EBlockRequired => 21 | ENewlineKey => 22
  | EExpectedNewline => 23 | EMultipleNames => 24 | ETooManyClose => 25 | EUnexpected => 26 | EEofBlock => 27
  | EEofOpen => 28 | EIndex => 29 | ENewlineValue => 30 end.

(** Option vectors as numbers: bit 0 newline_keys, 1 newline_values, 2 single_line, 3 single_block. *)
Definition mkopts (b : N) : popts :=
  {| po_newline_keys := N.testbit b 0; po_newline_values := N.testbit b 1; po_single_line := N.testbit b 2;
     po_single_block := N.testbit b 3 |}.

(** The token alphabet: two names, a string with a line break, NEWLINE, the braces, an enabled and a disabled
    flag, and a token kind the parser rejects. *)
Definition sym_tok (s : N) : tok :=
  match s with
  | 0 => TStr [97] | 1 => TStr [98] | 2 => TStr [97; 10] | 3 => TNL | 4 => TBO | 5 => TBC
  | 6 => TFlag [111; 110] | 7 => TFlag [111; 102; 102] | _ => TOther
  end.
Definition sym_alpha : list N := [0; 1; 2; 3; 4; 5; 6; 7; 8].
Definition enum_flag (f : str) : bool := str_eqb f [111; 110].
(** How the scripted tokenizer ends: 0 = EOF, 1 = it raises 'Unterminated string!'. *)
Definition fin_of_code (c : N) : option lexerr := if c =? 0 then None else Some LUnterminated.

Definition enc_str (s : str) : list N := N.of_nat (length s) :: s.
Fixpoint enc_kv (k : kv) : list N :=
  match k with
  | Leaf n v => 1 :: enc_str n ++ enc_str v
  | Block n cs => 2 :: enc_str n ++ N.of_nat (length cs) :: flat_map enc_kv cs
  end.
Definition enc_pres (r : pres) : list N :=
  match r with
  | POk d => 1 :: N.of_nat (length d) :: flat_map enc_kv d
  | PNode k => 2 :: enc_kv k
  | PErr e => [3; perr_code e]
  end.

Fixpoint words (alpha : list N) (n : nat) : list (list N) :=
  match n with
  | O => [[]]
  | S n' => [] :: flat_map (fun c => map (cons c) (words alpha n')) alpha
  end.

Definition tok_case (P : parsecfg) (bits fin : N) (w : list N) : list N :=
  bits :: fin :: N.of_nat (length w) :: w
  ++ enc_pres (parse_toks_opts P (mkopts bits) enum_flag (map sym_tok w, fin_of_code fin)).

(* ---- checksum on primitive 63-bit integers (wrap-around arithmetic; same functions as Text/TokEnum.v) ---- *)
Open Scope uint63_scope.
Definition i63 (n : N) : int := Uint63.of_Z (Z.of_N n).
Definition HP : int := 1099511628211.
Definition hstep (h : int) (x : N) : int := (h * HP + i63 x + 1)%uint63.
Definition hash_list (xs : list N) : int := fold_left hstep xs 1469598103934665603.
Definition hfin (h : int) : int := let h1 := (h lxor (h >> 29)) * 0x3F58476D1CE4E5B9 in (h1 lxor (h1 >> 32))%uint63.
Definition sum_hash (hs : list int) : int := fold_left (fun a h => (a + h)%uint63) hs 0.

Definition tok_case_hash (P : parsecfg) (bits fin : N) (w : list N) : int := hfin (hash_list (tok_case P bits fin w)).
(** All token strings up to length [n], one option vector, one ending. *)
Definition tok_shard_hash (P : parsecfg) (bits fin : N) (n : nat) : int :=
  sum_hash (map (tok_case_hash P bits fin) (words sym_alpha n)).
Definition tok_shard_cases (P : parsecfg) (bits fin : N) (n : nat) : list (list N) :=
  map (tok_case P bits fin) (words sym_alpha n).
