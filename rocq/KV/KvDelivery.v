(** C01 — the round trip composed with chunked delivery. *)
From Coq Require Import List NArith Bool.
From SV Require Import Text.Str Text.Prog Text.Tokenizer.
From SV Require Import KV.KvBase KV.KvLex KV.KvParse KV.KvSer KV.KvSym KV.KvRoundtrip KV.KvRefine KV.KvFlags.
Import ListNotations.

Lemma roundtrip_any_delivery : forall C E P T, cfg_ok C = true -> esc_ok E = true -> pcfg_ok P = true ->
  tables_match T E = true ->
  forall flag_on o d cs n f, ws_opts o = true -> doc_names_ok d = true ->
  concat cs = serialise_doc C E o d -> (length (concat cs) < n)%nat -> (length (concat cs) < f)%nat ->
  parse_kv_reader P default_popts T flag_on n f (chk_of_chunks cs) = POk d.
Proof.
  intros C E P T HC HE HP HT flag_on o d cs n f HO Hd Hcs Hn Hf.
  rewrite (parse_any_delivery_chunks T E HT P default_popts flag_on cs n f Hn Hf).
  pose proof (roundtrip_doc C E P HC HE HP flag_on o d HO Hd) as H. rewrite <- Hcs in H. exact H.
Qed.

(** The round trip with the flag verdicts of [_read_flag] for any flags mapping, FLAGS_DEFAULT table and casefold
    function: serialised text carries no [flag] token, so no entry of the mapping can change the result. *)
Lemma roundtrip_any_flags : forall C E P, cfg_ok C = true -> esc_ok E = true -> pcfg_ok P = true ->
  forall casefold flags defaults o d, ws_opts o = true -> doc_names_ok d = true ->
  parse_kv P E (read_flag casefold flags defaults) (serialise_doc C E o d) = POk d.
Proof. intros C E P HC HE HP cf fl df. exact (roundtrip_doc C E P HC HE HP (read_flag cf fl df)). Qed.
