(** C01 — the whole property once more (round 5), now also over histories of calls and for the deprecated writer:
    [c01_property] (KV/KvProperty.v, nine hypotheses) together with

      - history independence of the writer ([hprog_stateless H]: KV/KvWHist.v): after any history of earlier calls,
        completed or aborted at any write, a call of [_serialise] runs as in a fresh process;
      - export() ([xcfg_ok X], [xprog_pure XP], [xprog_text_ok X XP]: KV/KvExport.v, KV/KvXProg.v): the instruction program
        yields the text of the export model, leaves the tree unchanged, and that text parses back to the tree.

    All thirteen hypotheses are decidable conditions on objects regenerated from the source on every run. *)
From Coq Require Import List NArith Bool.
From SV Require Import Text.Str Text.Prog Text.Tokenizer.
From SV Require Import KV.KvBase KV.KvLex KV.KvParse KV.KvSer KV.KvSym KV.KvParseProofs KV.KvRoundtrip KV.KvStrip
  KV.KvRefine KV.KvDelivery KV.KvExport KV.KvFlags KV.KvLoop KV.KvLoopRef KV.KvLoopProofs KV.KvLoopEquiv KV.KvLoopRoundtrip
  KV.KvWriter KV.KvFlagProg KV.KvWProg KV.KvProperty KV.KvWHist KV.KvXProg.
Import ListNotations.
Open Scope N_scope.

Theorem whole_property_all_calls : forall C E P T F TB ps fp W H X XP,
  cfg_ok C = true -> esc_ok E = true -> pcfg_ok P = true -> loop_ok T F P = true -> tables_match TB E = true ->
  delivery_ok ps = true -> flagprog_ok fp = true -> wprog_pure W = true -> wprog_text_ok C W = true ->
  hprog_stateless H = true -> xcfg_ok X = true -> xprog_pure XP = true -> xprog_text_ok X XP = true ->
  (* 1. the property for one call of serialise(), on every execution path (c01_property) *)
  (forall casefold flags defaults O o x p,
    po_single_block O = false -> ws_opts o = true ->
    po_newline_keys O || obj_names_ok x = true -> po_newline_values O || obj_values_ok x = true ->
    In p ps ->
    let flag := flag_of fp casefold flags defaults in
    exists txt,
      (path_text C E o x p = Some txt /\ sp_ret_ok p = true) /\
      (txt = ser_obj C E o x /\
       forall upd fuel k cur, (kv_depth k <= fuel)%nat -> snd (wexec C E o W upd fuel cur k) = ser_node C E o cur k) /\
      (forall upd fuel k cur, fst (wexec C E o W upd fuel cur k) = k) /\
      parse_kv_tree T F P O E flag txt = POk (obj_doc x) /\
      (forall cs n f, concat cs = txt -> (length txt < n)%nat -> (length txt < f)%nat ->
         parse_kv_reader P O TB flag n f (chk_of_chunks cs) = parse_kv_tree T F P O E flag txt) /\
      (forall o2, ws_opts o2 = true ->
         lex_all E txt = lex_all E (ser_obj C E o2 x) /\ strip_blanks txt = obj_canon E x) /\
      (forall s, flag s = read_flag casefold flags defaults s)) /\
  (* 2. ... for every call, whatever the calls before it did or left undone *)
  (forall idf is_root other calls fuel b k,
     hexec H idf is_root other fuel (marks_after H idf is_root other calls []) b k = hexec H idf is_root other fuel [] b k) /\
  (* 3. the deprecated writer: text of the program = text of the export model, tree unchanged, round trip *)
  (forall upd fuel w k, (kv_depth k <= fuel)%nat -> xexec X E XP upd fuel w k = (k, exp_node X E w k)) /\
  (forall flag_on O d, po_single_block O = false ->
     po_newline_keys O || doc_names_ok d = true -> po_newline_values O || doc_values_ok d = true ->
     parse_kv_opts P O E flag_on (export_doc X E d) = POk d).
Proof.
  intros C E P T F TB ps fp W H X XP HC HE HP HL HT HD HF HW HX HH HXC HXP HXT.
  split; [exact (whole_property C E P T F TB ps fp W HC HE HP HL HT HD HF HW HX)|].
  split; [intros; now apply history_independent|].
  split; [intros upd fuel w k Hd; now apply xexec_text|].
  intros flag_on O d Hsb Hn Hv. now apply export_roundtrip_doc.
Qed.

Lemma whole_property_all_calls_hypotheses_satisfiable :
  hprog_stateless ref_hprog = true /\ xcfg_ok (ref_expcfg (PEsc FName)) = true /\
  xprog_pure (ref_xprog (PEsc FName)) = true /\ xprog_text_ok (ref_expcfg (PEsc FName)) (ref_xprog (PEsc FName)) = true.
Proof. repeat split; reflexivity. Qed.
