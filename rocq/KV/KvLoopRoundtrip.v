(** C01 — the round trip stated for the parser whose token loop is the regenerated decision tree. *)
From Coq Require Import List NArith Bool.
From SV Require Import KV.KvBase KV.KvLex KV.KvParse KV.KvSer KV.KvSym KV.KvParseProofs KV.KvRoundtrip KV.KvLoop KV.KvLoopRef KV.KvLoopProofs KV.KvLoopEquiv.
Import ListNotations.

(** The regenerated trees are semantically equivalent to the reference trees ([tree_equiv]: the order of
    independent tests, repeated and redundant tests do not matter) and both emptiness guards are in the source. *)
Definition loop_ok (T F : ptree) (P : parsecfg) : bool :=
  tree_equiv T ref_ptree && tree_equiv F ref_pfinal && p_replace_guard P && p_single_block_guard P.

Lemma loop_ok_toks T F P : loop_ok T F P = true ->
  forall O flag_on tf, parse_toks_tree T F P O flag_on tf = parse_toks_opts P O flag_on tf.
Proof.
  unfold loop_ok. intro H. apply andb_true_iff in H as [H H4]. apply andb_true_iff in H as [H H3].
  apply andb_true_iff in H as [H1 H2]. intros O flag_on tf.
  unfold parse_toks_tree. rewrite (ploop_equiv _ _ _ _ _ _ _ _ H1 H2).
  apply (parse_tree_is_prun ref_ptree ref_pfinal P); try assumption; apply ref_tree_eqb_refl.
Qed.

Lemma loop_ok_parse T F P : loop_ok T F P = true ->
  forall O E flag_on text, parse_kv_tree T F P O E flag_on text = parse_kv_opts P O E flag_on text.
Proof. intros H O E flag_on text. unfold parse_kv_tree, parse_kv_opts. apply loop_ok_toks; exact H. Qed.

Section RT.
  Variables (C : sercfg) (E : escfg) (P : parsecfg) (T F : ptree).
  Hypothesis HC : cfg_ok C = true.
  Hypothesis HE : esc_ok E = true.
  Hypothesis HP : pcfg_ok P = true.
  Hypothesis HL : loop_ok T F P = true.

  Lemma tree_roundtrip_doc flag_on O o d : po_single_block O = false -> ws_opts o = true ->
    po_newline_keys O || doc_names_ok d = true -> po_newline_values O || doc_values_ok d = true ->
    parse_kv_tree T F P O E flag_on (serialise_doc C E o d) = POk d.
  Proof. intros. rewrite (loop_ok_parse _ _ _ HL). apply roundtrip_doc_opts; assumption. Qed.

  Lemma tree_roundtrip_node flag_on O o k : po_single_block O = false -> ws_opts o = true ->
    po_newline_keys O || names_ok k = true -> po_newline_values O || values_ok k = true ->
    parse_kv_tree T F P O E flag_on (serialise_node C E o k) = POk [k].
  Proof. intros. rewrite (loop_ok_parse _ _ _ HL). apply roundtrip_node_opts; assumption. Qed.

  Lemma tree_roundtrip_single_block flag_on O o k : po_single_block O = true -> ws_opts o = true ->
    po_newline_keys O || names_ok k = true -> po_newline_values O || values_ok k = true ->
    parse_kv_tree T F P O E flag_on (serialise_node C E o k) = PNode k.
  Proof. intros. rewrite (loop_ok_parse _ _ _ HL). apply roundtrip_single_block_node; assumption. Qed.
End RT.

Lemma ref_loop_ok : loop_ok ref_ptree ref_pfinal ref_pcfg = true.
Proof. vm_compute; reflexivity. Qed.

(** A loop that forgets to push the opened block on the stack (the leaf [SOpenLast] replaced by [SNone]: the
    translator would in fact emit [SUnknown]) is not the reference tree, and loses the nesting:
    ["a" { "b" "c" }] comes back as an error. *)
Fixpoint forget_push (t : ptree) : ptree :=
  match t with
  | PIf a x y => PIf a (forget_push x) (forget_push y)
  | PRead x => PRead (forget_push x)
  | PExpectNL x => PExpectNL (forget_push x)
  | PLeaf SOpenLast b c u x => PLeaf SNone b c u x
  | PLeaf _ _ _ _ _ => t
  end.
Lemma forget_push_rejected : tree_equiv (forget_push ref_ptree) ref_ptree = false.
Proof. vm_compute; reflexivity. Qed.

(** [tree_equiv] is not syntactic equality: testing the token kind before block_line instead of after it (the two
    operands of the source's `and` swapped) gives a different tree that is accepted. *)
Definition swap_demo_a : ptree :=
  PIf (ABl BNone) (PLeaf SNone None None false XContinue)
      (PIf (ATok 0 KNL) (PLeaf SNone None None false XContinue) (PLeaf SNone None None false (XRaise EBlockRequired))).
Definition swap_demo_b : ptree :=
  PIf (ATok 0 KNL) (PLeaf SNone None None false XContinue)
      (PIf (ABl BNone) (PLeaf SNone None None false XContinue) (PLeaf SNone None None false (XRaise EBlockRequired))).
Lemma tree_equiv_not_syntactic : ptree_eqb swap_demo_a swap_demo_b = false /\ tree_equiv swap_demo_a swap_demo_b = true.
Proof. split; vm_compute; reflexivity. Qed.
Lemma forget_push_refuted :
  parse_toks_tree (forget_push ref_ptree) ref_pfinal ref_pcfg default_popts (fun _ => false)
    ([TStr [97]; TNL; TBO; TNL; TStr [98]; TStr [99]; TNL; TBC; TNL], None) = PErr ETooManyClose.
Proof. vm_compute; reflexivity. Qed.
