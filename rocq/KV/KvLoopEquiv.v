(** C01 — semantic equivalence of two decision trees of the token loop, decided symbolically and proved sound.

    [tree_equiv] walks both trees together under an environment of atom values assumed so far: a test whose
    outcome follows from the environment (directly, or because another kind of the same token / another value of
    block_line is already known) is resolved, any other test splits the environment; reads must line up, leaves must
    be equal.  So the ORDER in which a source tests independent things does not matter, nor does a repeated or a
    redundant test.  [tree_equiv_sound]: equivalent trees make the same pass from every state on every token list. *)
From Coq Require Import List NArith Bool PeanoNat Lia.
From SV Require Import KV.KvBase KV.KvLex KV.KvParse KV.KvLoop KV.KvLoopProofs.
Import ListNotations.

Definition env := list (atom * bool).

(** What a known fact [(b, v)] says about the atom [a]. *)
Definition implied (a b : atom) (v : bool) : option bool :=
  if atom_eqb a b then Some v else
  match a, b, v with
  | ATok i k, ATok j l, true => if Nat.eqb i j then Some false else None      (* k <> l here *)
  | ABl x, ABl y, true => Some false                                          (* x <> y here *)
  | _, _, _ => None
  end.
Fixpoint lookup (e : env) (a : atom) : option bool :=
  match e with
  | [] => None
  | (b, v) :: r => match implied a b v with Some x => Some x | None => lookup r a end
  end.

Definition leaf_eqb (t1 t2 : ptree) : bool :=
  match t1, t2 with PLeaf _ _ _ _ _, PLeaf _ _ _ _ _ => ptree_eqb t1 t2 | _, _ => false end.

Fixpoint equiv (fuel : nat) (e : env) (t1 t2 : ptree) : bool :=
  match fuel with
  | O => false
  | S f =>
    match t1 with
    | PIf a x y =>
        match lookup e a with
        | Some true => equiv f e x t2
        | Some false => equiv f e y t2
        | None => equiv f ((a, true) :: e) x t2 && equiv f ((a, false) :: e) y t2
        end
    | _ =>
      match t2 with
      | PIf a x y =>
          match lookup e a with
          | Some true => equiv f e t1 x
          | Some false => equiv f e t1 y
          | None => equiv f ((a, true) :: e) t1 x && equiv f ((a, false) :: e) t1 y
          end
      | _ =>
        match t1, t2 with
        | PRead k1, PRead k2 => equiv f e k1 k2
        | PExpectNL k1, PExpectNL k2 => equiv f e k1 k2
        | _, _ => leaf_eqb t1 t2
        end
      end
    end
  end.

Definition equiv_fuel : nat := 400.
Definition tree_equiv (t1 t2 : ptree) : bool := equiv equiv_fuel [] t1 t2.

Section Sound.
  Variable P : parsecfg.
  Variable O : popts.
  Variable flag_on : str -> bool.
  Variable fin : option lexerr.

  Definition consistent (e : env) (s : mstate) (ts : list tok) : Prop :=
    forall a v, In (a, v) e -> eval_atom P O flag_on a s ts = v.

  Lemma tkind_eqb_refl k : tkind_eqb k k = true. Proof. destruct k; reflexivity. Qed.
  Lemma tkind_excl x k l : tkind_eqb x l = true -> tkind_eqb k l = false -> tkind_eqb x k = false.
  Proof. destruct x, k, l; cbn; congruence. Qed.
  Lemma bl_excl x k l : bl_eqb x l = true -> bl_eqb k l = false -> bl_eqb x k = false.
  Proof. destruct x, k, l; cbn; congruence. Qed.

  Lemma implied_sound a b v x s ts : eval_atom P O flag_on b s ts = v -> implied a b v = Some x ->
    eval_atom P O flag_on a s ts = x.
  Proof.
    unfold implied. destruct (atom_eqb a b) eqn:Eab.
    - apply atom_eqb_eq in Eab. subst. congruence.
    - intros Hb Hx.
      destruct a as [i k| | | | | | | | | | |]; try discriminate Hx.
      + destruct b as [j l| | | | | | | | | | |]; try discriminate Hx.
        destruct v; [|discriminate Hx].
        destruct (Nat.eqb i j) eqn:Ei; [|discriminate Hx]. apply Nat.eqb_eq in Ei. subst j.
        injection Hx as <-. cbn [eval_atom] in *.
        cbn [atom_eqb] in Eab. rewrite Nat.eqb_refl in Eab. cbn [andb] in Eab.
        eapply tkind_excl; eassumption.
      + destruct b as [j l|b'| | | | | | | | | |]; try discriminate Hx.
        destruct v; [|discriminate Hx].
        injection Hx as <-. cbn [eval_atom atom_eqb] in *. eapply bl_excl; eassumption.
  Qed.

  Lemma lookup_sound e s ts : consistent e s ts -> forall a x, lookup e a = Some x -> eval_atom P O flag_on a s ts = x.
  Proof.
    induction e as [|[b v] r IH]; intros Hc a x; cbn [lookup]; [discriminate|].
    destruct (implied a b v) eqn:Ei.
    - intro Hx. injection Hx as <-. eapply implied_sound; [|exact Ei]. apply Hc. left; reflexivity.
    - apply IH. intros a' v' Hin. apply Hc. right; exact Hin.
  Qed.

  Lemma consistent_cons e s ts a : consistent e s ts ->
    consistent ((a, eval_atom P O flag_on a s ts) :: e) s ts.
  Proof. intros Hc a' v' [H|H]; [injection H as <- <-; reflexivity | apply Hc; exact H]. Qed.

  Lemma leaf_eqb_eq t1 t2 : leaf_eqb t1 t2 = true -> t1 = t2.
  Proof. destruct t1, t2; cbn [leaf_eqb]; try discriminate. apply ptree_eqb_eq. Qed.

  Theorem equiv_sound : forall f e t1 t2, equiv f e t1 t2 = true ->
    forall s ts, consistent e s ts -> forall n, pstep P O flag_on fin t1 n s ts = pstep P O flag_on fin t2 n s ts.
  Proof.
    induction f as [|f IH]; intros e t1 t2 H s ts Hc n; [discriminate|].
    cbn [equiv] in H.
    assert (Hsplit : forall a x y t (left : bool),
      match lookup e a with
      | Some true => (if left then equiv f e x t else equiv f e t x)
      | Some false => (if left then equiv f e y t else equiv f e t y)
      | None => (if left then equiv f ((a, true) :: e) x t else equiv f ((a, true) :: e) t x)
                && (if left then equiv f ((a, false) :: e) y t else equiv f ((a, false) :: e) t y)
      end = true ->
      pstep P O flag_on fin (PIf a x y) n s ts = pstep P O flag_on fin t n s ts).
    { intros a x y t left Hq. cbn [pstep].
      destruct (lookup e a) as [[|]|] eqn:El.
      - rewrite (lookup_sound e s ts Hc a true El). destruct left; [apply (IH _ _ _ Hq) | symmetry; apply (IH _ _ _ Hq)]; assumption.
      - rewrite (lookup_sound e s ts Hc a false El). destruct left; [apply (IH _ _ _ Hq) | symmetry; apply (IH _ _ _ Hq)]; assumption.
      - apply andb_true_iff in Hq as [Ht Hf].
        pose proof (consistent_cons e s ts a Hc) as Hc'.
        destruct (eval_atom P O flag_on a s ts) eqn:Ea.
        + destruct left; [apply (IH _ _ _ Ht) | symmetry; apply (IH _ _ _ Ht)]; assumption.
        + destruct left; [apply (IH _ _ _ Hf) | symmetry; apply (IH _ _ _ Hf)]; assumption. }
    destruct t1 as [a x y|k1|k1|o1 b1 c1 u1 x1].
    - apply (Hsplit a x y t2 true). exact H.
    - destruct t2 as [a x y|k2|k2|o2 b2 c2 u2 x2].
      + symmetry. apply (Hsplit a x y (PRead k1) false). exact H.
      + cbn [pstep]. rewrite (IH _ _ _ H s ts Hc (S n)). reflexivity.
      + discriminate.
      + discriminate.
    - destruct t2 as [a x y|k2|k2|o2 b2 c2 u2 x2].
      + symmetry. apply (Hsplit a x y (PExpectNL k1) false). exact H.
      + discriminate.
      + cbn [pstep]. rewrite (IH _ _ _ H s ts Hc (S n)). reflexivity.
      + discriminate.
    - destruct t2 as [a x y|k2|k2|o2 b2 c2 u2 x2].
      + symmetry. apply (Hsplit a x y (PLeaf o1 b1 c1 u1 x1) false). exact H.
      + discriminate.
      + discriminate.
      + apply leaf_eqb_eq in H. rewrite H. reflexivity.
  Qed.

  Theorem tree_equiv_sound t1 t2 : tree_equiv t1 t2 = true ->
    forall n s ts, pstep P O flag_on fin t1 n s ts = pstep P O flag_on fin t2 n s ts.
  Proof.
    unfold tree_equiv. generalize equiv_fuel. intros f H n s ts.
    refine (equiv_sound f [] t1 t2 H s ts _ n). intros a v [].
  Qed.

  (** Equivalent bodies and equivalent final checks give the same loop. *)
  Theorem ploop_equiv T1 F1 T2 F2 : tree_equiv T1 T2 = true -> tree_equiv F1 F2 = true ->
    forall fuel s ts, ploop P O flag_on fin fuel T1 F1 s ts = ploop P O flag_on fin fuel T2 F2 s ts.
  Proof.
    intros HT HF. induction fuel as [|fuel IH]; intros s ts; [reflexivity|].
    cbn [ploop]. destruct ts as [|t r].
    - rewrite (tree_equiv_sound _ _ HF). reflexivity.
    - rewrite (tree_equiv_sound _ _ HT). destruct (pstep P O flag_on fin T2 1 s (t :: r)); [apply IH | reflexivity].
  Qed.
End Sound.

(** The part of two trees that concerns one kind of loop token (diagnostic obligations of the check). *)
Definition equiv_on (k : tkind) (a b : ptree) : bool := tree_equiv (restrict0 k a) (restrict0 k b).
