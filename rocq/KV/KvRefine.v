(** C01 — the KV lexer model ([KV/KvLex.v], a character-driven transducer) computes the same tokens and the same
    error as the reader-program model of [Tokenizer] built for C03 ([Text/Tokenizer.v]: [_get_token],
    [_handle_string], [_handle_comment] and the bracket / parenthesis / directive / bare-string loops written over
    [_next_char] and the push-back [_char_index -= 1]) under the options that [Keyvalues.parse] passes:
    string_bracket=True, string_parens=True, allow_escapes=True, everything else off.

    Consequences: (1) the hand-written lexer of C01 is no longer an independent trusted model: it is proved equal
    to the model that C03 ties to the source by an exhaustive small-scope correspondence; (2) C03's generic
    theorem "no reader program can tell a chunked source from the flat string" transfers to [parse_kv]:
    [parse_any_delivery]. *)
From Coq Require Import List NArith ZArith Bool Lia.
From SV Require Import Text.Str Text.Prog Text.ProgProofs Text.Tokenizer Text.TokenizerProofs.
From SV Require Import KV.KvBase KV.KvLex KV.KvParse.
Import ListNotations.
Open Scope N_scope.

(** The tokenizer options of [Keyvalues.parse] (allow_escapes=True). *)
Definition kv_topts : opts := {|
  string_bracket := true; string_parens := true; allow_escapes := true; allow_star_comments := false;
  preserve_comments := false; colon_operator := false; plus_operator := false |}.

(** * The constant tables of the two models agree (decidable; an instance obligation for the generated tables) *)
Definition bare_list : list N := [34; 39; 123; 125; 59; 44; 61; 91; 93; 40; 41; 13; 10; 9; 32].

Fixpoint nlist_eqb (a b : list N) : bool :=
  match a, b with
  | [], [] => true
  | x :: a', y :: b' => (x =? y) && nlist_eqb a' b'
  | _, _ => false
  end.
Fixpoint pairs_eqb (a b : list (N * N)) : bool :=
  match a, b with
  | [], [] => true
  | (x1, x2) :: a', (y1, y2) :: b' => (x1 =? y1) && (x2 =? y2) && pairs_eqb a' b'
  | _, _ => false
  end.

Definition op_is (ops : list (N * Str.tok)) (c : N) (t : Str.tok) : bool :=
  match Str.lookup c ops, t with
  | Some BRACE_OPEN, BRACE_OPEN | Some BRACE_CLOSE, BRACE_CLOSE | Some EQUALS, EQUALS | Some COMMA, COMMA => true
  | _, _ => false
  end.
Definition ops_match (ops : list (N * Str.tok)) : bool :=
  forallb (fun p : N * Str.tok => KvLex.mem (fst p) [123; 125; 61; 44]) ops
  && op_is ops 123 BRACE_OPEN && op_is ops 125 BRACE_CLOSE && op_is ops 61 EQUALS && op_is ops 44 COMMA.

Definition esc_tables_match (T : tables) (E : escfg) : bool := pairs_eqb (esc_table T) (e_table E).
(** BARE_DISALLOWED is a frozenset: equality as sets. *)
Definition bare_tables_match (T : tables) : bool :=
  forallb (fun x => Str.mem x bare_list) (Str.bare_disallowed T)
  && forallb (fun x => Str.mem x (Str.bare_disallowed T)) bare_list.
Definition tables_match (T : tables) (E : escfg) : bool :=
  esc_tables_match T E && bare_tables_match T && ops_match (operators T).

Lemma nlist_eqb_eq a : forall b, nlist_eqb a b = true -> a = b.
Proof.
  induction a as [|x a IH]; destruct b as [|y b]; cbn [nlist_eqb]; try discriminate; [reflexivity|].
  intros H. apply andb_true_iff in H as [H1 H2]. apply N.eqb_eq in H1. now rewrite H1, (IH b H2).
Qed.
Lemma pairs_eqb_eq a : forall b, pairs_eqb a b = true -> a = b.
Proof.
  induction a as [|[x1 x2] a IH]; destruct b as [|[y1 y2] b]; cbn [pairs_eqb]; try discriminate; [reflexivity|].
  intros H. apply andb_true_iff in H as [H H3]. apply andb_true_iff in H as [H1 H2].
  apply N.eqb_eq in H1, H2. now rewrite H1, H2, (IH b H3).
Qed.

Lemma lookup_same k (t : list (N * N)) : Str.lookup k t = KvLex.lookup k t.
Proof. induction t as [|[a b] t IH]; cbn [Str.lookup KvLex.lookup]; [reflexivity|]. now rewrite IH. Qed.

Definition op_of (c : N) : option Str.tok :=
  if c =? 123 then Some BRACE_OPEN else if c =? 125 then Some BRACE_CLOSE
  else if c =? 61 then Some EQUALS else if c =? 44 then Some COMMA else None.

Lemma ops_lookup ops : ops_match ops = true -> forall c, Str.lookup c ops = op_of c.
Proof.
  unfold ops_match. intros H c.
  repeat (apply andb_true_iff in H as [H ?]).
  unfold op_of.
  destruct (c =? 123) eqn:E1; [apply N.eqb_eq in E1; subst; unfold op_is in *;
    destruct (Str.lookup 123 ops) as [[]|]; try discriminate; reflexivity|].
  destruct (c =? 125) eqn:E2; [apply N.eqb_eq in E2; subst; unfold op_is in *;
    destruct (Str.lookup 125 ops) as [[]|]; try discriminate; reflexivity|].
  destruct (c =? 61) eqn:E3; [apply N.eqb_eq in E3; subst; unfold op_is in *;
    destruct (Str.lookup 61 ops) as [[]|]; try discriminate; reflexivity|].
  destruct (c =? 44) eqn:E4; [apply N.eqb_eq in E4; subst; unfold op_is in *;
    destruct (Str.lookup 44 ops) as [[]|]; try discriminate; reflexivity|].
  clear - H E1 E2 E3 E4. induction ops as [|[k t] ops IH]; [reflexivity|].
  cbn [forallb fst] in H. apply andb_true_iff in H as [Hk H].
  cbn [Str.lookup]. destruct (k =? c) eqn:Ek; [|now apply IH].
  apply N.eqb_eq in Ek. subst k. unfold KvLex.mem in Hk. cbn [existsb] in Hk.
  rewrite E1, E2, E3, E4 in Hk. discriminate.
Qed.

(** * Conversions between the vocabularies of the two models *)
Definition conv_tok (k : Str.tok) (v : str) : tok :=
  match k with
  | STRING => TStr v | NEWLINE => TNL | BRACE_OPEN => TBO | BRACE_CLOSE => TBC | PROP_FLAG => TFlag v
  | _ => TOther
  end.
Definition conv_err (e : err) : lexerr :=
  match e with
  | E_UNTERM_STRING => LUnterminated | E_NO_ESCAPE => LNoEscape | E_EOL_BRACK => LFlagNewline
  | E_NEST_BRACK => LFlagNest | E_UNTERM_FLAG => LFlagEof | E_NEST_PAREN => LParenNest
  | E_UNTERM_PAREN => LParenEof | E_CLOSE_BRACK => LCloseBracket | E_CLOSE_PAREN => LCloseParen
  | E_UNEXPECTED_CHAR => LUnexpectedChar | E_UNCLOSED_STAR => LStarComment | E_STAR_NOT_ALLOWED => LStarComment
  | E_SINGLE_SLASH_STAR => LSingleSlash | E_SINGLE_SLASH => LSingleSlash
  end.

(** The tokens of a trace up to the first EOF, and the error that ends it (if any). *)
Fixpoint conv_trace (rs : list result) : list tok * option lexerr :=
  match rs with
  | [] => ([], None)
  | RTok EOF _ _ _ :: _ => ([], None)
  | RTok k v _ _ :: r => let '(ts, e) := conv_trace r in (conv_tok k v :: ts, e)
  | RErr e _ _ :: _ => ([], Some (conv_err e))
  | RFuel :: _ => ([], None)
  end.

(** * The transducer from an arbitrary state *)
Definition fin_of (r : list tok * (lexerr + lst)) : list tok * option lexerr :=
  match r with
  | (ts, inl e) => (ts, Some e)
  | (ts, inr st) => let '(ts', e) := lex_end st in (ts ++ ts', e)
  end.
Definition lex_from (E : escfg) (st : lst) (l : str) : list tok * option lexerr := fin_of (lex_run E st l).
Definition cons_toks (out : list tok) (r : list tok * option lexerr) : list tok * option lexerr :=
  (out ++ fst r, snd r).

Lemma lex_all_from E l : lex_all E l = lex_from E lex_init l.
Proof. unfold lex_all, lex_from, fin_of. destruct (lex_run E lex_init l) as [ts [e|st]]; reflexivity. Qed.

Lemma cons_toks_nil r : cons_toks [] r = r.
Proof. destruct r; reflexivity. Qed.

Lemma lex_from_cons E st c l :
  lex_from E st (c :: l) =
  match lstep E st c with
  | SErr out e => (out, Some e)
  | SOk st' out => cons_toks out (lex_from E st' l)
  end.
Proof.
  unfold lex_from. cbn [lex_run]. destruct (lstep E st c) as [st' out|out e]; [|reflexivity].
  destruct (lex_run E st' l) as [ts [e|st2]]; cbn [fin_of cons_toks fst snd]; [reflexivity|].
  destruct (lex_end st2) as [ts' e]. unfold cons_toks. cbn [fst snd]. now rewrite app_assoc.
Qed.

Lemma lex_from_nil E st : lex_from E st [] = (fst (lex_end st), snd (lex_end st)).
Proof. unfold lex_from. cbn [lex_run fin_of]. destruct (lex_end st); reflexivity. Qed.

(** What one call of the reader-program tokenizer must satisfy with respect to the transducer: [whole] is the
    complete output of the transducer from the corresponding state on the same input; [bound] limits the length
    of the input that is left. *)
Definition spec (E : escfg) (whole : list tok * option lexerr) (r : result) (l' : str) (bound : nat) : Prop :=
  match r with
  | RTok EOF _ _ _ => whole = ([], None)
  | RTok k v line' lcr' =>
      (length l' <= bound)%nat /\ whole = cons_toks [conv_tok k v] (lex_from E (mkL MNorm line' lcr') l')
  | RErr e _ _ => whole = ([], Some (conv_err e))
  | RFuel => False
  end.

Lemma spec_weaken E w r l' b b' : (b <= b')%nat -> spec E w r l' b -> spec E w r l' b'.
Proof. intros Hb. destruct r as [[] v ln lc|e a ln|]; cbn [spec]; intuition lia. Qed.

Ltac consts := cbv [Str.DQ Str.BS Str.LF Str.CR Str.TAB Str.SP Str.SLASH Str.STAR Str.LBRACK Str.RBRACK Str.LPAREN
                    Str.RPAREN Str.HASH Str.COLONC Str.PLUSC Str.BOM KvBase.DQ KvBase.BS KvBase.LF KvBase.CR
                    KvBase.SP KvBase.TAB] in *.

Ltac tylia := unfold Str.str, Str.char, KvBase.str, KvBase.char in *; lia.

Section Refine.
  Variable T : tables.
  Variable E : escfg.
  Hypothesis HT : tables_match T E = true.

  Lemma esc_eq : esc_table T = e_table E.
  Proof. unfold tables_match in HT. repeat (apply andb_true_iff in HT as [HT ?]). now apply pairs_eqb_eq. Qed.
  Lemma bare_eq c : Str.mem c (Str.bare_disallowed T) = KvLex.bare_disallowed c.
  Proof.
    unfold tables_match in HT. repeat (apply andb_true_iff in HT as [HT ?]).
    unfold bare_tables_match in *. apply andb_true_iff in H0 as [H1 H2].
    rewrite forallb_forall in H1, H2. change (KvLex.bare_disallowed c) with (Str.mem c bare_list).
    destruct (Str.mem c (Str.bare_disallowed T)) eqn:E1, (Str.mem c bare_list) eqn:E2; try reflexivity.
    - apply Str.mem_In in E1. rewrite (H1 c E1) in E2. discriminate.
    - apply Str.mem_In in E2. rewrite (H2 c E2) in E1. discriminate.
  Qed.
  Lemma ops_eq c : Str.lookup c (operators T) = op_of c.
  Proof. unfold tables_match in HT. repeat (apply andb_true_iff in HT as [HT ?]). now apply ops_lookup. Qed.

  Lemma delim_eq c : is_delim T kv_topts c = KvLex.bare_disallowed c.
  Proof.
    unfold is_delim. cbn [colon_operator plus_operator kv_topts]. rewrite !andb_false_r, !orb_false_r.
    apply bare_eq.
  Qed.

  (** [_handle_string] against the modes [MStr] / [MEsc]. *)
  Lemma string_spec : forall f l acc scr line, (length l < f)%nat ->
    spec E (lex_from E (mkL (MStr acc scr) line false) l)
      (fst (run_flat (handle_string T kv_topts f acc scr line) l))
      (snd (run_flat (handle_string T kv_topts f acc scr line) l)) (length l).
  Proof.
    induction f as [|f IH]; intros l acc scr line Hf; [lia|].
    destruct l as [|c l].
    - cbn. reflexivity.
    - cbn [length] in Hf. rewrite lex_from_cons.
      cbn [handle_string run_flat fnext keep lstep l_mode l_line l_cr allow_escapes kv_topts]. consts.
      destruct (c =? 34) eqn:E1.
      { cbn [run_flat fst snd spec conv_tok]. split; [cbn [length]; lia|reflexivity]. }
      destruct (c =? 13) eqn:E2.
      { rewrite cons_toks_nil. eapply spec_weaken; [|apply IH; lia]. cbn [length]; lia. }
      destruct (c =? 10) eqn:E3.
      { destruct scr; rewrite cons_toks_nil; (eapply spec_weaken; [|apply IH; lia]); cbn [length]; lia. }
      destruct (c =? 92) eqn:E4; cbn [andb].
      2:{ rewrite cons_toks_nil. eapply spec_weaken; [|apply IH; lia]. cbn [length]; lia. }
      rewrite cons_toks_nil.
      destruct l as [|e l].
      { cbn. reflexivity. }
      cbn [run_flat fnext keep]. rewrite lex_from_cons. cbn [lstep l_mode l_line l_cr]. consts.
      cbn [length] in Hf.
      destruct (e =? 10) eqn:E5.
      { rewrite cons_toks_nil. eapply spec_weaken; [|apply IH; lia]. cbn [length]; lia. }
      rewrite esc_eq, lookup_same.
      destruct (KvLex.lookup e (e_table E)) as [x|];
        rewrite cons_toks_nil; (eapply spec_weaken; [|apply IH; lia]); cbn [length]; lia.
  Qed.

  (** The [[flag]] loop against the mode [MFlag]. *)
  Lemma brack_spec : forall f l acc line, (length l < f)%nat ->
    spec E (lex_from E (mkL (MFlag acc) line false) l)
      (fst (run_flat (brack_loop f acc line) l)) (snd (run_flat (brack_loop f acc line) l)) (length l).
  Proof.
    induction f as [|f IH]; intros l acc line Hf; [lia|].
    destruct l as [|c l].
    - cbn. reflexivity.
    - cbn [length] in Hf. rewrite lex_from_cons.
      cbn [brack_loop run_flat fnext keep lstep l_mode l_line l_cr]. consts.
      destruct (c =? 93) eqn:E1.
      { cbn [run_flat fst snd spec conv_tok]. split; [cbn [length]; lia|reflexivity]. }
      destruct (c =? 10) eqn:E2; [cbn; reflexivity|].
      destruct (c =? 91) eqn:E3; [cbn; reflexivity|].
      rewrite cons_toks_nil. eapply spec_weaken; [|apply IH; lia]. cbn [length]; lia.
  Qed.

  (** The [(args)] loop against the mode [MParen]. *)
  Lemma paren_spec : forall f l acc line, (length l < f)%nat ->
    spec E (lex_from E (mkL (MParen acc) line false) l)
      (fst (run_flat (paren_loop f acc line) l)) (snd (run_flat (paren_loop f acc line) l)) (length l).
  Proof.
    induction f as [|f IH]; intros l acc line Hf; [lia|].
    destruct l as [|c l].
    - cbn. reflexivity.
    - cbn [length] in Hf. rewrite lex_from_cons.
      cbn [paren_loop run_flat fnext keep lstep l_mode l_line l_cr]. consts.
      destruct (c =? 41) eqn:E1.
      { cbn [run_flat fst snd spec conv_tok]. split; [cbn [length]; lia|reflexivity]. }
      destruct (c =? 10) eqn:E2.
      { rewrite cons_toks_nil. eapply spec_weaken; [|apply IH; lia]. cbn [length]; lia. }
      destruct (c =? 40) eqn:E3; [cbn; reflexivity|].
      rewrite cons_toks_nil. eapply spec_weaken; [|apply IH; lia]. cbn [length]; lia.
  Qed.

  (** A loop that ends on a delimiter pushes it back; the transducer re-dispatches it in the normal mode. *)
  Lemma prepend_from t r l :
    match prepend t r with
    | SErr out e => (out, Some e)
    | SOk st' out => cons_toks out (lex_from E st' l)
    end
    = cons_toks [t] match r with
                    | SErr out e => (out, Some e)
                    | SOk st' out => cons_toks out (lex_from E st' l)
                    end.
  Proof. destruct r as [st' out|out e]; reflexivity. Qed.

  Lemma norm_from line cr c l :
    lex_from E (mkL MNorm line cr) (c :: l) =
    match norm_step line cr c with
    | SErr out e => (out, Some e)
    | SOk st' out => cons_toks out (lex_from E st' l)
    end.
  Proof. now rewrite lex_from_cons. Qed.

  (** The [#directive] loop against [MDirective]. *)
  Lemma directive_spec : forall f l acc line, (length l < f)%nat ->
    spec E (lex_from E (mkL MDirective line false) l)
      (fst (run_flat (directive_loop T kv_topts f acc line) l))
      (snd (run_flat (directive_loop T kv_topts f acc line) l)) (length l).
  Proof.
    induction f as [|f IH]; intros l acc line Hf; [lia|].
    destruct l as [|c l].
    - cbn. split; [lia|reflexivity].
    - cbn [length] in Hf. rewrite lex_from_cons.
      cbn [directive_loop run_flat fnext unread_delim lstep l_mode l_line l_cr]. rewrite delim_eq.
      destruct (KvLex.bare_disallowed c) eqn:E1.
      + cbn [fback run_flat fst snd spec conv_tok]. split; [apply le_n|].
        rewrite prepend_from, <- norm_from. reflexivity.
      + rewrite cons_toks_nil. eapply spec_weaken; [|apply IH; lia]. cbn [length]; lia.
  Qed.

  (** The bare-string loop against [MBare]. *)
  Lemma bare_spec : forall f l acc line, (length l < f)%nat ->
    spec E (lex_from E (mkL (MBare acc) line false) l)
      (fst (run_flat (bare_loop T kv_topts f acc line) l))
      (snd (run_flat (bare_loop T kv_topts f acc line) l)) (length l).
  Proof.
    induction f as [|f IH]; intros l acc line Hf; [lia|].
    destruct l as [|c l].
    - cbn. split; [lia|reflexivity].
    - cbn [length] in Hf. rewrite lex_from_cons.
      cbn [bare_loop run_flat fnext unread_delim lstep l_mode l_line l_cr]. rewrite delim_eq.
      destruct (KvLex.bare_disallowed c) eqn:E1.
      + cbn [fback run_flat fst snd spec conv_tok]. split; [apply le_n|].
        rewrite prepend_from, <- norm_from. reflexivity.
      + rewrite cons_toks_nil. eapply spec_weaken; [|apply IH; lia]. cbn [length]; lia.
  Qed.

  (** Comments: swallowed (the options of Keyvalues.parse never preserve them). *)
  Definition cspec (whole : list tok * option lexerr) (r : cres) (l' : str) (bound : nat) : Prop :=
    match r with
    | CSwallow line' => (length l' <= bound)%nat /\ whole = lex_from E (mkL MNorm line' false) l'
    | CDone r' => spec E whole r' l' bound
    end.

  Lemma cspec_weaken w r l' b b' : (b <= b')%nat -> cspec w r l' b -> cspec w r l' b'.
  Proof.
    intros Hb. destruct r as [ln|r]; cbn [cspec]; [intros [H1 H2]; split; [lia|exact H2]|].
    now apply spec_weaken.
  Qed.

  Lemma line_comment_spec : forall f l acc line, (length l < f)%nat ->
    cspec (lex_from E (mkL MComment line false) l)
      (fst (run_flat (line_comment kv_topts f acc line) l))
      (snd (run_flat (line_comment kv_topts f acc line) l)) (length l).
  Proof.
    induction f as [|f IH]; intros l acc line Hf; [lia|].
    destruct l as [|c l].
    - cbn. split; [lia|reflexivity].
    - cbn [length] in Hf. rewrite lex_from_cons.
      cbn [line_comment run_flat fnext lstep l_mode l_line l_cr]. consts.
      destruct (c =? 10) eqn:E1.
      + cbn [fback run_flat fst snd comment_end preserve_comments kv_topts cspec]. split; [apply le_n|].
        apply N.eqb_eq in E1. subst c. rewrite norm_from. reflexivity.
      + rewrite cons_toks_nil.
        eapply cspec_weaken; [|apply IH; lia]. cbn [length]; lia.
  Qed.

  Lemma comment_spec : forall f l line, (length l < f)%nat ->
    cspec (lex_from E (mkL MSlash line false) l)
      (fst (run_flat (handle_comment kv_topts f line) l))
      (snd (run_flat (handle_comment kv_topts f line) l)) (length l).
  Proof.
    intros f l line Hf. destruct l as [|c l].
    - cbn. reflexivity.
    - cbn [length] in Hf. rewrite lex_from_cons.
      cbn [handle_comment run_flat fnext keep lstep l_mode l_line l_cr allow_star_comments kv_topts]. consts.
      destruct (c =? 42) eqn:E1; [cbn; reflexivity|].
      destruct (c =? 47) eqn:E2; [|cbn; reflexivity].
      rewrite cons_toks_nil.
      eapply cspec_weaken; [|apply line_comment_spec; lia]. cbn [length]; lia.
  Qed.

  (** After a swallowed comment [_get_token] loops. *)
  Lemma after_comment f whole cr l1 b :
    cspec whole cr l1 b ->
    ((length l1 <= b)%nat -> forall line', spec E (lex_from E (mkL MNorm line' false) l1)
                     (fst (run_flat (get_token T kv_topts f line' false) l1))
                     (snd (run_flat (get_token T kv_topts f line' false) l1)) (length l1)) ->
    spec E whole
      (fst (run_flat (match cr with CSwallow line' => get_token T kv_topts f line' false | CDone r' => Ret r' end) l1))
      (snd (run_flat (match cr with CSwallow line' => get_token T kv_topts f line' false | CDone r' => Ret r' end) l1))
      b.
  Proof.
    destruct cr as [ln|r']; cbn [cspec run_flat fst snd]; [|auto].
    intros [Hb ->] H. eapply spec_weaken; [exact Hb|apply H; exact Hb].
  Qed.

  (** [_get_token] against the normal mode. *)
  Lemma get_token_spec : forall f l line lcr, (length l < f)%nat ->
    spec E (lex_from E (mkL MNorm line lcr) l)
      (fst (run_flat (get_token T kv_topts f line lcr) l))
      (snd (run_flat (get_token T kv_topts f line lcr) l)) (pred (length l)).
  Proof.
    induction f as [|f IH]; intros l line lcr Hf; [lia|].
    destruct l as [|c l].
    - cbn. reflexivity.
    - cbn [length pred] in *. rewrite norm_from.
      assert (IH' : forall line' lcr', spec E (lex_from E (mkL MNorm line' lcr') l)
                (fst (run_flat (get_token T kv_topts f line' lcr') l))
                (snd (run_flat (get_token T kv_topts f line' lcr') l)) (length l)).
      { intros line' lcr'. eapply spec_weaken; [|apply IH; lia]. lia. }
      cbn [get_token run_flat fnext keep]. rewrite ops_eq. unfold op_of, norm_step. consts.
      destruct (c =? 123) eqn:E1.
      { cbn [run_flat fst snd spec conv_tok]. split; [apply le_n|reflexivity]. }
      destruct (c =? 125) eqn:E2.
      { cbn [run_flat fst snd spec conv_tok]. split; [apply le_n|reflexivity]. }
      destruct (c =? 61) eqn:E3.
      { cbn [orb run_flat fst snd spec conv_tok]. split; [apply le_n|reflexivity]. }
      destruct (c =? 44) eqn:E4.
      { cbn [orb run_flat fst snd spec conv_tok]. split; [apply le_n|reflexivity]. }
      cbn [orb].
      destruct (c =? 13) eqn:E5.
      { cbn [run_flat fst snd spec conv_tok]. split; [apply le_n|reflexivity]. }
      destruct (c =? 10) eqn:E6.
      { destruct lcr.
        - rewrite cons_toks_nil. apply IH'.
        - cbn [run_flat fst snd spec conv_tok]. split; [apply le_n|reflexivity]. }
      destruct ((c =? 32) || (c =? 9)) eqn:E7.
      { rewrite cons_toks_nil. apply IH'. }
      destruct (c =? 47) eqn:E8.
      { rewrite cons_toks_nil, run_flat_bind'.
        apply after_comment; [apply comment_spec; lia |].
        intros Hb line'. eapply spec_weaken; [|apply IH; lia]. lia. }
      destruct (c =? 34) eqn:E9.
      { rewrite cons_toks_nil. apply string_spec. lia. }
      destruct (c =? 91) eqn:E10.
      { cbn [string_bracket kv_topts]. rewrite cons_toks_nil. apply brack_spec. lia. }
      destruct (c =? 40) eqn:E11.
      { cbn [string_parens kv_topts]. rewrite cons_toks_nil. apply paren_spec. lia. }
      destruct ((c =? 65279) && (line =? 1)) eqn:E12.
      { rewrite cons_toks_nil. apply IH'. }
      cbn [colon_operator plus_operator string_bracket string_parens kv_topts]. rewrite !andb_false_r.
      destruct (c =? 93) eqn:E13; [cbn; reflexivity|].
      destruct (c =? 41) eqn:E14; [cbn; reflexivity|].
      destruct (c =? 35) eqn:E15.
      { rewrite cons_toks_nil. apply directive_spec. lia. }
      rewrite bare_eq.
      destruct (KvLex.bare_disallowed c) eqn:E16; cbn [negb]; [cbn; reflexivity|].
      rewrite cons_toks_nil. apply bare_spec. lia.
  Qed.

  (** The whole trace: tokens up to the first EOF and the error that ends it are those of the transducer. *)
  Lemma trace_refines : forall m l, (length l <= m)%nat -> forall n f line lcr,
    (length l < n)%nat -> (length l < f)%nat ->
    conv_trace (tokens_flat T kv_topts n f line lcr l) = lex_from E (mkL MNorm line lcr) l.
  Proof.
    induction m as [|m IH]; intros l Hm n f line lcr Hn Hf.
    - destruct l; [|cbn in Hm; lia]. destruct n as [|n]; [lia|]. destruct f as [|f]; [lia|]. reflexivity.
    - destruct n as [|n]; [lia|].
      destruct l as [|c l0]; [destruct f as [|f]; [lia|]; reflexivity|].
      cbn [tokens_flat].
      pose proof (get_token_spec f (c :: l0) line lcr Hf) as H.
      destruct (run_flat (get_token T kv_topts f line lcr) (c :: l0)) as [r l'] eqn:Hr. cbn [fst snd] in H.
      cbn [length pred] in *.
      destruct r as [k v ln lc|e a ln|]; cbn [spec] in H.
      + destruct k; cbn [conv_trace]; try (rewrite H; reflexivity);
          destruct H as [Hb ->];
          (rewrite (IH l' ltac:(tylia) n f ln lc ltac:(tylia) ltac:(tylia));
           destruct (lex_from E (mkL MNorm ln lc) l'); reflexivity).
      + cbn [conv_trace]. now rewrite H.
      + destruct H.
  Qed.

  Theorem lexer_refines l :
    conv_trace (tokens_flat T kv_topts (length l + 2) (length l + 2) 1 false l) = lex_all E l.
  Proof. rewrite lex_all_from. apply (trace_refines (length l)); lia. Qed.
End Refine.

(** * Delivery: the text may reach the tokenizer in any chunking *)
(** [Keyvalues.parse] over the reader state of the real class: [s] is [(_cur_chunk, _char_index, chunk iterator)],
    [n] bounds the number of [tokenizer()] calls, [f] is the fuel of each call. *)
Definition parse_kv_reader (P : parsecfg) (O : popts) (T : tables) (flag_on : str -> bool) (n f : nat) (s : chk) : pres :=
  parse_toks_opts P O flag_on (conv_trace (tokens_chk T kv_topts n f 1 false s)).

(** Whatever reader state denotes the text [l] (relation [R] of Text/Prog.v: the characters still to be read from
    the current chunk followed by the chunks to come), parsing from it gives what [parse_kv_opts] gives on [l]. *)
Theorem parse_any_reader_state T E : tables_match T E = true ->
  forall P O flag_on l s n f, R l s -> (length l < n)%nat -> (length l < f)%nat ->
  parse_kv_reader P O T flag_on n f s = parse_kv_opts P O E flag_on l.
Proof.
  intros HT P O flag_on l s n f HR Hn Hf. unfold parse_kv_reader, parse_kv_opts.
  rewrite (tokens_chunk_independent T kv_topts n f 1 false l s HR).
  rewrite (trace_refines T E HT (length l) l (le_n _) n f 1 false Hn Hf), <- lex_all_from. reflexivity.
Qed.

(** [Keyvalues.parse(iterable of chunks)] = [Keyvalues.parse(''.join(chunks))]: any cut positions, empty chunks
    included (cuts inside CR LF, inside an escape pair, before a pushed-back delimiter, inside a comment). *)
Theorem parse_any_delivery_chunks T E : tables_match T E = true ->
  forall P O flag_on cs n f, (length (concat cs) < n)%nat -> (length (concat cs) < f)%nat ->
  parse_kv_reader P O T flag_on n f (chk_of_chunks cs) = parse_kv_opts P O E flag_on (concat cs).
Proof. intros HT P O flag_on cs n f Hn Hf. apply parse_any_reader_state; auto using R_of_chunks. Qed.

(** [Keyvalues.parse(str)]: the reader state of [Tokenizer(str)] (the whole text is the current chunk). *)
Theorem parse_any_delivery_str T E : tables_match T E = true ->
  forall P O flag_on l n f, (length l < n)%nat -> (length l < f)%nat ->
  parse_kv_reader P O T flag_on n f (chk_of_str l) = parse_kv_opts P O E flag_on l.
Proof. intros HT P O flag_on l n f Hn Hf. apply parse_any_reader_state; auto using R_of_str. Qed.

(** Non-vacuity: the reference tables satisfy [tables_match], and a concrete chunked run (cuts inside CR LF, inside
    the escape pair, before the delimiter that ends a bare string; an empty chunk). *)
Definition ref_tables : tables := {|
  esc_table := [(110, 10); (116, 9); (118, 11); (98, 8); (114, 13); (102, 12); (97, 7); (34, 34); (39, 39);
                (47, 47); (92, 92); (63, 63)];
  excl_single := [63; 47]; excl_multi := [63; 47; 10];
  Str.bare_disallowed := bare_list;
  operators := [(123, BRACE_OPEN); (125, BRACE_CLOSE); (61, EQUALS); (44, COMMA)];
  casefold := fun c => [c] |}.
Definition ref_escfg' : escfg := {| e_table := esc_table ref_tables; e_excl := [63; 47] |}.
Lemma ref_tables_match : tables_match ref_tables ref_escfg' = true.
Proof. vm_compute. reflexivity. Qed.

Example chunked_example :
  parse_kv_reader {| p_key_break := BTChars [10; 13]; p_value_break := BTChars [10; 13]; p_replace_guard := true;
                     p_single_block_guard := true |} default_popts ref_tables (fun _ => false) 40 40
    (chk_of_chunks [[107; 32; 34; 97; 92]; []; [110; 34; 13]; [10; 98]; [123; 125; 10]])
  = POk [Leaf [107] [97; 10]; Block [98] []].
Proof. vm_compute. reflexivity. Qed.
