(** C01 — [_read_flag(flags, flag_val)] read from the source (translate/c01_kvaux.py -> Gen/KVAux_gen.v [gen_flagprog]).

    The body is executed symbolically path by path: string values are the argument, its tail [v[1:]], its case-folded
    form; boolean values are "starts with '!'" ([v[:1] == '!'], [v.startswith('!')]), the lookup "bool of the entry
    of the mapping, else of FLAGS_DEFAULT, else False" (try/except KeyError, a conditional on [in], a nested [.get]),
    negation, [is not] / [!=] / [^], [is] / [==], conditional expressions; [if] statements fork the tree.  The tree is
    given a meaning here ([eval_ftree]) and a decision procedure [flagprog_ok] (normal form of the returned value
    under each of the two cases "starts with '!'" / "does not") is proved sound: every accepted tree computes exactly
    [read_flag] of KV/KvFlags.v, for every argument, mapping, default table and casefold function. *)
From Coq Require Import List NArith Bool.
From SV Require Import KV.KvBase KV.KvFlags.
Import ListNotations.
Open Scope N_scope.

Inductive fsx := FArg | FTail (s : fsx) | FFold (s : fsx) | FSOther.
Inductive fbx :=
| FBang (s : fsx)            (* s[:1] == '!' *)
| FLook (s : fsx)            (* bool(flags[s]) if s in flags else FLAGS_DEFAULT.get(s, False) *)
| FNeg (b : fbx)
| FNeq (a b : fbx)           (* a is not b, a != b, a ^ b  (on bools) *)
| FEqv (a b : fbx)           (* a is b, a == b *)
| FIte (c a b : fbx)
| FTrue | FFalse
| FBOther.                   (* anything else: kept so that the obligation, not the translator, fails *)
Inductive ftree := FLeaf (b : fbx) | FNode (c : fbx) (t e : ftree) | FFail.

Fixpoint fsx_eqb (a b : fsx) : bool :=
  match a, b with
  | FArg, FArg => true
  | FTail x, FTail y | FFold x, FFold y => fsx_eqb x y
  | _, _ => false
  end.
Lemma fsx_eqb_eq a : forall b, fsx_eqb a b = true -> a = b.
Proof. induction a; destruct b; cbn; try discriminate; intros H; try reflexivity; f_equal; now apply IHa. Qed.

Section Sem.
  Variable casefold : str -> str.
  Variables flags defaults : list (str * bool).
  Variable f : str.

  Definition look (name : str) : bool :=
    match assoc_b name flags with
    | Some b => b
    | None => match assoc_b name defaults with Some b => b | None => false end
    end.
  Lemma verdict_look name : verdict casefold flags defaults name = look (casefold name).
  Proof. reflexivity. Qed.

  Definition bang (s : str) : bool := match s with c :: _ => c =? 33 | [] => false end.

  Fixpoint eval_sx (s : fsx) : str :=
    match s with FArg => f | FTail x => tl (eval_sx x) | FFold x => casefold (eval_sx x) | FSOther => [] end.
  Fixpoint eval_bx (b : fbx) : bool :=
    match b with
    | FBang s => bang (eval_sx s)
    | FLook s => look (eval_sx s)
    | FNeg x => negb (eval_bx x)
    | FNeq x y => xorb (eval_bx x) (eval_bx y)
    | FEqv x y => Bool.eqb (eval_bx x) (eval_bx y)
    | FIte c x y => if eval_bx c then eval_bx x else eval_bx y
    | FTrue => true | FFalse => false | FBOther => false
    end.
  Fixpoint eval_ftree (t : ftree) : option bool :=
    match t with
    | FLeaf b => Some (eval_bx b)
    | FNode c x y => if eval_bx c then eval_ftree x else eval_ftree y
    | FFail => None
    end.

  (** Normal forms: a constant, or the lookup of a string expression, possibly negated. *)
  Inductive nf := NConst (b : bool) | NLook (neg : bool) (s : fsx).
  Definition eval_nf (n : nf) : bool := match n with NConst b => b | NLook neg s => xorb neg (look (eval_sx s)) end.
  Definition nf_neg (n : nf) : nf := match n with NConst b => NConst (negb b) | NLook neg s => NLook (negb neg) s end.
  Definition nf_xor (x y : nf) : option nf :=
    match x, y with
    | NConst a, NConst b => Some (NConst (xorb a b))
    | NConst a, NLook n s | NLook n s, NConst a => Some (NLook (xorb n a) s)
    | NLook n s, NLook m s' => if fsx_eqb s s' then Some (NConst (xorb n m)) else None
    end.

  (** [b0]: what is assumed of "the argument starts with '!'". *)
  Fixpoint norm (b0 : bool) (b : fbx) : option nf :=
    match b with
    | FBang FArg => Some (NConst b0)
    | FBang _ => None
    | FLook s => Some (NLook false s)
    | FNeg x => option_map nf_neg (norm b0 x)
    | FNeq x y => match norm b0 x, norm b0 y with Some p, Some q => nf_xor p q | _, _ => None end
    | FEqv x y => match norm b0 x, norm b0 y with Some p, Some q => option_map nf_neg (nf_xor p q) | _, _ => None end
    | FIte c x y => match norm b0 c with Some (NConst v) => if v then norm b0 x else norm b0 y | _ => None end
    | FTrue => Some (NConst true) | FFalse => Some (NConst false)
    | FBOther => None
    end.
  Fixpoint norm_tree (b0 : bool) (t : ftree) : option nf :=
    match t with
    | FLeaf b => norm b0 b
    | FNode c x y => match norm b0 c with Some (NConst v) => if v then norm_tree b0 x else norm_tree b0 y | _ => None end
    | FFail => None
    end.

  Lemma nf_neg_sound n : eval_nf (nf_neg n) = negb (eval_nf n).
  Proof. destruct n as [b|neg s]; cbn; [reflexivity|]. now destruct neg, (look (eval_sx s)). Qed.
  Lemma nf_xor_sound x y r : nf_xor x y = Some r -> eval_nf r = xorb (eval_nf x) (eval_nf y).
  Proof.
    destruct x as [a|n s], y as [b|m s']; cbn; intros H.
    - now inversion H.
    - inversion H; subst; cbn. now destruct m, a, (look (eval_sx s')).
    - inversion H; subst; cbn. now destruct n, b, (look (eval_sx s)).
    - destruct (fsx_eqb s s') eqn:Hs; [|discriminate]. apply fsx_eqb_eq in Hs. subst. inversion H; subst; cbn.
      now destruct n, m, (look (eval_sx s')).
  Qed.

  Lemma norm_sound b0 : bang f = b0 -> forall b n, norm b0 b = Some n -> eval_bx b = eval_nf n.
  Proof.
    intros Hb. induction b; intros n H; cbn [norm] in H.
    - destruct s; try discriminate. inversion H; subst. reflexivity.
    - inversion H; subst. cbn. now destruct (look (eval_sx s)).
    - destruct (norm b0 b) as [p|]; [|discriminate]. inversion H; subst. cbn [eval_bx].
      now rewrite nf_neg_sound, (IHb p eq_refl).
    - destruct (norm b0 b1) as [p|]; [|discriminate]. destruct (norm b0 b2) as [q|]; [|discriminate].
      cbn [eval_bx]. now rewrite (nf_xor_sound _ _ _ H), (IHb1 p eq_refl), (IHb2 q eq_refl).
    - destruct (norm b0 b1) as [p|]; [|discriminate]. destruct (norm b0 b2) as [q|]; [|discriminate].
      destruct (nf_xor p q) as [r|] eqn:Hx; [|discriminate]. inversion H; subst. cbn [eval_bx].
      rewrite nf_neg_sound, (nf_xor_sound _ _ _ Hx), (IHb1 p eq_refl), (IHb2 q eq_refl).
      now destruct (eval_nf p), (eval_nf q).
    - destruct (norm b0 b1) as [[v|? ?]|]; try discriminate. cbn [eval_bx]. rewrite (IHb1 _ eq_refl). cbn [eval_nf].
      destruct v; [now apply IHb2 | now apply IHb3].
    - inversion H; subst. reflexivity.
    - inversion H; subst. reflexivity.
    - discriminate.
  Qed.

  Lemma norm_tree_sound b0 : bang f = b0 -> forall t n, norm_tree b0 t = Some n -> eval_ftree t = Some (eval_nf n).
  Proof.
    intros Hb. induction t; intros n H; cbn [norm_tree] in H.
    - cbn [eval_ftree]. now rewrite (norm_sound b0 Hb _ _ H).
    - destruct (norm b0 c) as [[v|? ?]|] eqn:Hc; try discriminate. cbn [eval_ftree].
      rewrite (norm_sound b0 Hb _ _ Hc). cbn [eval_nf]. destruct v; [now apply IHt1 | now apply IHt2].
    - discriminate.
  Qed.
End Sem.

Definition nf_is (n : option nf) (neg : bool) (s : fsx) : bool :=
  match n with Some (NLook m s') => Bool.eqb m neg && fsx_eqb s' s | _ => false end.

(** With a leading '!': the negated lookup of the case-folded rest; without: the lookup of the case-folded argument. *)
Definition flagprog_bang_ok (t : ftree) : bool := nf_is (norm_tree true t) true (FFold (FTail FArg)).
Definition flagprog_plain_ok (t : ftree) : bool := nf_is (norm_tree false t) false (FFold FArg).
Definition flagprog_ok (t : ftree) : bool := flagprog_bang_ok t && flagprog_plain_ok t.

Lemma nf_is_eq n neg s : nf_is n neg s = true -> n = Some (NLook neg s).
Proof.
  destruct n as [[b|m s']|]; cbn; try discriminate. intros H. apply andb_true_iff in H as [H1 H2].
  apply Bool.eqb_prop in H1. apply fsx_eqb_eq in H2. now subst.
Qed.

Theorem flagprog_is_read_flag t : flagprog_ok t = true -> forall casefold flags defaults f,
  eval_ftree casefold flags defaults f t = Some (read_flag casefold flags defaults f).
Proof.
  unfold flagprog_ok, flagprog_bang_ok, flagprog_plain_ok. intros H cf fl df f.
  apply andb_true_iff in H as [H1 H2]. apply nf_is_eq in H1. apply nf_is_eq in H2.
  destruct f as [|c r].
  - rewrite (norm_tree_sound cf fl df [] false eq_refl t _ H2). cbn [eval_nf eval_sx read_flag].
    rewrite verdict_look. now destruct (look fl df (cf [])).
  - destruct (c =? 33) eqn:Hc.
    + rewrite (norm_tree_sound cf fl df (c :: r) true Hc t _ H1). cbn [eval_nf eval_sx tl read_flag].
      rewrite Hc, verdict_look. now destruct (look fl df (cf r)).
    + rewrite (norm_tree_sound cf fl df (c :: r) false Hc t _ H2). cbn [eval_nf eval_sx read_flag].
      rewrite Hc, verdict_look. now destruct (look fl df (cf (c :: r))).
Qed.

(** The reference program: what the translator reads off today's [_read_flag]. *)
Definition ref_flagprog : ftree :=
  FNode (FBang FArg)
    (FLeaf (FNeq (FBang FArg) (FLook (FFold (FTail FArg)))))
    (FLeaf (FNeq (FBang FArg) (FLook (FFold FArg)))).
Lemma ref_flagprog_ok : flagprog_ok ref_flagprog = true.
Proof. reflexivity. Qed.

(** The nearby wrong shape: the '!' is noticed but not taken off before the lookup. *)
Definition keep_bang_flagprog : ftree := FLeaf (FNeq (FBang FArg) (FLook (FFold FArg))).
Lemma keep_bang_rejected : flagprog_ok keep_bang_flagprog = false.
Proof. reflexivity. Qed.
Lemma keep_bang_refuted :
  eval_ftree (fun s => s) [([120], true)] [] [33; 120] keep_bang_flagprog = Some true /\
  read_flag (fun s => s) [([120], true)] [] [33; 120] = false.
Proof. split; reflexivity. Qed.
