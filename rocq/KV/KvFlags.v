(** C01 — model of [_read_flag(flags, flag_val)] (keyvalues.py): the verdict on a [[flag]] suffix.

    [casefold] is [str.casefold] (external: CPython's Unicode tables; the correspondence supplies its graph on the
    strings that occur); [flags] is the mapping given to [Keyvalues.parse(flags=...)], [defaults] the module table
    FLAGS_DEFAULT (platform dependent, read at run time).  All theorems of Props/C01.v quantify over an arbitrary
    flag predicate; this file instantiates them. *)
From Coq Require Import List NArith Bool.
From SV Require Import KV.KvBase.
Import ListNotations.
Open Scope N_scope.

Fixpoint assoc_b (k : str) (t : list (str * bool)) : option bool :=
  match t with [] => None | (k', v) :: r => if str_eqb k' k then Some v else assoc_b k r end.

Section Flags.
  Variable casefold : str -> str.
  Variables flags defaults : list (str * bool).

  (** [bool(flags[name])], else [FLAGS_DEFAULT.get(name, False)], on the case-folded name. *)
  Definition verdict (name : str) : bool :=
    match assoc_b (casefold name) flags with
    | Some b => b
    | None => match assoc_b (casefold name) defaults with Some b => b | None => false end
    end.

  (** [flag_inv = flag_val[:1] == '!'], the rest is looked up, [return flag_inv is not flag_result]. *)
  Definition read_flag (f : str) : bool :=
    match f with
    | c :: r => if c =? 33 then negb (verdict r) else verdict f
    | [] => verdict []
    end.

  Lemma read_flag_bang f : read_flag (33 :: f) = negb (verdict f).
  Proof. reflexivity. Qed.
  Lemma read_flag_plain c f : (c =? 33) = false -> read_flag (c :: f) = verdict (c :: f).
  Proof. intros H. cbn [read_flag]. now rewrite H. Qed.
End Flags.
