(** C01 — histories of writer calls: [Keyvalues._serialise] as a program over the *state that outlives a call*.

    The property is about every call of [serialise()], not about the first call in a fresh process.  A writer that reads
    or writes anything that outlives the call (a module-level or class-level object) can answer differently after an
    earlier call was aborted half-way (the file's [write] raises, [escape_text] raises on a value that is not a string)
    and the caller carried on.  translate/c01_kvaux.py reads [_serialise] a second time, now keeping only what matters
    here (Gen/KVAux_gen.v [gen_hprog]): per branch (root / named block / leaf) the statements in order, each one

      - [HWrite]    a write to the file (it can raise: the file is the caller's, the text may not be computable),
      - [HChildren] the loop over the children,
      - [HGuard]    `if <own identity> in <module-level collection>: raise`,
      - [HMark] / [HUnmark]  the own identity is added to / taken out of that collection,
      - [HState]    any other statement that touches module-level or class-level state.

    [hexec] runs such a program with a set of marks (what earlier calls left in the collection) and a budget of writes
    (the write after the last one allowed raises); an exception ends the run at once: nothing after the raising
    statement is executed (the source has no try/finally: the translator fails closed on one).

    [hexec_stateless]: a program without state instructions returns the marks it was given and its outcome does not
    depend on them; hence [writer_history_independent]: after ANY history of earlier calls, completed or aborted at any
    write, on any trees, a call behaves exactly as in a fresh process.  [marking_writer_refuted]: the nearby wrong shape
    (reprlib-style cycle detection whose un-marking is not in a finally clause) -- one call aborted at its second write,
    and the same, valid tree can never be written again. *)
From Coq Require Import List NArith Bool Arith Lia.
From SV Require Import KV.KvBase KV.KvWProg.
Import ListNotations.
Open Scope N_scope.

Inductive hinstr := HWrite | HChildren | HGuard | HMark | HUnmark | HState.
Record hprog := { hp_root : list hinstr; hp_block : list hinstr; hp_leaf : list hinstr }.

Definition hinstr_stateless (i : hinstr) : bool := match i with HWrite | HChildren => true | _ => false end.
Definition hprog_stateless (H : hprog) : bool :=
  forallb hinstr_stateless (hp_root H) && forallb hinstr_stateless (hp_block H) && forallb hinstr_stateless (hp_leaf H).

(** Outcome of a (partial) run: the marks afterwards, the writes still allowed, completed or raised. *)
Record hres := { h_marks : list N; h_left : nat; h_ok : bool }.
Definition with_marks (M : list N) (r : hres) : hres := {| h_marks := M; h_left := h_left r; h_ok := h_ok r |}.

Section Hist.
  Variable H : hprog.
  Variable idf : kv -> N.                       (* the identity of a node *)
  Variable is_root : kv -> bool.                (* which blocks take the root branch *)
  Variable other : N -> list N -> list N.       (* what an unclassified state statement does to the marks *)

  Fixpoint run_children (ex : list N -> nat -> kv -> hres) (M : list N) (b : nat) (cs : list kv) : hres :=
    match cs with
    | [] => {| h_marks := M; h_left := b; h_ok := true |}
    | c :: r => let r1 := ex M b c in if h_ok r1 then run_children ex (h_marks r1) (h_left r1) r else r1
    end.

  Definition hstep (ex : list N -> nat -> kv -> hres) (M : list N) (b : nat) (k : kv) (i : hinstr) : hres :=
    match i with
    | HWrite => match b with O => {| h_marks := M; h_left := O; h_ok := false |}
                           | S b' => {| h_marks := M; h_left := b'; h_ok := true |} end
    | HChildren => run_children ex M b (node_children k)
    | HGuard => {| h_marks := M; h_left := b; h_ok := negb (existsb (N.eqb (idf k)) M) |}
    | HMark => {| h_marks := idf k :: M; h_left := b; h_ok := true |}
    | HUnmark => {| h_marks := filter (fun x => negb (N.eqb x (idf k))) M; h_left := b; h_ok := true |}
    | HState => {| h_marks := other (idf k) M; h_left := b; h_ok := true |}
    end.

  Fixpoint run_h (ex : list N -> nat -> kv -> hres) (M : list N) (b : nat) (k : kv) (l : list hinstr) : hres :=
    match l with
    | [] => {| h_marks := M; h_left := b; h_ok := true |}
    | i :: r => let r1 := hstep ex M b k i in if h_ok r1 then run_h ex (h_marks r1) (h_left r1) k r else r1
    end.

  Definition hbranch (k : kv) : list hinstr :=
    match k with Leaf _ _ => hp_leaf H | Block _ _ => if is_root k then hp_root H else hp_block H end.

  Fixpoint hexec (fuel : nat) (M : list N) (b : nat) (k : kv) : hres :=
    match fuel with
    | O => {| h_marks := M; h_left := b; h_ok := true |}
    | S m => run_h (hexec m) M b k (hbranch k)
    end.

  (** A history: earlier calls (fuel, writes allowed before the file raises, tree), each starting with the marks the
      one before left behind -- whether it completed or not. *)
  Fixpoint marks_after (calls : list (nat * nat * kv)) (M : list N) : list N :=
    match calls with
    | [] => M
    | (fuel, b, k) :: r => marks_after r (h_marks (hexec fuel M b k))
    end.

  Definition indep (ex : list N -> nat -> kv -> hres) : Prop := forall M b c, ex M b c = with_marks M (ex [] b c).

  Lemma run_children_indep ex : indep ex -> forall cs M b,
    run_children ex M b cs = with_marks M (run_children ex [] b cs).
  Proof.
    intros Hex. induction cs as [|c r IH]; intros M b; [reflexivity|]. cbn [run_children].
    rewrite (Hex M b c). pose proof (Hex [] b c) as H0.
    destruct (ex [] b c) as [m0 l0 ok0] eqn:E0. unfold with_marks in *. cbn [h_ok h_left h_marks] in *.
    inversion H0; subst m0. destruct ok0; [|reflexivity]. apply IH.
  Qed.

  Lemma run_h_indep ex : indep ex -> forall l, forallb hinstr_stateless l = true -> forall M b k,
    run_h ex M b k l = with_marks M (run_h ex [] b k l).
  Proof.
    intros Hex. induction l as [|i r IH]; intros Hl M b k; [reflexivity|]. cbn [forallb] in Hl.
    apply andb_true_iff in Hl as [Hi Hr]. cbn [run_h].
    destruct i; try discriminate; cbn [hstep].
    - destruct b as [|b']; cbn [h_ok h_marks h_left]; [reflexivity|]. apply (IH Hr).
    - rewrite (run_children_indep ex Hex (node_children k) M b).
      pose proof (run_children_indep ex Hex (node_children k) [] b) as H0.
      destruct (run_children ex [] b (node_children k)) as [m0 l0 ok0]. unfold with_marks in *.
      cbn [h_ok h_left h_marks] in *. inversion H0; subst m0. destruct ok0; [|reflexivity]. apply (IH Hr).
  Qed.

  Theorem hexec_stateless : hprog_stateless H = true -> forall fuel M b k,
    hexec fuel M b k = with_marks M (hexec fuel [] b k).
  Proof.
    unfold hprog_stateless. intros Hs. apply andb_true_iff in Hs as [Hs H3]. apply andb_true_iff in Hs as [H1 H2].
    induction fuel as [|m IH]; intros M b k; [reflexivity|]. cbn [hexec].
    apply run_h_indep; [exact IH|]. unfold hbranch. destruct k as [n v|n cs]; [exact H3|].
    now destruct (is_root (Block n cs)).
  Qed.

  Corollary hexec_stateless_marks : hprog_stateless H = true -> forall fuel M b k, h_marks (hexec fuel M b k) = M.
  Proof. intros Hs fuel M b k. now rewrite (hexec_stateless Hs). Qed.

  Lemma marks_after_stateless : hprog_stateless H = true -> forall calls M, marks_after calls M = M.
  Proof.
    intros Hs. induction calls as [|[[f b] k] r IH]; intros M; [reflexivity|]. cbn [marks_after].
    now rewrite (hexec_stateless_marks Hs), IH.
  Qed.

  (** After any history of earlier calls -- completed, or aborted at any write -- a call is the call of a fresh process:
      same outcome (completed / raised, at the same write), and it leaves behind what it found. *)
  Theorem history_independent : hprog_stateless H = true -> forall calls fuel b k,
    hexec fuel (marks_after calls []) b k = hexec fuel [] b k.
  Proof. intros Hs calls fuel b k. now rewrite (marks_after_stateless Hs). Qed.
End Hist.

(** The reference program: what the translator reads off today's [_serialise]. *)
Definition ref_hprog : hprog := {|
  hp_root := [HChildren];
  hp_block := [HWrite; HWrite; HChildren; HWrite];
  hp_leaf := [HWrite] |}.
Lemma ref_hprog_stateless : hprog_stateless ref_hprog = true.
Proof. reflexivity. Qed.

(** The nearby wrong shape (seeded fault c01_7): cycle detection with a module-level set of the blocks being written;
    the identity is taken out again after the children -- but not in a finally clause. *)
Definition marking_hprog : hprog := {|
  hp_root := [HGuard; HMark; HChildren; HUnmark];
  hp_block := [HGuard; HMark; HWrite; HWrite; HChildren; HWrite; HUnmark];
  hp_leaf := [HWrite] |}.
Definition hist_witness : kv := Block [97] [Leaf [98] [99]].
Definition name_id (k : kv) : N := match node_name k with c :: _ => c | [] => 0 end.

Lemma marking_writer_rejected : hprog_stateless marking_hprog = false.
Proof. reflexivity. Qed.

(** One call whose file raises at the second write; then the same (valid, acyclic) tree with a healthy file: in a fresh
    process the call completes, after the aborted call it raises -- and the mark is still there afterwards. *)
Lemma marking_writer_refuted :
  let run := hexec marking_hprog name_id (fun _ => false) (fun _ M => M) in
  let M1 := marks_after marking_hprog name_id (fun _ => false) (fun _ M => M) [(3%nat, 1%nat, hist_witness)] [] in
  h_ok (run 3%nat [] 10%nat hist_witness) = true
  /\ M1 = [97]
  /\ h_ok (run 3%nat M1 10%nat hist_witness) = false
  /\ h_marks (run 3%nat M1 10%nat hist_witness) = [97].
Proof. vm_compute. repeat split. Qed.

(** On the path without exceptions the marking writer is well behaved: the marks are given back (which is why a single
    serialise/parse round trip never shows the fault). *)
Lemma marking_writer_quiet_when_nothing_raises :
  h_marks (hexec marking_hprog name_id (fun _ => false) (fun _ M => M) 3%nat [] 10%nat hist_witness) = [].
Proof. reflexivity. Qed.

(** * The two readings of [_serialise] are readings of the same statement list
    [gen_wprog] (KV/KvWProg.v: writes with their templates, child loop, stores to the tree) and [gen_hprog] (here) are
    produced from one pass over the statements; that they agree on the order of writes and child loops is checked in the
    kernel on every run ([same_skeleton gen_hprog gen_wprog]). *)
Definition hskel (l : list hinstr) : list bool :=
  flat_map (fun i => match i with HWrite => [true] | HChildren => [false] | _ => [] end) l.
Definition wskel (l : list winstr) : list bool :=
  flat_map (fun i => match i with WWrite _ => [true] | WChildren _ => [false] | _ => [] end) l.
Fixpoint bools_eqb (a b : list bool) : bool :=
  match a, b with [], [] => true | x :: a', y :: b' => Bool.eqb x y && bools_eqb a' b' | _, _ => false end.
Definition same_skeleton (H : hprog) (W : wprog) : bool :=
  bools_eqb (hskel (hp_root H)) (wskel (wp_root W)) && bools_eqb (hskel (hp_block H)) (wskel (wp_block W))
  && bools_eqb (hskel (hp_leaf H)) (wskel (wp_leaf W)).
Lemma ref_same_skeleton : forall nm, same_skeleton ref_hprog (ref_wprog nm) = true.
Proof. reflexivity. Qed.

(** Every write of a program whose budget is never exhausted succeeds: a stateless program given enough writes
    completes (so the theorem above is not about runs that all fail). *)
Lemma ref_hprog_completes :
  h_ok (hexec ref_hprog name_id (fun _ => false) (fun _ M => M) 3%nat [] 10%nat hist_witness) = true.
Proof. reflexivity. Qed.
