(** C01 — model of the token loop of [Keyvalues.parse], with the options [newline_keys], [newline_values],
    [single_line], [single_block] ([O : popts]; [allow_escapes] is fixed to True) and [flag] handling;
    [flag_on] stands for [_read_flag(flags, text)] (modelled in KV/KvFlags.v).  The characters tested by the
    two 'Illegal newline' checks come from the source ([P : parsecfg], regenerated).

    The tokenizer is lazy in Python; here the complete token list is computed first together with the error
    (if any) the tokenizer raises after the last token ([fin]).  The loop below asks for tokens strictly in
    order, so the first error met is the same.  [push_back] is "do not consume". *)
From Coq Require Import List NArith Bool.
From SV Require Import KV.KvBase KV.KvLex.
Import ListNotations.
Open Scope N_scope.

Inductive bl := BNone | BSkip | BExpect.

(** An open block: its name ([None] for the root and for a flag-disabled block that is parsed and dropped)
    and its children so far, newest first. *)
Definition frame := (option str * list kv)%type.

Definition kv_name (k : kv) : str := match k with Leaf n _ => n | Block n _ => n end.
Definition is_block (k : kv) : bool := match k with Block _ _ => true | Leaf _ _ => false end.

(** ['c' in text or 'd' in text ...] *)
Definition brk (t : brktest) (s : str) : bool :=
  match t with BTChars l => existsb (fun c => mem c l) s | BTOther => false end.

Section Parse.
  Variable P : parsecfg.
  Variable O : popts.
  Variable flag_on : str -> bool.
  Variable fin : option lexerr.     (* error raised by the tokenizer after the last token, if any *)

  (** What the parser sees when it asks for a token and none is left. *)
  Definition at_end (k : pres) : pres := match fin with Some e => PErr (ELex e) | None => k end.

  (** Append [k] to the current block, or replace its last child when the flag-replacement rule applies. *)
  Definition add_flagged (cfr : bool) (k : kv) (cs : list kv) : option (list kv) :=
    if cfr then
      match cs with
      | [] => if p_replace_guard P then Some [k]     (* `can_flag_replace and cur_block_contents and ...` *)
              else None                              (* cur_block_contents[-1] on an empty list *)
      | last :: cs' =>
          if str_eqb (kv_name last) (kv_name k) && Bool.eqb (is_block last) (is_block k)
          then Some (k :: cs') else Some (k :: cs)
      end
    else Some (k :: cs).

  Definition key_bad (n : str) : bool := negb (po_newline_keys O) && brk (p_key_break P) n.
  Definition value_bad (v : str) : bool := negb (po_newline_values O) && brk (p_value_break P) v.

  (** [single_block and cur_block is root]: the root is the current block iff no frame is stacked. *)
  Definition sb_root (stk : list frame) : bool :=
    po_single_block O && match stk with [] => true | _ => false end.
  (** [return root[0]] at a closing brace; [k] is what happens when the test is guarded by [root._value] and
      root has no child (the closed block was skipped by its flag): the loop goes on. *)
  Definition root_first (cs_rev : list kv) (k : pres) : pres :=
    match rev cs_rev with
    | x :: _ => PNode x
    | [] => if p_single_block_guard P then k else PErr EIndex
    end.

  (** The checks made when the token stream is exhausted. *)
  Definition pfinal (stk : list frame) (cur : frame) (b : bl) : pres :=
    match b with
    | BNone => match stk with [] => POk (rev (snd cur)) | _ => PErr EEofOpen end
    | _ => PErr EEofBlock
    end.

  Fixpoint prun (stk : list frame) (cur : frame) (b : bl) (cfr : bool) (ts : list tok) {struct ts} : pres :=
    match ts with
    | [] =>
        at_end (pfinal stk cur b)
    | TBO :: r =>
        match b with
        | BNone => PErr EBlockAfterValue
        | BSkip => prun (cur :: stk) (None, []) BNone false r
        | BExpect =>
            match snd cur with
            | Block n _ :: cs' => prun ((fst cur, cs') :: stk) (Some n, []) BNone false r
            | _ => PErr EIndex      (* unreachable: BExpect is only set right after appending a block *)
            end
        end
    | TNL :: r => prun stk cur b cfr r
    | t :: r =>
        match b with
        | BSkip | BExpect => PErr EBlockRequired
        | BNone =>
          match t with
          | TStr n =>
              if key_bad n then PErr ENewlineKey else
              match r with
              | [] => at_end (PErr EEofBlock)
              | TFlag f :: r2 =>
                  match r2 with
                  | [] => at_end (PErr EExpectedNewline)
                  | TNL :: r3 =>
                      if flag_on f then
                        match add_flagged cfr (Block n []) (snd cur) with
                        | Some cs => prun stk (fst cur, cs) BExpect false r3
                        | None => PErr EIndex
                        end
                      else prun stk cur BSkip cfr r3
                  | _ :: _ => PErr EExpectedNewline
                  end
              | TStr v :: r2 =>
                  if value_bad v then PErr ENewlineValue else
                  match r2 with
                  | [] => at_end (if sb_root stk then PNode (Leaf n v)
                                  else pfinal stk (fst cur, Leaf n v :: snd cur) BNone)
                  | TFlag f :: r3 =>
                      match r3 with
                      | [] => at_end (PErr EExpectedNewline)
                      | TNL :: r4 =>
                          if flag_on f then
                            match add_flagged cfr (Leaf n v) (snd cur) with
                            | Some cs => if sb_root stk then PNode (Leaf n v)
                                         else prun stk (fst cur, cs) BNone false r4
                            | None => PErr EIndex
                            end
                          else prun stk cur BNone cfr r4
                      | _ :: _ => PErr EExpectedNewline
                      end
                  | TStr _ :: _ =>
                      if po_single_line O then prun stk (fst cur, Leaf n v :: snd cur) BNone cfr r2
                      else PErr EMultipleNames
                  | _ :: _ => if sb_root stk then PNode (Leaf n v)
                              else prun stk (fst cur, Leaf n v :: snd cur) BNone true r2
                  end
              | _ :: _ => prun stk (fst cur, Block n [] :: snd cur) BExpect false r
              end
          | TBC =>
              match stk with
              | [] => PErr ETooManyClose
              | (pn, pcs) :: stk' =>
                  let pcs' := match fst cur with
                              | Some n => Block n (rev (snd cur)) :: pcs
                              | None => pcs
                              end in
                  if sb_root stk' then root_first pcs' (prun stk' (pn, pcs') BNone true r)
                  else prun stk' (pn, pcs') BNone true r
              end
          | _ => PErr EUnexpected
          end
        end
    end.
End Parse.

(** [Keyvalues.parse(text, newline_keys=..., newline_values=..., single_line=..., single_block=...)] *)
Definition parse_toks_opts (P : parsecfg) (O : popts) (flag_on : str -> bool) (tf : list tok * option lexerr) : pres :=
  prun P O flag_on (snd tf) [] (None, []) BNone false (fst tf).

Definition parse_kv_opts (P : parsecfg) (O : popts) (E : escfg) (flag_on : str -> bool) (text : str) : pres :=
  parse_toks_opts P O flag_on (lex_all E text).

(** [Keyvalues.parse(text)] with the default options. *)
Definition parse_toks (P : parsecfg) := parse_toks_opts P default_popts.
Definition parse_kv (P : parsecfg) := parse_kv_opts P default_popts.
