(** C01 — model of the token loop of [Keyvalues.parse] with its default options
    (newline_keys=False, newline_values=True, single_line=False, single_block=False), including [flag]
    handling; [flag_on] stands for [_read_flag(flags, text)].

    The tokenizer is lazy in Python; here the complete token list is computed first together with the error
    (if any) the tokenizer raises after the last token ([fin]).  The loop below asks for tokens strictly in
    order, so the first error met is the same.  [push_back] is "do not consume". *)
From Coq Require Import List NArith Bool.
From SV Require Import KV.KvBase KV.KvLex.
Import ListNotations.
Open Scope N_scope.

Inductive bl := BNone | BSkip | BExpect.

(** An open block: its name ([None] for the root and for a flag-disabled block that is parsed and dropped)
    and its children so far, newest first. *)
Definition frame := (option str * list kv)%type.

Definition kv_name (k : kv) : str := match k with Leaf n _ => n | Block n _ => n end.
Definition is_block (k : kv) : bool := match k with Block _ _ => true | Leaf _ _ => false end.

Section Parse.
  Variable flag_on : str -> bool.
  Variable fin : option lexerr.     (* error raised by the tokenizer after the last token, if any *)

  (** What the parser sees when it asks for a token and none is left. *)
  Definition at_end (k : pres) : pres := match fin with Some e => PErr (ELex e) | None => k end.

  (** Append [k] to the current block, or replace its last child when the flag-replacement rule applies. *)
  Definition add_flagged (cfr : bool) (k : kv) (cs : list kv) : option (list kv) :=
    if cfr then
      match cs with
      | [] => None                                   (* cur_block_contents[-1] on an empty list *)
      | last :: cs' =>
          if str_eqb (kv_name last) (kv_name k) && Bool.eqb (is_block last) (is_block k)
          then Some (k :: cs') else Some (k :: cs)
      end
    else Some (k :: cs).

  (** The checks made when the token stream is exhausted. *)
  Definition pfinal (stk : list frame) (cur : frame) (b : bl) : pres :=
    match b with
    | BNone => match stk with [] => POk (rev (snd cur)) | _ => PErr EEofOpen end
    | _ => PErr EEofBlock
    end.

  Fixpoint prun (stk : list frame) (cur : frame) (b : bl) (cfr : bool) (ts : list tok) {struct ts} : pres :=
    match ts with
    | [] =>
        at_end (pfinal stk cur b)
    | TBO :: r =>
        match b with
        | BNone => PErr EBlockAfterValue
        | BSkip => prun (cur :: stk) (None, []) BNone false r
        | BExpect =>
            match snd cur with
            | Block n _ :: cs' => prun ((fst cur, cs') :: stk) (Some n, []) BNone false r
            | _ => PErr EIndex      (* unreachable: BExpect is only set right after appending a block *)
            end
        end
    | TNL :: r => prun stk cur b cfr r
    | t :: r =>
        match b with
        | BSkip | BExpect => PErr EBlockRequired
        | BNone =>
          match t with
          | TStr n =>
              if has_linebreak n then PErr ENewlineKey else
              match r with
              | [] => at_end (PErr EEofBlock)
              | TFlag f :: r2 =>
                  match r2 with
                  | [] => at_end (PErr EExpectedNewline)
                  | TNL :: r3 =>
                      if flag_on f then
                        match add_flagged cfr (Block n []) (snd cur) with
                        | Some cs => prun stk (fst cur, cs) BExpect false r3
                        | None => PErr EIndex
                        end
                      else prun stk cur BSkip cfr r3
                  | _ :: _ => PErr EExpectedNewline
                  end
              | TStr v :: r2 =>
                  match r2 with
                  | [] => at_end (pfinal stk (fst cur, Leaf n v :: snd cur) BNone)
                  | TFlag f :: r3 =>
                      match r3 with
                      | [] => at_end (PErr EExpectedNewline)
                      | TNL :: r4 =>
                          if flag_on f then
                            match add_flagged cfr (Leaf n v) (snd cur) with
                            | Some cs => prun stk (fst cur, cs) BNone false r4
                            | None => PErr EIndex
                            end
                          else prun stk cur BNone cfr r4
                      | _ :: _ => PErr EExpectedNewline
                      end
                  | TStr _ :: _ => PErr EMultipleNames
                  | _ :: _ => prun stk (fst cur, Leaf n v :: snd cur) BNone true r2
                  end
              | _ :: _ => prun stk (fst cur, Block n [] :: snd cur) BExpect false r
              end
          | TBC =>
              match stk with
              | [] => PErr ETooManyClose
              | (pn, pcs) :: stk' =>
                  prun stk' (pn, match fst cur with
                                 | Some n => Block n (rev (snd cur)) :: pcs
                                 | None => pcs
                                 end) BNone true r
              end
          | _ => PErr EUnexpected
          end
        end
    end.
End Parse.

(** [Keyvalues.parse(text)] *)
Definition parse_toks (flag_on : str -> bool) (tf : list tok * option lexerr) : pres :=
  prun flag_on (snd tf) [] (None, []) BNone false (fst tf).

Definition parse_kv (E : escfg) (flag_on : str -> bool) (text : str) : pres :=
  parse_toks flag_on (lex_all E text).
