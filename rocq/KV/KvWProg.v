(** C01 — [Keyvalues._serialise] as a program of instructions, regenerated from the source (translate/c01_kvaux.py ->
    Gen/KVAux_gen.v [gen_wprog]): per branch (root / named block / leaf) the statements in order, each one a write of a
    template, the loop over the children with the cur_indent handed down, a store to / a mutating call on a tree object.
    The translator fails closed on any other statement, so the program is the whole writer.

    [wexec] runs a program on a tree and returns the tree afterwards together with the text written; a store replaces
    the node by [upd node] for an ARBITRARY [upd] (later writes and the child loop see the replaced node).
    "Serialisation never changes the tree it is given" is then a theorem about the generated object: a program
    without store / mutate instructions returns the tree it was given, whatever [upd] is ([wexec_pure_tree]); and a
    program whose writes are the templates of the writer model writes exactly [ser_node] ([wexec_text]). *)
From Coq Require Import List NArith Bool Arith Lia.
From SV Require Import KV.KvBase KV.KvLex KV.KvSer.
Import ListNotations.
Open Scope N_scope.

Inductive winstr := WWrite (t : list piece) | WChildren (ind : list piece) | WStore | WMutate.
Record wprog := { wp_root : list winstr; wp_block : list winstr; wp_leaf : list winstr }.

Definition winstr_pure (i : winstr) : bool := match i with WWrite _ | WChildren _ => true | _ => false end.
Definition wprog_pure (W : wprog) : bool :=
  forallb winstr_pure (wp_root W) && forallb winstr_pure (wp_block W) && forallb winstr_pure (wp_leaf W).

Definition node_name (k : kv) : str := match k with Leaf n _ | Block n _ => n end.
Definition node_value (k : kv) : str := match k with Leaf _ v => v | Block _ _ => [] end.
Definition node_children (k : kv) : list kv := match k with Block _ cs => cs | Leaf _ _ => [] end.
Definition set_children (k : kv) (cs : list kv) : kv := match k with Block n _ => Block n cs | Leaf _ _ => k end.

Fixpoint kv_depth (k : kv) : nat :=
  match k with Leaf _ _ => 1 | Block _ cs => S (fold_right (fun c m => Nat.max (kv_depth c) m) 0%nat cs) end.

Section Exec.
  Variables (C : sercfg) (E : escfg) (o : seropts) (W : wprog).
  Variable upd : kv -> kv.

  Fixpoint map_exec (ex : kv -> kv * str) (cs : list kv) : list kv * str :=
    match cs with
    | [] => ([], [])
    | c :: r => let (c', t) := ex c in let (r', t') := map_exec ex r in (c' :: r', t ++ t')
    end.

  Definition wstep (ex : str -> kv -> kv * str) (cur : str) (k : kv) (i : winstr) : kv * str :=
    match i with
    | WWrite t => (k, render E (mkenv C E o cur) (node_name k) (node_value k) t)
    | WChildren ind =>
        let (cs', s) := map_exec (ex (render E (mkenv C E o cur) (node_name k) [] ind)) (node_children k) in
        (set_children k cs', s)
    | WStore | WMutate => (upd k, [])
    end.
  Fixpoint run_instrs (ex : str -> kv -> kv * str) (cur : str) (k : kv) (l : list winstr) : kv * str :=
    match l with
    | [] => (k, [])
    | i :: r => let (k1, s1) := wstep ex cur k i in let (k2, s2) := run_instrs ex cur k1 r in (k2, s1 ++ s2)
    end.

  Definition branch_of (k : kv) : list winstr :=
    match k with
    | Leaf _ _ => wp_leaf W
    | Block n _ => if root_like (t_root_test C) n then wp_root W else wp_block W
    end.
  Fixpoint wexec (fuel : nat) (cur : str) (k : kv) : kv * str :=
    match fuel with
    | O => (k, [])
    | S m => run_instrs (wexec m) cur k (branch_of k)
    end.

  (** * A program without store instructions leaves the tree alone *)
  Lemma map_exec_pure ex cs : (forall c, fst (ex c) = c) -> fst (map_exec ex cs) = cs.
  Proof.
    intros H. induction cs as [|c r IH]; [reflexivity|]. cbn [map_exec].
    specialize (H c). destruct (ex c) as [c' t]. destruct (map_exec ex r) as [r' t']. cbn in *. now subst.
  Qed.
  Lemma set_children_id k : set_children k (node_children k) = k.
  Proof. now destruct k. Qed.
  Lemma run_instrs_pure ex : (forall cur c, fst (ex cur c) = c) ->
    forall l cur k, forallb winstr_pure l = true -> fst (run_instrs ex cur k l) = k.
  Proof.
    intros H. induction l as [|i r IH]; intros cur k Hp; [reflexivity|]. cbn [forallb] in Hp.
    apply andb_true_iff in Hp as [Hi Hr]. cbn [run_instrs].
    assert (H1 : fst (wstep ex cur k i) = k).
    { destruct i; try discriminate; cbn [wstep]; [reflexivity|].
      pose proof (map_exec_pure (ex (render E (mkenv C E o cur) (node_name k) [] ind)) (node_children k)
                    (H _)) as Hm.
      destruct (map_exec _ _) as [cs' s]. cbn in *. subst. apply set_children_id. }
    destruct (wstep ex cur k i) as [k1 s1]. cbn in H1. subst k1.
    specialize (IH cur k Hr). destruct (run_instrs ex cur k r) as [k2 s2]. exact IH.
  Qed.

  Theorem wexec_pure_tree : wprog_pure W = true -> forall fuel cur k, fst (wexec fuel cur k) = k.
  Proof.
    unfold wprog_pure. intros H. apply andb_true_iff in H as [H H3]. apply andb_true_iff in H as [H1 H2].
    induction fuel as [|m IH]; intros cur k; [reflexivity|]. cbn [wexec].
    apply run_instrs_pure; [exact IH|]. unfold branch_of. destruct k as [n v|n cs]; [exact H3|].
    now destruct (root_like (t_root_test C) n).
  Qed.

  (** * A program whose writes are the templates of the writer model writes the model's text *)
  (** Writes before the child loop, the indent handed down, writes after it. *)
  Fixpoint writes_of (l : list winstr) : option (list piece) :=
    match l with
    | [] => Some []
    | WWrite t :: r => option_map (app t) (writes_of r)
    | _ => None
    end.
  Fixpoint split_loop (l : list winstr) : option (list piece * list piece * list piece) :=
    match l with
    | WWrite t :: r => option_map (fun x => match x with (a, c, b) => (t ++ a, c, b) end) (split_loop r)
    | WChildren ind :: r => option_map (fun b => ([], ind, b)) (writes_of r)
    | _ => None
    end.
  Fixpoint pieces_eqb (a b : list piece) : bool :=
    match a, b with
    | [], [] => true
    | x :: a', y :: b' =>
        match x, y with
        | PLit s, PLit s' => str_eqb s s'
        | PVar VCurIndent, PVar VCurIndent | PVar VIndent, PVar VIndent | PVar VOpenBrace, PVar VOpenBrace
        | PVar VCloseBrace, PVar VCloseBrace => true
        | PRaw FName, PRaw FName | PRaw FValue, PRaw FValue | PEsc FName, PEsc FName | PEsc FValue, PEsc FValue => true
        | POther, POther => true
        | _, _ => false
        end && pieces_eqb a' b'
    | _, _ => false
    end.
  Definition wprog_text_ok : bool :=
    match split_loop (wp_root W), split_loop (wp_block W), writes_of (wp_leaf W) with
    | Some (ra, rc, rb), Some (ba, bc, bb), Some lf =>
        pieces_eqb ra [] && pieces_eqb rc (t_root_indent C) && pieces_eqb rb []
        && pieces_eqb ba (t_head C) && pieces_eqb bc (t_child_indent C) && pieces_eqb bb (t_tail C)
        && pieces_eqb lf (t_leaf C)
    | _, _, _ => false
    end.

  Lemma str_eqb_eq a : forall b, str_eqb a b = true -> a = b.
  Proof.
    induction a as [|x a IH]; destruct b as [|y b]; cbn; try discriminate; [reflexivity|].
    intros H. apply andb_true_iff in H as [H1 H2]. apply N.eqb_eq in H1. subst. f_equal. now apply IH.
  Qed.
  Lemma pieces_eqb_eq a : forall b, pieces_eqb a b = true -> a = b.
  Proof.
    induction a as [|x a IH]; destruct b as [|y b]; cbn; try discriminate; [reflexivity|].
    intros H. apply andb_true_iff in H as [H1 H2]. apply IH in H2. subst. f_equal.
    destruct x as [s|[]|[]|[]|], y as [s'|[]|[]|[]|]; try discriminate; try reflexivity.
    apply str_eqb_eq in H1. now subst.
  Qed.

  Lemma render_app e n v a b : render E e n v (a ++ b) = render E e n v a ++ render E e n v b.
  Proof. unfold render. apply flat_map_app. Qed.

  Lemma run_writes ex cur k : forall l t, writes_of l = Some t ->
    run_instrs ex cur k l = (k, render E (mkenv C E o cur) (node_name k) (node_value k) t).
  Proof.
    induction l as [|i r IH]; intros t H; cbn [writes_of] in H.
    - inversion H. reflexivity.
    - destruct i; try discriminate. destruct (writes_of r) as [t'|]; [|discriminate]. inversion H; subst.
      cbn [run_instrs wstep]. rewrite (IH t' eq_refl). now rewrite render_app.
  Qed.

  (** The text of the children under an executor that is already known to agree with [ser_node] on them. *)
  Lemma map_exec_text ex ind cs : (forall c, In c cs -> ex c = (c, ser_node C E o ind c)) ->
    map_exec ex cs = (cs, flat_map (ser_node C E o ind) cs).
  Proof.
    induction cs as [|c r IH]; intros H; [reflexivity|]. cbn [map_exec flat_map].
    rewrite (H c (or_introl eq_refl)), IH; [reflexivity|]. intros c' Hc. apply H. now right.
  Qed.

  Lemma run_split ex cur n cs : forall l a c b, split_loop l = Some (a, c, b) ->
    (forall ch, In ch cs -> ex (render E (mkenv C E o cur) n [] c) ch
                            = (ch, ser_node C E o (render E (mkenv C E o cur) n [] c) ch)) ->
    run_instrs ex cur (Block n cs) l
    = (Block n cs, render E (mkenv C E o cur) n [] a
                   ++ flat_map (ser_node C E o (render E (mkenv C E o cur) n [] c)) cs
                   ++ render E (mkenv C E o cur) n [] b).
  Proof.
    induction l as [|i r IH]; intros a c b H Hex; cbn [split_loop] in H; [discriminate|].
    destruct i; try discriminate.
    - destruct (split_loop r) as [[[a' c'] b']|]; [|discriminate]. inversion H; subst.
      cbn [run_instrs wstep node_name node_value]. rewrite (IH a' c b eq_refl Hex).
      now rewrite render_app, app_assoc.
    - destruct (writes_of r) as [b'|] eqn:Hw; [|discriminate]. inversion H; subst.
      cbn [run_instrs wstep node_name node_children set_children].
      rewrite (map_exec_text _ _ cs Hex). rewrite (run_writes ex cur (Block n cs) r b Hw).
      cbn [node_name node_value render flat_map app]. reflexivity.
  Qed.

  Theorem wexec_text : wprog_text_ok = true -> forall fuel k cur, (kv_depth k <= fuel)%nat ->
    wexec fuel cur k = (k, ser_node C E o cur k).
  Proof.
    unfold wprog_text_ok. intros H.
    destruct (split_loop (wp_root W)) as [[[ra rc] rb]|] eqn:HR; [|discriminate].
    destruct (split_loop (wp_block W)) as [[[ba bc] bb]|] eqn:HB; [|discriminate].
    destruct (writes_of (wp_leaf W)) as [lf|] eqn:HL; [|discriminate].
    repeat (apply andb_true_iff in H as [H ?]).
    repeat match goal with X : pieces_eqb _ _ = true |- _ => apply pieces_eqb_eq in X end. subst.
    induction fuel as [|m IH]; intros k cur Hd.
    - destruct k; cbn in Hd; lia.
    - destruct k as [n v|n cs]; cbn [wexec branch_of ser_node].
      + apply (run_writes (wexec m) cur (Leaf n v) _ _ HL).
      + assert (Hch : forall ind ch, In ch cs -> wexec m ind ch = (ch, ser_node C E o ind ch)).
        { intros ind ch Hin. apply IH. cbn [kv_depth] in Hd. apply le_S_n in Hd.
          clear - Hin Hd. induction cs as [|c r IHr]; [destruct Hin|]. cbn [fold_right] in Hd.
          destruct Hin as [->|Hin]; [lia|]. apply IHr; [lia|exact Hin]. }
        destruct (root_like (t_root_test C) n) eqn:Hrl.
        * assert (n = []) by (destruct (t_root_test C), n; try discriminate; reflexivity). subst n.
          rewrite (run_split (wexec m) cur [] cs _ _ _ _ HR (fun ch Hin => Hch _ ch Hin)).
          cbn [render flat_map app]. now rewrite app_nil_r.
        * now rewrite (run_split (wexec m) cur n cs _ _ _ _ HB (fun ch Hin => Hch _ ch Hin)).
  Qed.
End Exec.

(** The reference program: what the translator reads off today's [_serialise]. *)
Definition ref_wprog (head_name : piece) : wprog := {|
  wp_root := [WChildren []];
  wp_block := [WWrite [PVar VCurIndent; PLit [34]; head_name; PLit [34; 10]]; WWrite [PVar VCurIndent; PVar VOpenBrace];
               WChildren [PVar VCurIndent; PVar VIndent]; WWrite [PVar VCurIndent; PVar VCloseBrace]];
  wp_leaf := [WWrite [PVar VCurIndent; PLit [34]; PEsc FName; PLit [34; 32; 34]; PEsc FValue; PLit [34; 10]]] |}.
Lemma ref_wprog_pure : wprog_pure (ref_wprog (PEsc FName)) = true.
Proof. reflexivity. Qed.

(** The nearby wrong shape: a writer that normalises the node before writing it (one store in the block branch). *)
Definition storing_wprog : wprog := {|
  wp_root := [WChildren []];
  wp_block := WStore :: wp_block (ref_wprog (PEsc FName));
  wp_leaf := wp_leaf (ref_wprog (PEsc FName)) |}.
Lemma storing_wprog_rejected : wprog_pure storing_wprog = false.
Proof. reflexivity. Qed.
