(** C01 — the token loop of Keyvalues.parse rebuilds a tree from its token stream, for every setting of the
    options newline_keys / newline_values / single_line / single_block. *)
From Coq Require Import List NArith Bool Lia.
From SV Require Import KV.KvBase KV.KvLex KV.KvParse KV.KvSer KV.KvSym.
Import ListNotations.
Open Scope N_scope.

(** Every name and value of the tree passes the 'Illegal newline' tests under the options [O]. *)
Fixpoint kv_ok (P : parsecfg) (O : popts) (k : kv) : bool :=
  match k with
  | Leaf n v => negb (key_bad P O n) && negb (value_bad P O v)
  | Block n cs => negb (key_bad P O n) && forallb (kv_ok P O) cs
  end.

Section Rt.
  Variable P : parsecfg.
  Variable O : popts.
  Variable flag_on : str -> bool.
  Variable fin : option lexerr.
  Notation prun := (prun P O flag_on fin).
  Notation kv_ok := (kv_ok P O).
  Notation sb_root := (sb_root O).

  (** Children of a block: processed below at least one stacked frame, so single_block does not interfere. *)
  Lemma prun_children n cs :
    Forall (fun k => kv_ok k = true -> forall stk cur cfr rest, sb_root stk = false ->
       prun stk cur BNone cfr (toks k ++ rest) = prun stk (fst cur, k :: snd cur) BNone true rest) cs ->
    forallb kv_ok cs = true ->
    forall acc cfr0 rest0 fr stk0, exists cfr1,
      prun (fr :: stk0) (Some n, acc) BNone cfr0 (flat_map toks cs ++ rest0)
      = prun (fr :: stk0) (Some n, rev cs ++ acc) BNone cfr1 rest0.
  Proof.
    intros IH. induction IH as [|k ks Hk _ IHks]; intros Hcs acc cfr0 rest0 fr stk0.
    - exists cfr0. reflexivity.
    - cbn [forallb] in Hcs. apply andb_true_iff in Hcs as [Hk1 Hks1].
      cbn [flat_map]. rewrite <- app_assoc, (Hk Hk1) by (unfold KvParse.sb_root; now rewrite andb_false_r).
      cbn [fst snd].
      destruct (IHks Hks1 (k :: acc) true rest0 fr stk0) as [c1 H1]. exists c1. rewrite H1.
      cbn [rev]. now rewrite <- app_assoc.
  Qed.

  Lemma prun_kv : forall k, kv_ok k = true -> forall stk cur cfr rest, sb_root stk = false ->
    prun stk cur BNone cfr (toks k ++ rest) = prun stk (fst cur, k :: snd cur) BNone true rest.
  Proof.
    induction k as [n v | n cs IH] using kv_ind'; intros Hn stk cur cfr rest Hsb.
    - cbn [KvParseProofs.kv_ok] in Hn. apply andb_true_iff in Hn as [Hn Hv].
      apply negb_true_iff in Hn, Hv.
      cbn [toks app KvParse.prun]. rewrite Hn, Hv, Hsb. reflexivity.
    - cbn [KvParseProofs.kv_ok] in Hn. apply andb_true_iff in Hn as [Hn Hcs]. apply negb_true_iff in Hn.
      cbn [toks]. rewrite <- !app_assoc. cbn [app KvParse.prun]. rewrite Hn. cbn [snd fst].
      destruct (prun_children n cs IH Hcs [] false (TBC :: TNL :: rest) (fst cur, snd cur) stk) as [c1 H1].
      etransitivity; [exact H1|]. cbn [KvParse.prun fst snd]. rewrite Hsb. now rewrite app_nil_r, rev_involutive.
  Qed.

  (** single_block=True at the root level: the first node is returned as soon as it is complete. *)
  Lemma prun_kv_single : forall k, kv_ok k = true -> forall fn cfr rest, sb_root [] = true ->
    prun [] (fn, []) BNone cfr (toks k ++ rest) = PNode k.
  Proof.
    intros [n v | n cs] Hn fn cfr rest Hsb.
    - cbn [KvParseProofs.kv_ok] in Hn. apply andb_true_iff in Hn as [Hn Hv].
      apply negb_true_iff in Hn, Hv.
      cbn [toks app KvParse.prun]. rewrite Hn, Hv, Hsb. reflexivity.
    - cbn [KvParseProofs.kv_ok] in Hn. apply andb_true_iff in Hn as [Hn Hcs]. apply negb_true_iff in Hn.
      cbn [toks]. rewrite <- !app_assoc. cbn [app KvParse.prun]. rewrite Hn. cbn [snd fst].
      assert (IH : Forall (fun k => kv_ok k = true -> forall stk cur cfr rest, sb_root stk = false ->
         prun stk cur BNone cfr (toks k ++ rest) = prun stk (fst cur, k :: snd cur) BNone true rest) cs)
        by (apply Forall_forall; intros k _; apply prun_kv).
      destruct (prun_children n cs IH Hcs [] false (TBC :: TNL :: rest) (fn, []) []) as [c1 H1].
      etransitivity; [exact H1|]. cbn [KvParse.prun fst snd]. rewrite Hsb.
      unfold root_first. rewrite app_nil_r, rev_involutive. cbn [rev app]. reflexivity.
  Qed.

  Lemma prun_doc : forall d, forallb kv_ok d = true -> forall stk cur cfr rest, sb_root stk = false -> exists cfr1,
    prun stk cur BNone cfr (toks_doc d ++ rest) = prun stk (fst cur, rev d ++ snd cur) BNone cfr1 rest.
  Proof.
    induction d as [|k ks IH]; intros Hd stk cur cfr rest Hsb.
    - exists cfr. destruct cur; reflexivity.
    - cbn [forallb] in Hd. apply andb_true_iff in Hd as [Hk Hks].
      unfold toks_doc in *. cbn [flat_map]. rewrite <- app_assoc, (prun_kv k Hk) by exact Hsb.
      destruct (IH Hks stk (fst cur, k :: snd cur) true rest Hsb) as [c1 H1]. exists c1. rewrite H1.
      cbn [fst snd rev]. now rewrite <- app_assoc.
  Qed.
End Rt.

(** * Whole texts *)
Theorem parse_toks_doc_opts P O flag_on d : po_single_block O = false -> forallb (kv_ok P O) d = true ->
  parse_toks_opts P O flag_on (toks_doc d, None) = POk d.
Proof.
  intros Hsb Hd. unfold parse_toks_opts. cbn [fst snd].
  destruct (prun_doc P O flag_on None d Hd [] (None, []) false []) as [c1 H1].
  { unfold sb_root. now rewrite Hsb. }
  rewrite app_nil_r in H1. rewrite H1. cbn. now rewrite app_nil_r, rev_involutive.
Qed.

Theorem parse_toks_node_opts P O flag_on k : po_single_block O = false -> kv_ok P O k = true ->
  parse_toks_opts P O flag_on (toks k, None) = POk [k].
Proof.
  intros Hsb Hk. unfold parse_toks_opts. cbn [fst snd].
  rewrite <- (app_nil_r (toks k)), (prun_kv P O flag_on None k Hk) by (unfold sb_root; now rewrite Hsb).
  reflexivity.
Qed.

(** single_block=True: the first top-level node of the text comes back on its own, whatever follows. *)
Theorem parse_toks_single_block P O flag_on k ks fin : po_single_block O = true -> kv_ok P O k = true ->
  parse_toks_opts P O flag_on (toks_doc (k :: ks), fin) = PNode k.
Proof.
  intros Hsb Hk. unfold parse_toks_opts, toks_doc. cbn [fst snd flat_map].
  apply prun_kv_single; [exact Hk|]. unfold sb_root. now rewrite Hsb.
Qed.

(** * When are the fields accepted? *)
Lemma brk_only_lfcr_sound t s : brk_only_lfcr t = true -> has_linebreak s = false -> brk t s = false.
Proof.
  destruct t as [l|]; [|discriminate]. cbn [brk_only_lfcr brk]. intros Hl Hs.
  unfold has_linebreak in Hs. induction s as [|c s IH]; [reflexivity|].
  cbn [existsb] in *. apply orb_false_iff in Hs as [Hc Hs]. rewrite (IH Hs), orb_false_r.
  clear IH Hs. induction l as [|x l IHl]; [reflexivity|].
  cbn [forallb] in Hl. apply andb_true_iff in Hl as [Hx Hl]. cbn [mem existsb].
  fold (mem c l). rewrite (IHl Hl), orb_false_r.
  destruct (c =? x) eqn:E; [|reflexivity]. apply N.eqb_eq in E. subst. now rewrite Hx in Hc.
Qed.

Fixpoint values_ok (k : kv) : bool :=
  match k with
  | Leaf _ v => negb (has_linebreak v)
  | Block _ cs => forallb values_ok cs
  end.

(** A tree is accepted when each kind of field is either free of line breaks or allowed to have them. *)
Lemma kv_ok_of P O : pcfg_ok P = true -> forall k,
  po_newline_keys O || names_ok k = true -> po_newline_values O || values_ok k = true -> kv_ok P O k = true.
Proof.
  intros HP. unfold pcfg_ok in HP. apply andb_true_iff in HP as [HK HV].
  induction k as [n v | n cs IH] using kv_ind'; intros Hn Hv; cbn [kv_ok names_ok values_ok] in *.
  - unfold key_bad, value_bad. apply andb_true_iff. split; apply negb_true_iff.
    + destruct (po_newline_keys O); [reflexivity|]. cbn [orb negb andb] in *. apply negb_true_iff in Hn.
      now apply brk_only_lfcr_sound.
    + destruct (po_newline_values O); [reflexivity|]. cbn [orb negb andb] in *. apply negb_true_iff in Hv.
      now apply brk_only_lfcr_sound.
  - apply andb_true_iff. split.
    + unfold key_bad. apply negb_true_iff. destruct (po_newline_keys O); [reflexivity|].
      cbn [orb negb andb] in *. apply andb_true_iff in Hn as [Hn _]. apply negb_true_iff in Hn.
      now apply brk_only_lfcr_sound.
    + apply forallb_forall. intros k Hin. rewrite Forall_forall in IH. apply (IH k Hin).
      * destruct (po_newline_keys O); [reflexivity|]. cbn [orb] in *. apply andb_true_iff in Hn as [_ Hn].
        rewrite forallb_forall in Hn. now apply Hn.
      * destruct (po_newline_values O); [reflexivity|]. cbn [orb] in *.
        rewrite forallb_forall in Hv. now apply Hv.
Qed.
