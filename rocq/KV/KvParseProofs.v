(** C01 — the token loop of Keyvalues.parse rebuilds a tree from its token stream. *)
From Coq Require Import List NArith Bool Lia.
From SV Require Import KV.KvBase KV.KvLex KV.KvParse KV.KvSer.
Import ListNotations.
Open Scope N_scope.

Section Rt.
  Variable flag_on : str -> bool.
  Variable fin : option lexerr.
  Notation prun := (prun flag_on fin).

  Lemma prun_kv : forall k, names_ok k = true -> forall stk cur cfr rest,
    prun stk cur BNone cfr (toks k ++ rest) = prun stk (fst cur, k :: snd cur) BNone true rest.
  Proof.
    induction k as [n v | n cs IH] using kv_ind'; intros Hn stk cur cfr rest.
    - cbn [names_ok] in Hn. apply negb_true_iff in Hn.
      cbn [toks app prun]. rewrite Hn. reflexivity.
    - cbn [names_ok] in Hn. apply andb_true_iff in Hn as [Hn Hcs]. apply negb_true_iff in Hn.
      cbn [toks]. rewrite <- !app_assoc. cbn [app prun]. rewrite Hn. cbn [snd fst].
      assert (Hch : forall acc cfr0 rest0 stk0, exists cfr1,
                 prun stk0 (Some n, acc) BNone cfr0 (flat_map toks cs ++ rest0)
                 = prun stk0 (Some n, rev cs ++ acc) BNone cfr1 rest0).
      { clear Hn. induction IH as [|k ks Hk _ IHks]; intros acc cfr0 rest0 stk0.
        - exists cfr0. reflexivity.
        - cbn [forallb] in Hcs. apply andb_true_iff in Hcs as [Hk1 Hks1].
          cbn [flat_map]. rewrite <- app_assoc, (Hk Hk1). cbn [fst snd].
          destruct (IHks Hks1 (k :: acc) true rest0 stk0) as [c1 H1]. exists c1. rewrite H1.
          cbn [rev]. now rewrite <- app_assoc. }
      destruct (Hch [] false (TBC :: TNL :: rest) ((fst cur, snd cur) :: stk)) as [c1 H1].
      rewrite H1. cbn [prun fst snd]. now rewrite app_nil_r, rev_involutive.
  Qed.

  Lemma prun_doc : forall d, doc_names_ok d = true -> forall stk cur cfr rest, exists cfr1,
    prun stk cur BNone cfr (toks_doc d ++ rest) = prun stk (fst cur, rev d ++ snd cur) BNone cfr1 rest.
  Proof.
    induction d as [|k ks IH]; intros Hd stk cur cfr rest.
    - exists cfr. destruct cur; reflexivity.
    - cbn [doc_names_ok forallb] in Hd. apply andb_true_iff in Hd as [Hk Hks].
      unfold toks_doc in *. cbn [flat_map]. rewrite <- app_assoc, (prun_kv k Hk).
      destruct (IH Hks stk (fst cur, k :: snd cur) true rest) as [c1 H1]. exists c1. rewrite H1.
      cbn [fst snd rev]. now rewrite <- app_assoc.
  Qed.
End Rt.

Theorem parse_toks_doc flag_on d : doc_names_ok d = true -> parse_toks flag_on (toks_doc d, None) = POk d.
Proof.
  intros Hd. unfold parse_toks. cbn [fst snd].
  destruct (prun_doc flag_on None d Hd [] (None, []) false []) as [c1 H1].
  rewrite app_nil_r in H1. rewrite H1. cbn. now rewrite app_nil_r, rev_involutive.
Qed.

Theorem parse_toks_node flag_on k : names_ok k = true -> parse_toks flag_on (toks k, None) = POk [k].
Proof.
  intros Hk. unfold parse_toks. cbn [fst snd].
  rewrite <- (app_nil_r (toks k)), (prun_kv flag_on None k Hk). reflexivity.
Qed.
