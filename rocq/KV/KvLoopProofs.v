(** C01 — the reference decision tree of the token loop (KV/KvLoopRef.v, = what the translator reads off
    [Keyvalues.parse] today) runs exactly like the hand-written token loop [prun] of KV/KvParse.v, on every token
    list, from every state, under every option vector, flag predicate and tokenizer ending.  Hence every theorem
    about [parse_kv_opts] holds of the parser given by any regenerated tree that equals the reference tree. *)
From Coq Require Import List NArith Bool Lia PeanoNat.
From SV Require Import KV.KvBase KV.KvLex KV.KvParse KV.KvLoop KV.KvLoopRef.
Import ListNotations.

(** * Soundness of the decidable equality *)
Lemma tkind_eqb_eq a b : tkind_eqb a b = true -> a = b. Proof. destruct a, b; cbn; congruence. Qed.
Lemma bl_eqb_eq a b : bl_eqb a b = true -> a = b. Proof. destruct a, b; cbn; congruence. Qed.
Lemma optname_eqb_eq a b : optname_eqb a b = true -> a = b. Proof. destruct a, b; cbn; congruence. Qed.
Lemma atom_eqb_eq a b : atom_eqb a b = true -> a = b.
Proof.
  destruct a, b; cbn; try congruence; intro H.
  - apply andb_true_iff in H as [H1 H2]. apply Nat.eqb_eq in H1. apply tkind_eqb_eq in H2. congruence.
  - apply bl_eqb_eq in H; congruence.
  - apply optname_eqb_eq in H; congruence.
  - apply Nat.eqb_eq in H; congruence.
  - apply Nat.eqb_eq in H; congruence.
Qed.
Lemma sop_eqb_eq a b : sop_eqb a b = true -> a = b. Proof. destruct a, b; cbn; congruence. Qed.
Lemma perr_eqb_eq a b : perr_eqb a b = true -> a = b. Proof. destruct a, b; cbn; congruence. Qed.
Lemma pexit_eqb_eq a b : pexit_eqb a b = true -> a = b.
Proof. destruct a, b; cbn; try congruence. intro H; apply perr_eqb_eq in H; congruence. Qed.
Lemma opt_eqb_eq {A} (f : A -> A -> bool) (Hf : forall x y, f x y = true -> x = y) a b : opt_eqb f a b = true -> a = b.
Proof. destruct a, b; cbn; try congruence. intro H; apply Hf in H; congruence. Qed.
Lemma ptree_eqb_eq : forall t1 t2, ptree_eqb t1 t2 = true -> t1 = t2.
Proof.
  induction t1 as [a ta IHa1 tb IHa2|k IHa|k IHa|s ob oc u x]; intros t2; destruct t2; cbn; try congruence; intro H.
  - apply andb_true_iff in H as [H H3]. apply andb_true_iff in H as [H1 H2].
    apply atom_eqb_eq in H1. apply IHa1 in H2. apply IHa2 in H3. congruence.
  - apply IHa in H; congruence.
  - apply IHa in H; congruence.
  - apply andb_true_iff in H as [H Hx]. apply andb_true_iff in H as [H Hu]. apply andb_true_iff in H as [H Hc].
    apply andb_true_iff in H as [Hs Hb].
    apply sop_eqb_eq in Hs. apply (opt_eqb_eq _ bl_eqb_eq) in Hb. apply (opt_eqb_eq _ eqb_prop) in Hc.
    apply eqb_prop in Hu. apply pexit_eqb_eq in Hx. congruence.
Qed.

Section Ref.
  Variable P : parsecfg.
  Variable O : popts.
  Variable flag_on : str -> bool.
  Variable fin : option lexerr.
  (** Both emptiness guards are in the source (the reference tree has their branches). *)
  Hypothesis HG1 : p_replace_guard P = true.
  Hypothesis HG2 : p_single_block_guard P = true.

  (** One pass of the tree = one unfolding of [prun]; the tokens left over are fewer. *)
  Definition step_spec (s : mstate) (ts : list tok) : Prop :=
    match pstep P O flag_on fin ref_ptree 1 s ts with
    | SDone res => prun P O flag_on fin (m_stk s) (m_cur s) (m_b s) (m_cfr s) ts = res
    | SCont s' rest => (length rest < length ts)%nat /\
        prun P O flag_on fin (m_stk s) (m_cur s) (m_b s) (m_cfr s) ts
        = prun P O flag_on fin (m_stk s') (m_cur s') (m_b s') (m_cfr s') rest
    end.

  Lemma rev_cons_nil {A} (x : A) l : rev (x :: l) = [] -> False.
  Proof. intro H; apply (f_equal (@length _)) in H; rewrite rev_length in H; discriminate. Qed.

  (* [prun] is unfolded exactly once (its body is one nested match whose recursive calls are on sub-lists);
     afterwards only the matches are reduced while their scrutinees are destructed one by one *)
  Ltac start := cbn [prun m_stk m_cur m_b m_cfr];
                unfold key_bad, value_bad, sb_root, add_flagged, root_first, at_end, pfinal; rewrite ?HG1, ?HG2.
  Ltac crunch := cbn -[prun rev].
  Ltac fin_ := solve [ reflexivity | split; [cbn; lia | reflexivity] | discriminate
                     | exfalso; match goal with H : rev (_ :: _) = [] |- _ => exact (rev_cons_nil _ _ H) end ].
  Ltac one :=
    match goal with
    | |- context [match ?x with _ => _ end] =>
        first [ is_var x; destruct x
              | lazymatch x with
                | context [match _ with _ => _ end] => fail
                | _ => destruct x eqn:?
                end ]
    end.
  Ltac go := unfold step_spec; start; crunch; try fin_; repeat (first [fin_ | one; crunch]).

  Lemma step_ok s t r : step_spec s (t :: r).
  Proof.
    destruct s as [stk [cn cs] b cfr]; destruct t; destruct b; go.
  Qed.

  Lemma final_ok s : pstep P O flag_on fin ref_pfinal 0 s [] = SDone (pfinal (m_stk s) (m_cur s) (m_b s)).
  Proof. destruct s as [stk [cn cs] b cfr]; destruct b, stk; reflexivity. Qed.

  Theorem ploop_ref_is_prun : forall n s ts, (length ts < n)%nat ->
    ploop P O flag_on fin n ref_ptree ref_pfinal s ts
    = prun P O flag_on fin (m_stk s) (m_cur s) (m_b s) (m_cfr s) ts.
  Proof.
    induction n; intros s ts Hn; [lia|].
    destruct ts as [|t r].
    - cbn [ploop prun]. rewrite final_ok. unfold at_end. destruct fin; reflexivity.
    - cbn [ploop]. pose proof (step_ok s t r) as H. unfold step_spec in H.
      destruct (pstep P O flag_on fin ref_ptree 1 s (t :: r)) as [s' rest|res].
      + destruct H as [Hl ->]. apply IHn. cbn [length] in *. lia.
      + symmetry; exact H.
  Qed.
End Ref.

(** [Keyvalues.parse] as given by a tree equal to the reference tree = the hand-written token loop, on all inputs. *)
Theorem parse_tree_is_prun T F P : ptree_eqb T ref_ptree = true -> ptree_eqb F ref_pfinal = true ->
  p_replace_guard P = true -> p_single_block_guard P = true ->
  forall O flag_on tf, parse_toks_tree T F P O flag_on tf = parse_toks_opts P O flag_on tf.
Proof.
  intros HT HF H1 H2 O flag_on [ts fin]. apply ptree_eqb_eq in HT, HF. subst.
  unfold parse_toks_tree, parse_toks_opts. cbn [fst snd]. rewrite ploop_ref_is_prun by (assumption || (cbn; lia)). reflexivity.
Qed.

Corollary parse_kv_tree_is_parse_kv T F P : ptree_eqb T ref_ptree = true -> ptree_eqb F ref_pfinal = true ->
  p_replace_guard P = true -> p_single_block_guard P = true ->
  forall O E flag_on text, parse_kv_tree T F P O E flag_on text = parse_kv_opts P O E flag_on text.
Proof. intros; unfold parse_kv_tree, parse_kv_opts; apply parse_tree_is_prun; assumption. Qed.

(** The hypotheses are satisfiable. *)
Lemma ref_tree_eqb_refl : ptree_eqb ref_ptree ref_ptree = true /\ ptree_eqb ref_pfinal ref_pfinal = true.
Proof. split; vm_compute; reflexivity. Qed.
