(** C03 (and the chunked form of C02): properties of the tokenizer model. *)
From Coq Require Import List NArith ZArith Bool Lia.
From SV Require Import Text.Str Text.Prog Text.ProgProofs Text.Tokenizer.
Import ListNotations.

Lemma reads_bind {A B} (p : Prog A) (f : A -> Prog B) : forall l,
  reads (bind p f) l = (reads p l + reads (f (fst (run_flat p l))) (snd (run_flat p l)))%nat.
Proof.
  induction p as [a|u k IH]; intros l; cbn [bind reads run_flat]; [reflexivity|].
  destruct (fnext l) as [c l1]. rewrite IH. reflexivity.
Qed.

Lemma run_flat_bind' {A B} (p : Prog A) (f : A -> Prog B) l :
  run_flat (bind p f) l = run_flat (f (fst (run_flat p l))) (snd (run_flat p l)).
Proof. rewrite run_flat_bind. now destruct (run_flat p l). Qed.

(** Reads are the same on the chunked source: the number of [_next_char] calls is a property of the program and
    the text, not of the chunking (same induction as [chunk_independent]). *)
Fixpoint reads_chk {A} (p : Prog A) (s : chk) : nat :=
  match p with
  | Ret _ => O
  | Next u k => let '(c, s') := cnext s in S (reads_chk (k c) (if u c then cunread s' else s'))
  end.
Lemma reads_chunk_independent {A} (p : Prog A) : forall l s, R l s -> reads_chk p s = reads p l.
Proof.
  induction p as [a|u k IH]; intros l s HR; cbn [reads reads_chk]; [reflexivity|].
  pose proof (next_sim u l s HR) as Hn. destruct (fnext l) as [c1 l1], (cnext s) as [c2 s1].
  destruct Hn as [<- HR1]. f_equal. apply IH, HR1.
Qed.

Section Proofs.
Variable T : tables.
Variable o : opts.

(* ------------------------------------------------------------------ chunk independence *)
(** The token trace does not depend on how the text is cut into chunks: any chunked reader state denoting the
    flat string [l] yields the same results, call after call. Inherited from the generic simulation; no case
    analysis of the tokenizer is involved. *)
Theorem tokens_chunk_independent : forall n fuel line lcr l s, R l s ->
  tokens_chk T o n fuel line lcr s = tokens_flat T o n fuel line lcr l.
Proof.
  induction n as [|n IH]; intros fuel line lcr l s HR; cbn [tokens_chk tokens_flat]; [reflexivity|].
  destruct (chunk_independent (get_token T o fuel line lcr) l s HR) as [Hfst HR'].
  destruct (run_flat (get_token T o fuel line lcr) l) as [r l'].
  destruct (run_chk (get_token T o fuel line lcr) s) as [r' s'].
  cbn [fst snd] in Hfst, HR'. subst r'.
  destruct r as [k v line' lcr'| |]; try reflexivity.
  f_equal. apply IH. exact HR'.
Qed.

Corollary tokens_any_chunking n fuel cs :
  tokens_chk T o n fuel 1 false (chk_of_chunks cs) = tokens_chk T o n fuel 1 false (chk_of_str (concat cs)).
Proof.
  rewrite (tokens_chunk_independent n fuel 1%N false (concat cs) _ (R_of_chunks cs)).
  now rewrite (tokens_chunk_independent n fuel 1%N false (concat cs) _ (R_of_str (concat cs))).
Qed.

(* ------------------------------------------------------------------ totality, progress, linear bound *)
(** What is shown of every loop: it does not run out of fuel, it never yields EOF (only [get_token] does, and only
    with the input exhausted), and it performs at most 2*(characters consumed)+1 reads. *)
Definition res_ok (inner : bool) (r : result) (l' : str) : Prop :=
  r <> RFuel /\ (forall v ln b, r = RTok EOF v ln b -> if inner then False else l' = [] /\ v = [] /\ True).
Definition good (inner : bool) (p : Prog result) (l : str) : Prop :=
  res_ok inner (fst (run_flat p l)) (snd (run_flat p l))
  /\ (reads p l + 2 * length (snd (run_flat p l)) <= 2 * length l + 1)%nat.
Definition cgood (p : Prog cres) (l : str) : Prop :=
  match fst (run_flat p l) with CDone r => res_ok true r [] | CSwallow _ => True end
  /\ (reads p l + 2 * length (snd (run_flat p l)) <= 2 * length l + 1)%nat.

Lemma res_ok_inner r l1 l2 : res_ok true r l1 -> res_ok false r l2.
Proof. intros [H1 H2]. split; [exact H1|]. intros v ln b E. destruct (H2 v ln b E). Qed.

Ltac leaf := cbn [run_flat reads fst snd]; first
  [ split; [split; [discriminate | intros; discriminate] | cbn [fback length]; lia ]
  | split; [exact I | cbn [fback length]; lia ] ].
Ltac ifs := repeat match goal with |- context [if ?b then _ else _] => destruct b end.
Ltac recur IH Hf :=
  match goal with
  | |- res_ok _ (fst (run_flat ?p ?r)) _ /\ _ =>
    let H := fresh "H" in let H1 := fresh "H" in let H2 := fresh "H" in
    assert (H : good true p r) by (apply IH; cbn [length] in Hf |- *; lia);
    destruct H as [H1 H2]; split; [exact H1 | cbn [length] in *; lia]
  | |- match fst (run_flat ?p ?r) with CDone _ => _ | CSwallow _ => _ end /\ _ =>
    let H := fresh "H" in let H1 := fresh "H" in let H2 := fresh "H" in
    assert (H : cgood p r) by (apply IH; cbn [length] in Hf |- *; lia);
    destruct H as [H1 H2]; split; [exact H1 | cbn [length] in *; lia]
  end.

Lemma brack_total : forall f l acc line, (length l < f)%nat -> good true (brack_loop f acc line) l.
Proof.
  induction f as [|f IH]; intros l acc line Hf; [lia|].
  destruct l as [|c r]; unfold good; cbn [run_flat reads brack_loop fnext keep fst snd]; [leaf|].
  ifs; try leaf. recur IH Hf.
Qed.

Lemma paren_total : forall f l acc line, (length l < f)%nat -> good true (paren_loop f acc line) l.
Proof.
  induction f as [|f IH]; intros l acc line Hf; [lia|].
  destruct l as [|c r]; unfold good; cbn [run_flat reads paren_loop fnext keep fst snd]; [leaf|].
  ifs; try leaf; recur IH Hf.
Qed.

Lemma directive_total : forall f l acc line, (length l < f)%nat -> good true (directive_loop T o f acc line) l.
Proof.
  induction f as [|f IH]; intros l acc line Hf; [lia|].
  destruct l as [|c r]; unfold good; cbn [run_flat reads directive_loop fnext unread_delim fst snd]; [leaf|].
  destruct (is_delim T o c); [leaf|]. recur IH Hf.
Qed.

Lemma bare_total : forall f l acc line, (length l < f)%nat -> good true (bare_loop T o f acc line) l.
Proof.
  induction f as [|f IH]; intros l acc line Hf; [lia|].
  destruct l as [|c r]; unfold good; cbn [run_flat reads bare_loop fnext unread_delim fst snd]; [leaf|].
  destruct (is_delim T o c); [leaf|]. recur IH Hf.
Qed.

Lemma string_total : forall f l acc lcr line, (length l < f)%nat -> good true (handle_string T o f acc lcr line) l.
Proof.
  induction f as [|f IH]; intros l acc lcr line Hf; [lia|].
  destruct l as [|c r]; unfold good; cbn [run_flat reads handle_string fnext keep fst snd]; [leaf|].
  destruct (N.eqb c DQ); [leaf|]. destruct (N.eqb c CR); [recur IH Hf|].
  destruct (N.eqb c LF); [destruct lcr; recur IH Hf|].
  destruct (N.eqb c BS && allow_escapes o); [|recur IH Hf].
  destruct r as [|e r']; cbn [run_flat reads fnext keep fst snd]; [leaf|].
  destruct (N.eqb e LF); [recur IH Hf|]. destruct (lookup e (esc_table T)); recur IH Hf.
Qed.

Lemma line_comment_total : forall f l acc line, (length l < f)%nat -> cgood (line_comment o f acc line) l.
Proof.
  induction f as [|f IH]; intros l acc line Hf; [lia|].
  destruct l as [|c r]; unfold cgood; cbn [run_flat reads line_comment fnext fst snd]; unfold comment_end.
  - destruct (preserve_comments o); leaf.
  - destruct (N.eqb c LF); [destruct (preserve_comments o); leaf|]. recur IH Hf.
Qed.

Lemma star_comment_total : forall f l acc line start, (length l < f)%nat -> cgood (star_comment o f acc line start) l.
Proof.
  induction f as [|f IH]; intros l acc line start Hf; [lia|].
  destruct l as [|c r]; unfold cgood; cbn [run_flat reads star_comment fnext keep fst snd]; unfold comment_end; [leaf|].
  destruct (N.eqb c LF); [recur IH Hf|]. destruct (N.eqb c STAR); [|recur IH Hf].
  destruct r as [|d r']; cbn [run_flat reads fnext fst snd]; [leaf|].
  destruct (N.eqb d SLASH); cbn [negb fback]; [destruct (preserve_comments o); leaf|].
  recur IH Hf.
Qed.

Lemma handle_comment_total : forall f l line, (length l < f)%nat -> cgood (handle_comment o f line) l.
Proof.
  intros f l line Hf. destruct l as [|c r]; unfold cgood; cbn [run_flat reads handle_comment fnext keep fst snd]; [leaf|].
  destruct (N.eqb c STAR).
  - destruct (allow_star_comments o); [|leaf].
    destruct (star_comment_total f r [] line line ltac:(cbn [length] in Hf; lia)) as [H1 H2].
    split; [exact H1|cbn [length]; lia].
  - destruct (N.eqb c SLASH); [|leaf].
    destruct (line_comment_total f r [] line ltac:(cbn [length] in Hf; lia)) as [H1 H2].
    split; [exact H1|cbn [length]; lia].
Qed.

(** [EOF] is not an operator token. *)
Definition ops_no_eof : bool := forallb (fun p : char * tok => match snd p with EOF => false | _ => true end) (operators T).

Lemma lookup_In {B} k (t : list (N * B)) v : lookup k t = Some v -> In (k, v) t.
Proof.
  induction t as [|[k' v'] r IH]; cbn [lookup]; [discriminate|].
  destruct (N.eqb k' k) eqn:E; intros H.
  - inversion H; subst. apply N.eqb_eq in E. subst. now left.
  - right. now apply IH.
Qed.

Ltac inner L Hf :=
  let H := fresh "H" in let H1 := fresh "H" in let H2 := fresh "H" in
  pose proof L as H; destruct H as [H1 H2];
  [cbn [length] in Hf |- *; lia | split; [exact (res_ok_inner _ _ _ H1) | cbn [length] in *; lia]].

Theorem get_token_total : ops_no_eof = true ->
  forall f l line lcr, (length l < f)%nat -> good false (get_token T o f line lcr) l.
Proof.
  intros Hops. induction f as [|f IH]; intros l line lcr Hf; [lia|].
  destruct l as [|c r]; unfold good; cbn [run_flat reads get_token fnext keep fst snd].
  - split; [split; [discriminate|]|cbn [length]; lia]. intros v ln b E. inversion E. auto.
  - destruct (lookup c (operators T)) as [t|] eqn:El.
    { cbn [run_flat reads fst snd]. split; [split; [discriminate|]|cbn [length]; lia].
      intros v ln b E. inversion E; subst. exfalso.
      unfold ops_no_eof in Hops. rewrite forallb_forall in Hops.
      specialize (Hops _ (lookup_In _ _ _ El)). discriminate. }
    assert (Hrec : forall line' lcr', 
      res_ok false (fst (run_flat (get_token T o f line' lcr') r)) (snd (run_flat (get_token T o f line' lcr') r)) /\
      (S (reads (get_token T o f line' lcr') r) + 2 * length (snd (run_flat (get_token T o f line' lcr') r)) <= 2 * length (c :: r) + 1)%nat).
    { intros line' lcr'. destruct (IH r line' lcr' ltac:(cbn [length] in Hf; lia)) as [H1 H2].
      split; [exact H1|cbn [length]; lia]. }
    destruct (N.eqb c CR); [leaf|].
    destruct (N.eqb c LF); [destruct lcr; [apply Hrec|leaf]|].
    destruct (N.eqb c SP || N.eqb c TAB); [apply Hrec|].
    destruct (N.eqb c SLASH).
    { rewrite run_flat_bind', reads_bind.
      destruct (handle_comment_total f r line ltac:(cbn [length] in Hf; lia)) as [H1 H2].
      destruct (run_flat (handle_comment o f line) r) as [cr l1]. cbn [fst snd] in *.
      destruct cr as [line'|r'].
      - destruct (IH l1 line' false ltac:(cbn [length] in Hf; lia)) as [H3 H4].
        split; [exact H3|cbn [length]; lia].
      - cbn [run_flat reads fst snd]. split; [exact (res_ok_inner _ _ _ H1)|cbn [length]; lia]. }
    destruct (N.eqb c DQ); [inner (string_total f r [] false line) Hf|].
    destruct (N.eqb c LBRACK); [destruct (string_bracket o); [inner (brack_total f r [] line) Hf|leaf]|].
    destruct (N.eqb c LPAREN); [destruct (string_parens o); [inner (paren_total f r [] line) Hf|leaf]|].
    destruct (N.eqb c BOM && N.eqb line 1); [apply Hrec|].
    destruct (N.eqb c COLONC && colon_operator o); [leaf|].
    destruct (N.eqb c PLUSC && plus_operator o); [leaf|].
    destruct (N.eqb c RBRACK); [destruct (string_bracket o); leaf|].
    destruct (N.eqb c RPAREN); [destruct (string_parens o); leaf|].
    destruct (N.eqb c HASH); [inner (directive_total f r [] line) Hf|].
    destruct (negb (mem c (bare_disallowed T))); [inner (bare_total f r [c] line) Hf|leaf].
Qed.

(** After the end of the input every call returns EOF and changes nothing. *)
Lemma tokens_flat_eof n f line lcr : tokens_flat T o n (S f) line lcr [] = repeat (RTok EOF [] line lcr) n.
Proof.
  induction n as [|n IH]; cbn [tokens_flat repeat]; [reflexivity|].
  cbn [run_flat get_token fnext keep]. now rewrite IH.
Qed.

(** The whole trace: no call runs out of fuel when fuel exceeds the length of the text. *)
Theorem tokens_total : ops_no_eof = true -> forall n fuel line lcr l, (length l < fuel)%nat ->
  Forall (fun r => r <> RFuel) (tokens_flat T o n fuel line lcr l).
Proof.
  intros Hops. induction n as [|n IH]; intros fuel line lcr l Hf; cbn [tokens_flat]; [constructor|].
  destruct (get_token_total Hops fuel l line lcr Hf) as [[H1 _] H2].
  destruct (run_flat (get_token T o fuel line lcr) l) as [r l']. cbn [fst snd] in *.
  destruct r as [k v line' lcr'|e a ln|]; [|constructor; [discriminate|constructor]|congruence].
  constructor; [discriminate|]. apply IH. lia.
Qed.

(** EOF for ever: once a call returns EOF, the input is exhausted and every later call returns the same EOF. *)
Theorem eof_forever : ops_no_eof = true -> forall fuel l line lcr v line' lcr' l', (length l < fuel)%nat ->
  run_flat (get_token T o fuel line lcr) l = (RTok EOF v line' lcr', l') ->
  v = [] /\ l' = [] /\ forall n, tokens_flat T o n fuel line' lcr' l' = repeat (RTok EOF [] line' lcr') n.
Proof.
  intros Hops fuel l line lcr v line' lcr' l' Hf E.
  destruct (get_token_total Hops fuel l line lcr Hf) as [[_ H1] _]. rewrite E in H1. cbn [fst snd] in H1.
  destruct (H1 v line' lcr' eq_refl) as (-> & -> & _). repeat split.
  intros n. destruct fuel; [lia|]. apply tokens_flat_eof.
Qed.

(** Linear bound: one call performs at most 2*|remaining text|+1 reads; with the reads that later calls
    perform this telescopes, so the whole token stream costs at most 2*|text| + (number of calls) reads. *)
Theorem get_token_reads : ops_no_eof = true -> forall fuel l line lcr, (length l < fuel)%nat ->
  (reads (get_token T o fuel line lcr) l + 2 * length (snd (run_flat (get_token T o fuel line lcr) l)) <= 2 * length l + 1)%nat.
Proof. intros Hops fuel l line lcr Hf. exact (proj2 (get_token_total Hops fuel l line lcr Hf)). Qed.

Fixpoint trace_reads (n fuel : nat) (line : N) (lcr : bool) (l : str) : nat :=
  match n with O => O | S n' =>
    let '(r, l') := run_flat (get_token T o fuel line lcr) l in
    (reads (get_token T o fuel line lcr) l +
     match r with RTok _ _ line' lcr' => trace_reads n' fuel line' lcr' l' | _ => O end)%nat
  end.

Theorem trace_reads_linear : ops_no_eof = true -> forall n fuel line lcr l, (length l < fuel)%nat ->
  (trace_reads n fuel line lcr l <= 2 * length l + n)%nat.
Proof.
  intros Hops. induction n as [|n IH]; intros fuel line lcr l Hf; cbn [trace_reads]; [lia|].
  pose proof (get_token_reads Hops fuel l line lcr Hf) as H.
  destruct (run_flat (get_token T o fuel line lcr) l) as [r l']. cbn [snd] in H.
  destruct r as [k v line' lcr'|e a ln|]; try lia.
  specialize (IH fuel line' lcr' l' ltac:(lia)). lia.
Qed.

(** The same on the chunked reader: totality transfers through chunk independence. *)
Corollary tokens_total_chunked : ops_no_eof = true -> forall n fuel cs, (length (concat cs) < fuel)%nat ->
  Forall (fun r => r <> RFuel) (tokens_chk T o n fuel 1 false (chk_of_chunks cs)).
Proof.
  intros Hops n fuel cs Hf. rewrite (tokens_chunk_independent n fuel 1%N false (concat cs) _ (R_of_chunks cs)).
  now apply tokens_total.
Qed.

End Proofs.
