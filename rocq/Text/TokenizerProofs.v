(** C03 (and the chunked form of C02): properties of the tokenizer model. *)
From Coq Require Import List NArith ZArith Bool Lia.
From SV Require Import Text.Str Text.Prog Text.ProgProofs Text.Tokenizer.
Import ListNotations.

Section Proofs.
Variable T : tables.
Variable o : opts.

(** The token trace does not depend on how the text is cut into chunks: any chunked reader state denoting the
    flat string [l] yields the same results, call after call. Inherited from the generic simulation; no case
    analysis of the tokenizer is involved. *)
Theorem tokens_chunk_independent : forall n fuel line lcr l s, R l s ->
  tokens_chk T o n fuel line lcr s = tokens_flat T o n fuel line lcr l.
Proof.
  induction n as [|n IH]; intros fuel line lcr l s HR; cbn [tokens_chk tokens_flat]; [reflexivity|].
  destruct (chunk_independent (get_token T o fuel line lcr) l s HR) as [Hfst HR'].
  destruct (run_flat (get_token T o fuel line lcr) l) as [r l'].
  destruct (run_chk (get_token T o fuel line lcr) s) as [r' s'].
  cbn [fst snd] in Hfst, HR'. subst r'.
  destruct r as [k v line' lcr'| |]; try reflexivity.
  f_equal. apply IH. exact HR'.
Qed.

Corollary tokens_any_chunking n fuel cs :
  tokens_chk T o n fuel 1 false (chk_of_chunks cs) = tokens_chk T o n fuel 1 false (chk_of_str (concat cs)).
Proof.
  rewrite (tokens_chunk_independent n fuel 1%N false (concat cs) _ (R_of_chunks cs)).
  now rewrite (tokens_chunk_independent n fuel 1%N false (concat cs) _ (R_of_str (concat cs))).
Qed.

End Proofs.
