(** How a tokenizer error becomes text: [format_exc_fileinfo] (= [TokenSyntaxError.__str__]) and the messages
    [BaseTokenizer.error] builds for a token.  The texts themselves are data regenerated from tokenizer.py
    (Gen/ErrFmt_gen.v: for each combination "file is None" / "line_num is None" the pieces of the text, or "raises");
    this file gives them a meaning and states the conditions the theorems need as booleans. *)
From Coq Require Import List NArith Bool.
From SV Require Import Text.Str.
Import ListNotations.
Open Scope N_scope.

Inductive piece := PLit (s : str) | PMsg | PFile | PLine | PVal.

(** [None] = that combination raises an exception of another type. *)
Record fcfg := {
  f_none_none : option (list piece);
  f_file_only : option (list piece);
  f_line_only : option (list piece);
  f_both : option (list piece) }.

(** Decimal digits of a natural number, most significant first (Python [str(int)] / [f'{n}'] for n >= 0). *)
Fixpoint dec_aux (fuel : nat) (n : N) (acc : str) : str :=
  match fuel with
  | O => acc
  | S f => let acc' := (48 + n mod 10) :: acc in if n / 10 =? 0 then acc' else dec_aux f (n / 10) acc'
  end.
Definition dec (n : N) : str := dec_aux (S (N.size_nat n)) n [].

Definition render_piece (msg file : str) (line : N) (val : str) (p : piece) : str :=
  match p with PLit s => s | PMsg => msg | PFile => file | PLine => dec line | PVal => val end.
Definition render (msg file : str) (line : N) (val : str) (ps : list piece) : str :=
  flat_map (render_piece msg file line val) ps.

Definition fcase (c : fcfg) (file : option str) (line : option N) : option (list piece) :=
  match file, line with
  | None, None => f_none_none c
  | Some _, None => f_file_only c
  | None, Some _ => f_line_only c
  | Some _, Some _ => f_both c
  end.

(** [format_exc_fileinfo(msg, file, line_num)]; [None] = it raises. *)
Definition format_fileinfo (c : fcfg) (msg : str) (file : option str) (line : option N) : option str :=
  match fcase c file line with
  | Some ps => Some (render msg (match file with Some f => f | None => [] end) (match line with Some l => l | None => 0 end) [] ps)
  | None => None
  end.

(** ---- conditions on the generated texts (booleans, discharged by vm_compute on every run) ---- *)
Definition is_some {A} (o : option A) : bool := match o with Some _ => true | None => false end.
Definition cases (c : fcfg) := [f_none_none c; f_file_only c; f_line_only c; f_both c].
Definition fmt_total (c : fcfg) : bool := forallb is_some (cases c).

Definition starts_with_msg (o : option (list piece)) : bool :=
  match o with Some (PMsg :: _) => true | _ => false end.
Definition fmt_msg_first (c : fcfg) : bool := forallb starts_with_msg (cases c).

Definition fmt_plain (c : fcfg) : bool := match f_none_none c with Some [PMsg] => true | _ => false end.

Definition is_line (p : piece) : bool := match p with PLine => true | _ => false end.
Definition is_file (p : piece) : bool := match p with PFile => true | _ => false end.
Definition is_val (p : piece) : bool := match p with PVal => true | _ => false end.
Definition has (f : piece -> bool) (o : option (list piece)) : bool := match o with Some ps => existsb f ps | None => false end.
Definition fmt_line_shown (c : fcfg) : bool := has is_line (f_line_only c) && has is_line (f_both c).
Definition fmt_file_shown (c : fcfg) : bool := has is_file (f_file_only c) && has is_file (f_both c).
(** nothing but the message, the file and the line can appear (no stray value piece); no line / file where there is none *)
Definition fmt_wellformed (c : fcfg) : bool :=
  forallb (fun o => negb (has is_val o)) (cases c)
  && negb (has is_line (f_none_none c)) && negb (has is_line (f_file_only c))
  && negb (has is_file (f_none_none c)) && negb (has is_file (f_line_only c)).

(** ---- messages of [error(Token.X [, value])] ---- *)
Definition tmsgs := list (N * option (list piece) * option (list piece)).
Fixpoint tmsg_lookup (ts : tmsgs) (t : N) : option (option (list piece) * option (list piece)) :=
  match ts with
  | [] => None
  | (k, a, b) :: r => if k =? t then Some (a, b) else tmsg_lookup r t
  end.
(** [error(t)] / [error(t, v)]: [None] = raises something other than the syntax error it should build *)
Definition token_message (ts : tmsgs) (t : N) (v : option str) : option str :=
  match tmsg_lookup ts t with
  | Some (a, b) =>
      match (match v with None => a | Some _ => b end) with
      | Some ps => Some (render [] [] 0 (match v with Some x => x | None => [] end) ps)
      | None => None
      end
  | None => None
  end.
Definition tmsgs_total (ts : tmsgs) (members : list N) : bool :=
  forallb (fun t => match tmsg_lookup ts t with Some (Some _, Some _) => true | _ => false end) members.
(** only literal text and the value appear in a token message *)
Definition tmsg_pieces_ok (o : option (list piece)) : bool :=
  match o with Some ps => forallb (fun p => match p with PLit _ | PVal => true | _ => false end) ps | None => true end.
Definition tmsgs_wellformed (ts : tmsgs) : bool := forallb (fun '(_, a, b) => tmsg_pieces_ok a && tmsg_pieces_ok b && negb (has is_val a)) ts.
