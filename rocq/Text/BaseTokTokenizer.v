(** [Tokenizer] as the source under the [BaseTokenizer] layer: [_get_token] over the flat text and over the chunked
    reader state are bisimilar (Text/ProgProofs.v), hence every sequence of calls, peeks, push-backs, [expect],
    [skipping_newlines], [block] steps gives the same results — tokens, values, errors — and leaves the same
    [line_num] / [_last_was_cr], on every chunking. *)
From Coq Require Import List NArith Bool.
From SV Require Import Text.Str Text.Prog Text.ProgProofs Text.Tokenizer Text.BaseTok Text.BaseTokProofs.
Import ListNotations.

Section TK.
  Variable T : tables.
  Variable o : opts.
  Variable fuel : nat.

  Definition conv {X} (line : N) (lcr : bool) (rx : result * X) : (ptok + result) * (N * bool * X) :=
    match fst rx with
    | RTok k v line' lcr' => (inl (k, v), (line', lcr', snd rx))
    | e => (inr e, (line, lcr, snd rx))
    end.
  (** [_get_token] with [line_num] and [_last_was_cr] as part of the source state. *)
  Definition tk_get_flat (st : N * bool * str) : (ptok + result) * (N * bool * str) :=
    let '(line, lcr, l) := st in conv line lcr (run_flat (get_token T o fuel line lcr) l).
  Definition tk_get_chk (st : N * bool * chk) : (ptok + result) * (N * bool * chk) :=
    let '(line, lcr, s) := st in conv line lcr (run_chk (get_token T o fuel line lcr) s).

  Definition Rtk (a : N * bool * str) (b : N * bool * chk) : Prop :=
    fst (fst a) = fst (fst b) /\ snd (fst a) = snd (fst b) /\ R (snd a) (snd b).

  Lemma tk_get_bisim a b : Rtk a b ->
    fst (tk_get_flat a) = fst (tk_get_chk b) /\ Rtk (snd (tk_get_flat a)) (snd (tk_get_chk b)).
  Proof.
    destruct a as [[line lcr] l], b as [[line' lcr'] s]. intros [H1 [H2 H3]]. cbn [fst snd] in *. subst line' lcr'.
    unfold tk_get_flat, tk_get_chk, conv.
    destruct (chunk_independent (get_token T o fuel line lcr) l s H3) as [Hr HR].
    rewrite <- Hr. destruct HR as [Ha Hb]. destruct (fst (run_flat (get_token T o fuel line lcr) l)); cbn [fst snd]; unfold Rtk; cbn [fst snd]; repeat split; assumption.
  Qed.

  (** Any operation sequence through the BaseTokenizer layer: same results, related final states (same push-back
      list, same [line_num], same [_last_was_cr], the rest of the input denotes the same text). *)
  Theorem bt_ops_chunk_independent c ops pbl line lcr l s : R l s ->
    fst (run _ _ tk_get_flat c ops {| pb := pbl; src := (line, lcr, l) |})
    = fst (run _ _ tk_get_chk c ops {| pb := pbl; src := (line, lcr, s) |})
    /\ Rb _ _ Rtk (snd (run _ _ tk_get_flat c ops {| pb := pbl; src := (line, lcr, l) |}))
                  (snd (run _ _ tk_get_chk c ops {| pb := pbl; src := (line, lcr, s) |})).
  Proof.
    intros HR. apply (run_bisim _ _ _ tk_get_flat tk_get_chk c Rtk tk_get_bisim).
    split; [reflexivity|]. cbn [src]. unfold Rtk. cbn [fst snd]. split; [reflexivity|split; [reflexivity|exact HR]].
  Qed.

  Theorem bt_expect_chunk_independent c f want skip pbl line lcr l s : R l s ->
    fst (expect _ _ tk_get_flat c f want skip {| pb := pbl; src := (line, lcr, l) |})
    = fst (expect _ _ tk_get_chk c f want skip {| pb := pbl; src := (line, lcr, s) |}).
  Proof.
    intros HR. apply (expect_bisim _ _ _ tk_get_flat tk_get_chk c Rtk tk_get_bisim).
    split; [reflexivity|]. cbn [src]. unfold Rtk. cbn [fst snd]. split; [reflexivity|split; [reflexivity|exact HR]].
  Qed.
End TK.
