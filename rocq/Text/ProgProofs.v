(** Generic theorem: a reader program cannot tell a chunked source from the flat string it denotes. *)
From Coq Require Import List ZArith Lia Bool.
From SV Require Import Text.Str Text.Prog.
Import ListNotations.
Open Scope Z_scope.

Lemma refill_concat cs : match refill cs with
  | Some (l, r) => l <> [] /\ concat cs = l ++ concat r
  | None => concat cs = [] end.
Proof. induction cs as [|[|c t] r IH]; simpl; auto. split; [discriminate|reflexivity]. Qed.

Lemma nthZ_skipn l i c : 0 <= i -> nthZ l i = Some c -> dropZ i l = c :: dropZ (i+1) l.
Proof.
  unfold nthZ, dropZ. intros Hi. destruct (i <? 0) eqn:E; [lia|].
  replace (Z.to_nat (i+1)) with (S (Z.to_nat i)) by lia.
  generalize (Z.to_nat i). clear. intros n; revert l; induction n; destruct l; simpl; try discriminate; intros H.
  - now inversion H.
  - now apply IHn.
Qed.

Lemma nthZ_none l i : 0 <= i -> nthZ l i = None -> Z.of_nat (length l) <= i /\ dropZ i l = [].
Proof.
  unfold nthZ, dropZ. intros Hi. destruct (i <? 0) eqn:E; [lia|]. intros H.
  apply nth_error_None in H. split; [lia|]. apply skipn_all2. lia.
Qed.

(** One read, optionally followed by the push-back, keeps the two sources related. *)
Lemma next_sim (u : option char -> bool) l s : R l s ->
  let '(c1, l') := fnext l in let '(c2, s') := cnext s in
  c1 = c2 /\ R (if u c1 then fback c1 l' else l') (if u c1 then cunread s' else s').
Proof.
  intros [Hlo Hl]. unfold fnext, cnext.
  destruct (nthZ (cur s) (idx s + 1)) as [c|] eqn:En.
  - (* inside the current chunk *)
    assert (Hrest : l = c :: dropZ (idx s + 1 + 1) (cur s) ++ concat (more s)).
    { rewrite Hl. unfold absr. rewrite (nthZ_skipn (cur s) (idx s + 1) c ltac:(lia) En). reflexivity. }
    rewrite Hrest. split; [reflexivity|].
    destruct (u (Some c)); unfold R, absr, cunread; cbn [cur idx more fback].
    + split; [lia|]. replace (idx s + 1 - 1 + 1) with (idx s + 1) by lia.
      rewrite (nthZ_skipn (cur s) (idx s + 1) c ltac:(lia) En). reflexivity.
    + split; [lia|]. reflexivity.
  - (* past the end of the chunk: refill from the iterator *)
    destruct (nthZ_none (cur s) (idx s + 1) ltac:(lia) En) as [Hge Hdrop].
    pose proof (refill_concat (more s)) as Hrf.
    assert (Hrest : l = concat (more s)).
    { rewrite Hl. unfold absr. now rewrite Hdrop. }
    destruct (refill (more s)) as [[[|c t] r]|].
    + destruct Hrf as [Hne _]; congruence.
    + destruct Hrf as [_ Hc]. rewrite Hrest, Hc. cbn [app]. split; [reflexivity|].
      destruct (u (Some c)); unfold R, absr, cunread, dropZ; cbn [cur idx more fback]; split; try lia; reflexivity.
    + rewrite Hrest, Hrf. split; [reflexivity|].
      destruct (u None); unfold R, absr, cunread; cbn [cur idx more fback concat]; split; try lia.
      * replace (idx s + 1 - 1 + 1) with (idx s + 1) by lia. now rewrite Hdrop.
      * pose proof (Zle_0_nat (length (cur s))).
        unfold dropZ. rewrite skipn_all2 by lia. reflexivity.
Qed.

Theorem chunk_independent {A} (p : Prog A) : forall l s, R l s ->
  fst (run_flat p l) = fst (run_chk p s) /\ R (snd (run_flat p l)) (snd (run_chk p s)).
Proof.
  induction p as [a|u k IH]; intros l s HR; cbn [run_flat run_chk].
  - auto.
  - pose proof (next_sim u l s HR) as Hn. destruct (fnext l) as [c1 l1], (cnext s) as [c2 s1].
    destruct Hn as [<- HR1]. apply IH, HR1.
Qed.

Lemma R_of_str s : R s (chk_of_str s).
Proof. unfold R, absr, chk_of_str, dropZ; cbn. split; [lia|]. now rewrite app_nil_r. Qed.

Lemma R_of_chunks cs : R (concat cs) (chk_of_chunks cs).
Proof. unfold R, absr, chk_of_chunks, dropZ; cbn. split; [lia|reflexivity]. Qed.

Lemma run_flat_bind {A B} (p : Prog A) (f : A -> Prog B) : forall l,
  run_flat (bind p f) l = let '(a, l') := run_flat p l in run_flat (f a) l'.
Proof.
  induction p as [a|u k IH]; intros l; cbn [bind run_flat].
  - reflexivity.
  - destruct (fnext l) as [c l1]. apply IH.
Qed.
