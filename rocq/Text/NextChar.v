(** Text layer: [Tokenizer._next_char] as a table (round 4), and chunk sources that are not texts.

    translate/c03_nextchar.py reads the fast path of [_next_char] and executes its refill part on abstract values, once for
    every thing the chunk iterator can do next; the result is Gen/NextChar_gen.v ([nc_fast_path], [nc_rows]).  This file
    gives such a table a meaning over *extended* chunk sources - the iterator may yield a [str], a [bytes] object, another
    object, or raise [UnicodeDecodeError] / another exception - and proves that for a table with the model's rows

    * on a source of [str] chunks the function IS [Prog.cnext], the reader that every chunk-independence theorem is about;
    * the first thing that is not a [str] is answered precisely: ValueError for a bytes / non-str object (such a source is
      not a text: outside the property), the tokenizer's own error for [UnicodeDecodeError] (a file in the wrong encoding
      is covered by "TokenSyntaxError and nothing else"), and any other exception of the iterator propagates unchanged. *)
From Coq Require Import List ZArith NArith Bool Lia.
From SV Require Import Text.Str Text.Prog.
Import ListNotations.

Inductive item := IStr (s : str) | IBytes | INonStr | IDecodeErr | IOtherErr.
Record xchk := { xcur : str; xidx : Z; xmore : list item }.
Inductive xres := XChar (c : option char) | XValueError | XDecodeError | XPropagates | XBad.

Definition item_class (it : item) : N :=
  match it with IBytes => 0 | INonStr => 1 | IStr [] => 2 | IStr (_ :: _) => 3 | IDecodeErr => 5 | IOtherErr => 6 end%N.

(** The refill loop under a table [tb] (class of what the iterator does -> action). *)
Fixpoint xfill (tb : N -> N) (cur : str) (i : Z) (items : list item) : xres * xchk :=
  match items with
  | [] => match tb 4%N with
          | 3%N => (XChar None, {| xcur := cur; xidx := i; xmore := [] |})
          | _ => (XBad, {| xcur := cur; xidx := i; xmore := [] |}) end
  | it :: r =>
    match tb (item_class it), it with
    | 0%N, _ => xfill tb cur i r
    | 1%N, IStr (c :: t) => (XChar (Some c), {| xcur := c :: t; xidx := 0; xmore := r |})
    | 2%N, _ => (XValueError, {| xcur := cur; xidx := i; xmore := r |})
    | 4%N, _ => (XDecodeError, {| xcur := cur; xidx := i; xmore := r |})
    | 5%N, _ => (XPropagates, {| xcur := cur; xidx := i; xmore := r |})
    | _, _ => (XBad, {| xcur := cur; xidx := i; xmore := r |})
    end
  end.

(** [_next_char] under a table: the fast path, then the refill loop. *)
Definition xnext (tb : N -> N) (s : xchk) : xres * xchk :=
  let i := (xidx s + 1)%Z in
  match nthZ (xcur s) i with
  | Some c => (XChar (Some c), {| xcur := xcur s; xidx := i; xmore := xmore s |})
  | None => xfill tb (xcur s) i (xmore s)
  end.

(** The rows of the model. *)
Definition nc_spec (k : N) : N := match k with 0 => 2 | 1 => 2 | 2 => 0 | 3 => 1 | 4 => 3 | 5 => 4 | 6 => 5 | _ => 9 end%N.
Definition nc_tb (rows : list (N * N)) (k : N) : N := match lookup k rows with Some a => a | None => 9%N end.
Definition nc_rows_ok (fast : N) (rows : list (N * N)) : bool :=
  (fast =? 1)%N && forallb (fun k => (nc_tb rows k =? nc_spec k)%N) [0; 1; 2; 3; 4; 5; 6]%N.

(** Embedding of the plain reader state. *)
Definition xof (s : chk) : xchk := {| xcur := cur s; xidx := idx s; xmore := map IStr (more s) |}.

Lemma rows_ok_at fast rows : nc_rows_ok fast rows = true -> forall it, nc_tb rows (item_class it) = nc_spec (item_class it).
Proof.
  unfold nc_rows_ok. intros H. apply andb_true_iff in H. destruct H as [_ H]. rewrite forallb_forall in H.
  intros it. apply N.eqb_eq, H. destruct it as [[|c t]| | | |]; cbn; tauto.
Qed.
Lemma rows_ok_exhausted fast rows : nc_rows_ok fast rows = true -> nc_tb rows 4%N = 3%N.
Proof.
  unfold nc_rows_ok. intros H. apply andb_true_iff in H. destruct H as [_ H]. rewrite forallb_forall in H.
  apply N.eqb_eq, (H 4%N). cbn. tauto.
Qed.

(** On [str] chunks the refill loop is [Prog.refill] ... *)
Lemma xfill_strs fast rows : nc_rows_ok fast rows = true -> forall cs cur0 i,
  xfill (nc_tb rows) cur0 i (map IStr cs) =
  match refill cs with
  | Some (c :: t, r) => (XChar (Some c), {| xcur := c :: t; xidx := 0; xmore := map IStr r |})
  | _ => (XChar None, {| xcur := cur0; xidx := i; xmore := [] |})
  end.
Proof.
  intros H. induction cs as [|[|c t] r IH]; intros cur0 i; cbn [map xfill refill].
  - now rewrite (rows_ok_exhausted fast rows H).
  - rewrite (rows_ok_at fast rows H (IStr [])). cbn [item_class nc_spec]. apply IH.
  - rewrite (rows_ok_at fast rows H (IStr (c :: t))). reflexivity.
Qed.

(** ... so [_next_char] as written IS the reader [cnext] of the model. *)
Theorem xnext_is_cnext fast rows : nc_rows_ok fast rows = true -> forall s,
  xnext (nc_tb rows) (xof s) = (XChar (fst (cnext s)), xof (snd (cnext s))).
Proof.
  intros H s. unfold xnext, cnext, xof. cbn [xcur xidx xmore].
  destruct (nthZ (cur s) (idx s + 1)) as [c|]; [reflexivity|].
  rewrite (xfill_strs fast rows H). destruct (refill (more s)) as [[[|c t] r]|]; reflexivity.
Qed.

(** The first thing that is not a [str], after any number of empty chunks, at the end of the current chunk. *)
Definition at_end (s : xchk) : Prop := nthZ (xcur s) (xidx s + 1) = None.
Theorem xnext_first_bad fast rows : nc_rows_ok fast rows = true -> forall s n it r,
  at_end s -> xmore s = repeat (IStr []) n ++ it :: r ->
  fst (xnext (nc_tb rows) s) =
  match it with
  | IBytes | INonStr => XValueError
  | IDecodeErr => XDecodeError
  | IOtherErr => XPropagates
  | IStr [] => fst (xnext (nc_tb rows) {| xcur := xcur s; xidx := xidx s; xmore := r |})
  | IStr (c :: _) => XChar (Some c)
  end.
Proof.
  intros H s n it r He Hm. unfold xnext. unfold at_end in He. rewrite He, Hm. cbn [xcur xidx xmore]. rewrite He. clear Hm.
  induction n as [|n IH]; cbn [repeat app xfill].
  - rewrite (rows_ok_at fast rows H it). destruct it as [[|c t]| | | |]; reflexivity.
  - rewrite (rows_ok_at fast rows H (IStr [])). cbn [item_class nc_spec]. exact IH.
Qed.

(** Non-vacuity and a refutation: the model's own rows pass; a table that skips non-str objects (instead of raising) is
    rejected and silently drops the object. *)
Definition nc_rows_of_spec : list (N * N) := map (fun k => (k, nc_spec k)) [0; 1; 2; 3; 4; 5; 6]%N.
Definition nc_rows_bad : list (N * N) := [(0, 2); (1, 0); (2, 0); (3, 1); (4, 3); (5, 5); (6, 5)]%N.
Lemma nc_spec_rows_ok : nc_rows_ok 1 nc_rows_of_spec = true.
Proof. vm_compute. reflexivity. Qed.
Lemma nc_rows_bad_refuted :
  nc_rows_ok 1 nc_rows_bad = false
  /\ fst (xnext (nc_tb nc_rows_bad) {| xcur := []; xidx := -1; xmore := [INonStr; IStr [65%N]] |}) = XChar (Some 65%N)
  /\ fst (xnext (nc_tb nc_rows_bad) {| xcur := []; xidx := -1; xmore := [IDecodeErr] |}) = XPropagates.
Proof. vm_compute. repeat split; reflexivity. Qed.
