(** The error-text model instantiated with the texts regenerated from tokenizer.py (Gen/ErrFmt_gen.v): the instance
    obligations of the check and the evaluation helpers of its correspondence. No theorems. *)
From Coq Require Import List NArith Bool.
From SV Require Import Text.Str Text.ErrFmt Gen.ErrFmt_gen Text.TokEnum.
Import ListNotations.
Open Scope N_scope.

Definition fileinfo_never_raises : bool := fmt_total gen_fcfg.
Definition fileinfo_starts_with_the_message : bool := fmt_msg_first gen_fcfg.
Definition fileinfo_is_the_message_without_file_and_line : bool := fmt_plain gen_fcfg.
Definition fileinfo_shows_the_line : bool := fmt_line_shown gen_fcfg.
Definition fileinfo_shows_the_file : bool := fmt_file_shown gen_fcfg.
Definition fileinfo_pieces_wellformed : bool := fmt_wellformed gen_fcfg.
Definition every_token_has_a_message : bool := tmsgs_total gen_token_messages gen_token_members.
Definition token_messages_wellformed : bool := tmsgs_wellformed gen_token_messages.

Definition enc_opt (o : option str) : list N := match o with None => [0] | Some s => 1 :: s end.
(** one case of the correspondence: [format_exc_fileinfo(msg, file, line)] *)
Definition fileinfo_case (x : str * option str * option N) : list N :=
  let '(msg, file, line) := x in enc_opt (format_fileinfo gen_fcfg msg file line).
(** [error(Token(t) [, v]).mess] *)
Definition tokmsg_case (x : N * option str) : list N := let '(t, v) := x in enc_opt (token_message gen_token_messages t v).
(** [str(error(Token(t) [, v]))] for a tokenizer with file name [file] at line [line] *)
Definition tokerr_text_case (x : N * option str * option str * N) : list N :=
  let '(t, v, file, line) := x in
  match token_message gen_token_messages t v with
  | Some m => enc_opt (format_fileinfo gen_fcfg m file (Some line))
  | None => [0]
  end.
(** 63-bit checksums of the cases (the texts are long; printing them dominates the run time) *)
Definition hcase (xs : list N) := hfin (hash_list xs).
