(** Proofs about the text of a tokenizer error (model: Text/ErrFmt.v), generic over the generated texts. *)
From Coq Require Import List NArith ZArith Bool Lia.
From SV Require Import Text.Str Text.Prog Text.Tokenizer Text.TokenizerProofs Text.ErrFmt.
Import ListNotations.
Open Scope N_scope.

Lemma forallb_cases (f : option (list piece) -> bool) c :
  forallb f (cases c) = true -> f (f_none_none c) = true /\ f (f_file_only c) = true /\ f (f_line_only c) = true /\ f (f_both c) = true.
Proof.
  unfold cases. cbn [forallb]. rewrite !andb_true_iff. tauto.
Qed.

Lemma fcase_in_cases c file line : In (fcase c file line) (cases c).
Proof. unfold fcase, cases. destruct file, line; cbn; tauto. Qed.

(** [format_exc_fileinfo] never raises (in particular its AssertionError branch is unreachable). *)
Theorem fileinfo_total c : fmt_total c = true -> forall msg file line, format_fileinfo c msg file line <> None.
Proof.
  intros H msg file line. unfold fmt_total in H. rewrite forallb_forall in H.
  specialize (H _ (fcase_in_cases c file line)). unfold format_fileinfo.
  destruct (fcase c file line); [discriminate|discriminate H].
Qed.

(** The text starts with the message, whatever file and line are. *)
Theorem fileinfo_starts_with_message c : fmt_msg_first c = true ->
  forall msg file line s, format_fileinfo c msg file line = Some s -> exists rest, s = msg ++ rest.
Proof.
  intros H msg file line s. unfold fmt_msg_first in H. rewrite forallb_forall in H.
  specialize (H _ (fcase_in_cases c file line)). unfold format_fileinfo.
  destruct (fcase c file line) as [[|[] ps]|]; try discriminate H. intros E. injection E as <-.
  eexists. cbn. reflexivity.
Qed.

(** Without file and line the text IS the message. *)
Theorem fileinfo_plain c : fmt_plain c = true -> forall msg, format_fileinfo c msg None None = Some msg.
Proof.
  unfold fmt_plain, format_fileinfo. cbn. intros H msg. destruct (f_none_none c) as [[|[] [|? ?]]|]; try discriminate H.
  cbn. rewrite app_nil_r. reflexivity.
Qed.

Lemma render_has f msg file line val ps : existsb f ps = true ->
  exists p a b, f p = true /\ render msg file line val ps = a ++ render_piece msg file line val p ++ b.
Proof.
  induction ps as [|q ps IH]; cbn; [discriminate|]. rewrite orb_true_iff. intros [H|H].
  - exists q, [], (render msg file line val ps). split; [exact H|reflexivity].
  - destruct (IH H) as (p & a & b & Hp & E). exists p, (render_piece msg file line val q ++ a), b. split; [exact Hp|].
    unfold render in E. rewrite E. rewrite <- app_assoc. reflexivity.
Qed.

(** A line number that is given appears in the text, in decimal. *)
Theorem fileinfo_shows_line c : fmt_line_shown c = true ->
  forall msg file n s, format_fileinfo c msg file (Some n) = Some s -> exists a b, s = a ++ dec n ++ b.
Proof.
  unfold fmt_line_shown. rewrite andb_true_iff. intros [H1 H2] msg file n s. unfold format_fileinfo.
  assert (Hc : has is_line (fcase c file (Some n)) = true) by (destruct file; cbn; assumption).
  destruct (fcase c file (Some n)) as [ps|]; [|discriminate]. intros E. injection E as <-. cbn in Hc.
  destruct (render_has _ msg (match file with Some f => f | None => [] end) n [] ps Hc) as (p & a & b & Hp & E).
  destruct p; try discriminate Hp. exists a, b. exact E.
Qed.

(** A file name that is given appears in the text. *)
Theorem fileinfo_shows_file c : fmt_file_shown c = true ->
  forall msg f line s, format_fileinfo c msg (Some f) line = Some s -> exists a b, s = a ++ f ++ b.
Proof.
  unfold fmt_file_shown. rewrite andb_true_iff. intros [H1 H2] msg f line s. unfold format_fileinfo.
  assert (Hc : has is_file (fcase c (Some f) line) = true) by (destruct line; cbn; assumption).
  destruct (fcase c (Some f) line) as [ps|]; [|discriminate]. intros E. injection E as <-. cbn in Hc.
  destruct (render_has _ msg f (match line with Some l => l | None => 0 end) [] ps Hc) as (p & a & b & Hp & E).
  destruct p; try discriminate Hp. exists a, b. exact E.
Qed.

(** The decimal rendering consists of digits and is never empty. *)
Lemma dec_aux_digits fuel : forall n acc, Forall (fun c => 48 <= c <= 57) acc -> Forall (fun c => 48 <= c <= 57) (dec_aux fuel n acc).
Proof.
  induction fuel as [|f IH]; intros n acc H; cbn [dec_aux]; [exact H|].
  assert (Hd : Forall (fun c => 48 <= c <= 57) ((48 + n mod 10) :: acc)).
  { constructor; [|exact H]. pose proof (N.mod_upper_bound n 10 ltac:(discriminate)) as Hm. generalize dependent (n mod 10). intros m Hm. lia. }
  destruct (n / 10 =? 0); [exact Hd|apply IH, Hd].
Qed.
Theorem dec_digits n : Forall (fun c => 48 <= c <= 57) (dec n).
Proof. apply dec_aux_digits. constructor. Qed.
Lemma dec_aux_nonempty fuel : forall n acc, dec_aux (S fuel) n acc <> [].
Proof.
  induction fuel as [|f IH]; intros n acc.
  - cbn. destruct (n / 10 =? 0); discriminate.
  - cbn [dec_aux]. destruct (n / 10 =? 0); [discriminate|apply IH].
Qed.
Theorem dec_nonempty n : dec n <> [].
Proof. apply dec_aux_nonempty. Qed.

(** [error(Token.X)] / [error(Token.X, value)] builds a message for every member of [Token]. *)
Theorem token_message_total ts members : tmsgs_total ts members = true ->
  forall t v, In t members -> token_message ts t v <> None.
Proof.
  intros H t v Hin. unfold tmsgs_total in H. rewrite forallb_forall in H. specialize (H t Hin).
  unfold token_message. destruct (tmsg_lookup ts t) as [[[a|] [b|]]|]; try discriminate H. destruct v; discriminate.
Qed.

(** ---- the text of the error a tokenizer run ends with ---- *)
(** [msgf] = the message text of an error site with its arguments (any function); [file] = the tokenizer's file name. *)
Definition err_text (c : fcfg) (msgf : err -> str -> str) (file : option str) (r : result) : option str :=
  match r with
  | RErr e a line => format_fileinfo c (msgf e a) file (Some line)
  | _ => None
  end.

(** The text of the error ([str(exc)]: message, line, file) is the same for every chunking of the input. *)
Theorem error_text_any_chunking c msgf file T o n fuel cs :
  map (err_text c msgf file) (tokens_chk T o n fuel 1 false (chk_of_chunks cs))
  = map (err_text c msgf file) (tokens_chk T o n fuel 1 false (chk_of_str (concat cs))).
Proof. rewrite tokens_any_chunking. reflexivity. Qed.

(** ... it exists (formatting the error cannot itself fail), starts with the message and shows the line of the error. *)
Theorem error_text_shape c msgf file e a line : fmt_total c = true -> fmt_msg_first c = true -> fmt_line_shown c = true ->
  exists s rest x y, err_text c msgf file (RErr e a line) = Some s /\ s = msgf e a ++ rest /\ s = x ++ dec line ++ y.
Proof.
  intros Ht Hm Hl. cbn [err_text].
  destruct (format_fileinfo c (msgf e a) file (Some line)) as [s|] eqn:E; [|exfalso; exact (fileinfo_total c Ht _ _ _ E)].
  destruct (fileinfo_starts_with_message c Hm _ _ _ _ E) as [rest Hr].
  destruct (fileinfo_shows_line c Hl _ _ _ _ E) as (x & y & Hxy).
  exists s, rest, x, y. auto.
Qed.
