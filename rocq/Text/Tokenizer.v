(** Text layer, part 4: model of [srctools.tokenizer.Tokenizer] (pure-Python twin), written as reader programs.

    Mirrors [_get_token], [_handle_comment], [_handle_string] and the bracket / parenthesis / directive / bare-string
    loops branch by branch, over the seven boolean options, with [line_num] and [_last_was_cr] threaded explicitly.
    Errors are values [RErr id arg line] ([line] = [self.line_num] when [self.error] is called).  Every loop takes
    fuel; [RFuel] is excluded by [TokenizerProofs.get_token_total] (fuel [length input + 2] always suffices).
    Not modelled: the push-back stack of [BaseTokenizer] (token level, above [_get_token]), file names,
    message texts (errors are identified by site). *)
From Coq Require Import List NArith Bool.
From SV Require Import Text.Str Text.Prog.
Import ListNotations.
Open Scope N_scope.

Record opts := {
  string_bracket : bool; string_parens : bool; allow_escapes : bool; allow_star_comments : bool;
  preserve_comments : bool; colon_operator : bool; plus_operator : bool }.

(** Error sites (the only failure values the model has: all are raised through [self.error], i.e. are
    [TokenSyntaxError]s of the tokenizer's [error_type]). *)
Inductive err :=
| E_UNTERM_STRING      (* 'Unterminated string!' *)
| E_NO_ESCAPE          (* 'No character to escape!' *)
| E_EOL_BRACK          (* 'Reached end of line without closing "]"!' *)
| E_NEST_BRACK         (* 'Cannot nest [] brackets!' *)
| E_UNTERM_FLAG        (* 'Unterminated property flag!...' *)
| E_NEST_PAREN         (* 'Cannot nest () brackets!' *)
| E_UNTERM_PAREN       (* 'Unterminated parentheses!' *)
| E_CLOSE_BRACK        (* 'No open [] to close with "]"!' *)
| E_CLOSE_PAREN        (* 'No open () to close with ")"!' *)
| E_UNEXPECTED_CHAR    (* 'Unexpected character "{}"!', arg = the character *)
| E_UNCLOSED_STAR      (* 'Unclosed /* comment (starting on line {})!', arg = the line *)
| E_STAR_NOT_ALLOWED   (* '/**/-style comments are not allowed!' *)
| E_SINGLE_SLASH_STAR  (* 'Single slash found, instead of two for a comment (// or /* */)!' *)
| E_SINGLE_SLASH.      (* 'Single slash found, instead of two for a comment (//)!' *)

Inductive result :=
| RTok (kind : tok) (val : str) (line : N) (lcr : bool)   (* token, value, line_num and _last_was_cr afterwards *)
| RErr (e : err) (arg : list N) (line : N)
| RFuel.

(** Outcome of [_handle_comment]: [None] (comment swallowed; the line counter may have advanced) or a final result. *)
Inductive cres := CSwallow (line : N) | CDone (r : result).

Section Tok.
Variable T : tables.
Variable o : opts.

Definition is_delim (c : char) : bool :=
  mem c (bare_disallowed T) || ((c =? COLONC) && colon_operator o) || ((c =? PLUSC) && plus_operator o).

(** [_handle_string]: the opening quote has been read. [lcr] is the function's local [last_was_cr]. *)
Fixpoint handle_string (f : nat) (acc : str) (lcr : bool) (line : N) : Prog result :=
  match f with O => Ret RFuel | S f' =>
  Next keep (fun oc => match oc with
    | None => Ret (RErr E_UNTERM_STRING [] line)
    | Some c =>
      if c =? DQ then Ret (RTok STRING (rev acc) line false)
      else if c =? CR then handle_string f' (LF :: acc) true (line + 1)
      else if c =? LF then
        (if lcr then handle_string f' acc false line else handle_string f' (LF :: acc) false (line + 1))
      else if (c =? BS) && allow_escapes o then
        Next keep (fun oe => match oe with
          | None => Ret (RErr E_NO_ESCAPE [] line)
          | Some e =>
            if e =? LF then handle_string f' acc false line
            else match lookup e (esc_table T) with
                 | Some x => handle_string f' (x :: acc) false line
                 | None => handle_string f' (e :: BS :: acc) false line
                 end
          end)
      else handle_string f' (c :: acc) false line
    end)
  end.

(** The [[...]] loop of [_get_token] (only with [string_bracket]). *)
Fixpoint brack_loop (f : nat) (acc : str) (line : N) : Prog result :=
  match f with O => Ret RFuel | S f' =>
  Next keep (fun oc => match oc with
    | None => Ret (RErr E_UNTERM_FLAG [] line)
    | Some c =>
      if c =? RBRACK then Ret (RTok PROP_FLAG (rev acc) line false)
      else if c =? LF then Ret (RErr E_EOL_BRACK [] line)
      else if c =? LBRACK then Ret (RErr E_NEST_BRACK [] line)
      else brack_loop f' (c :: acc) line
    end)
  end.

(** The [(...)] loop (only with [string_parens]). *)
Fixpoint paren_loop (f : nat) (acc : str) (line : N) : Prog result :=
  match f with O => Ret RFuel | S f' =>
  Next keep (fun oc => match oc with
    | None => Ret (RErr E_UNTERM_PAREN [] line)
    | Some c =>
      if c =? RPAREN then Ret (RTok PAREN_ARGS (rev acc) line false)
      else if c =? LF then paren_loop f' (c :: acc) (line + 1)
      else if c =? LPAREN then Ret (RErr E_NEST_PAREN [] line)
      else paren_loop f' (c :: acc) line
    end)
  end.

Definition unread_delim (oc : option char) : bool := match oc with Some c => is_delim c | None => false end.

(** [#directive] loop: the terminating character is pushed back; characters are case-folded. *)
Fixpoint directive_loop (f : nat) (acc : str) (line : N) : Prog result :=
  match f with O => Ret RFuel | S f' =>
  Next unread_delim (fun oc => match oc with
    | None => Ret (RTok DIRECTIVE (rev acc) line false)
    | Some c =>
      if is_delim c then Ret (RTok DIRECTIVE (rev acc) line false)
      else directive_loop f' (rev (casefold T c) ++ acc) line
    end)
  end.

(** Bare-string loop. *)
Fixpoint bare_loop (f : nat) (acc : str) (line : N) : Prog result :=
  match f with O => Ret RFuel | S f' =>
  Next unread_delim (fun oc => match oc with
    | None => Ret (RTok STRING (rev acc) line false)
    | Some c =>
      if is_delim c then Ret (RTok STRING (rev acc) line false)
      else bare_loop f' (c :: acc) line
    end)
  end.

Definition comment_end (acc : str) (line : N) : cres :=
  if preserve_comments o then CDone (RTok COMMENT (rev acc) line false) else CSwallow line.

(** [// ...]: up to (not including) the next LF or the end of input; that terminator is pushed back. *)
Fixpoint line_comment (f : nat) (acc : str) (line : N) : Prog cres :=
  match f with O => Ret (CDone RFuel) | S f' =>
  Next (fun oc => match oc with Some c => c =? LF | None => true end) (fun oc => match oc with
    | None => Ret (comment_end acc line)
    | Some c => if c =? LF then Ret (comment_end acc line) else line_comment f' (c :: acc) line
    end)
  end.

(** [/* ... */]: a star is never added to the buffer; the character after a star that is not a slash is
    pushed back and read again. *)
Fixpoint star_comment (f : nat) (acc : str) (line start : N) : Prog cres :=
  match f with O => Ret (CDone RFuel) | S f' =>
  Next keep (fun oc => match oc with
    | None => Ret (CDone (RErr E_UNCLOSED_STAR [start] line))
    | Some c =>
      if c =? LF then star_comment f' (c :: acc) (line + 1) start
      else if c =? STAR then
        Next (fun od => match od with Some d => negb (d =? SLASH) | None => false end) (fun od => match od with
          | None => Ret (CDone (RErr E_UNCLOSED_STAR [start] line))
          | Some d => if d =? SLASH then Ret (comment_end acc line) else star_comment f' acc line start
          end)
      else star_comment f' (c :: acc) line start
    end)
  end.

(** [_handle_comment]: the initial slash has been read. *)
Definition handle_comment (f : nat) (line : N) : Prog cres :=
  Next keep (fun oc =>
    let single := Ret (CDone (RErr (if allow_star_comments o then E_SINGLE_SLASH_STAR else E_SINGLE_SLASH) [] line)) in
    match oc with
    | None => single
    | Some c =>
      if c =? STAR then
        (if allow_star_comments o then star_comment f [] line line else Ret (CDone (RErr E_STAR_NOT_ALLOWED [] line)))
      else if c =? SLASH then line_comment f [] line
      else single
    end).

(** [_get_token]. [line] = [self.line_num], [lcr] = [self._last_was_cr]. *)
Fixpoint get_token (f : nat) (line : N) (lcr : bool) : Prog result :=
  match f with O => Ret RFuel | S f' =>
  Next keep (fun oc => match oc with
    | None => Ret (RTok EOF [] line lcr)
    | Some c =>
      match lookup c (operators T) with
      | Some t => Ret (RTok t [c] line lcr)     (* returns before _last_was_cr is touched *)
      | None =>
        if c =? CR then Ret (RTok NEWLINE [LF] (line + 1) true)
        else if c =? LF then
          (if lcr then get_token f' line false else Ret (RTok NEWLINE [LF] (line + 1) false))
        else if (c =? SP) || (c =? TAB) then get_token f' line false
        else if c =? SLASH then
          bind (handle_comment f' line) (fun r => match r with
            | CSwallow line' => get_token f' line' false
            | CDone r' => Ret r' end)
        else if c =? DQ then handle_string f' [] false line
        else if c =? LBRACK then
          (if string_bracket o then brack_loop f' [] line else Ret (RTok BRACK_OPEN [c] line false))
        else if c =? LPAREN then
          (if string_parens o then paren_loop f' [] line else Ret (RTok PAREN_OPEN [c] line false))
        else if (c =? BOM) && (line =? 1) then get_token f' line false
        else if (c =? COLONC) && colon_operator o then Ret (RTok COLON [c] line false)
        else if (c =? PLUSC) && plus_operator o then Ret (RTok PLUS [c] line false)
        else if c =? RBRACK then
          (if string_bracket o then Ret (RErr E_CLOSE_BRACK [] line) else Ret (RTok BRACK_CLOSE [c] line false))
        else if c =? RPAREN then
          (if string_parens o then Ret (RErr E_CLOSE_PAREN [] line) else Ret (RTok PAREN_CLOSE [c] line false))
        else if c =? HASH then directive_loop f' [] line
        else if negb (mem c (bare_disallowed T)) then bare_loop f' [c] line
        else Ret (RErr E_UNEXPECTED_CHAR [c] line)
      end
    end)
  end.

(** Repeated calls [tok()], [n] times or until the first error; flat source. *)
Fixpoint tokens_flat (n fuel : nat) (line : N) (lcr : bool) (l : str) : list result :=
  match n with O => [] | S n' =>
    let '(r, l') := run_flat (get_token fuel line lcr) l in
    match r with
    | RTok _ _ line' lcr' => r :: tokens_flat n' fuel line' lcr' l'
    | _ => [r]
    end
  end.

(** The same over the chunked reader state of the real class. *)
Fixpoint tokens_chk (n fuel : nat) (line : N) (lcr : bool) (s : chk) : list result :=
  match n with O => [] | S n' =>
    let '(r, s') := run_chk (get_token fuel line lcr) s in
    match r with
    | RTok _ _ line' lcr' => r :: tokens_chk n' fuel line' lcr' s'
    | _ => [r]
    end
  end.

End Tok.
