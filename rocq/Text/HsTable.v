(** Text layer: [Tokenizer._handle_string] as a decision table (round 3).

    translate/c02_hstring.py executes the loop body of [_handle_string] on abstract values, once for every combination the
    body can distinguish, and emits one row per combination (Gen/HsRows_gen.v).  This file gives such a table a meaning
    ([hs_interp]: a reader program, like the hand model), states which table the hand model [Tokenizer.handle_string]
    corresponds to ([hs_spec]) and the boolean condition [hs_rows_ok] "the rows read from the source are those".
    HsTableProofs.v proves that under this condition the table's interpretation IS the hand model on every input. *)
From Coq Require Import List NArith Bool.
From SV Require Import Text.Str Text.Prog Text.Tokenizer.
Import ListNotations.
Open Scope N_scope.

(** (reads a second character, line_num increments, new flag, appended items, how the iteration ends) *)
Definition hout := (bool * N * bool * list N * N)%type.
(** (class of the character, flag [last_was_cr], [allow_escapes], class of the second character or 0) *)
Definition hkey := (N * bool * bool * N)%type.

Definition o_reads (r : hout) : bool := let '(a, _, _, _, _) := r in a.

(** Class of the character read first: 0 double quote, 1 CR, 2 LF, 3 backslash, 4 end of input, 5 anything else. *)
Definition classify (oc : option char) : N :=
  match oc with
  | None => 4
  | Some c => if c =? DQ then 0 else if c =? CR then 1 else if c =? LF then 2 else if c =? BS then 3 else 5
  end.

Section HS.
Variable T : tables.
Variable o : opts.

(** Class of the character after a backslash: 1 end of input, 2 LF, 3 a key of ESCAPES, 4 anything else. *)
Definition eclassify (oe : option char) : N :=
  match oe with
  | None => 1
  | Some e => if e =? LF then 2 else match lookup e (esc_table T) with Some _ => 3 | None => 4 end
  end.

(** [value_chars.append(x)]: 1 a line feed, 2 the character read, 3 [ESCAPES[second]], 4 backslash + second. *)
Definition apply_app (oc oe : option char) (acc : str) (a : N) : str :=
  match a with
  | 1 => LF :: acc
  | 2 => match oc with Some c => c :: acc | None => acc end
  | 3 => match oe with
         | Some e => match lookup e (esc_table T) with Some x => x :: acc | None => acc end
         | None => acc end
  | 4 => match oe with Some e => e :: BS :: acc | None => acc end
  | _ => acc
  end.

(** The meaning of a table: one loop iteration = read a character, look its row up, read a second character if the
    row says so and look the row of the pair up, then do what that row says. *)
Fixpoint hs_interp (tb : hkey -> hout) (f : nat) (acc : str) (lcr : bool) (line : N) : Prog result :=
  match f with O => Ret RFuel | S f' =>
  Next keep (fun oc =>
    let fin (r : hout) (oe : option char) : Prog result :=
      let '(_, dl, lcr', apps, ex) := r in
      let acc' := fold_left (apply_app oc oe) apps acc in
      match ex with
      | 0 => hs_interp tb f' acc' lcr' (line + dl)
      | 1 => Ret (RTok STRING (rev acc') (line + dl) false)
      | 2 => Ret (RErr E_UNTERM_STRING [] (line + dl))
      | 3 => Ret (RErr E_NO_ESCAPE [] (line + dl))
      | _ => Ret RFuel
      end in
    let r0 := tb (classify oc, lcr, allow_escapes o, 0) in
    if o_reads r0
    then Next keep (fun oe => fin (tb (classify oc, lcr, allow_escapes o, eclassify oe)) oe)
    else fin r0 None)
  end.

End HS.

(** The table of the hand model [Tokenizer.handle_string]. *)
Definition hs_spec (k : hkey) : hout :=
  let '(c, lcr, ae, e) := k in
  match c with
  | 0 => (false, 0, false, [], 1)                                   (* closing quote: return STRING *)
  | 1 => (false, 1, true, [1], 0)                                   (* CR: counts a line, is stored as LF, sets the flag *)
  | 2 => if lcr then (false, 0, false, [], 0)                       (* LF after CR: swallowed *)
         else (false, 1, false, [2], 0)                             (* LF: counts a line *)
  | 3 => if ae then
           match e with
           | 0 => (true, 0, false, [], 0)                           (* backslash with escapes: read the next character *)
           | 1 => (true, 0, false, [], 3)                           (*   end of input: No character to escape! *)
           | 2 => (true, 0, false, [], 0)                           (*   backslash-LF: line continuation, nothing stored *)
           | 3 => (true, 0, false, [3], 0)                          (*   known symbol: the character it stands for *)
           | _ => (true, 0, false, [4], 0)                          (*   unknown symbol: backslash and symbol kept *)
           end
         else (false, 0, false, [2], 0)
  | 4 => (false, 0, false, [], 2)                                   (* end of input: Unterminated string! *)
  | _ => (false, 0, false, [2], 0)
  end.

Fixpoint lN_eqb (a b : list N) : bool :=
  match a, b with
  | [], [] => true
  | x :: a', y :: b' => (x =? y) && lN_eqb a' b'
  | _, _ => false
  end.

Definition hout_eqb (a b : hout) : bool :=
  let '(r1, d1, l1, a1, x1) := a in let '(r2, d2, l2, a2, x2) := b in
  Bool.eqb r1 r2 && (d1 =? d2) && Bool.eqb l1 l2 && lN_eqb a1 a2 && (x1 =? x2).

Definition hkey_eqb (a b : hkey) : bool :=
  let '(c1, l1, a1, e1) := a in let '(c2, l2, a2, e2) := b in
  (c1 =? c2) && Bool.eqb l1 l2 && Bool.eqb a1 a2 && (e1 =? e2).

(** A list of rows as a table; a missing row ends the iteration with the invalid code 9. *)
Definition tb_of (rows : list (hkey * hout)) (k : hkey) : hout :=
  match find (fun r => hkey_eqb (fst r) k) rows with
  | Some r => snd r
  | None => (false, 0, false, [], 9)
  end.

(** The keys the interpreter can ask for when the table is the model's: every (class, flag, allow_escapes) without a
    second character, and the four classes of the second character after a backslash with escapes allowed. *)
Definition hs_keys : list hkey :=
  flat_map (fun c => flat_map (fun l => flat_map (fun a => [(c, l, a, 0)]) [false; true]) [false; true]) [0; 1; 2; 3; 4; 5]
  ++ flat_map (fun l => map (fun e => (3, l, true, e)) [1; 2; 3; 4]) [false; true].

(** The rows read from the source are the model's rows. *)
Definition hs_rows_ok (rows : list (hkey * hout)) : bool :=
  forallb (fun k => hout_eqb (tb_of rows k) (hs_spec k)) hs_keys.

(** Rows that disagree, for the report: (key, row read from the source, row of the model). *)
Definition hs_rows_diff (rows : list (hkey * hout)) : list (hkey * hout * hout) :=
  flat_map (fun k => if hout_eqb (tb_of rows k) (hs_spec k) then [] else [(k, tb_of rows k, hs_spec k)]) hs_keys.
