(** Text layer, part 3: model of [srctools.tokenizer.escape_text].

    [escape_text(text, multiline)] is [(ESCAPE_MULTILINE_RE if multiline else ESCAPE_RE).sub(_escape_matcher, text)]
    where each regex is an alternation of the single characters of [ESCAPES_INV] minus an exclusion string, and the
    matcher replaces a character by backslash + its symbol.  A substitution over an alternation of single
    characters acts on every character independently, so the model is a [flat_map]. *)
From Coq Require Import List NArith Bool.
From SV Require Import Text.Str.
Import ListNotations.
Open Scope N_scope.

Section Escape.
Variable T : tables.

(** Is the character left alone by [escape_text]? *)
Definition is_raw (ml : bool) (c : char) : bool :=
  mem c (excl T ml) || match rlookup c (esc_table T) with Some _ => false | None => true end.

Definition esc_char (ml : bool) (c : char) : str :=
  if mem c (excl T ml) then [c]
  else match rlookup c (esc_table T) with Some s => [BS; s] | None => [c] end.

Definition escape (ml : bool) (s : str) : str := flat_map (esc_char ml) s.

(** The same output, kept as units: a raw character, or a backslash followed by a symbol. *)
Inductive eunit := Raw (c : char) | Esc (sym : char).
Definition unit_chars (u : eunit) : str := match u with Raw c => [c] | Esc s => [BS; s] end.
Definition esc_unit (ml : bool) (c : char) : eunit :=
  if mem c (excl T ml) then Raw c
  else match rlookup c (esc_table T) with Some s => Esc s | None => Raw c end.
Definition escape_units (ml : bool) (s : str) : list eunit := map (esc_unit ml) s.

(** Number of line-feed characters that stay raw (each advances the tokenizer's line counter by one). *)
Definition raw_lf (ml : bool) (c : char) : N := if (c =? LF) && is_raw ml c then 1 else 0.
Definition raw_lfs (ml : bool) (s : str) : N := fold_right (fun c n => raw_lf ml c + n) 0 s.

(* ---- checkable conditions on the tables (discharged by vm_compute on Gen/EscTables_gen.v) ---- *)
Definition opt_eqb (a b : option N) : bool :=
  match a, b with Some x, Some y => x =? y | None, None => true | _, _ => false end.

(** Every character that has an escape: its symbol is not a line feed (backslash-LF is a line continuation in
    [_handle_string]) and looking the symbol up in ESCAPES gives the character back. *)
Definition tbl_roundtrip : bool :=
  forallb (fun p : char * char =>
    match rlookup (snd p) (esc_table T) with
    | Some s => negb (s =? LF) && opt_eqb (lookup s (esc_table T)) (Some (snd p))
    | None => false
    end) (esc_table T).

Definition must_escape (ml : bool) (c : char) : bool := negb (is_raw ml c).
(** Double quote, carriage return and backslash are never left raw. *)
Definition tbl_dq (ml : bool) : bool := must_escape ml DQ.
Definition tbl_cr (ml : bool) : bool := must_escape ml CR.
Definition tbl_bs (ml : bool) : bool := must_escape ml BS.
(** Line feed is escaped in single-line mode. *)
Definition tbl_lf_single : bool := must_escape false LF.
(** No escape symbol is itself a line break. *)
Definition tbl_sym_no_linebreak : bool :=
  forallb (fun p : char * char => negb (fst p =? LF) && negb (fst p =? CR)) (esc_table T).

Definition tbl_ok (ml : bool) : bool := tbl_roundtrip && tbl_dq ml && tbl_cr ml && tbl_bs ml.
End Escape.
