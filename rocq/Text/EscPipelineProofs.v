(** A pipeline that is one table substitution per mode IS the per-character model [Escape.escape]. *)
From Coq Require Import List NArith Bool.
From SV Require Import Text.Str Text.Escape Text.EscPipeline.
Import ListNotations.
Open Scope N_scope.

Lemma sub_char_esc_char T ml c : sub_char (esc_table T) (excl T ml) c = esc_char T ml c.
Proof. reflexivity. Qed.

Theorem pipeline_is_escape T p ml :
  single_sub p ml = Some (excl T ml) -> forall s, run_pipeline (esc_table T) p ml s = escape T ml s.
Proof.
  unfold single_sub, run_pipeline. destruct (effective p ml) as [|[ex|o n|ex n|ex la] [|st r]]; try discriminate.
  intros H s. inversion H; subst. reflexivity.
Qed.

Lemma is_single_sub_spec p ml : is_single_sub p ml = true -> single_sub p ml = Some (excl_of p ml).
Proof. unfold is_single_sub, excl_of. destruct (single_sub p ml); [reflexivity|discriminate]. Qed.

(** [replace] really is different from a per-character map: post-processing the escaped text with
    [replace("\\n", LF)] (putting line feeds back) maps the escaped form of backslash + 'n' (backslash backslash n) to backslash +
    LF, a line continuation: the witness below is the pipeline of that shape and the input backslash 'n'. *)
Definition pp_table : list (char * char) := [(110, 10); (92, 92); (34, 34)].
Definition pp_pipeline : pipeline := [(PAlways, PSub []); (PMulti, PReplace [92; 110] [10])].
Example postprocessing_pipeline_not_charwise_refuted :
  is_single_sub pp_pipeline true = false
  /\ run_pipeline pp_table pp_pipeline true [92; 110] = [92; 10]
  /\ run_pipeline pp_table pp_pipeline true [10] = [10].
Proof. vm_compute. repeat split; reflexivity. Qed.

(** A count-limited substitution is not the per-character map either: with [count = 2] the third double quote stays raw. *)
Example limited_substitution_not_charwise_refuted :
  is_single_sub [(PAlways, PSubN [] 2)] false = false
  /\ run_pipeline pp_table [(PAlways, PSubN [] 2)] false [34; 34; 34] = [92; 34; 92; 34; 34]
  /\ run_pipeline pp_table [(PAlways, PSub [])] false [34; 34; 34] = [92; 34; 92; 34; 92; 34].
Proof. vm_compute. repeat split; reflexivity. Qed.

(** A substitution with a look-ahead is not the per-character map either: with the alternative CR(?!LF) the CR of a CR LF pair
    stays raw, a lone CR is escaped. *)
Definition la_table : list (char * char) := [(110, 10); (114, 13); (92, 92); (34, 34)].
Example lookahead_substitution_not_charwise_refuted :
  is_single_sub [(PAlways, PSubLA [10] [(13, 10)])] true = false
  /\ run_pipeline la_table [(PAlways, PSubLA [10] [(13, 10)])] true [13; 10; 13] = [13; 10; 92; 114]
  /\ run_pipeline la_table [(PAlways, PSub [10])] true [13; 10; 13] = [92; 114; 10; 92; 114].
Proof. vm_compute. repeat split; reflexivity. Qed.
