(** The exception-level parser model instantiated with what translate/c03_kvparse.py reads from keyvalues.py
    (Gen/KvParseSites_gen.v), its instance obligations, and executable helpers for the correspondence runs. *)
From Coq Require Import List NArith Bool.
From SV Require Import Text.Str Text.Tokenizer Text.TokGen Text.TokEnum Text.KvErrModel.
From SV Require Gen.KvParseSites_gen.
Import ListNotations.
Open Scope N_scope.
Module K := SV.Gen.KvParseSites_gen.

Definition gen_kcfg : kcfg := {|
  bang_total := K.kv_bang_total; guard_replace_block := K.kv_guard_replace_block;
  guard_replace_leaf := K.kv_guard_replace_leaf; guard_single_root := K.kv_guard_single_root;
  close_guarded := K.kv_close_guarded |}.

(* ---- instance obligations ---- *)
Definition kv_sites_all_guarded : bool := cfg_safe gen_kcfg.
Definition kv_no_unmodelled_site : bool := match K.kv_unmodelled_unguarded with [] => true | _ => false end.
(** every census row is guarded somehow (guard <> 0) unless it is listed as unmodelled (then the previous obligation
    fails) or belongs to one of the five modelled sites (then the matching [kcfg] field is false) *)
Definition kv_census_rows_wellformed : bool :=
  forallb (fun r : N * N * N => let '(_, k, g) := r in (k <=? 4) && (g <=? 3)) K.kv_site_census.
(** [message.format] on the arguments inside [BaseTokenizer.error] cannot fail: every literal message needs at most as many
    positional arguments as the call passes (a message without arguments is not formatted) *)
Definition error_formats_ok : bool :=
  forallb (fun r : N * N * N => let '(_, need, have) := r in need <=? have) K.error_format_calls.

(** The tokenizer's own functions: every indexing site guarded, every [raise] goes through [self.error] (so its
    type is the tokenizer's error type); the parser raises only [tokenizer.error(...)] or [KeyValError(...)]. *)
Definition tokenizer_sites_all_guarded : bool := match K.tok_unguarded_sites with [] => true | _ => false end.
Definition tokenizer_raises_only_through_error : bool := match K.tok_foreign_raises with [] => true | _ => false end.
(** The premise of [ProgProofs.chunk_independent] read from the source: outside [__init__] and [_next_char] the tokenizer
    touches [_cur_chunk] / [_char_index] / [_chunk_iter] only by [self._char_index -= 1], and never twice without a read in
    between - i.e. its functions ARE reader programs ([Prog.Next u k]: read, optionally push that character back). *)
Definition tokenizer_sees_chunks_only_through_next_char : bool :=
  match K.tok_chunk_state_foreign_accesses with [] => true | _ => false end.
Definition tokenizer_pushes_back_only_after_a_read : bool :=
  match K.tok_pushbacks_without_read with [] => true | _ => false end.
Definition kvparse_raises_only_keyvalerror : bool := match K.kv_foreign_raises with [] => true | _ => false end.
(** ... and that type IS KeyValError on every path: [Tokenizer(..., KeyValError, ...)] for a text, [tokenizer.error_type =
    KeyValError] unconditionally for a tokenizer passed in (the model calls every [K_LEX] exit a KeyValError). *)
Definition kvparse_tokenizer_errors_are_keyvalerror : bool := K.kv_error_type_installed.

(* ---- outcome codes shared with checks/c03.py ---- *)
Definition kerr_code (e : kerr) : N :=
  match e with
  | K_SUBSECTION => 101 | K_BLOCK_REQUIRED => 102 | K_NL_KEY => 103 | K_NL_VALUE => 104 | K_MULTI_NAMES => 105
  | K_TOO_MANY_CLOSE => 106 | K_UNEXPECTED => 107 | K_EXPECTED_NEWLINE => 108 | K_EOF_BLOCK => 109 | K_EOF_OPEN => 110
  | K_LEX (RErr x _ _) => 150 + err_id x
  | K_LEX _ => 199
  end.
Definition outcome_code (o : outcome) : N :=
  match o with OOk => 0 | OKeyValErr e => kerr_code e | OForeign _ => 301 end.

Definition kopts_of_bits (b : N) : kopts := {|
  newline_keys := N.testbit b 0; newline_values := N.testbit b 1; single_line := N.testbit b 2; single_block := N.testbit b 3 |}.

(** Token-level run ([Keyvalues.parse(IterTokenizer(tokens))]: no tokenizer error can occur). *)
Definition tok_of_code (c : N) : tok := match tok_of_N c with Some t => t | None => EOF end.
Definition kv_tokens_code (bits : N) (flags : list (str * bool)) (ts : list (N * str)) : N :=
  outcome_code (parse_tokens gen_kcfg (kopts_of_bits bits) gen_casefold flags K.kv_flags_default None
                  (map (fun p => (tok_of_code (fst p), snd p)) ts)).

(** All token lists over [alpha] (a list of (Token value, string)) up to length [n], under each option vector. *)
Definition kv_tokens_shard (bitsl : list N) (flags : list (str * bool)) (alpha : list (N * str)) (n : nat) : list N :=
  flat_map (fun bits => map (fun ix => kv_tokens_code bits flags (map (fun i => nth (N.to_nat i) alpha (0, [])) ix))
                            (strings_upto (map N.of_nat (seq 0 (length alpha))) n)) bitsl.

(** Text-level run ([Keyvalues.parse(text, flags=..., allow_escapes=..., options)]). *)
Definition kv_text_code (bits : N) (ae : bool) (flags : list (str * bool)) (text : str) : N :=
  outcome_code (kv_parse_text gen_tables gen_kcfg (kopts_of_bits bits) ae flags K.kv_flags_default text).
Definition kv_text_shard (bits : N) (ae : bool) (flags : list (str * bool)) (alpha : list N) (n : nat) : list N :=
  map (kv_text_code bits ae flags) (strings_upto alpha n).

(** In-kernel small-scope search for a foreign exit on the model of the code. *)
Definition kv_foreign_witnesses (bitsl : list N) (flags : list (str * bool)) (alpha : list (N * str)) (n : nat)
  : list (N * list N) :=
  flat_map (fun bits => flat_map (fun ix =>
      if kv_tokens_code bits flags (map (fun i => nth (N.to_nat i) alpha (0, [])) ix) =? 301 then [(bits, ix)] else [])
    (strings_upto (map N.of_nat (seq 0 (length alpha))) n)) bitsl.
