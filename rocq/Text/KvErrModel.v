(** C03, "KeyValError and nothing else" clause: an exception-level model of [Keyvalues.parse] (keyvalues.py).

    The parser's decisions that matter for WHICH exception can leave it do not depend on names or values, only on
    token kinds, on whether a string contains a line break, on the verdict of [_read_flag], and on whether the child
    list of each open block is empty (the indexing sites [cur_block_contents[-1]], [root[0]]).  The state is
    therefore: for every open block below the current one whether its child list is non-empty ([stk], innermost
    first; the root is the last element's parent, i.e. [stk = []] means the current block is the root), the same for
    the current block ([cur]), [block_line] and [can_flag_replace].

    The token stream is the logical one the parser sees through [BaseTokenizer] ([push_back] = not consumed, see
    Text/BaseTok.v), given as the finite list of tokens before the first EOF / tokenizer error and [fin] = that error.

    [kcfg] records, per indexing site, how the SOURCE guards it (read from the AST on every run by
    translate/c03_kvparse.py): the model follows the code, and [cfg_safe] is what [KvErrProofs.no_foreign] needs. *)
From Coq Require Import List NArith Bool.
From SV Require Import Text.Str Text.Prog Text.Tokenizer.
Import ListNotations.
Open Scope N_scope.

Record kcfg := {
  bang_total : bool;           (* _read_flag: the test for a leading '!' cannot raise on an empty flag ([:1] / startswith / guarded) *)
  guard_replace_block : bool;  (* "name" [flag] replace test: cur_block_contents[-1] only evaluated on a non-empty list *)
  guard_replace_leaf : bool;   (* "name" "value" [flag] replace test: the same *)
  guard_single_root : bool;    (* single_block: root[0] only evaluated when root has a child *)
  close_guarded : bool;        (* open_keyvalues[-1] after pop() inside try/except IndexError -> 'Too many closing brackets' *)
}.
Definition cfg_safe (c : kcfg) : bool :=
  bang_total c && guard_replace_block c && guard_replace_leaf c && guard_single_root c && close_guarded c.

Record kopts := { newline_keys : bool; newline_values : bool; single_line : bool; single_block : bool }.

(** Places where an exception that is not a KeyValError can start. *)
Inductive fsite := F_BANG | F_REPLACE_BLOCK | F_REPLACE_LEAF | F_ROOT0 | F_CLOSE | F_EXPECT_INDEX.

(** KeyValError exits (by message). [K_LEX r]: the error the tokenizer raised ([r] is its result value). *)
Inductive kerr :=
| K_SUBSECTION        (* 'Keyvalues cannot have sub-section if it already has an in-line value.' *)
| K_BLOCK_REQUIRED    (* 'Block opening ("{") required!' *)
| K_NL_KEY            (* 'Illegal newline found in key' *)
| K_NL_VALUE          (* 'Illegal newline found in value' *)
| K_MULTI_NAMES       (* 'Cannot have multiple names on the same line!' *)
| K_TOO_MANY_CLOSE    (* 'Too many closing brackets.' *)
| K_UNEXPECTED        (* tokenizer.error(token_type, token_value): 'Unexpected ...' / 'File ended unexpectedly!' *)
| K_EXPECTED_NEWLINE  (* expect(NEWLINE): 'Expected Token.NEWLINE, but got ...' *)
| K_EOF_BLOCK         (* 'Block opening ("{") required, but hit EOF!' *)
| K_EOF_OPEN          (* 'End of text reached with remaining open sections.' *)
| K_LEX (r : result). (* raised by the tokenizer (error_type = KeyValError) *)

Inductive outcome := OOk | OKeyValErr (e : kerr) | OForeign (s : fsite).

Inductive bl := BNone | BSkip | BExpect.
(** What the parser distinguishes about a token. *)
Inductive tcls := CStr | CFlag | CNl | COpen | CClose | COther.
Definition cls (t : tok) : tcls :=
  match t with
  | STRING => CStr | PROP_FLAG => CFlag | NEWLINE => CNl | BRACE_OPEN => COpen | BRACE_CLOSE => CClose | _ => COther
  end.
Definition ptok := (tok * str)%type.

Fixpoint str_eqb (a b : str) : bool :=
  match a, b with [] , [] => true | x :: a', y :: b' => (x =? y) && str_eqb a' b' | _, _ => false end.
Fixpoint slookup (k : str) (t : list (str * bool)) : option bool :=
  match t with [] => None | (k', v) :: r => if str_eqb k' k then Some v else slookup k r end.
Definition has_lb (s : str) : bool := mem LF s || mem CR s.
Definition BANG : char := 33.

Section Parse.
  Variable cfg : kcfg.
  Variable ko : kopts.
  Variable casefold_c : char -> list char.
  Variable flags : list (str * bool).      (* the caller's mapping (keys as given) *)
  Variable defaults : list (str * bool).   (* FLAGS_DEFAULT *)
  Variable fin : option result.

  (** [_read_flag]: [None] = the leading-'!' test raised (IndexError on an empty flag). *)
  Definition flag_lookup (name : str) : bool :=
    let n := flat_map casefold_c name in
    match slookup n flags with Some b => b
    | None => match slookup n defaults with Some b => b | None => false end end.
  Definition read_flag (v : str) : option bool :=
    match v with
    | [] => if bang_total cfg then Some (flag_lookup []) else None
    | c :: r => if c =? BANG then Some (negb (flag_lookup r)) else Some (flag_lookup v)
    end.

  Definition at_end (k : outcome) : outcome := match fin with Some r => OKeyValErr (K_LEX r) | None => k end.
  Definition pfinal (stk : list bool) (b : bl) : outcome :=
    match b with
    | BNone => match stk with [] => OOk | _ => OKeyValErr K_EOF_OPEN end
    | _ => OKeyValErr K_EOF_BLOCK
    end.
  Definition is_root (stk : list bool) : bool := match stk with [] => true | _ => false end.

  Fixpoint prun (stk : list bool) (cur : bool) (b : bl) (cfr : bool) (ts : list ptok) {struct ts} : outcome :=
    match ts with
    | [] => at_end (pfinal stk b)
    | (t, v) :: r =>
      match cls t with
      | COpen =>
        match b with
        | BNone => OKeyValErr K_SUBSECTION
        | BSkip => prun (cur :: stk) false BNone false r
        | BExpect => if cur then prun (cur :: stk) false BNone false r else OForeign F_EXPECT_INDEX
        end
      | CNl => prun stk cur b cfr r
      | c =>
        match b with
        | BSkip | BExpect => OKeyValErr K_BLOCK_REQUIRED
        | BNone =>
          match c with
          | CStr =>
              if negb (newline_keys ko) && has_lb v then OKeyValErr K_NL_KEY else
              match r with
              | [] => at_end (OKeyValErr K_EOF_BLOCK)
              | (t2, v2) :: r2 =>
                match cls t2 with
                | CFlag =>
                  match r2 with
                  | [] => at_end (OKeyValErr K_EXPECTED_NEWLINE)
                  | (t3, _) :: r3 =>
                    match cls t3 with
                    | CNl =>
                      match read_flag v2 with
                      | None => OForeign F_BANG
                      | Some true =>
                          if cfr && negb (guard_replace_block cfg) && negb cur then OForeign F_REPLACE_BLOCK
                          else prun stk true BExpect false r3
                      | Some false => prun stk cur BSkip cfr r3
                      end
                    | _ => OKeyValErr K_EXPECTED_NEWLINE
                    end
                  end
                | CStr =>
                  if negb (newline_values ko) && has_lb v2 then OKeyValErr K_NL_VALUE else
                  match r2 with
                  | [] => at_end (if single_block ko && is_root stk then OOk else pfinal stk BNone)
                  | (t3, v3) :: r3 =>
                    match cls t3 with
                    | CFlag =>
                      match r3 with
                      | [] => at_end (OKeyValErr K_EXPECTED_NEWLINE)
                      | (t4, _) :: r4 =>
                        match cls t4 with
                        | CNl =>
                          match read_flag v3 with
                          | None => OForeign F_BANG
                          | Some true =>
                              if cfr && negb (guard_replace_leaf cfg) && negb cur then OForeign F_REPLACE_LEAF
                              else if single_block ko && is_root stk then OOk
                              else prun stk true BNone false r4
                          | Some false => prun stk cur BNone cfr r4
                          end
                        | _ => OKeyValErr K_EXPECTED_NEWLINE
                        end
                      end
                    | CStr => if single_line ko then prun stk true BNone cfr r2 else OKeyValErr K_MULTI_NAMES
                    | _ => if single_block ko && is_root stk then OOk else prun stk true BNone true r2
                    end
                  end
                | _ => prun stk true BExpect false r
                end
              end
          | CClose =>
              match stk with
              | [] => if close_guarded cfg then OKeyValErr K_TOO_MANY_CLOSE else OForeign F_CLOSE
              | p :: stk' =>
                  if single_block ko && is_root stk' && (negb (guard_single_root cfg) || p)
                  then (if p then OOk else OForeign F_ROOT0)
                  else prun stk' p BNone true r
              end
          | _ => OKeyValErr K_UNEXPECTED
          end
        end
      end
    end.

  Definition parse_tokens (ts : list ptok) : outcome := prun [] false BNone false ts.
End Parse.

(** The logical token list of a tokenizer trace: the tokens before the first EOF; [fin] = the error (or the
    out-of-fuel marker) that ended the trace, if any. *)
Fixpoint split_trace (rs : list result) : list ptok * option result :=
  match rs with
  | [] => ([], None)
  | RTok EOF _ _ _ :: _ => ([], None)
  | RTok k v _ _ :: r => let '(ts, f) := split_trace r in ((k, v) :: ts, f)
  | e :: _ => ([], Some e)
  end.

(** The option vector [Keyvalues.parse] gives its tokenizer. *)
Definition kv_tok_opts (allow_esc : bool) : opts := {|
  string_bracket := true; string_parens := true; allow_escapes := allow_esc; allow_star_comments := false;
  preserve_comments := false; colon_operator := false; plus_operator := false |}.

(** [Keyvalues.parse(text, flags=..., **options)]. *)
Definition kv_parse_text (T : tables) (cfg : kcfg) (ko : kopts) (allow_esc : bool) (flags defaults : list (str * bool))
    (text : str) : outcome :=
  let '(ts, fin) := split_trace (tokens_flat T (kv_tok_opts allow_esc) (S (length text)) (S (length text)) 1 false text) in
  parse_tokens cfg ko (casefold T) flags defaults fin ts.

(** [Keyvalues.parse(iterable of chunks)]: the same composition over the chunked reader state of the real class. *)
Definition kv_parse_chunks (T : tables) (cfg : kcfg) (ko : kopts) (allow_esc : bool) (flags defaults : list (str * bool))
    (cs : list str) : outcome :=
  let n := S (length (concat cs)) in
  let '(ts, fin) := split_trace (tokens_chk T (kv_tok_opts allow_esc) n n 1 false (chk_of_chunks cs)) in
  parse_tokens cfg ko (casefold T) flags defaults fin ts.
