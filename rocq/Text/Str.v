(** Text layer, part 1: characters are code points ([N], every value of 0..0x10FFFF including lone
    surrogates, because Python strings can hold them); strings are [list N].
    Also the record of constant tables that the tokenizer model is parametrised by (their values are
    regenerated from tokenizer.py into Gen/EscTables_gen.v on every run). *)
From Coq Require Import List NArith Bool.
Import ListNotations.
Open Scope N_scope.

Definition char := N.
Definition str := list char.

Definition DQ : char := 34.      (* double quote *)
Definition BS : char := 92.      (* backslash *)
Definition LF : char := 10.
Definition CR : char := 13.
Definition TAB : char := 9.
Definition SP : char := 32.
Definition SLASH : char := 47.
Definition STAR : char := 42.
Definition LBRACK : char := 91.
Definition RBRACK : char := 93.
Definition LPAREN : char := 40.
Definition RPAREN : char := 41.
Definition HASH : char := 35.
Definition COLONC : char := 58.
Definition PLUSC : char := 43.
Definition BOM : char := 65279.  (* U+FEFF *)

Definition mem (c : char) (l : list char) : bool := existsb (N.eqb c) l.

(** First entry with key [k] (Python dict lookup on a literal whose duplicate keys were already merged). *)
Fixpoint lookup {B} (k : N) (t : list (N * B)) : option B :=
  match t with [] => None | (k', v) :: r => if k' =? k then Some v else lookup k r end.

(** Key of the LAST entry whose value is [c]: mirrors [{char: sym for sym, char in ESCAPES.items()}], where a
    later symbol for the same character overwrites an earlier one. *)
Fixpoint rlookup (c : char) (t : list (char * char)) : option char :=
  match t with
  | [] => None
  | (s, c') :: r => match rlookup c r with Some s' => Some s' | None => if c' =? c then Some s else None end
  end.

(** Token kinds ([srctools.tokenizer.Token]). *)
Inductive tok := EOF | STRING | NEWLINE | PAREN_ARGS | DIRECTIVE | COMMENT | BRACE_OPEN | BRACE_CLOSE
  | PAREN_OPEN | PAREN_CLOSE | PROP_FLAG | BRACK_OPEN | BRACK_CLOSE | COLON | EQUALS | PLUS | COMMA.

Record tables := {
  esc_table : list (char * char);        (* ESCAPES: symbol -> character *)
  excl_single : list char;               (* characters escape_text(…, multiline=False) leaves alone although in ESCAPES *)
  excl_multi : list char;                (* same for multiline=True *)
  bare_disallowed : list char;           (* BARE_DISALLOWED *)
  operators : list (char * tok);         (* _OPERATORS: character -> Token member *)
  casefold : char -> list char;          (* str.casefold on one character (external: CPython's Unicode tables) *)
}.

Definition excl (T : tables) (ml : bool) : list char := if ml then excl_multi T else excl_single T.

Lemma mem_In c l : mem c l = true <-> In c l.
Proof.
  unfold mem. rewrite existsb_exists. split.
  - intros [x [Hin Heq]]. apply N.eqb_eq in Heq. now subst.
  - intros H. exists c. split; [assumption|apply N.eqb_refl].
Qed.

Lemma mem_false_not_In c l : mem c l = false <-> ~ In c l.
Proof. rewrite <- mem_In. destruct (mem c l); split; congruence. Qed.
