(** Executable helpers for the BaseTokenizer correspondence (no theorems): the model instantiated with what
    translate/c03_basetok.py reads from tokenizer.py (Gen/BaseTokSites_gen.v), an interpreter for sequences of public
    operations with all observables encoded as numbers, and in-kernel enumeration of all short operation sequences. *)
From Coq Require Import List NArith ZArith Bool.
From SV Require Import Text.Str Text.Prog Text.Tokenizer Text.TokGen Text.TokEnum Text.BaseTok Text.BaseTokTokenizer.
From SV Require Gen.BaseTokSites_gen.
Import ListNotations.
Open Scope N_scope.
Module B := SV.Gen.BaseTokSites_gen.

Definition gen_bcfg : bcfg := {| pop_last := B.bt_pop_last; push_last := B.bt_push_last; peek_last := B.bt_peek_last |}.

(* ---- instance obligations ---- *)
Definition pushback_is_lifo : bool := lifo gen_bcfg.
(** [BaseTokenizer.error(Token.X)]: every member is either handled explicitly or a key of _OPERATOR_VALS
    (otherwise the fall-through [_OPERATOR_VALS[message]] raises KeyError instead of building the error). *)
Definition error_covers_every_token : bool :=
  forallb (fun t => mem (tok_value t) B.error_explicit_tokens
                    || match lookup (tok_value t) B.operator_vals with Some _ => true | None => false end) all_toks.
(** The text the tokenizer model delivers with a token that carries no value of its own. *)
Definition model_value (t : tok) : option str :=
  match t with
  | EOF => Some [] | NEWLINE => Some [LF]
  | BRACK_OPEN => Some [LBRACK] | BRACK_CLOSE => Some [RBRACK] | PAREN_OPEN => Some [LPAREN] | PAREN_CLOSE => Some [RPAREN]
  | COLON => Some [COLONC] | PLUS => Some [PLUSC]
  | _ => match find (fun p : char * tok => tok_value (snd p) =? tok_value t) gen_operators with
         | Some p => Some [fst p] | None => None end
  end.
Definition opt_str_eqb (a : option str) (b : str) : bool :=
  match a with Some x => nl_eqb x b | None => false end.
(** push_back(tok) re-delivers exactly the pair the tokenizer produces for that token kind ... *)
Definition operator_vals_match_tokenizer : bool :=
  forallb (fun p : N * list N => match tok_of_N (fst p) with Some t => opt_str_eqb (model_value t) (snd p) | None => false end)
          B.operator_vals.
(** ... and never overrides the value of a token that carries one. *)
Definition value_tokens_keep_their_value : bool :=
  forallb (fun v => match lookup v B.operator_vals with Some _ => false | None => true end) G.has_value_set.

(* ---- public operations and their encoding ---- *)
Inductive xop :=
| XCall | XPeek | XNext | XPush (t : N) (v : option str) | XExpect (t : N) (skip : bool) | XSkipNl | XBlock.

Section X.
  Variables (S : Type).
  Variable get : S -> (ptok + result) * S.
  Variable line_of : S -> N.
  Notation bt := (bt S).

  Definition enc_ptok (x : ptok) : list N := tok_value (fst x) :: N.of_nat (length (snd x)) :: snd x.
  Definition enc_state (b : bt) : list N :=
    N.of_nat (length (pb b)) :: flat_map enc_ptok (pb b) ++ [line_of (src b)].
  Definition tokN (t : N) : tok := match tok_of_N t with Some k => k | None => EOF end.

  (** One operation: encoded result, new state, and whether the run goes on (an error raised by the source ends it). *)
  Definition xstep (fuel : nat) (o : xop) (b : bt) : list N * bt * bool :=
    match o with
    | XCall => let '(r, b') := call S result get gen_bcfg b in
        match r with inl x => (1 :: enc_ptok x, b', true) | inr e => (2 :: enc_result e, b', false) end
    | XPeek => let '(r, b') := peek S result get gen_bcfg b in
        match r with inl x => (1 :: enc_ptok x, b', true) | inr e => (2 :: enc_result e, b', false) end
    | XNext => let '(r, b') := next S result get gen_bcfg b in
        match r with
        | HVal x => (1 :: enc_ptok x, b', true) | HStop => ([5], b', true)
        | HSrcErr e => (2 :: enc_result e, b', false) | _ => ([9], b', false) end
    | XPush t v =>
        match norm_push B.operator_vals tok_value (tokN t) v with
        | Some x => ([3], push S gen_bcfg x b, true)
        | None => ([4], b, true)
        end
    | XExpect t skip => let '(r, b') := expect S result get gen_bcfg fuel (tokN t) skip b in
        match r with
        | HVal s => (6 :: N.of_nat (length s) :: s, b', true)
        | HErr x => ([7; tok_value (fst x); line_of (src b')], b', true)
        | HSrcErr e => (2 :: enc_result e, b', false) | _ => ([9], b', false) end
    | XSkipNl => let '(r, b') := skipping_newlines_step S result get gen_bcfg fuel b in
        match r with
        | HVal x => (1 :: enc_ptok x, b', true) | HStop => ([5], b', true)
        | HSrcErr e => (2 :: enc_result e, b', false) | _ => ([9], b', false) end
    | XBlock => let '(r, b') := block_step S result get gen_bcfg fuel b in
        match r with
        | HVal s => (6 :: N.of_nat (length s) :: s, b', true) | HStop => ([5], b', true)
        | HErr x => ([7; tok_value (fst x); line_of (src b')], b', true)
        | HSrcErr e => (2 :: enc_result e, b', false) | _ => ([9], b', false) end
    end.

  Fixpoint xrun (fuel : nat) (ops : list xop) (b : bt) : list N :=
    match ops with
    | [] => []
    | o :: r => let '(out, b', go) := xstep fuel o b in
        out ++ enc_state b' ++ (if go then xrun fuel r b' else [])
    end.
End X.

(** The three kinds of source. *)
Definition iter_get_r (l : list ptok) : (ptok + result) * list ptok :=
  match l with x :: r => (inl x, r) | [] => (inl (EOF, []), []) end.
Definition xrun_iter (items : list (N * str)) (ops : list xop) : list N :=
  xrun (list ptok) iter_get_r (fun _ => 1) 64 ops
       {| pb := []; src := map (fun p => (tokN (fst p), snd p)) items |}.
Definition xrun_flat (bits : N) (text : str) (ops : list xop) : list N :=
  xrun _ (tk_get_flat gen_tables (opts_of_bits bits) (length text + 2)) (fun st => fst (fst st)) 64 ops
       {| pb := []; src := (1, false, text) |}.
Definition xrun_chk (bits : N) (chunks : list str) (ops : list xop) : list N :=
  xrun _ (tk_get_chk gen_tables (opts_of_bits bits) (length (concat chunks) + 2)) (fun st => fst (fst st)) 64 ops
       {| pb := []; src := (1, false, chk_of_chunks chunks) |}.

(** All operation sequences over [alpha] up to length [n]; one checksum per source. *)
Definition xshard_hash (run1 : list xop -> list N) (alpha : list xop) (n : nat) : Uint63.int :=
  sum_hash (map (fun ops => hfin (hash_list (run1 ops)))
     ((fix go (k : nat) : list (list xop) :=
         match k with O => [[]] | Datatypes.S k' => [] :: flat_map (fun o => map (cons o) (go k')) alpha end) n)).
