(** Text layer: [srctools.tokenizer.escape_text] as the translator reads it — a pipeline of whole-string steps
    (Gen/EscTables_gen.v [esc_pipeline]): a regex substitution with the table callback
    ([R.sub(_escape_matcher, text)], [R] an alternation of the single characters of ESCAPES_INV minus an
    exclusion string) or a [str.replace(old, new)], each applied always / only with [multiline] / only
    without.  [run_pipeline] gives every such pipeline a meaning; [single_sub] decides whether, in a given
    mode, the pipeline is exactly ONE table substitution — the shape under which [escape_text] acts on every
    character independently and the theorems of Text/EscapeProofs.v apply ([EscPipelineProofs.pipeline_is_escape]).
    A pipeline of another shape (post-processing with [replace], two substitutions in a row, no substitution)
    still has a model here, so that the correspondence follows the code while the named obligation fails. *)
From Coq Require Import List NArith Bool.
From SV Require Import Text.Str Text.Escape.
Import ListNotations.
Open Scope N_scope.

Inductive pcond := PAlways | PMulti | PSingle.
(** [PSubN ex n]: the same substitution limited to the first [n] matches ([R.sub(cb, text, n)] / [count=n], n > 0;
    round 3 - such a pipeline has a model, so the correspondences follow the code, but it is never [single_sub]). *)
(** [PSubLA ex la]: the substitution whose regex carries negative look-aheads: for [(x, y)] in [la] the alternative for [x] is
    [x(?!y)], so an [x] directly followed by [y] is not matched and is copied (round 5 - "only a lone CR needs escaping").  It has a
    model, so the correspondences follow the code, but it is never [single_sub]: it does not act on every character independently. *)
Inductive pstep := PSub (exclude : list char) | PReplace (old new : str) | PSubN (exclude : list char) (count : N)
                 | PSubLA (exclude : list char) (la : list (char * char)).
Definition pipeline := list (pcond * pstep).

Definition applies (c : pcond) (ml : bool) : bool :=
  match c with PAlways => true | PMulti => ml | PSingle => negb ml end.

(** [R.sub(_escape_matcher, s)]: the regex matches one character at a time, each match is replaced by
    backslash + symbol (the value of ESCAPES_INV), unmatched characters are copied. *)
Definition sub_char (tbl : list (char * char)) (ex : list char) (c : char) : str :=
  if mem c ex then [c] else match rlookup c tbl with Some s => [BS; s] | None => [c] end.
Definition sub_step (tbl : list (char * char)) (ex : list char) (s : str) : str := flat_map (sub_char tbl ex) s.

Fixpoint is_prefix (p s : str) : bool :=
  match p, s with
  | [], _ => true
  | a :: p', b :: s' => (a =? b) && is_prefix p' s'
  | _ :: _, [] => false
  end.

(** Python [s.replace(old, new)] for non-empty [old]: leftmost non-overlapping occurrences.
    [skip] characters of the current match are still to be dropped. *)
Fixpoint replace_go (old new : str) (skip : nat) (s : str) : str :=
  match s with
  | [] => []
  | c :: r =>
    match skip with
    | S k => replace_go old new k r
    | O => if is_prefix old s then new ++ replace_go old new (length old - 1) r else c :: replace_go old new O r
    end
  end.
Definition replace_all (old new s : str) : str := match old with [] => s | _ => replace_go old new O s end.

(** The first [n] matching characters are replaced, the rest of the string is copied. *)
Definition sub_matches (tbl : list (char * char)) (ex : list char) (c : char) : bool :=
  negb (mem c ex) && match rlookup c tbl with Some _ => true | None => false end.
Fixpoint sub_step_n (tbl : list (char * char)) (ex : list char) (n : nat) (s : str) : str :=
  match s with
  | [] => []
  | c :: r =>
    match n with
    | O => s
    | S n' => if sub_matches tbl ex c then sub_char tbl ex c ++ sub_step_n tbl ex n' r else c :: sub_step_n tbl ex n r
    end
  end.

(** The regex is tried at every position: the alternative [x(?!y)] does not match an [x] whose next character is [y]; no other
    alternative matches [x], so it is copied and matching resumes at the next character. *)
Definition la_blocked (la : list (char * char)) (c : char) (r : str) : bool :=
  match r with d :: _ => existsb (fun p => (fst p =? c) && (snd p =? d)) la | [] => false end.
Fixpoint sub_step_la (tbl : list (char * char)) (ex : list char) (la : list (char * char)) (s : str) : str :=
  match s with
  | [] => []
  | c :: r => (if la_blocked la c r then [c] else sub_char tbl ex c) ++ sub_step_la tbl ex la r
  end.
Fixpoint pairs_of (l : list N) : list (N * N) :=
  match l with x :: y :: r => (x, y) :: pairs_of r | _ => [] end.

Definition run_step (tbl : list (char * char)) (st : pstep) (s : str) : str :=
  match st with
  | PSub ex => sub_step tbl ex s
  | PReplace o n => replace_all o n s
  | PSubN ex n => sub_step_n tbl ex (N.to_nat n) s
  | PSubLA ex la => sub_step_la tbl ex la s
  end.

Definition effective (p : pipeline) (ml : bool) : list pstep :=
  map snd (filter (fun cs => applies (fst cs) ml) p).

Definition run_pipeline (tbl : list (char * char)) (p : pipeline) (ml : bool) (s : str) : str :=
  fold_left (fun acc st => run_step tbl st acc) (effective p ml) s.

(** The steps that apply in mode [ml] are exactly one table substitution: its exclusion string. *)
Definition single_sub (p : pipeline) (ml : bool) : option (list char) :=
  match effective p ml with [PSub ex] => Some ex | _ => None end.
Definition is_single_sub (p : pipeline) (ml : bool) : bool :=
  match single_sub p ml with Some _ => true | None => false end.
Definition excl_of (p : pipeline) (ml : bool) : list char :=
  match single_sub p ml with Some ex => ex | None => [] end.

(** Decoding of the generated rows (condition, kind, a, b). *)
Definition step_of_row (r : N * N * list N * list N) : pcond * pstep :=
  let '(c, k, a, b) := r in
  ((if c =? 0 then PAlways else if c =? 1 then PMulti else PSingle),
   (if k =? 0 then PSub a else if k =? 1 then PReplace a b else if k =? 2 then PSubN a (match b with n :: _ => n | [] => 0 end)
    else PSubLA a (pairs_of b))).
Definition rows_wellformed (rs : list (N * N * list N * list N)) : bool :=
  forallb (fun r => let '(c, k, a, b) := r in (c <=? 2) && (k <=? 3)
    && ((k =? 0) || (k =? 2) || (k =? 3) || negb (N.of_nat (length a) =? 0))
    && (negb (k =? 2) || match b with [n] => 0 <? n | _ => false end)
    && (negb (k =? 3) || (Nat.even (length b) && negb (Nat.eqb (length b) 0)))) rs.
