(** Text layer, part 2: reader programs over an abstract character source, and their two interpreters.

    [Next u k] reads one character [c] (or [None] at end of input); if [u c] is true the character is pushed
    back ([self._char_index -= 1] in tokenizer.py); then the program continues as [k c].  Pushing back is only
    expressible directly after a read, which is exactly the discipline the real code follows (a second decrement
    without a read in between would step over a chunk boundary, or wrap to a negative Python index).

    [run_flat] interprets a program over one flat string.
    [run_chk]  interprets it over the state of [Tokenizer]: the current chunk, [_char_index] (a [Z], starts at
    -1, keeps growing on repeated reads at end of input), and the chunks still to come from the iterator; [cnext]
    mirrors [Tokenizer._next_char] literally (empty chunks are skipped). *)
From Coq Require Import List ZArith Lia Bool.
From SV Require Import Text.Str.
Import ListNotations.

Inductive Prog (A : Type) : Type :=
| Ret (a : A)
| Next (u : option char -> bool) (k : option char -> Prog A).
Arguments Ret {A}. Arguments Next {A}.

Fixpoint bind {A B} (p : Prog A) (f : A -> Prog B) : Prog B :=
  match p with
  | Ret a => f a
  | Next u k => Next u (fun c => bind (k c) f)
  end.

Definition keep : option char -> bool := fun _ => false.

(* ---- flat source ---- *)
Definition fnext (l : str) : option char * str :=
  match l with c :: r => (Some c, r) | [] => (None, []) end.
Definition fback (c : option char) (l : str) : str :=
  match c with Some x => x :: l | None => l end.

Fixpoint run_flat {A} (p : Prog A) (l : str) : A * str :=
  match p with
  | Ret a => (a, l)
  | Next u k => let '(c, l') := fnext l in run_flat (k c) (if u c then fback c l' else l')
  end.

(* ---- chunked source, mirroring Tokenizer._next_char and `self._char_index -= 1` ---- *)
Open Scope Z_scope.
Record chk := { cur : str; idx : Z; more : list str }.

Definition nthZ (l : str) (i : Z) : option char :=
  if i <? 0 then None else nth_error l (Z.to_nat i).

Fixpoint refill (cs : list str) : option (str * list str) :=
  match cs with
  | [] => None
  | [] :: r => refill r
  | (c :: t) :: r => Some (c :: t, r)
  end.

Definition cnext (s : chk) : option char * chk :=
  let i := idx s + 1 in
  match nthZ (cur s) i with
  | Some c => (Some c, {| cur := cur s; idx := i; more := more s |})
  | None =>
    match refill (more s) with
    | Some (c :: t, r) => (Some c, {| cur := c :: t; idx := 0; more := r |})
    | _ => (None, {| cur := cur s; idx := i; more := [] |})
    end
  end.
Definition cunread (s : chk) : chk := {| cur := cur s; idx := idx s - 1; more := more s |}.

Fixpoint run_chk {A} (p : Prog A) (s : chk) : A * chk :=
  match p with
  | Ret a => (a, s)
  | Next u k => let '(c, s') := cnext s in run_chk (k c) (if u c then cunread s' else s')
  end.

(** Initial states: [Tokenizer(data)] with [data] a [str] keeps it as the current chunk; with an iterable the
    current chunk is empty and all chunks are still to come. *)
Definition chk_of_str (s : str) : chk := {| cur := s; idx := -1; more := [] |}.
Definition chk_of_chunks (cs : list str) : chk := {| cur := []; idx := -1; more := cs |}.

(* ---- the simulation ---- *)
Definition dropZ (i : Z) (l : str) := skipn (Z.to_nat i) l.
(** What remains to be read from a chunked state. *)
Definition absr (s : chk) : str := dropZ (idx s + 1) (cur s) ++ concat (more s).
Definition R (l : str) (s : chk) : Prop := -1 <= idx s /\ l = absr s.

(** Number of character reads ([_next_char] calls) a program performs on a flat input. *)
Fixpoint reads {A} (p : Prog A) (l : str) : nat :=
  match p with
  | Ret _ => O
  | Next u k => let '(c, l') := fnext l in S (reads (k c) (if u c then fback c l' else l'))
  end.
