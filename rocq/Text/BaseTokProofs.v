(** [BaseTokenizer]: the push-back list is a stack in front of the underlying token stream; every sequence of
    [__call__] / [peek] / [push_back] behaves like the same operations on the logical stream
    "pushed-back tokens in LIFO order, then what [_get_token] delivers"; calls deliver the underlying stream unchanged;
    two bisimilar sources (the flat text and any chunking of it) cannot be told apart through this layer. *)
From Coq Require Import List NArith Bool Lia.
From SV Require Import Text.Str Text.BaseTok.
Import ListNotations.

Lemma pb_pop_add last x l : pb_pop last (pb_add last x l) = Some (x, l).
Proof.
  unfold pb_pop, pb_add. destruct last; [|reflexivity].
  rewrite rev_unit. now rewrite rev_involutive.
Qed.

Lemma reads_call r : reads (Call :: r) = Datatypes.S (reads r). Proof. reflexivity. Qed.
Lemma reads_peek r : reads (Peek :: r) = Datatypes.S (reads r). Proof. reflexivity. Qed.
Lemma reads_push x r : reads (Push x :: r) = reads r. Proof. reflexivity. Qed.

Section Proofs.
  Variables (S E : Type).
  Variable get : S -> (ptok + E) * S.
  Variable c : bcfg.
  Hypothesis Hl : lifo c = true.

  Lemma lifo_push : push_last c = pop_last c.
  Proof. unfold lifo in Hl. apply andb_true_iff in Hl. destruct Hl as [H _]. apply eqb_prop in H. now symmetry. Qed.
  Lemma lifo_peek : peek_last c = pop_last c.
  Proof. unfold lifo in Hl. apply andb_true_iff in Hl. destruct Hl as [_ H]. apply eqb_prop in H. now symmetry. Qed.

  Lemma stack_add x l : stack c (pb_add (pop_last c) x l) = x :: stack c l.
  Proof. unfold stack, pb_add. destruct (pop_last c); [|reflexivity]. now rewrite rev_unit. Qed.

  Lemma pop_stack l : match pb_pop (pop_last c) l with
                      | Some (x, l') => stack c l = x :: stack c l'
                      | None => stack c l = [] /\ l = [] end.
  Proof.
    unfold pb_pop, stack. destruct (pop_last c).
    - destruct (rev l) as [|x r] eqn:Er.
      + split; [reflexivity|]. apply (f_equal (@rev _)) in Er. now rewrite rev_involutive in Er.
      + now rewrite rev_involutive.
    - destruct l as [|x r]; [split; reflexivity|reflexivity].
  Qed.

  Notation bt := (bt S).
  Notation call := (call S E get c).
  Notation peek := (peek S E get c).
  Notation push := (push S c).
  Notation run := (run S E get c).
  Notation unfold := (unfold S E get).
  Notation view := (view S E get c).
  Notation srun := (srun E).

  (** push_back then call gives the token back and restores the state (LIFO, one level). *)
  Theorem call_push x b : call (push x b) = (inl x, b).
  Proof.
    unfold BaseTok.call, BaseTok.push. cbn [pb src]. rewrite lifo_push, pb_pop_add. now destruct b.
  Qed.

  (** A token delivered from the push-back list leaves the underlying source (and so [line_num]) untouched. *)
  Theorem redelivery_keeps_source b x l : pb_pop (pop_last c) (pb b) = Some (x, l) ->
    call b = (inl x, {| pb := l; src := src b |}).
  Proof. intros H. unfold BaseTok.call. now rewrite H. Qed.

  (** peek shows what the next call returns, and that call leaves the state a direct call would have left. *)
  Theorem peek_then_call b x b1 : call b = (inl x, b1) ->
    fst (peek b) = inl x /\ call (snd (peek b)) = (inl x, b1).
  Proof.
    intros H. unfold BaseTok.peek. rewrite H. cbn [fst snd]. split; [reflexivity|].
    unfold BaseTok.call at 1. cbn [pb src]. rewrite lifo_peek, pb_pop_add. now destruct b1.
  Qed.

  Lemma unfold_S n s : unfold (Datatypes.S n) s =
    let '(r, s') := get s in r :: match r with inl _ => unfold n s' | inr _ => [] end.
  Proof. reflexivity. Qed.

  (** Every sequence of calls, peeks and push-backs = the same sequence on the logical stream. *)
  Theorem run_refines : forall ops b n, (reads ops <= n)%nat -> fst (run ops b) = srun ops (view n b).
  Proof.
    induction ops as [|o r IH]; intros b n Hn; [reflexivity|].
    destruct o as [| |x]; cbn [BaseTok.run BaseTok.srun].
    - (* Call *)
      rewrite reads_call in Hn.
      unfold BaseTok.call. pose proof (pop_stack (pb b)) as Hp.
      destruct (pb_pop (pop_last c) (pb b)) as [[x l]|].
      + unfold BaseTok.view at 1. rewrite Hp. cbn [map app].
        assert (Hr : (reads r <= n)%nat) by lia. specialize (IH {| pb := l; src := src b |} n Hr).
        destruct (run r {| pb := l; src := src b |}) as [out b2]. cbn [fst] in *. now rewrite IH.
      + destruct Hp as [Hs Hnil]. unfold BaseTok.view at 1. rewrite Hs. cbn [map app].
        destruct n as [|n]; [lia|].
        rewrite unfold_S. destruct (get (src b)) as [r0 s]. destruct r0 as [x|e].
        * assert (Hr : (reads r <= n)%nat) by lia. specialize (IH {| pb := pb b; src := s |} n Hr).
          destruct (run r {| pb := pb b; src := s |}) as [out b2]. cbn [fst] in *. rewrite IH.
          unfold BaseTok.view. cbn [pb src]. now rewrite Hs.
        * reflexivity.
    - (* Peek *)
      rewrite reads_peek in Hn.
      unfold BaseTok.peek, BaseTok.call. pose proof (pop_stack (pb b)) as Hp.
      destruct (pb_pop (pop_last c) (pb b)) as [[x l]|].
      + unfold BaseTok.view. rewrite Hp. cbn [map app pb src].
        set (b1 := {| pb := pb_add (peek_last c) x l; src := src b |}).
        assert (Hr : (reads r <= n)%nat) by lia. specialize (IH b1 n Hr).
        destruct (run r b1) as [out b2]. cbn [fst] in *. rewrite IH.
        unfold BaseTok.view, b1. cbn [pb src]. rewrite lifo_peek, stack_add. reflexivity.
      + destruct Hp as [Hs Hnil]. unfold BaseTok.view. rewrite Hs. cbn [map app].
        destruct n as [|n]; [lia|].
        rewrite unfold_S. destruct (get (src b)) as [r0 s]. destruct r0 as [x|e].
        * cbn [pb src]. set (b1 := {| pb := pb_add (peek_last c) x (pb b); src := s |}).
          assert (Hr : (reads r <= n)%nat) by lia. specialize (IH b1 n Hr).
          destruct (run r b1) as [out b2]. cbn [fst] in *. rewrite IH.
          unfold BaseTok.view, b1. cbn [pb src]. rewrite lifo_peek, stack_add, Hs. reflexivity.
        * reflexivity.
    - (* Push *)
      rewrite reads_push in Hn.
      rewrite (IH (push x b) n Hn). unfold BaseTok.view, BaseTok.push. cbn [pb src].
      now rewrite lifo_push, stack_add.
  Qed.

  (** On the logical stream, without push_back, the results of the calls are a prefix of the stream, in order:
      peeks neither lose, duplicate nor reorder anything. *)
  Lemma srun_calls_prefix : forall ops L, Forall (fun o => match o with Push _ => False | _ => True end) ops ->
    exists k, map snd (filter fst (srun ops L)) = firstn k L.
  Proof.
    induction ops as [|o r IH]; intros L Hf; [exists O; reflexivity|].
    inversion Hf as [|? ? Ho Hr]; subst. destruct o as [| |x]; [| |contradiction]; cbn [BaseTok.srun].
    - destruct L as [|x L']; [exists O; reflexivity|].
      destruct x as [t|e].
      + destruct (IH L' Hr) as [k Hk]. exists (Datatypes.S k). cbn [filter fst map snd firstn]. now rewrite Hk.
      + exists 1%nat. reflexivity.
    - destruct L as [|x L']; [exists O; reflexivity|].
      destruct x as [t|e].
      + destruct (IH (inl t :: L') Hr) as [k Hk]. exists k. cbn [filter fst]. exact Hk.
      + exists O. reflexivity.
  Qed.

  (** Delivery = underlying stream: starting with an empty push-back list, whatever mixture of calls and peeks
      the parser performs, the tokens its calls return are exactly the first tokens of [_get_token]'s stream. *)
  Theorem delivery_is_underlying_stream ops b : pb b = [] ->
    Forall (fun o => match o with Push _ => False | _ => True end) ops ->
    exists k, map snd (filter fst (fst (run ops b))) = firstn k (unfold (reads ops) (src b)).
  Proof.
    intros Hpb Hf. rewrite (run_refines ops b (reads ops) (le_n _)).
    destruct (srun_calls_prefix ops (view (reads ops) b) Hf) as [k Hk]. exists k. rewrite Hk.
    unfold BaseTok.view. rewrite Hpb. unfold stack. destruct (pop_last c); reflexivity.
  Qed.
End Proofs.

(** Two sources that cannot be told apart by [get] cannot be told apart through the BaseTokenizer layer. *)
Section Bisim.
  Variables (S1 S2 E : Type).
  Variable get1 : S1 -> (ptok + E) * S1.
  Variable get2 : S2 -> (ptok + E) * S2.
  Variable c : bcfg.
  Variable Rs : S1 -> S2 -> Prop.
  Hypothesis Hget : forall s1 s2, Rs s1 s2 ->
    fst (get1 s1) = fst (get2 s2) /\ Rs (snd (get1 s1)) (snd (get2 s2)).

  Definition Rb (b1 : bt S1) (b2 : bt S2) : Prop := pb b1 = pb b2 /\ Rs (src b1) (src b2).

  Lemma call_bisim b1 b2 : Rb b1 b2 ->
    fst (call S1 E get1 c b1) = fst (call S2 E get2 c b2) /\ Rb (snd (call S1 E get1 c b1)) (snd (call S2 E get2 c b2)).
  Proof.
    intros [Hp Hs]. unfold call. rewrite Hp. destruct (pb_pop (pop_last c) (pb b2)) as [[x l]|].
    - split; [reflexivity|]. split; [reflexivity|exact Hs].
    - destruct (Hget _ _ Hs) as [H1 H2]. destruct (get1 (src b1)) as [r1 s1'], (get2 (src b2)) as [r2 s2'].
      cbn [fst snd] in *. subst. split; [reflexivity|]. split; [reflexivity|exact H2].
  Qed.

  Lemma peek_bisim b1 b2 : Rb b1 b2 ->
    fst (peek S1 E get1 c b1) = fst (peek S2 E get2 c b2) /\ Rb (snd (peek S1 E get1 c b1)) (snd (peek S2 E get2 c b2)).
  Proof.
    intros H. unfold peek. destruct (call_bisim b1 b2 H) as [H1 [H2 H3]].
    destruct (call S1 E get1 c b1) as [r1 b1'], (call S2 E get2 c b2) as [r2 b2']. cbn [fst snd] in *. subst r2.
    destruct r1; cbn [fst snd]; split; try reflexivity; split; cbn [pb src]; congruence.
  Qed.

  Theorem run_bisim : forall ops b1 b2, Rb b1 b2 ->
    fst (run S1 E get1 c ops b1) = fst (run S2 E get2 c ops b2)
    /\ Rb (snd (run S1 E get1 c ops b1)) (snd (run S2 E get2 c ops b2)).
  Proof.
    induction ops as [|o r IH]; intros b1 b2 H; [split; [reflexivity|exact H]|]. destruct o as [| |x]; cbn [run].
    - destruct (call_bisim b1 b2 H) as [H1 H2].
      destruct (call S1 E get1 c b1) as [r1 b1'], (call S2 E get2 c b2) as [r2 b2']. cbn [fst snd] in *. subst r2.
      destruct r1; [|split; [reflexivity|exact H2]]. specialize (IH b1' b2' H2).
      destruct (run S1 E get1 c r b1'), (run S2 E get2 c r b2'). cbn [fst snd] in *. destruct IH as [IH1 IH2].
      split; [now rewrite IH1|exact IH2].
    - destruct (peek_bisim b1 b2 H) as [H1 H2].
      destruct (peek S1 E get1 c b1) as [r1 b1'], (peek S2 E get2 c b2) as [r2 b2']. cbn [fst snd] in *. subst r2.
      destruct r1; [|split; [reflexivity|exact H2]]. specialize (IH b1' b2' H2).
      destruct (run S1 E get1 c r b1'), (run S2 E get2 c r b2'). cbn [fst snd] in *. destruct IH as [IH1 IH2].
      split; [now rewrite IH1|exact IH2].
    - apply IH. destruct H as [Hp Hs]. split; cbn [push pb src]; congruence.
  Qed.

  (** The helpers are built from [call] only, so the same holds for them (result, including the token an error
      message would name, and the states stay related). *)
  Theorem expect_bisim : forall fuel want skip b1 b2, Rb b1 b2 ->
    fst (expect S1 E get1 c fuel want skip b1) = fst (expect S2 E get2 c fuel want skip b2)
    /\ Rb (snd (expect S1 E get1 c fuel want skip b1)) (snd (expect S2 E get2 c fuel want skip b2)).
  Proof.
    induction fuel as [|f IH]; intros want skip b1 b2 H; cbn [expect]; [split; [reflexivity|exact H]|].
    destruct (call_bisim b1 b2 H) as [H1 H2].
    destruct (call S1 E get1 c b1) as [r1 b1'], (call S2 E get2 c b2) as [r2 b2']. cbn [fst snd] in *. subst r2.
    destruct r1 as [x|e]; [|split; [reflexivity|exact H2]].
    destruct (skip && negb (is_tok NEWLINE (want, [])) && is_tok NEWLINE x); [apply IH, H2|].
    destruct (is_tok want x); split; try reflexivity; exact H2.
  Qed.

  Theorem skipping_newlines_bisim : forall fuel b1 b2, Rb b1 b2 ->
    fst (skipping_newlines_step S1 E get1 c fuel b1) = fst (skipping_newlines_step S2 E get2 c fuel b2)
    /\ Rb (snd (skipping_newlines_step S1 E get1 c fuel b1)) (snd (skipping_newlines_step S2 E get2 c fuel b2)).
  Proof.
    induction fuel as [|f IH]; intros b1 b2 H; cbn [skipping_newlines_step]; [split; [reflexivity|exact H]|].
    destruct (call_bisim b1 b2 H) as [H1 H2].
    destruct (call S1 E get1 c b1) as [r1 b1'], (call S2 E get2 c b2) as [r2 b2']. cbn [fst snd] in *. subst r2.
    destruct r1 as [x|e]; [|split; [reflexivity|exact H2]].
    destruct (is_tok EOF x); [split; [reflexivity|exact H2]|].
    destruct (is_tok NEWLINE x); [apply IH, H2|split; [reflexivity|exact H2]].
  Qed.

  Theorem block_bisim : forall fuel b1 b2, Rb b1 b2 ->
    fst (block_step S1 E get1 c fuel b1) = fst (block_step S2 E get2 c fuel b2)
    /\ Rb (snd (block_step S1 E get1 c fuel b1)) (snd (block_step S2 E get2 c fuel b2)).
  Proof.
    induction fuel as [|f IH]; intros b1 b2 H; cbn [block_step]; [split; [reflexivity|exact H]|].
    destruct (call_bisim b1 b2 H) as [H1 H2].
    destruct (call S1 E get1 c b1) as [r1 b1'], (call S2 E get2 c b2) as [r2 b2']. cbn [fst snd] in *. subst r2.
    destruct r1 as [x|e]; [|split; [reflexivity|exact H2]].
    destruct (is_tok EOF x); [split; [reflexivity|exact H2]|].
    destruct (is_tok BRACE_CLOSE x); [split; [reflexivity|exact H2]|].
    destruct (is_tok STRING x); [split; [reflexivity|exact H2]|].
    destruct (is_tok NEWLINE x); [apply IH, H2|split; [reflexivity|exact H2]].
  Qed.
End Bisim.

(** [IterTokenizer]: total, and EOF for ever once the wrapped iterator is exhausted. *)
Theorem iter_eof_forever : forall n, unfold (list ptok) Empty_set iter_get n [] = repeat (inl (EOF, [])) n.
Proof. induction n as [|n IH]; [reflexivity|]. cbn [unfold iter_get repeat]. now rewrite IH. Qed.

Theorem iter_delivers_the_list : forall l n, (length l <= n)%nat ->
  unfold (list ptok) Empty_set iter_get n l = map inl l ++ repeat (inl (EOF, [])) (n - length l).
Proof.
  induction l as [|x r IH]; intros n Hn.
  - cbn [map app length]. rewrite PeanoNat.Nat.sub_0_r. apply iter_eof_forever.
  - destruct n as [|n]; [cbn in Hn; lia|]. cbn [unfold iter_get map app length PeanoNat.Nat.sub].
    rewrite IH by (cbn in Hn; lia). reflexivity.
Qed.
