(** The tokenizer model instantiated with the tables regenerated from tokenizer.py (Gen/EscTables_gen.v). *)
From Coq Require Import List NArith Bool.
From SV Require Import Text.Str Text.Escape Text.EscPipeline Text.Tokenizer.
From SV Require Gen.EscTables_gen.
Import ListNotations.
Open Scope N_scope.
Module G := SV.Gen.EscTables_gen.

Definition tok_value (t : tok) : N :=
  match t with
  | EOF => G.T_EOF | STRING => G.T_STRING | NEWLINE => G.T_NEWLINE | PAREN_ARGS => G.T_PAREN_ARGS
  | DIRECTIVE => G.T_DIRECTIVE | COMMENT => G.T_COMMENT | BRACE_OPEN => G.T_BRACE_OPEN
  | BRACE_CLOSE => G.T_BRACE_CLOSE | PAREN_OPEN => G.T_PAREN_OPEN | PAREN_CLOSE => G.T_PAREN_CLOSE
  | PROP_FLAG => G.T_PROP_FLAG | BRACK_OPEN => G.T_BRACK_OPEN | BRACK_CLOSE => G.T_BRACK_CLOSE
  | COLON => G.T_COLON | EQUALS => G.T_EQUALS | PLUS => G.T_PLUS | COMMA => G.T_COMMA
  end.
Definition all_toks : list tok :=
  [EOF; STRING; NEWLINE; PAREN_ARGS; DIRECTIVE; COMMENT; BRACE_OPEN; BRACE_CLOSE; PAREN_OPEN; PAREN_CLOSE;
   PROP_FLAG; BRACK_OPEN; BRACK_CLOSE; COLON; EQUALS; PLUS; COMMA].
Definition tok_of_N (n : N) : option tok := find (fun t => tok_value t =? n) all_toks.

Definition gen_operators : list (char * tok) :=
  flat_map (fun p : N * N => match tok_of_N (snd p) with Some t => [(fst p, t)] | None => [] end) G.operators.

Definition gen_casefold (c : char) : list char :=
  match lookup c G.casefold_table with Some l => l | None => [c] end.

(** [escape_text] as read from the source: a pipeline of whole-string steps. *)
Definition gen_pipeline : pipeline := map step_of_row G.esc_pipeline.
(** The model of [escape_text] that follows the code whatever its shape (used by the correspondences). *)
Definition gen_escape (ml : bool) (s : str) : str := run_pipeline G.esc_table gen_pipeline ml s.

(** The exclusion strings are those of the single substitution of each mode (empty if the pipeline has another
    shape; the obligation [escape_text_is_one_table_substitution_*] then fails). *)
Definition gen_tables : tables := {|
  esc_table := G.esc_table;
  excl_single := excl_of gen_pipeline false;
  excl_multi := excl_of gen_pipeline true;
  bare_disallowed := G.bare_disallowed;
  operators := gen_operators;
  casefold := gen_casefold |}.

Definition default_opts : opts := {|
  string_bracket := G.default_string_bracket; string_parens := G.default_string_parens;
  allow_escapes := G.default_allow_escapes; allow_star_comments := G.default_allow_star_comments;
  preserve_comments := G.default_preserve_comments; colon_operator := G.default_colon_operator;
  plus_operator := G.default_plus_operator |}.

(* ---- instance obligations that concern the translation itself ---- *)
(** Token enum values are pairwise distinct (so [tok_of_N] inverts [tok_value]) *)
Definition token_values_distinct : bool :=
  forallb (fun t => match tok_of_N (tok_value t) with Some t' => tok_value t' =? tok_value t | None => false end) all_toks
  && (N.of_nat (length (nodup N.eq_dec (map tok_value all_toks))) =? 17).
(** every entry of _OPERATORS names a known token *)
Definition operators_all_known : bool := Nat.eqb (length gen_operators) (length G.operators).
(** the replacement text is one backslash followed by the symbol *)
Definition esc_prefix_is_backslash : bool :=
  match G.esc_prefix with [c] => c =? BS | _ => false end.

(** [escape_text] is, in each mode, exactly one regex substitution with the table callback: the shape for which
    [EscPipelineProofs.pipeline_is_escape] identifies it with the per-character model [Escape.escape gen_tables]. *)
Definition escape_rows_wellformed : bool := rows_wellformed G.esc_pipeline.
Definition escape_is_one_substitution (ml : bool) : bool := G.esc_pipeline_translated && is_single_sub gen_pipeline ml.

(** [escape_text] is modelled as a FUNCTION of (text, multiline): faithful only if it (and the callback / helpers it uses) keeps
    nothing between calls - no decorator, no [global], no mutable module-level object read or modified, no shared default
    (translate/c02_tables.py [escape_text_census]; round 5: a cache of "nothing to escape" strings shared by the two modes). *)
Definition escape_text_uses_no_state_outliving_the_call : bool := match G.esc_state with [] => true | _ => false end.
