(** The tokenizer model instantiated with the tables regenerated from tokenizer.py (Gen/EscTables_gen.v). *)
From Coq Require Import List NArith Bool.
From SV Require Import Text.Str Text.Escape Text.Tokenizer.
From SV Require Gen.EscTables_gen.
Import ListNotations.
Open Scope N_scope.
Module G := SV.Gen.EscTables_gen.

Definition tok_value (t : tok) : N :=
  match t with
  | EOF => G.T_EOF | STRING => G.T_STRING | NEWLINE => G.T_NEWLINE | PAREN_ARGS => G.T_PAREN_ARGS
  | DIRECTIVE => G.T_DIRECTIVE | COMMENT => G.T_COMMENT | BRACE_OPEN => G.T_BRACE_OPEN
  | BRACE_CLOSE => G.T_BRACE_CLOSE | PAREN_OPEN => G.T_PAREN_OPEN | PAREN_CLOSE => G.T_PAREN_CLOSE
  | PROP_FLAG => G.T_PROP_FLAG | BRACK_OPEN => G.T_BRACK_OPEN | BRACK_CLOSE => G.T_BRACK_CLOSE
  | COLON => G.T_COLON | EQUALS => G.T_EQUALS | PLUS => G.T_PLUS | COMMA => G.T_COMMA
  end.
Definition all_toks : list tok :=
  [EOF; STRING; NEWLINE; PAREN_ARGS; DIRECTIVE; COMMENT; BRACE_OPEN; BRACE_CLOSE; PAREN_OPEN; PAREN_CLOSE;
   PROP_FLAG; BRACK_OPEN; BRACK_CLOSE; COLON; EQUALS; PLUS; COMMA].
Definition tok_of_N (n : N) : option tok := find (fun t => tok_value t =? n) all_toks.

Definition gen_operators : list (char * tok) :=
  flat_map (fun p : N * N => match tok_of_N (snd p) with Some t => [(fst p, t)] | None => [] end) G.operators.

Definition gen_casefold (c : char) : list char :=
  match lookup c G.casefold_table with Some l => l | None => [c] end.

Definition gen_tables : tables := {|
  esc_table := G.esc_table;
  excl_single := G.esc_excl_single;
  excl_multi := G.esc_excl_multi;
  bare_disallowed := G.bare_disallowed;
  operators := gen_operators;
  casefold := gen_casefold |}.

Definition default_opts : opts := {|
  string_bracket := G.default_string_bracket; string_parens := G.default_string_parens;
  allow_escapes := G.default_allow_escapes; allow_star_comments := G.default_allow_star_comments;
  preserve_comments := G.default_preserve_comments; colon_operator := G.default_colon_operator;
  plus_operator := G.default_plus_operator |}.

(* ---- instance obligations that concern the translation itself ---- *)
(** Token enum values are pairwise distinct (so [tok_of_N] inverts [tok_value]) *)
Definition token_values_distinct : bool :=
  forallb (fun t => match tok_of_N (tok_value t) with Some t' => tok_value t' =? tok_value t | None => false end) all_toks
  && (N.of_nat (length (nodup N.eq_dec (map tok_value all_toks))) =? 17).
(** every entry of _OPERATORS names a known token *)
Definition operators_all_known : bool := Nat.eqb (length gen_operators) (length G.operators).
(** the replacement text is one backslash followed by the symbol *)
Definition esc_prefix_is_backslash : bool :=
  match G.esc_prefix with [c] => c =? BS | _ => false end.
