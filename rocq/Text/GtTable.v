(** Text layer: [Tokenizer._get_token] and [Tokenizer._handle_comment] as decision trees (round 4).

    translate/c02_gettoken.py cuts the two functions into segments (function entry / loop head up to return, raise, next
    iteration or the entry of another loop), executes every segment on abstract values and emits one decision tree per
    segment (Gen/GtTrees_gen.v).  This file gives such trees a meaning as reader programs ([gt_interp], [hc_interp],
    [gloop]), states the trees of the hand model [Tokenizer.get_token] as functions of the abstract environment
    ([spec_dispatch] ... [spec_cprefix]) and the boolean conditions "the tree read from the source computes that function"
    ([tree_ok]).  GtTableProofs.v proves that under these conditions the interpretation IS the hand model on every input. *)
From Coq Require Import List NArith Bool.
From SV Require Import Text.Str Text.Prog Text.Tokenizer.
Import ListNotations.
Open Scope N_scope.

(** What a segment can ask about. [ACls k]: the character read is of class [k]; [ACls2 k]: the second character read in the
    same segment is; [AOps]/[ABd]: the character is a key of [_OPERATORS] / a member of [BARE_DISALLOWED]; [ALcr]:
    [self._last_was_cr] at the start of the segment; [ALine1]: [self.line_num == 1] then; [AOpt k]: the k-th option. *)
Inductive atom := ACls (k : N) | ACls2 (k : N) | AOps | ABd | ALcr | ALine1 | AOpt (k : N).

(** (push the last character back, line_num increments, _last_was_cr: 0 keep / 1 True / 2 False, appended items,
     how the segment ends, two arguments of the end) *)
Definition leaf := (bool * N * N * list N * N * N * N)%type.

Inductive tree := Leaf (o : leaf) | Node (a : atom) (y n : tree) | Read2 (t : tree).

(** Character classes: 0 end of input, then CR LF SP TAB slash dquote lbrack lparen BOM colon plus rbrack rparen hash star, 16 anything else. *)
Definition cls (oc : option char) : N :=
  match oc with
  | None => 0
  | Some c =>
    if c =? CR then 1 else if c =? LF then 2 else if c =? SP then 3 else if c =? TAB then 4 else if c =? SLASH then 5
    else if c =? DQ then 6 else if c =? LBRACK then 7 else if c =? LPAREN then 8 else if c =? BOM then 9
    else if c =? COLONC then 10 else if c =? PLUSC then 11 else if c =? RBRACK then 12 else if c =? RPAREN then 13
    else if c =? HASH then 14 else if c =? STAR then 15 else 16
  end.

(** The abstract environment of one segment. *)
Record aenv := { a_c1 : N; a_c2 : N; a_ops : bool; a_bd : bool; a_lcr : bool; a_line1 : bool; a_o : opts }.

Definition opt_bit (o : opts) (k : N) : bool :=
  match k with
  | 0 => string_bracket o | 1 => string_parens o | 2 => allow_escapes o | 3 => allow_star_comments o
  | 4 => preserve_comments o | 5 => colon_operator o | 6 => plus_operator o | _ => false
  end.

Definition ea (e : aenv) (a : atom) : bool :=
  match a with
  | ACls k => a_c1 e =? k | ACls2 k => a_c2 e =? k | AOps => a_ops e | ABd => a_bd e
  | ALcr => a_lcr e | ALine1 => a_line1 e | AOpt k => opt_bit (a_o e) k
  end.

(** Evaluation: (was a second character read, the leaf reached). *)
Fixpoint eval (e : aenv) (t : tree) : bool * leaf :=
  match t with
  | Leaf o => (false, o)
  | Node a y n => if ea e a then eval e y else eval e n
  | Read2 t' => (true, snd (eval e t'))
  end.

Definition lf_unread (l : leaf) : bool := let '(u, _, _, _, _, _, _) := l in u.
Definition act (a : N) (lcr : bool) : bool := match a with 1 => true | 2 => false | _ => lcr end.

Definition tok_of (n : N) : tok :=
  nth (N.to_nat n) [EOF; STRING; NEWLINE; PAREN_ARGS; DIRECTIVE; COMMENT; BRACE_OPEN; BRACE_CLOSE; PAREN_OPEN; PAREN_CLOSE;
                    PROP_FLAG; BRACK_OPEN; BRACK_CLOSE; COLON; EQUALS; PLUS; COMMA] EOF.
Definition err_of (n : N) : option err :=
  nth_error [E_UNTERM_STRING; E_NO_ESCAPE; E_EOL_BRACK; E_NEST_BRACK; E_UNTERM_FLAG; E_NEST_PAREN; E_UNTERM_PAREN; E_CLOSE_BRACK;
             E_CLOSE_PAREN; E_UNEXPECTED_CHAR; E_UNCLOSED_STAR; E_STAR_NOT_ALLOWED; E_SINGLE_SLASH_STAR; E_SINGLE_SLASH]
            (N.to_nat (n - 1)).

Section Interp.
Variable T : tables.
Variable o : opts.

Definition abs (oc od : option char) (lcr : bool) (line : N) : aenv :=
  {| a_c1 := cls oc; a_c2 := cls od;
     a_ops := match oc with Some c => match lookup c (operators T) with Some _ => true | None => false end | None => false end;
     a_bd := match oc with Some c => mem c (bare_disallowed T) | None => false end;
     a_lcr := lcr; a_line1 := line =? 1; a_o := o |}.

(** One segment: read a character, evaluate; if the tree says so read a second one and evaluate again; push back the last
    character read if the leaf says so; then [fin]. *)
Definition seg {A} (step : aenv -> bool * leaf) (lcr : bool) (line : N)
    (fin : leaf -> option char -> option char -> Prog A) : Prog A :=
  Next (fun oc => let r := step (abs oc None lcr line) in if fst r then false else lf_unread (snd r))
       (fun oc => let r := step (abs oc None lcr line) in
          if fst r
          then Next (fun od => lf_unread (snd (step (abs oc od lcr line))))
                    (fun od => fin (snd (step (abs oc od lcr line))) oc od)
          else fin (snd r) oc None).

(** [buf.append(x)]: 1 a line feed, 2 the character read, 3 its casefold, 4 the second character. *)
Definition apply_app (oc od : option char) (acc : str) (a : N) : str :=
  match a with
  | 1 => LF :: acc
  | 2 => match oc with Some c => c :: acc | None => acc end
  | 3 => match oc with Some c => rev (casefold T c) ++ acc | None => acc end
  | 4 => match od with Some d => d :: acc | None => acc end
  | _ => acc
  end.
Definition val_of (mode : N) (oc : option char) (acc : str) : str :=
  match mode with 0 => [] | 1 => match oc with Some c => [c] | None => [] end | 2 => [LF] | _ => rev acc end.
Definition arg_of (mode : N) (oc : option char) (start : N) : list N :=
  match mode with 1 => match oc with Some c => [c] | None => [] end | 2 => [start] | _ => [] end.
Definition init_of (mode : N) (oc : option char) : str :=
  match mode with 1 => match oc with Some c => [c] | None => [] end | _ => [] end.

(** A loop whose iterations are segments. [wrap] / [sw] say what a returned token / [return None] mean for the caller
    (token loops: the result itself / invalid; comment loops: [CDone] / [CSwallow]).  [gfin] is what happens after the
    characters of one iteration were read: [rec] is the next iteration. *)
Definition gfin {R} (wrap : result -> R) (sw : N -> R) (rec : str -> bool -> N -> Prog R)
    (acc : str) (lcr : bool) (line start : N) (lf : leaf) (oc od : option char) : Prog R :=
  let '(_, dl, la, apps, ex, a1, a2) := lf in
  let acc' := fold_left (apply_app oc od) apps acc in
  let lcr' := act la lcr in
  match ex with
  | 0 => rec acc' lcr' (line + dl)
  | 1 => Ret (wrap (RTok (tok_of a1) (val_of a2 oc acc') (line + dl) lcr'))
  | 3 => match err_of a1 with
         | Some e => Ret (wrap (RErr e (arg_of a2 oc start) (line + dl)))
         | None => Ret (wrap RFuel) end
  | 7 => Ret (sw (line + dl))
  | _ => Ret (wrap RFuel)
  end.

Fixpoint gloop {R} (wrap : result -> R) (sw : N -> R) (step : aenv -> bool * leaf)
    (f : nat) (acc : str) (lcr : bool) (line start : N) : Prog R :=
  match f with O => Ret (wrap RFuel) | S f' =>
  seg step lcr line (gfin wrap sw (fun acc' lcr' line' => gloop wrap sw step f' acc' lcr' line' start) acc lcr line start)
  end.

Definition tloop := gloop (fun r : result => r) (fun _ => RFuel).
Definition cloop := gloop CDone CSwallow.

(** The eight segments of the two functions. *)
Record steps := { s_dispatch : aenv -> bool * leaf; s_brack : aenv -> bool * leaf; s_paren : aenv -> bool * leaf;
                  s_directive : aenv -> bool * leaf; s_bare : aenv -> bool * leaf; s_star : aenv -> bool * leaf;
                  s_line : aenv -> bool * leaf; s_cprefix : aenv -> bool * leaf }.
Variable St : steps.

(** [_handle_comment]: the entry segment, then one of the two loops. *)
Definition hc_fin (f : nat) (lcr : bool) (line : N) (lf : leaf) (oc od : option char) : Prog cres :=
  let '(_, dl, la, apps, ex, a1, a2) := lf in
  let lcr' := act la lcr in
  match ex with
  | 3 => match err_of a1 with
         | Some e => Ret (CDone (RErr e (arg_of a2 oc line) (line + dl)))
         | None => Ret (CDone RFuel) end
  | 6 => match a1 with
         | 5 => cloop (s_star St) f (init_of a2 oc) lcr' (line + dl) (line + dl)
         | 6 => cloop (s_line St) f (init_of a2 oc) lcr' (line + dl) (line + dl)
         | _ => Ret (CDone RFuel) end
  | 7 => Ret (CSwallow (line + dl))
  | _ => Ret (CDone RFuel)
  end.
Definition hc_interp (f : nat) (lcr : bool) (line : N) : Prog cres := seg (s_cprefix St) lcr line (hc_fin f lcr line).

(** [_get_token]; [hs] is the program of [_handle_string] (the hand model, or the interpretation of its own table). *)
Variable hs : nat -> str -> bool -> N -> Prog result.

Definition gt_fin (rec : N -> bool -> Prog result) (f' : nat) (lcr : bool) (line : N) (lf : leaf) (oc od : option char) : Prog result :=
  let '(_, dl, la, apps, ex, a1, a2) := lf in
  let lcr' := act la lcr in
  let line' := line + dl in
  match ex with
  | 0 => rec line' lcr'
  | 1 => Ret (RTok (tok_of a1) (val_of a2 oc []) line' lcr')
  | 2 => match oc with
         | Some c => match lookup c (operators T) with Some t => Ret (RTok t [c] line' lcr') | None => Ret RFuel end
         | None => Ret RFuel end
  | 3 => match err_of a1 with Some e => Ret (RErr e (arg_of a2 oc line) line') | None => Ret RFuel end
  | 4 => hs f' [] false line'
  | 5 => bind (hc_interp f' lcr' line') (fun r => match r with
           | CSwallow l2 => rec l2 lcr'
           | CDone r' => Ret r' end)
  | 6 => match a1 with
         | 1 => tloop (s_brack St) f' (init_of a2 oc) lcr' line' line'
         | 2 => tloop (s_paren St) f' (init_of a2 oc) lcr' line' line'
         | 3 => tloop (s_directive St) f' (init_of a2 oc) lcr' line' line'
         | 4 => tloop (s_bare St) f' (init_of a2 oc) lcr' line' line'
         | _ => Ret RFuel end
  | _ => Ret RFuel
  end.

Fixpoint gt_interp (f : nat) (line : N) (lcr : bool) : Prog result :=
  match f with O => Ret RFuel | S f' => seg (s_dispatch St) lcr line (gt_fin (gt_interp f') f' lcr line) end.

End Interp.

(* ------------------------------------------------------------------------------------------------ the model's trees *)
Definition L (u : bool) (dl la : N) (apps : list N) (ex a1 a2 : N) : bool * leaf := (false, (u, dl, la, apps, ex, a1, a2)).
Definition L2 (u : bool) (dl la : N) (apps : list N) (ex a1 a2 : N) : bool * leaf := (true, (u, dl, la, apps, ex, a1, a2)).

(** One iteration of the outer loop of [get_token]. *)
Definition spec_dispatch (e : aenv) : bool * leaf :=
  let c := a_c1 e in let o := a_o e in
  if c =? 0 then L false 0 0 [] 1 0 0
  else if a_ops e then L false 0 0 [] 2 0 0
  else if c =? 1 then L false 1 1 [] 1 2 2
  else if c =? 2 then (if a_lcr e then L false 0 2 [] 0 0 0 else L false 1 2 [] 1 2 2)
  else if (c =? 3) || (c =? 4) then L false 0 2 [] 0 0 0
  else if c =? 5 then L false 0 2 [] 5 0 0
  else if c =? 6 then L false 0 2 [] 4 0 0
  else if c =? 7 then (if string_bracket o then L false 0 2 [] 6 1 0 else L false 0 2 [] 1 11 1)
  else if c =? 8 then (if string_parens o then L false 0 2 [] 6 2 0 else L false 0 2 [] 1 8 1)
  else if (c =? 9) && a_line1 e then L false 0 2 [] 0 0 0
  else if (c =? 10) && colon_operator o then L false 0 2 [] 1 13 1
  else if (c =? 11) && plus_operator o then L false 0 2 [] 1 15 1
  else if c =? 12 then (if string_bracket o then L false 0 2 [] 3 8 0 else L false 0 2 [] 1 12 1)
  else if c =? 13 then (if string_parens o then L false 0 2 [] 3 9 0 else L false 0 2 [] 1 9 1)
  else if c =? 14 then L false 0 2 [] 6 3 0
  else if a_bd e then L false 0 2 [] 3 10 1
  else L false 0 2 [] 6 4 1.

Definition spec_brack (e : aenv) : bool * leaf :=
  let c := a_c1 e in
  if c =? 0 then L false 0 0 [] 3 5 0 else if c =? 12 then L false 0 0 [] 1 10 3 else if c =? 2 then L false 0 0 [] 3 3 0
  else if c =? 7 then L false 0 0 [] 3 4 0 else L false 0 0 [2] 0 0 0.

Definition spec_paren (e : aenv) : bool * leaf :=
  let c := a_c1 e in
  if c =? 0 then L false 0 0 [] 3 7 0 else if c =? 13 then L false 0 0 [] 1 3 3 else if c =? 2 then L false 1 0 [2] 0 0 0
  else if c =? 8 then L false 0 0 [] 3 6 0 else L false 0 0 [2] 0 0 0.

Definition delim_a (e : aenv) : bool :=
  a_bd e || ((a_c1 e =? 10) && colon_operator (a_o e)) || ((a_c1 e =? 11) && plus_operator (a_o e)).

Definition spec_directive (e : aenv) : bool * leaf :=
  if a_c1 e =? 0 then L false 0 0 [] 1 4 3 else if delim_a e then L true 0 0 [] 1 4 3 else L false 0 0 [3] 0 0 0.

Definition spec_bare (e : aenv) : bool * leaf :=
  if a_c1 e =? 0 then L false 0 0 [] 1 1 3 else if delim_a e then L true 0 0 [] 1 1 3 else L false 0 0 [2] 0 0 0.

(** The comment loops keep a buffer only with [preserve_comments]; without it they end by [return None]. *)
Definition cend (e : aenv) (u : bool) (two : bool) : bool * leaf :=
  if preserve_comments (a_o e) then (two, (u, 0, 0, [], 1, 5, 3)) else (two, (u, 0, 0, [], 7, 0, 0)).
Definition capp (e : aenv) : list N := if preserve_comments (a_o e) then [2] else [].

Definition spec_line (e : aenv) : bool * leaf :=
  if (a_c1 e =? 0) || (a_c1 e =? 2) then cend e true false else L false 0 0 (capp e) 0 0 0.

Definition spec_star (e : aenv) : bool * leaf :=
  let c := a_c1 e in
  if c =? 0 then L false 0 0 [] 3 11 2
  else if c =? 2 then L false 1 0 (capp e) 0 0 0
  else if c =? 15 then
    (if a_c2 e =? 0 then L2 false 0 0 [] 3 11 2 else if a_c2 e =? 5 then cend e false true else L2 true 0 0 [] 0 0 0)
  else L false 0 0 (capp e) 0 0 0.

Definition spec_cprefix (e : aenv) : bool * leaf :=
  let c := a_c1 e in let o := a_o e in
  if c =? 15 then (if allow_star_comments o then L false 0 0 [] 6 5 (if preserve_comments o then 0 else 2) else L false 0 0 [] 3 12 0)
  else if c =? 5 then L false 0 0 [] 6 6 (if preserve_comments o then 0 else 2)
  else if allow_star_comments o then L false 0 0 [] 3 13 0 else L false 0 0 [] 3 14 0.

Definition spec_steps : steps :=
  {| s_dispatch := spec_dispatch; s_brack := spec_brack; s_paren := spec_paren; s_directive := spec_directive;
     s_bare := spec_bare; s_star := spec_star; s_line := spec_line; s_cprefix := spec_cprefix |}.

(* ------------------------------------------------------------------------------------------------ the boolean conditions *)
Fixpoint lN_eqb' (a b : list N) : bool :=
  match a, b with [], [] => true | x :: a', y :: b' => (x =? y) && lN_eqb' a' b' | _, _ => false end.
Definition leaf_eqb (a b : leaf) : bool :=
  let '(u1, d1, l1, p1, x1, m1, n1) := a in let '(u2, d2, l2, p2, x2, m2, n2) := b in
  Bool.eqb u1 u2 && (d1 =? d2) && (l1 =? l2) && lN_eqb' p1 p2 && (x1 =? x2) && (m1 =? m2) && (n1 =? n2).
Definition res_eqb (a b : bool * leaf) : bool := Bool.eqb (fst a) (fst b) && leaf_eqb (snd a) (snd b).

Definition atom_eqb (a b : atom) : bool :=
  match a, b with
  | ACls x, ACls y | ACls2 x, ACls2 y | AOpt x, AOpt y => x =? y
  | AOps, AOps | ABd, ABd | ALcr, ALcr | ALine1, ALine1 => true
  | _, _ => false
  end.
Fixpoint atoms_in (allowed : atom -> bool) (t : tree) : bool :=
  match t with
  | Leaf _ => true
  | Node a y n => allowed a && atoms_in allowed y && atoms_in allowed n
  | Read2 t' => atoms_in allowed t'
  end.

(** What a segment may depend on: [kind] 0 = the outer loop of [_get_token], 1 = bracket / parenthesis loop, 2 = directive /
    bare loop, 3 = line comment, 4 = star comment, 5 = entry of [_handle_comment]. *)
Definition allowed (kind : N) (a : atom) : bool :=
  match a with
  | ACls k => k <? 17
  | ACls2 k => (kind =? 4) && (k <? 17)
  | AOps | ALcr | ALine1 => kind =? 0
  | ABd => (kind =? 0) || (kind =? 2)
  | AOpt k =>
    match kind with
    | 0 => (k =? 0) || (k =? 1) || (k =? 5) || (k =? 6)
    | 2 => (k =? 5) || (k =? 6)
    | 3 | 4 => k =? 4
    | 5 => (k =? 3) || (k =? 4)
    | _ => false
    end
  end.

Definition bools := [false; true].
Definition bl (b : bool) : list bool := if b then bools else [false].
Definition classes : list N := [0; 1; 2; 3; 4; 5; 6; 7; 8; 9; 10; 11; 12; 13; 14; 15; 16].
Definition mk_o (sb sp sc pc co po : bool) : opts :=
  {| string_bracket := sb; string_parens := sp; allow_escapes := false; allow_star_comments := sc; preserve_comments := pc;
     colon_operator := co; plus_operator := po |}.
Definition mk_e (c1 c2 : N) (ops bd lcr l1 sb sp sc pc co po : bool) : aenv :=
  {| a_c1 := c1; a_c2 := c2; a_ops := ops; a_bd := bd; a_lcr := lcr; a_line1 := l1; a_o := mk_o sb sp sc pc co po |}.

(** The projection of an environment onto what a segment of that kind may depend on. *)
Definition proj (kind : N) (e : aenv) : aenv :=
  let o := a_o e in
  mk_e (a_c1 e) (if kind =? 4 then a_c2 e else 0)
       ((kind =? 0) && a_ops e) (((kind =? 0) || (kind =? 2)) && a_bd e) ((kind =? 0) && a_lcr e) ((kind =? 0) && a_line1 e)
       ((kind =? 0) && string_bracket o) ((kind =? 0) && string_parens o)
       ((kind =? 5) && allow_star_comments o) (((kind =? 3) || (kind =? 4) || (kind =? 5)) && preserve_comments o)
       (((kind =? 0) || (kind =? 2)) && colon_operator o) (((kind =? 0) || (kind =? 2)) && plus_operator o).

Definition envs (c2s : list N) (opss bds lcrs l1s sbs sps scs pcs cos pos : list bool) : list aenv :=
  flat_map (fun c1 => flat_map (fun c2 => flat_map (fun ops => flat_map (fun bd => flat_map (fun lcr => flat_map (fun l1 =>
  flat_map (fun sb => flat_map (fun sp => flat_map (fun sc => flat_map (fun pc => flat_map (fun co => map (fun po =>
    mk_e c1 c2 ops bd lcr l1 sb sp sc pc co po)
  pos) cos) pcs) scs) sps) sbs) l1s) lcrs) bds) opss) c2s) classes.

(** Consistent: end of input is in neither table. *)
Definition consistent (e : aenv) : bool := negb ((a_c1 e =? 0) && (a_ops e || a_bd e)).

(** All consistent projected environments of a kind of segment. *)
Definition dom (kind : N) : list aenv :=
  filter consistent
    (envs (if kind =? 4 then classes else [0]) (bl (kind =? 0)) (bl ((kind =? 0) || (kind =? 2))) (bl (kind =? 0)) (bl (kind =? 0))
          (bl (kind =? 0)) (bl (kind =? 0)) (bl (kind =? 5)) (bl ((kind =? 3) || (kind =? 4) || (kind =? 5)))
          (bl ((kind =? 0) || (kind =? 2))) (bl ((kind =? 0) || (kind =? 2)))).

(** The tree read from the source asks only what a segment of its kind may depend on, and computes the model's function on
    every consistent environment. *)
Definition tree_ok (kind : N) (t : tree) (spec : aenv -> bool * leaf) : bool :=
  atoms_in (allowed kind) t && forallb (fun e => res_eqb (eval e t) (spec e)) (dom kind).

(** For the report: environments on which the tree and the model differ. *)
Definition tree_diff (kind : N) (t : tree) (spec : aenv -> bool * leaf) : list (aenv * (bool * leaf) * (bool * leaf)) :=
  flat_map (fun e => if res_eqb (eval e t) (spec e) then [] else [(e, eval e t, spec e)]) (dom kind).

Record trees := { t_dispatch : tree; t_brack : tree; t_paren : tree; t_directive : tree; t_bare : tree; t_star : tree;
                  t_line : tree; t_cprefix : tree }.
Definition steps_of (G : trees) : steps :=
  {| s_dispatch := fun e => eval e (t_dispatch G); s_brack := fun e => eval e (t_brack G); s_paren := fun e => eval e (t_paren G);
     s_directive := fun e => eval e (t_directive G); s_bare := fun e => eval e (t_bare G); s_star := fun e => eval e (t_star G);
     s_line := fun e => eval e (t_line G); s_cprefix := fun e => eval e (t_cprefix G) |}.
Definition trees_ok (G : trees) : bool :=
  tree_ok 0 (t_dispatch G) spec_dispatch && tree_ok 1 (t_brack G) spec_brack && tree_ok 1 (t_paren G) spec_paren
  && tree_ok 2 (t_directive G) spec_directive && tree_ok 2 (t_bare G) spec_bare && tree_ok 4 (t_star G) spec_star
  && tree_ok 3 (t_line G) spec_line && tree_ok 5 (t_cprefix G) spec_cprefix.

(** Repeated calls: the trace of the interpretation is the trace of the model. *)
Fixpoint itokens_flat (get : N -> bool -> Prog result) (n : nat) (line : N) (lcr : bool) (l : str) : list result :=
  match n with O => [] | S n' =>
    let '(r, l') := run_flat (get line lcr) l in
    match r with
    | RTok _ _ line' lcr' => r :: itokens_flat get n' line' lcr' l'
    | _ => [r]
    end
  end.
Fixpoint itokens_chk (get : N -> bool -> Prog result) (n : nat) (line : N) (lcr : bool) (s : chk) : list result :=
  match n with O => [] | S n' =>
    let '(r, s') := run_chk (get line lcr) s in
    match r with
    | RTok _ _ line' lcr' => r :: itokens_chk get n' line' lcr' s'
    | _ => [r]
    end
  end.

