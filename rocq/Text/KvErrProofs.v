(** C03: nothing but KeyValError leaves the model of [Keyvalues.parse] when every indexing site is guarded the way
    the configuration says; and each foreign exit needs its own guard to be missing. *)
From Coq Require Import List NArith Bool Lia.
From SV Require Import Text.Str Text.Prog Text.ProgProofs Text.Tokenizer Text.TokenizerProofs Text.KvErrModel.
Import ListNotations.
Open Scope N_scope.

(** The guard whose absence a foreign exit needs ([F_EXPECT_INDEX] has none: it is excluded by the invariant
    "a block is only expected right after it was appended"). *)
Definition site_guard (c : kcfg) (s : fsite) : bool :=
  match s with
  | F_BANG => bang_total c
  | F_REPLACE_BLOCK => guard_replace_block c
  | F_REPLACE_LEAF => guard_replace_leaf c
  | F_ROOT0 => guard_single_root c
  | F_CLOSE => close_guarded c
  | F_EXPECT_INDEX => true
  end.

Section Proofs.
  Variable cfg : kcfg.
  Variable ko : kopts.
  Variable cf : char -> list char.
  Variables flags defaults : list (str * bool).
  Variable fin : option result.
  Notation prun := (prun cfg ko cf flags defaults fin).

  Lemma at_end_not_foreign k s : (forall s', k <> OForeign s') -> at_end fin k <> OForeign s.
  Proof. unfold at_end. destruct fin; [discriminate|auto]. Qed.

  Ltac brk :=
    repeat match goal with
    | |- context [match ?x with _ => _ end] => destruct x eqn:?
    | |- context [if ?x then _ else _] => destruct x eqn:?
    end.

  Lemma prun_foreign : forall n ts, (length ts <= n)%nat -> forall stk cur b cfr s,
    (b = BExpect -> cur = true) -> prun stk cur b cfr ts = OForeign s -> site_guard cfg s = false.
  Proof.
    induction n as [|n IH]; intros ts Hl stk cur b cfr s Hinv.
    - destruct ts; [|cbn in Hl; lia]. cbn [KvErrModel.prun]. unfold at_end, pfinal. brk; discriminate.
    - destruct ts as [|[t v] r]; cbn [KvErrModel.prun].
      + unfold at_end, pfinal. brk; discriminate.
      + cbn [length] in Hl.
        assert (IHr : forall r', (length r' <= length r)%nat -> forall stk cur b cfr s,
                  (b = BExpect -> cur = true) -> prun stk cur b cfr r' = OForeign s -> site_guard cfg s = false).
        { intros r' Hr'. apply IH. lia. }
        clear IH.
        destruct (cls t) eqn:Ec.
        all: try (destruct b; try discriminate).
        all: try (apply IHr; [lia|]; intros; try discriminate; auto).
        * (* CStr, BNone *)
          destruct (negb (newline_keys ko) && has_lb v); [discriminate|].
          destruct r as [|[t2 v2] r2]; [unfold at_end; destruct fin; discriminate|].
          cbn [length] in IHr.
          destruct (cls t2) eqn:Ec2.
          all: try (apply IHr; [cbn [length]; lia|]; intros; try discriminate; auto).
          -- (* value *)
             destruct (negb (newline_values ko) && has_lb v2); [discriminate|].
             destruct r2 as [|[t3 v3] r3].
             { unfold at_end, pfinal. brk; discriminate. }
             destruct (cls t3) eqn:Ec3.
             all: try (destruct (single_block ko && is_root stk); [discriminate|]).
             all: try (apply IHr; [cbn [length]; lia|]; intros; try discriminate; auto).
             ++ destruct (single_line ko); [|discriminate].
                apply IHr; [cbn [length]; lia|]; intros; discriminate.
             ++ destruct r3 as [|[t4 v4] r4]; [unfold at_end; destruct fin; discriminate|].
                destruct (cls t4); try discriminate.
                unfold read_flag. destruct v3 as [|c3 v3'].
                ** destruct (bang_total cfg) eqn:Eb.
                   --- destruct (flag_lookup cf flags defaults []).
                       +++ destruct (cfr && negb (guard_replace_leaf cfg) && negb cur) eqn:Eg.
                           *** intros H; inversion H; subst. cbn [site_guard].
                               apply andb_true_iff in Eg. destruct Eg as [Eg _]. apply andb_true_iff in Eg.
                               destruct Eg as [_ Eg]. now apply negb_true_iff in Eg.
                           *** destruct (single_block ko && is_root stk); [discriminate|].
                               apply IHr; [cbn [length]; lia|]; intros; discriminate.
                       +++ apply IHr; [cbn [length]; lia|]; intros; discriminate.
                   --- intros H; inversion H; subst. exact Eb.
                ** destruct (c3 =? BANG).
                   --- destruct (negb (flag_lookup cf flags defaults v3')).
                       +++ destruct (cfr && negb (guard_replace_leaf cfg) && negb cur) eqn:Eg.
                           *** intros H; inversion H; subst. cbn [site_guard].
                               apply andb_true_iff in Eg. destruct Eg as [Eg _]. apply andb_true_iff in Eg.
                               destruct Eg as [_ Eg]. now apply negb_true_iff in Eg.
                           *** destruct (single_block ko && is_root stk); [discriminate|].
                               apply IHr; [cbn [length]; lia|]; intros; discriminate.
                       +++ apply IHr; [cbn [length]; lia|]; intros; discriminate.
                   --- destruct (flag_lookup cf flags defaults (c3 :: v3')).
                       +++ destruct (cfr && negb (guard_replace_leaf cfg) && negb cur) eqn:Eg.
                           *** intros H; inversion H; subst. cbn [site_guard].
                               apply andb_true_iff in Eg. destruct Eg as [Eg _]. apply andb_true_iff in Eg.
                               destruct Eg as [_ Eg]. now apply negb_true_iff in Eg.
                           *** destruct (single_block ko && is_root stk); [discriminate|].
                               apply IHr; [cbn [length]; lia|]; intros; discriminate.
                       +++ apply IHr; [cbn [length]; lia|]; intros; discriminate.
          -- (* "name" [flag] *)
             destruct r2 as [|[t3 v3] r3]; [unfold at_end; destruct fin; discriminate|].
             destruct (cls t3); try discriminate.
             destruct (read_flag cfg cf flags defaults v2) as [[|]|] eqn:Erf.
             ++ destruct (cfr && negb (guard_replace_block cfg) && negb cur) eqn:Eg.
                ** intros H; inversion H; subst. cbn [site_guard].
                   apply andb_true_iff in Eg. destruct Eg as [Eg _]. apply andb_true_iff in Eg.
                   destruct Eg as [_ Eg]. now apply negb_true_iff in Eg.
                ** apply IHr; [cbn [length]; lia|]; intros; reflexivity.
             ++ apply IHr; [cbn [length]; lia|]; intros; discriminate.
             ++ intros H; inversion H; subst. cbn [site_guard].
                unfold read_flag in Erf. destruct v2 as [|c2 v2']; [destruct (bang_total cfg); [discriminate Erf|reflexivity]|].
                destruct (c2 =? BANG); discriminate Erf.
        * (* COpen, BExpect *)
          rewrite (Hinv eq_refl). apply IHr; [lia|]; intros; discriminate.
        * (* CClose, BNone *)
          destruct stk as [|p stk'].
          -- destruct (close_guarded cfg) eqn:E; [discriminate|]. intros H; inversion H; subst. exact E.
          -- destruct (single_block ko && is_root stk' && (negb (guard_single_root cfg) || p)) eqn:E.
             ++ destruct p; [discriminate|]. intros H; inversion H; subst. cbn [site_guard].
                apply andb_true_iff in E. destruct E as [_ E]. rewrite orb_false_r in E. now apply negb_true_iff in E.
             ++ apply IHr; [lia|]; intros; discriminate.
  Qed.

  (** Every indexing site guarded => nothing but KeyValError leaves the parser, for every token stream, every flag
      mapping, every option vector, whatever error the tokenizer ends with. *)
  Theorem no_foreign : cfg_safe cfg = true -> forall ts s, parse_tokens cfg ko cf flags defaults fin ts <> OForeign s.
  Proof.
    intros Hs ts s H. unfold parse_tokens in H.
    pose proof (prun_foreign (length ts) ts (le_n _) [] false BNone false s ltac:(discriminate) H) as Hg.
    unfold cfg_safe in Hs. repeat (apply andb_true_iff in Hs; destruct Hs as [Hs ?]).
    destruct s; cbn [site_guard] in Hg; congruence.
  Qed.

  (** Per site: a foreign exit at [s] is only possible when the guard of [s] is missing in the source. *)
  Theorem foreign_needs_missing_guard : forall ts s,
    parse_tokens cfg ko cf flags defaults fin ts = OForeign s -> site_guard cfg s = false.
  Proof. intros ts s H. exact (prun_foreign (length ts) ts (le_n _) [] false BNone false s ltac:(discriminate) H). Qed.
End Proofs.

Lemma split_trace_fin rs : forall ts r, split_trace rs = (ts, Some r) -> In r rs /\ (forall k v l b, r <> RTok k v l b).
Proof.
  induction rs as [|x rs IH]; intros ts r; cbn [split_trace]; [discriminate|].
  destruct x as [k v l b| |].
  - destruct k; try discriminate;
      (destruct (split_trace rs) as [ts' f] eqn:E; intros H; inversion H; subst;
       destruct (IH ts' r eq_refl) as [Hin Hne]; split; [now right|exact Hne]).
  - intros H; inversion H; subst. split; [now left|discriminate].
  - intros H; inversion H; subst. split; [now left|discriminate].
Qed.

(** Text level: [Keyvalues.parse(text)] = the parser model on the token trace of the tokenizer model.  With all
    sites guarded and fuel above the text length, the tokenizer part never runs out of fuel (so the trace ends in EOF
    or in one of the 14 error sites raised through [self.error], whose type is KeyValError here) and the parser part
    never leaves with a foreign exception. *)
Theorem kv_parse_text_typed T cfg ko ae flags defaults : cfg_safe cfg = true -> ops_no_eof T = true ->
  forall text,
  let tr := split_trace (tokens_flat T (kv_tok_opts ae) (S (length text)) (S (length text)) 1 false text) in
  snd tr <> Some RFuel /\ forall s, kv_parse_text T cfg ko ae flags defaults text <> OForeign s.
Proof.
  intros Hs Ho text tr. split.
  - intros Hf. destruct tr as [ts f] eqn:E. cbn [snd] in Hf. subst f.
    destruct (split_trace_fin _ _ _ E) as [Hin _].
    pose proof (tokens_total T (kv_tok_opts ae) Ho (S (length text)) (S (length text)) 1 false text (PeanoNat.Nat.lt_succ_diag_r _)) as Hall.
    rewrite Forall_forall in Hall. exact (Hall _ Hin eq_refl).
  - intros s. unfold kv_parse_text. fold tr. destruct tr as [ts f]. apply no_foreign. exact Hs.
Qed.

(** The outcome of [Keyvalues.parse] (ok, or which KeyValError, with the tokenizer error and its line if that is what
    ended the stream) is the same for every chunking of the text. *)
Theorem kv_parse_any_chunking T cfg ko ae flags defaults cs :
  kv_parse_chunks T cfg ko ae flags defaults cs = kv_parse_text T cfg ko ae flags defaults (concat cs).
Proof.
  unfold kv_parse_chunks, kv_parse_text.
  now rewrite (tokens_chunk_independent T (kv_tok_opts ae) _ _ 1%N false (concat cs) (chk_of_chunks cs) (R_of_chunks cs)).
Qed.
