(** The table of [_next_char] regenerated from tokenizer.py (Gen/NextChar_gen.v) and its instance obligation. *)
From Coq Require Import List NArith Bool.
From SV Require Import Text.Str Text.Prog Text.NextChar.
From SV Require Gen.NextChar_gen.
Import ListNotations.
Open Scope N_scope.

(** The fast path is [_char_index += 1; return _cur_chunk[_char_index]] guarded by IndexError, and the refill part answers
    every thing the chunk iterator can do as the model says: under this condition [NextChar.xnext_is_cnext] identifies
    [_next_char] as written, on sources of [str] chunks, with the reader [Prog.cnext] of the model. *)
Definition next_char_rows_are_the_model : bool := nc_rows_ok SV.Gen.NextChar_gen.nc_fast_path SV.Gen.NextChar_gen.nc_rows.
(** For the report: (what the iterator does, action of the source, action of the model). *)
Definition next_char_rows_diff : list (N * N * N) :=
  flat_map (fun k => if nc_tb SV.Gen.NextChar_gen.nc_rows k =? nc_spec k then [] else [(k, nc_tb SV.Gen.NextChar_gen.nc_rows k, nc_spec k)])
           [0; 1; 2; 3; 4; 5; 6].
