(** C02: [escape_text] and [Tokenizer._handle_string] are inverse, for every table satisfying the boolean
    conditions of Text/Escape.v (discharged for the generated tables by computation). *)
From Coq Require Import List NArith Bool Lia.
From SV Require Import Text.Str Text.Prog Text.Escape Text.Tokenizer.
Import ListNotations.
Open Scope N_scope.

Lemma rlookup_In c t s : rlookup c t = Some s -> In (s, c) t.
Proof.
  induction t as [|[s' c'] r IH]; cbn [rlookup]; [discriminate|].
  destruct (rlookup c r) as [s''|] eqn:E.
  - intros H. right. apply IH. congruence.
  - destruct (c' =? c) eqn:Ec; [|discriminate]. intros H. inversion H; subst.
    apply N.eqb_eq in Ec. subst. now left.
Qed.

Lemma rlookup_None c t : ~ In c (map snd t) -> rlookup c t = None.
Proof.
  induction t as [|[s' c'] r IH]; cbn [rlookup map snd]; [reflexivity|]. intros H.
  rewrite IH by (intros Hin; apply H; now right).
  destruct (c' =? c) eqn:E; [|reflexivity]. apply N.eqb_eq in E. subst. exfalso. apply H. now left.
Qed.

(** Characters that are not a value of ESCAPES are left alone (so comparing [escape_text] with the model on the
    finitely many values of the table and observing identity elsewhere covers every code point). *)
Lemma esc_char_other T ml c : ~ In c (map snd (esc_table T)) -> esc_char T ml c = [c].
Proof.
  intros H. unfold esc_char. rewrite (rlookup_None _ _ H). now destruct (mem c (excl T ml)).
Qed.

Section Proofs.
Variable T : tables.
Variable o : opts.
Hypothesis Hesc : allow_escapes o = true.

Lemma roundtrip_spec c s : tbl_roundtrip T = true -> rlookup c (esc_table T) = Some s ->
  (s =? LF) = false /\ lookup s (esc_table T) = Some c.
Proof.
  intros Hrt Hr. unfold tbl_roundtrip in Hrt. rewrite forallb_forall in Hrt.
  specialize (Hrt (s, c) (rlookup_In _ _ _ Hr)). cbn [snd] in Hrt. rewrite Hr in Hrt.
  apply andb_true_iff in Hrt. destruct Hrt as [H1 H2]. split.
  - now apply negb_true_iff in H1.
  - destruct (lookup s (esc_table T)) as [x|]; cbn [opt_eqb] in H2; [|discriminate].
    apply N.eqb_eq in H2. now subst.
Qed.

Lemma raw_neq ml c d : must_escape T ml d = true -> is_raw T ml c = true -> (c =? d) = false.
Proof.
  intros Hm Hr. apply N.eqb_neq. intros ->. unfold must_escape in Hm. rewrite Hr in Hm. discriminate.
Qed.

Lemma BS_DQ : (BS =? DQ) = false. Proof. reflexivity. Qed.
Lemma BS_CR : (BS =? CR) = false. Proof. reflexivity. Qed.
Lemma BS_LF : (BS =? LF) = false. Proof. reflexivity. Qed.

(** One source character: its escaped form is consumed by exactly one iteration of the string loop, which
    appends the character itself. *)
Lemma step_char ml c : tbl_ok T ml = true -> forall f acc line rest,
  run_flat (handle_string T o (S f) acc false line) (esc_char T ml c ++ rest)
  = run_flat (handle_string T o f (c :: acc) false (line + raw_lf T ml c)) rest.
Proof.
  intros Hok f acc line rest. unfold tbl_ok in Hok.
  apply andb_true_iff in Hok; destruct Hok as [Hok Hbs].
  apply andb_true_iff in Hok; destruct Hok as [Hok Hcr].
  apply andb_true_iff in Hok; destruct Hok as [Hrt Hdq].
  assert (Hraw : is_raw T ml c = true ->
     run_flat (handle_string T o (S f) acc false line) (c :: rest)
     = run_flat (handle_string T o f (c :: acc) false (line + raw_lf T ml c)) rest).
  { intros Hr. unfold raw_lf. rewrite Hr.
    cbn [run_flat handle_string fnext keep].
    rewrite (raw_neq ml c DQ Hdq Hr), (raw_neq ml c CR Hcr Hr), (raw_neq ml c BS Hbs Hr).
    destruct (c =? LF) eqn:El; cbn [andb].
    - apply N.eqb_eq in El. subst c. reflexivity.
    - now rewrite N.add_0_r. }
  unfold esc_char. destruct (mem c (excl T ml)) eqn:Em.
  - apply Hraw. unfold is_raw. now rewrite Em.
  - destruct (rlookup c (esc_table T)) as [s|] eqn:Er.
    + destruct (roundtrip_spec c s Hrt Er) as [Hs Hl].
      assert (Hnr : raw_lf T ml c = 0).
      { unfold raw_lf, is_raw. rewrite Em, Er. cbn [orb]. now rewrite andb_false_r. }
      rewrite Hnr, N.add_0_r.
      cbn [app run_flat handle_string fnext keep].
      rewrite BS_DQ, BS_CR, BS_LF, N.eqb_refl, Hesc. cbn [andb run_flat fnext keep].
      rewrite Hs, Hl. reflexivity.
    + apply Hraw. unfold is_raw. rewrite Em, Er. reflexivity.
Qed.

(** Compositional form: the escaped text followed by a quote, embedded before ANY rest of input, at ANY line and
    with ANY characters already collected, is read back as exactly the string; the rest is untouched. *)
Theorem quoted_embedding ml : tbl_ok T ml = true -> forall s f acc line rest, (length s < f)%nat ->
  run_flat (handle_string T o f acc false line) (escape T ml s ++ DQ :: rest)
  = (RTok STRING (rev acc ++ s) (line + raw_lfs T ml s) false, rest).
Proof.
  intros Hok. induction s as [|c s IH]; intros f acc line rest Hf; cbn [escape flat_map raw_lfs fold_right app].
  - destruct f; [cbn in Hf; lia|]. cbn [run_flat handle_string fnext keep]. rewrite N.eqb_refl.
    cbn [run_flat]. now rewrite app_nil_r, N.add_0_r.
  - destruct f; [cbn in Hf; lia|]. rewrite <- app_assoc, (step_char ml c Hok).
    fold (escape T ml s). rewrite IH by (cbn in Hf; lia).
    cbn [rev]. rewrite <- app_assoc. cbn [app]. f_equal. f_equal. fold (raw_lfs T ml s). lia.
Qed.

(** Whole-tokenizer form. [DQ] must not be an operator character. *)
Definition dq_not_operator : bool := match lookup DQ (operators T) with None => true | Some _ => false end.

Lemma get_token_quote f line lcr l : dq_not_operator = true ->
  run_flat (get_token T o (S f) line lcr) (DQ :: l) = run_flat (handle_string T o f [] false line) l.
Proof.
  unfold dq_not_operator. intros Hop. cbn [run_flat get_token fnext keep].
  destruct (lookup DQ (operators T)); [discriminate|]. reflexivity.
Qed.

Lemma get_token_eof f line lcr : run_flat (get_token T o (S f) line lcr) [] = (RTok EOF [] line lcr, []).
Proof. reflexivity. Qed.

Lemma tokens_flat_eof n f line lcr : tokens_flat T o n (S f) line lcr [] = repeat (RTok EOF [] line lcr) n.
Proof.
  induction n as [|n IH]; cbn [tokens_flat repeat]; [reflexivity|].
  rewrite get_token_eof. now rewrite IH.
Qed.

Theorem escape_tokenize_inverse ml : tbl_ok T ml = true -> dq_not_operator = true ->
  forall s n fuel line lcr, (length s + 2 <= fuel)%nat ->
  tokens_flat T o (S n) fuel line lcr (DQ :: escape T ml s ++ [DQ])
  = RTok STRING s (line + raw_lfs T ml s) false :: repeat (RTok EOF [] (line + raw_lfs T ml s) false) n.
Proof.
  intros Hok Hop s n fuel line lcr Hf.
  destruct fuel as [|f]; [lia|].
  cbn [tokens_flat]. rewrite get_token_quote by assumption.
  rewrite (quoted_embedding ml Hok s f [] line []) by lia. cbn [rev app].
  f_equal. apply tokens_flat_eof.
Qed.

(* ---- shape of the escaped text ---- *)
Lemma escape_units_flatten ml s : concat (map unit_chars (escape_units T ml s)) = escape T ml s.
Proof.
  induction s as [|c s IH]; [reflexivity|].
  cbn [escape_units map concat escape flat_map]. fold (escape_units T ml s). fold (escape T ml s). rewrite IH. f_equal.
  unfold esc_unit, esc_char. destruct (mem c (excl T ml)); [reflexivity|].
  destruct (rlookup c (esc_table T)); reflexivity.
Qed.

Lemma esc_unit_raw ml c d : esc_unit T ml c = Raw d -> d = c /\ is_raw T ml c = true.
Proof.
  unfold esc_unit, is_raw. destruct (mem c (excl T ml)).
  - intros H; inversion H; auto.
  - destruct (rlookup c (esc_table T)); intros H; inversion H; auto.
Qed.

(** Every raw unit of the escaped text is a character that [d] is not, whenever [d] must be escaped. *)
Theorem escape_no_raw ml d : must_escape T ml d = true ->
  forall s, Forall (fun u => match u with Raw c => c <> d | Esc _ => True end) (escape_units T ml s).
Proof.
  intros Hm s. apply Forall_forall. intros u Hin. unfold escape_units in Hin. apply in_map_iff in Hin.
  destruct Hin as [c [Hu _]]. destruct u as [x|x]; [|exact I].
  destruct (esc_unit_raw ml c x Hu) as [-> Hr]. apply N.eqb_neq. exact (raw_neq ml c d Hm Hr).
Qed.

(** In single-line mode the escaped text contains no line-break character at all (raw or as a symbol). *)
Theorem escape_no_linebreak_single : tbl_lf_single T = true -> tbl_cr T false = true -> tbl_sym_no_linebreak T = true ->
  forall s, ~ In LF (escape T false s) /\ ~ In CR (escape T false s).
Proof.
  intros Hlf Hcr Hsym s.
  assert (Hc : forall c x, In x (esc_char T false c) -> x <> LF /\ x <> CR).
  { intros c x Hin. unfold esc_char in Hin.
    assert (Hraw : is_raw T false c = true -> x = c -> x <> LF /\ x <> CR).
    { intros Hr ->. split; apply N.eqb_neq; [exact (raw_neq false c LF Hlf Hr)|exact (raw_neq false c CR Hcr Hr)]. }
    destruct (mem c (excl T false)) eqn:Em.
    - destruct Hin as [<-|[]]. apply Hraw; [unfold is_raw; now rewrite Em|reflexivity].
    - destruct (rlookup c (esc_table T)) as [sy|] eqn:Er.
      + destruct Hin as [<-|[<-|[]]]; [split; discriminate|].
        unfold tbl_sym_no_linebreak in Hsym. rewrite forallb_forall in Hsym.
        specialize (Hsym (sy, c) (rlookup_In _ _ _ Er)). cbn [fst] in Hsym.
        apply andb_true_iff in Hsym. destruct Hsym as [H1 H2].
        apply negb_true_iff in H1, H2. split; now apply N.eqb_neq.
      + destruct Hin as [<-|[]]. apply Hraw; [unfold is_raw; now rewrite Em, Er|reflexivity]. }
  split; intros Hin; unfold escape in Hin; apply in_flat_map in Hin; destruct Hin as [c [_ Hin]];
    destruct (Hc c _ Hin); congruence.
Qed.

Lemma raw_lfs_zero ml : must_escape T ml LF = true -> forall s, raw_lfs T ml s = 0.
Proof.
  intros Hm. induction s as [|c s IH]; [reflexivity|]. cbn [raw_lfs fold_right]. fold (raw_lfs T ml s). rewrite IH.
  unfold raw_lf. destruct (c =? LF) eqn:El; [|reflexivity]. apply N.eqb_eq in El. subst.
  unfold must_escape in Hm. apply negb_true_iff in Hm. now rewrite Hm.
Qed.

Lemma raw_lfs_count ml : is_raw T ml LF = true -> forall s,
  raw_lfs T ml s = N.of_nat (count_occ N.eq_dec s LF).
Proof.
  intros Hr. induction s as [|c s IH]; [reflexivity|]. cbn [raw_lfs fold_right count_occ]. fold (raw_lfs T ml s).
  rewrite IH. unfold raw_lf. destruct (N.eq_dec c LF) as [->|Hn].
  - rewrite Hr, N.eqb_refl. cbn [andb]. lia.
  - apply N.eqb_neq in Hn. rewrite Hn. cbn [andb]. lia.
Qed.

End Proofs.
