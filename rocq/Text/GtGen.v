(** The decision trees of [_get_token] / [_handle_comment] regenerated from tokenizer.py (Gen/GtTrees_gen.v) and their
    instance obligations. *)
From Coq Require Import List NArith Bool.
From SV Require Import Text.Str Text.Prog Text.Escape Text.EscapeProofs Text.EscPipeline Text.Tokenizer Text.GtTable Text.TokGen Text.TokEnum Text.HsTable Text.HsGen.
From SV Require Gen.GtTrees_gen.
Import ListNotations.
Open Scope N_scope.

Definition gen_trees : trees :=
  {| t_dispatch := SV.Gen.GtTrees_gen.gt_dispatch; t_brack := SV.Gen.GtTrees_gen.gt_brack; t_paren := SV.Gen.GtTrees_gen.gt_paren;
     t_directive := SV.Gen.GtTrees_gen.gt_directive; t_bare := SV.Gen.GtTrees_gen.gt_bare; t_star := SV.Gen.GtTrees_gen.gt_star;
     t_line := SV.Gen.GtTrees_gen.gt_line; t_cprefix := SV.Gen.GtTrees_gen.gt_cprefix |}.

(** One obligation per segment: the tree read from the source asks only what a segment of its kind may depend on and computes
    the model's function on every consistent environment.  Together: [trees_ok gen_trees], under which
    [GtTableProofs.gt_trees_interp_is_model] identifies the interpretation of the trees with [Tokenizer.get_token]. *)
Definition get_token_dispatch_is_the_model : bool := tree_ok 0 (t_dispatch gen_trees) spec_dispatch.
Definition bracket_loop_is_the_model : bool := tree_ok 1 (t_brack gen_trees) spec_brack.
Definition paren_loop_is_the_model : bool := tree_ok 1 (t_paren gen_trees) spec_paren.
Definition directive_loop_is_the_model : bool := tree_ok 2 (t_directive gen_trees) spec_directive.
Definition bare_loop_is_the_model : bool := tree_ok 2 (t_bare gen_trees) spec_bare.
Definition star_comment_loop_is_the_model : bool := tree_ok 4 (t_star gen_trees) spec_star.
Definition line_comment_loop_is_the_model : bool := tree_ok 3 (t_line gen_trees) spec_line.
Definition handle_comment_entry_is_the_model : bool := tree_ok 5 (t_cprefix gen_trees) spec_cprefix.
Definition get_token_trees_are_the_model : bool := trees_ok gen_trees.

(** For the report when an obligation fails: (environment, leaf of the source's tree, leaf of the model). *)
Definition enc_env (e : aenv) : list N :=
  [a_c1 e; a_c2 e; N.b2n (a_ops e); N.b2n (a_bd e); N.b2n (a_lcr e); N.b2n (a_line1 e); N.b2n (string_bracket (a_o e));
   N.b2n (string_parens (a_o e)); N.b2n (allow_star_comments (a_o e)); N.b2n (preserve_comments (a_o e));
   N.b2n (colon_operator (a_o e)); N.b2n (plus_operator (a_o e))].
Definition gen_tree_diffs : list (N * list (list N * (bool * leaf) * (bool * leaf))) :=
  map (fun p : N * N * tree * (aenv -> bool * leaf) =>
         let '(role, kind, t, sp) := p in
         (role, map (fun d : aenv * (bool * leaf) * (bool * leaf) => let '(e, a, b) := d in (enc_env e, a, b)) (tree_diff kind t sp)))
      [(0, 0, t_dispatch gen_trees, spec_dispatch); (1, 1, t_brack gen_trees, spec_brack); (2, 1, t_paren gen_trees, spec_paren);
       (3, 2, t_directive gen_trees, spec_directive); (4, 2, t_bare gen_trees, spec_bare); (5, 4, t_star gen_trees, spec_star);
       (6, 3, t_line gen_trees, spec_line); (7, 5, t_cprefix gen_trees, spec_cprefix)].

(** [_get_token] as written in the source, as a reader program (follows the code whatever its trees are), with
    [_handle_string] as written too. *)
Definition gen_get_token (o : opts) := gt_interp gen_tables o (steps_of gen_trees) (gen_handle_string o).

(** Small-scope comparison inside Coq of the code's own trees with the hand model (for the report when an obligation fails;
    when all hold [gt_trees_trace_is_model] makes this list empty for every scope): texts on which the two traces differ. *)
Definition gt_case (get : opts -> nat -> N -> bool -> Prog result) (bits : N) (l : str) : list N :=
  enc_results (itokens_flat (get (opts_of_bits bits) (S (S (length l)))) (S (S (length l))) 1 false l).
Definition gt_tree_witnesses (bitsl : list N) (alpha : list N) (n : nat) : list (N * str * list N * list N) :=
  flat_map (fun bits => flat_map (fun s =>
      let a := gt_case gen_get_token bits s in
      let b := gt_case (get_token gen_tables) bits s in
      if nl_eqb a b then [] else [(bits, s, a, b)]) (strings_upto alpha n)) bitsl.

(** State census (translate/c02_gettoken.py [state_census]): what the reader-program model assumes about state.  The three
    functions keep nothing between calls except [line_num] / [_last_was_cr] and the reader position: no data attribute is bound
    in the class body (it would be shared by every tokenizer and survive a failed parse), no other [self.<attr>] is read or
    written, no module-level name other than the constant tables is read, no parameter has a default, and the constant tables
    are never mutated. *)
Definition is_nil {A} (l : list A) : bool := match l with [] => true | _ => false end.
Definition tokenizer_class_binds_no_shared_data_attribute : bool := is_nil SV.Gen.GtTrees_gen.st_class_data.
Definition tokenizer_functions_read_only_modelled_state : bool :=
  is_nil SV.Gen.GtTrees_gen.st_foreign_reads && is_nil SV.Gen.GtTrees_gen.st_foreign_globals && is_nil SV.Gen.GtTrees_gen.st_mutable_defaults.
Definition tokenizer_functions_write_only_modelled_state : bool :=
  is_nil SV.Gen.GtTrees_gen.st_foreign_writes && is_nil SV.Gen.GtTrees_gen.st_table_mutation.

(** The model takes the option vector as a parameter of every call; the class has seven public, settable attributes.  Faithful
    only if every option the token functions consult is read from the public attribute at call time: [__init__] uses each option
    parameter for nothing but the store into the attribute of the same name (no private attribute derived from an option, no
    branch on it), and the options are plain instance attributes (translate/c02_gettoken.py [option_census]); that the three
    functions read nothing but [self.<option>] is [tokenizer_functions_read_only_modelled_state]. *)
Definition tokenizer_options_are_read_from_the_public_attribute_at_call_time : bool :=
  is_nil SV.Gen.GtTrees_gen.st_cached_options.

(** Example for [Props/C02.c02_property_as_written]: the objects generated from today's source satisfy every one of its
    hypotheses (default options, both modes) - the theorem is not vacuous for the code it is about. *)
Definition c02_property_hypotheses_hold_for_todays_source : bool :=
  allow_escapes default_opts && SV.Gen.EscTables_gen.esc_pipeline_translated && escape_text_uses_no_state_outliving_the_call
  && forallb (fun ml => match single_sub gen_pipeline ml with Some e => nl_eqb e (excl gen_tables ml) | None => false end
                        && tbl_ok gen_tables ml) [false; true]
  && dq_not_operator gen_tables && trees_ok gen_trees && hs_rows_ok gen_hs_rows.
