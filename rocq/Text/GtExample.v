(** A fixed copy of the decision trees read from the pinned tokenizer.py (translate/c02_gettoken.py), as a witness that the
    condition [trees_ok] of Text/GtTable.v is satisfiable, and a nearby wrong object that it rejects. *)
From Coq Require Import NArith List Bool.
From SV Require Import Text.Str Text.Prog Text.Tokenizer Text.GtTable.
Import ListNotations.
Open Scope N_scope.

Definition ex_dispatch : tree :=
  Node (ACls 0) (Leaf (false, 0, 0, [], 1, 0, 0)) (Node (AOps) (Leaf (false, 0, 0, [], 2, 0, 0)) (Node (ACls 1) (Leaf (false, 1, 1, [], 1, 2, 2)) (Node (ACls 2) (Node (ALcr) (Leaf (false, 0, 2, [], 0, 0, 0)) (Leaf (false, 1, 2, [], 1, 2, 2))) (Node (ACls 3) (Leaf (false, 0, 2, [], 0, 0, 0)) (Node (ACls 4) (Leaf (false, 0, 2, [], 0, 0, 0)) (Node (ACls 5) (Leaf (false, 0, 2, [], 5, 0, 0)) (Node (ACls 6) (Leaf (false, 0, 2, [], 4, 0, 0)) (Node (ACls 7) (Node (AOpt 0) (Leaf (false, 0, 2, [], 6, 1, 0)) (Leaf (false, 0, 2, [], 1, 11, 1))) (Node (ACls 8) (Node (AOpt 1) (Leaf (false, 0, 2, [], 6, 2, 0)) (Leaf (false, 0, 2, [], 1, 8, 1))) (Node (ACls 9) (Node (ALine1) (Leaf (false, 0, 2, [], 0, 0, 0)) (Node (ABd) (Leaf (false, 0, 2, [], 3, 10, 1)) (Leaf (false, 0, 2, [], 6, 4, 1)))) (Node (ACls 10) (Node (AOpt 5) (Leaf (false, 0, 2, [], 1, 13, 1)) (Node (ABd) (Leaf (false, 0, 2, [], 3, 10, 1)) (Leaf (false, 0, 2, [], 6, 4, 1)))) (Node (ACls 11) (Node (AOpt 6) (Leaf (false, 0, 2, [], 1, 15, 1)) (Node (ABd) (Leaf (false, 0, 2, [], 3, 10, 1)) (Leaf (false, 0, 2, [], 6, 4, 1)))) (Node (ACls 12) (Node (AOpt 0) (Leaf (false, 0, 2, [], 3, 8, 0)) (Leaf (false, 0, 2, [], 1, 12, 1))) (Node (ACls 13) (Node (AOpt 1) (Leaf (false, 0, 2, [], 3, 9, 0)) (Leaf (false, 0, 2, [], 1, 9, 1))) (Node (ACls 14) (Leaf (false, 0, 2, [], 6, 3, 0)) (Node (ABd) (Leaf (false, 0, 2, [], 3, 10, 1)) (Leaf (false, 0, 2, [], 6, 4, 1)))))))))))))))))).
Definition ex_brack : tree :=
  Node (ACls 12) (Leaf (false, 0, 0, [], 1, 10, 3)) (Node (ACls 2) (Leaf (false, 0, 0, [], 3, 3, 0)) (Node (ACls 7) (Leaf (false, 0, 0, [], 3, 4, 0)) (Node (ACls 0) (Leaf (false, 0, 0, [], 3, 5, 0)) (Leaf (false, 0, 0, [2], 0, 0, 0))))).
Definition ex_paren : tree :=
  Node (ACls 13) (Leaf (false, 0, 0, [], 1, 3, 3)) (Node (ACls 2) (Leaf (false, 1, 0, [2], 0, 0, 0)) (Node (ACls 8) (Leaf (false, 0, 0, [], 3, 6, 0)) (Node (ACls 0) (Leaf (false, 0, 0, [], 3, 7, 0)) (Leaf (false, 0, 0, [2], 0, 0, 0))))).
Definition ex_directive : tree :=
  Node (ACls 0) (Leaf (false, 0, 0, [], 1, 4, 3)) (Node (ABd) (Leaf (true, 0, 0, [], 1, 4, 3)) (Node (ACls 10) (Node (AOpt 5) (Leaf (true, 0, 0, [], 1, 4, 3)) (Leaf (false, 0, 0, [3], 0, 0, 0))) (Node (ACls 11) (Node (AOpt 6) (Leaf (true, 0, 0, [], 1, 4, 3)) (Leaf (false, 0, 0, [3], 0, 0, 0))) (Leaf (false, 0, 0, [3], 0, 0, 0))))).
Definition ex_bare : tree :=
  Node (ACls 0) (Leaf (false, 0, 0, [], 1, 1, 3)) (Node (ABd) (Leaf (true, 0, 0, [], 1, 1, 3)) (Node (ACls 10) (Node (AOpt 5) (Leaf (true, 0, 0, [], 1, 1, 3)) (Leaf (false, 0, 0, [2], 0, 0, 0))) (Node (ACls 11) (Node (AOpt 6) (Leaf (true, 0, 0, [], 1, 1, 3)) (Leaf (false, 0, 0, [2], 0, 0, 0))) (Leaf (false, 0, 0, [2], 0, 0, 0))))).
Definition ex_star : tree :=
  Node (AOpt 4) (Node (ACls 0) (Leaf (false, 0, 0, [], 3, 11, 2)) (Node (ACls 2) (Leaf (false, 1, 0, [2], 0, 0, 0)) (Node (ACls 15) (Read2 (Node (ACls2 0) (Leaf (false, 0, 0, [], 3, 11, 2)) (Node (ACls2 5) (Leaf (false, 0, 0, [], 1, 5, 3)) (Leaf (true, 0, 0, [], 0, 0, 0))))) (Leaf (false, 0, 0, [2], 0, 0, 0))))) (Node (ACls 0) (Leaf (false, 0, 0, [], 3, 11, 2)) (Node (ACls 2) (Leaf (false, 1, 0, [], 0, 0, 0)) (Node (ACls 15) (Read2 (Node (ACls2 0) (Leaf (false, 0, 0, [], 3, 11, 2)) (Node (ACls2 5) (Leaf (false, 0, 0, [], 7, 0, 0)) (Leaf (true, 0, 0, [], 0, 0, 0))))) (Leaf (false, 0, 0, [], 0, 0, 0))))).
Definition ex_line : tree :=
  Node (AOpt 4) (Node (ACls 2) (Leaf (true, 0, 0, [], 1, 5, 3)) (Node (ACls 0) (Leaf (true, 0, 0, [], 1, 5, 3)) (Leaf (false, 0, 0, [2], 0, 0, 0)))) (Node (ACls 2) (Leaf (true, 0, 0, [], 7, 0, 0)) (Node (ACls 0) (Leaf (true, 0, 0, [], 7, 0, 0)) (Leaf (false, 0, 0, [], 0, 0, 0)))).
Definition ex_cprefix : tree :=
  Node (AOpt 4) (Node (ACls 15) (Node (AOpt 3) (Leaf (false, 0, 0, [], 6, 5, 0)) (Leaf (false, 0, 0, [], 3, 12, 0))) (Node (ACls 5) (Leaf (false, 0, 0, [], 6, 6, 0)) (Node (AOpt 3) (Leaf (false, 0, 0, [], 3, 13, 0)) (Leaf (false, 0, 0, [], 3, 14, 0))))) (Node (ACls 15) (Node (AOpt 3) (Leaf (false, 0, 0, [], 6, 5, 2)) (Leaf (false, 0, 0, [], 3, 12, 0))) (Node (ACls 5) (Leaf (false, 0, 0, [], 6, 6, 2)) (Node (AOpt 3) (Leaf (false, 0, 0, [], 3, 13, 0)) (Leaf (false, 0, 0, [], 3, 14, 0))))).

Definition ex_trees : trees :=
  {| t_dispatch := ex_dispatch; t_brack := ex_brack; t_paren := ex_paren; t_directive := ex_directive; t_bare := ex_bare;
     t_star := ex_star; t_line := ex_line; t_cprefix := ex_cprefix |}.

Lemma ex_trees_ok : trees_ok ex_trees = true.
Proof. vm_compute. reflexivity. Qed.

(** The nearby wrong shape: the outer loop no longer looks at [_last_was_cr] (the LF of a CR LF pair is a second NEWLINE). *)
Fixpoint forget_lcr (t : tree) : tree :=
  match t with
  | Leaf o => Leaf o
  | Node ALcr y n => forget_lcr n
  | Node a y n => Node a (forget_lcr y) (forget_lcr n)
  | Read2 t' => Read2 (forget_lcr t')
  end.
Definition bad_trees : trees :=
  {| t_dispatch := forget_lcr ex_dispatch; t_brack := ex_brack; t_paren := ex_paren; t_directive := ex_directive; t_bare := ex_bare;
     t_star := ex_star; t_line := ex_line; t_cprefix := ex_cprefix |}.
Definition ex_tables : tables :=
  {| esc_table := []; excl_single := []; excl_multi := []; bare_disallowed := [34; 13; 10; 32]; operators := [(123, BRACE_OPEN)];
     casefold := fun c => [c] |}.
Definition ex_opts : opts :=
  {| string_bracket := false; string_parens := true; allow_escapes := true; allow_star_comments := false;
     preserve_comments := false; colon_operator := false; plus_operator := false |}.

Lemma bad_trees_refuted :
  trees_ok bad_trees = false
  /\ itokens_flat (gt_interp ex_tables ex_opts (steps_of bad_trees) (handle_string ex_tables ex_opts) 5) 3 1 false [CR; LF]
     = [RTok NEWLINE [LF] 2 true; RTok NEWLINE [LF] 3 false; RTok EOF [] 3 false]
  /\ tokens_flat ex_tables ex_opts 3 5 1 false [CR; LF] = [RTok NEWLINE [LF] 2 true; RTok EOF [] 2 false; RTok EOF [] 2 false].
Proof. vm_compute. repeat split; reflexivity. Qed.
