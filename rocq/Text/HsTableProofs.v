(** Proofs about the decision table of [_handle_string] (Text/HsTable.v). *)
From Coq Require Import List NArith Bool Lia.
From SV Require Import Text.Str Text.Prog Text.ProgProofs Text.Tokenizer Text.HsTable.
Import ListNotations.
Open Scope N_scope.

Lemma lN_eqb_eq a b : lN_eqb a b = true -> a = b.
Proof.
  revert b. induction a as [|x a IH]; destruct b as [|y b]; cbn; try discriminate; [reflexivity|].
  rewrite andb_true_iff. intros [H1 H2]. apply N.eqb_eq in H1. subst. f_equal. auto.
Qed.

Lemma hout_eqb_eq a b : hout_eqb a b = true -> a = b.
Proof.
  destruct a as [[[[r1 d1] l1] a1] x1], b as [[[[r2 d2] l2] a2] x2]. cbn.
  rewrite !andb_true_iff. intros [[[[H1 H2] H3] H4] H5].
  apply eqb_prop in H1, H3. apply N.eqb_eq in H2, H5. apply lN_eqb_eq in H4. now subst.
Qed.

Lemma rows_ok_at rows : hs_rows_ok rows = true -> forall k, In k hs_keys -> tb_of rows k = hs_spec k.
Proof.
  unfold hs_rows_ok. rewrite forallb_forall. intros H k Hin. apply hout_eqb_eq. auto.
Qed.

Lemma classify_cases oc : In (classify oc) [0; 1; 2; 3; 4; 5].
Proof.
  destruct oc as [c|]; cbn [classify]; [|cbn; tauto].
  destruct (c =? DQ); [cbn; tauto|]. destruct (c =? CR); [cbn; tauto|].
  destruct (c =? LF); [cbn; tauto|]. destruct (c =? BS); cbn; tauto.
Qed.

Lemma eclassify_cases T oe : In (eclassify T oe) [1; 2; 3; 4].
Proof.
  destruct oe as [e|]; cbn [eclassify]; [|cbn; tauto].
  destruct (e =? LF); [cbn; tauto|]. destruct (lookup e (esc_table T)); cbn; tauto.
Qed.

Ltac key_in := vm_compute; repeat first [left; reflexivity | right].

Lemma rows_ok_first rows : hs_rows_ok rows = true ->
  forall oc lcr ae, tb_of rows (classify oc, lcr, ae, 0) = hs_spec (classify oc, lcr, ae, 0).
Proof.
  intros H oc lcr ae. apply (rows_ok_at rows H).
  pose proof (classify_cases oc) as Hc. cbn [In] in Hc.
  destruct Hc as [<-|[<-|[<-|[<-|[<-|[<-|[]]]]]]]; destruct lcr, ae; key_in.
Qed.

Lemma rows_ok_second T rows : hs_rows_ok rows = true ->
  forall oe lcr, tb_of rows (3, lcr, true, eclassify T oe) = hs_spec (3, lcr, true, eclassify T oe).
Proof.
  intros H oe lcr. apply (rows_ok_at rows H).
  pose proof (eclassify_cases T oe) as Hc. cbn [In] in Hc.
  destruct Hc as [<-|[<-|[<-|[<-|[]]]]]; destruct lcr; key_in.
Qed.

Section HSP.
Variable T : tables.
Variable o : opts.

(** The interpretation of the model's own table is the model. *)
Lemma hs_interp_ext (tb : hkey -> hout) :
  (forall oc lcr ae, tb (classify oc, lcr, ae, 0) = hs_spec (classify oc, lcr, ae, 0)) ->
  (forall oe lcr, tb (3, lcr, true, eclassify T oe) = hs_spec (3, lcr, true, eclassify T oe)) ->
  forall f acc lcr line l,
  run_flat (hs_interp T o tb f acc lcr line) l = run_flat (handle_string T o f acc lcr line) l.
Proof.
  intros H1 H2. induction f as [|f IH]; intros acc lcr line l; [reflexivity|].
  cbn [hs_interp handle_string run_flat]. destruct (fnext l) as [oc l'] eqn:Hn. cbn [keep].
  rewrite H1.
  destruct oc as [c|].
  2:{ cbn [classify hs_spec o_reads fold_left]. cbn. now rewrite N.add_0_r. }
  cbn [classify].
  destruct (c =? DQ) eqn:Hdq.
  { cbn [hs_spec o_reads fold_left]. cbn. now rewrite N.add_0_r. }
  destruct (c =? CR) eqn:Hcr.
  { cbn [hs_spec o_reads fold_left apply_app]. cbn [run_flat]. apply IH. }
  destruct (c =? LF) eqn:Hlf.
  { destruct lcr; cbn [hs_spec o_reads fold_left apply_app].
    - rewrite N.add_0_r. apply IH.
    - apply N.eqb_eq in Hlf. subst c. apply IH. }
  destruct (c =? BS) eqn:Hbs; cbn [andb].
  - destruct (allow_escapes o) eqn:Hae.
    + cbn [hs_spec o_reads run_flat]. destruct (fnext l') as [oe l''] eqn:Hn2. cbn [keep].
      rewrite <- Hbs at 1. replace (if c =? BS then 3 else 5) with 3 by now rewrite Hbs.
      rewrite Hbs. rewrite H2.
      destruct oe as [e|]; cbn [eclassify].
      2:{ cbn [hs_spec fold_left]. cbn. now rewrite N.add_0_r. }
      destruct (e =? LF) eqn:Helf.
      { cbn [hs_spec fold_left]. rewrite N.add_0_r. apply IH. }
      destruct (lookup e (esc_table T)) as [x|] eqn:Hlk.
      * cbn [hs_spec fold_left apply_app]. rewrite Hlk, N.add_0_r. apply IH.
      * cbn [hs_spec fold_left apply_app]. rewrite N.add_0_r. apply IH.
    + cbn [hs_spec o_reads fold_left apply_app]. rewrite N.add_0_r. apply IH.
  - cbn [hs_spec o_reads fold_left apply_app]. rewrite N.add_0_r. apply IH.
Qed.

(** If the rows read from the source are the model's rows, interpreting them gives the hand model, for every input,
    every amount of fuel, every already collected prefix, flag and line. *)
Theorem hs_rows_interp_is_model rows : hs_rows_ok rows = true ->
  forall f acc lcr line l,
  run_flat (hs_interp T o (tb_of rows) f acc lcr line) l = run_flat (handle_string T o f acc lcr line) l.
Proof.
  intros H. apply hs_interp_ext.
  - intros oc lcr ae. apply rows_ok_first, H.
  - intros oe lcr. apply rows_ok_second, H.
Qed.

(** The same over the chunked reader state of the real class. *)
Theorem hs_rows_interp_is_model_chunked rows : hs_rows_ok rows = true ->
  forall f acc lcr line l s, R l s ->
  fst (run_chk (hs_interp T o (tb_of rows) f acc lcr line) s) = fst (run_flat (handle_string T o f acc lcr line) l).
Proof.
  intros H f acc lcr line l s HR.
  rewrite <- (hs_rows_interp_is_model rows H).
  destruct (chunk_independent (hs_interp T o (tb_of rows) f acc lcr line) l s HR) as [Heq _]. symmetry. exact Heq.
Qed.

End HSP.

(** The condition matters: a table whose LF row ignores the flag (CR LF counted as two line breaks) is rejected, and
    its interpretation differs from the model on CR LF. *)
Definition hs_rows_of_spec : list (hkey * hout) := map (fun k => (k, hs_spec k)) hs_keys.
Definition hs_rows_bad : list (hkey * hout) :=
  map (fun k => (k, let '(c, _, _, _) := k in if c =? 2 then (false, 1, false, [2], 0) else hs_spec k)) hs_keys.

Lemma hs_spec_rows_ok : hs_rows_ok hs_rows_of_spec = true.
Proof. vm_compute. reflexivity. Qed.
