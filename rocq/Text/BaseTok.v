(** Text layer: model of [srctools.tokenizer.BaseTokenizer] — the token-level layer above [_get_token]:
    [__call__] with the push-back list, [peek], [push_back], [__next__], [expect], [skipping_newlines], [block].

    Generic over the underlying token source [S] with [get : S -> (token or error) * S] (= [_get_token]; for
    [Tokenizer] the reader state with [line_num], for [IterTokenizer] the rest of the wrapped iterator).
    [_pushback] is a Python list; which end [__call__] pops and which end [peek]/[push_back] append to is read from
    the source ([bcfg]); the theorems need both to be the same end (LIFO).  [line_num] lives in [S]: only
    [_get_token] changes it, so a re-delivered token does not move it. *)
From Coq Require Import List NArith Bool.
From SV Require Import Text.Str.
Import ListNotations.
Open Scope N_scope.

Definition ptok := (tok * str)%type.

Record bcfg := {
  pop_last : bool;      (* __call__: self._pushback.pop()  (True)  vs pop(0) *)
  push_last : bool;     (* push_back: self._pushback.append (True) vs insert(0, ...) *)
  peek_last : bool;     (* peek: the same *)
}.
Definition lifo (c : bcfg) : bool := Bool.eqb (pop_last c) (push_last c) && Bool.eqb (pop_last c) (peek_last c).

Definition pb_pop (last : bool) (l : list ptok) : option (ptok * list ptok) :=
  if last then match rev l with [] => None | x :: r => Some (x, rev r) end
  else match l with [] => None | x :: r => Some (x, r) end.
Definition pb_add (last : bool) (x : ptok) (l : list ptok) : list ptok := if last then l ++ [x] else x :: l.
(** The order in which the list will be delivered. *)
Definition stack (c : bcfg) (l : list ptok) : list ptok := if pop_last c then rev l else l.

Section BT.
  Variables (S E : Type).
  Variable get : S -> (ptok + E) * S.
  Variable c : bcfg.

  Record bt := { pb : list ptok; src : S }.

  (** [__call__] *)
  Definition call (b : bt) : (ptok + E) * bt :=
    match pb_pop (pop_last c) (pb b) with
    | Some (x, l) => (inl x, {| pb := l; src := src b |})
    | None => let '(r, s) := get (src b) in (r, {| pb := pb b; src := s |})
    end.
  (** [peek] *)
  Definition peek (b : bt) : (ptok + E) * bt :=
    let '(r, b') := call b in
    match r with
    | inl x => (r, {| pb := pb_add (peek_last c) x (pb b'); src := src b' |})
    | inr _ => (r, b')
    end.
  (** [push_back] after the value has been normalised (see [norm_push]) *)
  Definition push (x : ptok) (b : bt) : bt := {| pb := pb_add (push_last c) x (pb b); src := src b |}.

  (** Sequences of the three primitive operations; results of [call]/[peek] are collected, a raise ends the run. *)
  Inductive op := Call | Peek | Push (x : ptok).
  Fixpoint run (ops : list op) (b : bt) : list (bool * (ptok + E)) * bt :=
    match ops with
    | [] => ([], b)
    | Call :: r => let '(x, b') := call b in
        match x with inl _ => let '(out, b'') := run r b' in ((true, x) :: out, b'') | inr _ => ([(true, x)], b') end
    | Peek :: r => let '(x, b') := peek b in
        match x with inl _ => let '(out, b'') := run r b' in ((false, x) :: out, b'') | inr _ => ([(false, x)], b') end
    | Push x :: r => run r (push x b)
    end.

  (** [n] results of the underlying source (the stream the tokenizer would deliver without any push-back),
      up to and including the first error. *)
  Fixpoint unfold (n : nat) (s : S) : list (ptok + E) :=
    match n with
    | O => []
    | Datatypes.S n' => let '(r, s') := get s in r :: match r with inl _ => unfold n' s' | inr _ => [] end
    end.

  (** The logical stream: what is pushed back (in delivery order), then the underlying stream. *)
  Definition view (n : nat) (b : bt) : list (ptok + E) := map inl (stack c (pb b)) ++ unfold n (src b).

  (** The specification: the same operations on the logical stream, as a plain list. *)
  Fixpoint srun (ops : list op) (L : list (ptok + E)) : list (bool * (ptok + E)) :=
    match ops with
    | [] => []
    | Call :: r => match L with [] => [] | x :: L' => (true, x) :: match x with inl _ => srun r L' | inr _ => [] end end
    | Peek :: r => match L with [] => [] | x :: _ => (false, x) :: match x with inl _ => srun r L | inr _ => [] end end
    | Push x :: r => srun r (inl x :: L)
    end.
  Definition reads (ops : list op) : nat := length (filter (fun o => match o with Push _ => false | _ => true end) ops).

  (* ---- helpers built from [call] (loops take fuel; [None] = out of fuel) ---- *)
  Definition is_tok (t : tok) (x : ptok) : bool :=
    match fst x, t with
    | EOF, EOF | STRING, STRING | NEWLINE, NEWLINE | PAREN_ARGS, PAREN_ARGS | DIRECTIVE, DIRECTIVE | COMMENT, COMMENT
    | BRACE_OPEN, BRACE_OPEN | BRACE_CLOSE, BRACE_CLOSE | PAREN_OPEN, PAREN_OPEN | PAREN_CLOSE, PAREN_CLOSE
    | PROP_FLAG, PROP_FLAG | BRACK_OPEN, BRACK_OPEN | BRACK_CLOSE, BRACK_CLOSE | COLON, COLON | EQUALS, EQUALS
    | PLUS, PLUS | COMMA, COMMA => true
    | _, _ => false
    end.

  (** Result of a helper: a value, an error of the underlying source, or an error the helper itself raises through
      [self.error] (same exception type, [line_num] of the moment). *)
  Inductive hres (A : Type) := HVal (a : A) | HSrcErr (e : E) | HErr (got : ptok) | HStop | HFuel.
  Arguments HVal {A}. Arguments HSrcErr {A}. Arguments HErr {A}. Arguments HStop {A}. Arguments HFuel {A}.

  (** [__next__]: the next token, StopIteration at EOF. *)
  Definition next (b : bt) : hres ptok * bt :=
    let '(r, b') := call b in
    match r with
    | inl x => if is_tok EOF x then (HStop, b') else (HVal x, b')
    | inr e => (HSrcErr e, b')
    end.

  (** [expect(token, skip_newline)]: skip NEWLINE tokens (unless NEWLINE is wanted), then the token must match. *)
  Fixpoint expect (fuel : nat) (want : tok) (skip : bool) (b : bt) : hres str * bt :=
    match fuel with O => (HFuel, b) | Datatypes.S f =>
      let '(r, b') := call b in
      match r with
      | inr e => (HSrcErr e, b')
      | inl x =>
        if skip && negb (is_tok NEWLINE (want, [])) && is_tok NEWLINE x then expect f want skip b'
        else if is_tok want x then (HVal (snd x), b') else (HErr x, b')
      end
    end.

  (** One step of the [skipping_newlines()] generator: the next token that is not NEWLINE; exhausted at EOF. *)
  Fixpoint skipping_newlines_step (fuel : nat) (b : bt) : hres ptok * bt :=
    match fuel with O => (HFuel, b) | Datatypes.S f =>
      let '(r, b') := call b in
      match r with
      | inr e => (HSrcErr e, b')
      | inl x => if is_tok EOF x then (HStop, b')
                 else if is_tok NEWLINE x then skipping_newlines_step f b' else (HVal x, b')
      end
    end.

  (** One step of the [block(name, consume_brace=False)] generator after its start: strings are yielded, NEWLINEs
      skipped, a closing brace ends it, EOF and anything else raise. *)
  Fixpoint block_step (fuel : nat) (b : bt) : hres str * bt :=
    match fuel with O => (HFuel, b) | Datatypes.S f =>
      let '(r, b') := call b in
      match r with
      | inr e => (HSrcErr e, b')
      | inl x => if is_tok EOF x then (HErr x, b')
                 else if is_tok BRACE_CLOSE x then (HStop, b')
                 else if is_tok STRING x then (HVal (snd x), b')
                 else if is_tok NEWLINE x then block_step f b' else (HErr x, b')
      end
    end.
End BT.

Arguments pb {S}. Arguments src {S}.
Arguments HVal {E A}. Arguments HSrcErr {E A}. Arguments HErr {E A}. Arguments HStop {E A}. Arguments HFuel {E A}.

(** [push_back(tok, value)]: operator tokens get their fixed text from [_OPERATOR_VALS] (the supplied value is
    ignored), the others need a value ([None] = ValueError). *)
Definition norm_push (opvals : list (N * str)) (tv : tok -> N) (t : tok) (v : option str) : option ptok :=
  match lookup (tv t) opvals with
  | Some s => Some (t, s)
  | None => match v with Some s => Some (t, s) | None => None end
  end.

(** [IterTokenizer._get_token]: the next item of the wrapped iterator, (EOF, '') for ever once it is exhausted. *)
Definition iter_get (l : list ptok) : (ptok + Empty_set) * list ptok :=
  match l with x :: r => (inl x, r) | [] => (inl (EOF, []), []) end.
