(** The decision table of [_handle_string] regenerated from tokenizer.py (Gen/HsRows_gen.v) and its instance
    obligations. *)
From Coq Require Import List NArith Bool.
From SV Require Import Text.Str Text.Prog Text.Tokenizer Text.HsTable Text.TokGen Text.TokEnum.
From SV Require Gen.HsRows_gen.
Import ListNotations.
Open Scope N_scope.

Definition gen_hs_rows : list (hkey * hout) := SV.Gen.HsRows_gen.hs_rows.

(** The rows read from the source are the rows of the hand model: under this condition
    [HsTableProofs.hs_rows_interp_is_model] identifies the interpretation of the source's table with
    [Tokenizer.handle_string] on every input. *)
Definition handle_string_rows_are_the_model : bool := hs_rows_ok gen_hs_rows.
(** [last_was_cr = False] before the loop ([get_token] starts [handle_string] with the flag off). *)
Definition handle_string_flag_starts_false : bool := negb SV.Gen.HsRows_gen.hs_flag_initial.
(** For the report when the first obligation fails: (key, row of the source, row of the model). *)
Definition handle_string_rows_diff := hs_rows_diff gen_hs_rows.

(** [_handle_string] as written in the source, as a reader program (follows the code whatever its rows are). *)
Definition gen_handle_string (o : opts) := hs_interp gen_tables o (tb_of gen_hs_rows).

(** Small-scope comparison inside Coq of the code's own table with the hand model (for the report when the rows
    differ; when they agree [hs_rows_interp_is_model] makes this list empty for every scope): texts following an
    opening quote, with escapes on (option bits 6) and off (2), on which the two differ, with both encoded results. *)
Definition hs_case (run : opts -> nat -> str -> bool -> N -> Prog result) (bits : N) (l : str) : list N :=
  let '(r, rest) := run_flat (run (opts_of_bits bits) (S (S (length l))) [] false 1) l in
  enc_result r ++ [N.of_nat (length rest)].
Definition hs_table_witnesses (alpha : list N) (n : nat) : list (N * str * list N * list N) :=
  flat_map (fun bits => flat_map (fun s =>
      let a := hs_case gen_handle_string bits s in
      let b := hs_case (handle_string gen_tables) bits s in
      if nl_eqb a b then [] else [(bits, s, a, b)]) (strings_upto alpha n)) [6; 2].
