(** Executable helpers for the correspondence runs of C02/C03 (no theorems): enumeration of small inputs inside
    Coq, a canonical encoding of results as numbers, and an order-independent 63-bit checksum, so that millions of
    model evaluations can be compared with the implementation without shipping literals in or out.
    The Python side (checks/c03.py, [Hash]) computes the same checksum from the implementation's results. *)
From Coq Require Import List NArith ZArith Bool Uint63.
From SV Require Import Text.Str Text.Prog Text.Escape Text.EscPipeline Text.Tokenizer Text.TokGen.
Import ListNotations.
Open Scope N_scope.

Definition err_id (e : err) : N :=
  match e with
  | E_UNTERM_STRING => 1 | E_NO_ESCAPE => 2 | E_EOL_BRACK => 3 | E_NEST_BRACK => 4 | E_UNTERM_FLAG => 5
  | E_NEST_PAREN => 6 | E_UNTERM_PAREN => 7 | E_CLOSE_BRACK => 8 | E_CLOSE_PAREN => 9 | E_UNEXPECTED_CHAR => 10
  | E_UNCLOSED_STAR => 11 | E_STAR_NOT_ALLOWED => 12 | E_SINGLE_SLASH_STAR => 13 | E_SINGLE_SLASH => 14
  end.

Definition b2n (b : bool) : N := if b then 1 else 0.

(** One result as a list of numbers: token = [1; Token.value; line_num; _last_was_cr; len; chars...],
    error = [2; site; line_num; len; args...], out of fuel = [3]. *)
Definition enc_result (r : result) : list N :=
  match r with
  | RTok k v line lcr => 1 :: tok_value k :: line :: b2n lcr :: N.of_nat (length v) :: v
  | RErr e a line => 2 :: err_id e :: line :: N.of_nat (length a) :: a
  | RFuel => [3]
  end.
Definition enc_results (rs : list result) : list N := flat_map enc_result rs.

(** Option vector from its bits: bit 0 string_bracket, 1 string_parens, 2 allow_escapes, 3 allow_star_comments,
    4 preserve_comments, 5 colon_operator, 6 plus_operator. *)
Definition opts_of_bits (b : N) : opts := {|
  string_bracket := N.testbit b 0; string_parens := N.testbit b 1; allow_escapes := N.testbit b 2;
  allow_star_comments := N.testbit b 3; preserve_comments := N.testbit b 4; colon_operator := N.testbit b 5;
  plus_operator := N.testbit b 6 |}.

(** All strings over [alpha] of length at most [n], each exactly once. *)
Fixpoint strings_upto (alpha : list N) (n : nat) : list (list N) :=
  match n with
  | O => [[]]
  | S n' => [] :: flat_map (fun c => map (cons c) (strings_upto alpha n')) alpha
  end.

(* ---- checksum on primitive 63-bit integers (wrap-around arithmetic) ---- *)
Open Scope uint63_scope.
Definition i63 (n : N) : int := Uint63.of_Z (Z.of_N n).
Definition HP : int := 1099511628211.            (* multiplier *)
Definition hstep (h : int) (x : N) : int := (h * HP + i63 x + 1)%uint63.
Definition hash_list (xs : list N) : int := fold_left hstep xs 1469598103934665603.
(** final avalanche so that the sum over cases is not linear in the last element *)
Definition hfin (h : int) : int := let h1 := (h lxor (h >> 29)) * 0x3F58476D1CE4E5B9 in (h1 lxor (h1 >> 32))%uint63.
Definition sum_hash (hs : list int) : int := fold_left (fun a h => (a + h)%uint63) hs 0.

(** One case of the tokenizer correspondence: options (as bits) and input; [length s + 2] calls (so that EOF is seen
    at least twice unless an error ends the trace) with fuel [length s + 2]. The checksum covers the option bits,
    the input and every result. *)
Definition tok_case (bits : N) (s : str) : list N :=
  bits :: N.of_nat (length s) :: s
  ++ enc_results (tokens_flat gen_tables (opts_of_bits bits) (length s + 2) (length s + 2) 1%N false s).
Definition tok_case_hash (bits : N) (s : str) : int := hfin (hash_list (tok_case bits s)).

(** Checksum of all inputs [prefix ++ w], [w] over [alpha] up to length [n], for the option vectors [bitsl]. *)
Definition tok_shard_hash (bitsl : list N) (prefix : str) (alpha : list N) (n : nat) : int :=
  sum_hash (flat_map (fun bits => map (fun w => tok_case_hash bits (prefix ++ w)) (strings_upto alpha n)) bitsl).

(** The literal results for one shard (used to locate a disagreement once a checksum differs). *)
Definition tok_shard_results (bitsl : list N) (prefix : str) (alpha : list N) (n : nat) : list (list N) :=
  flat_map (fun bits => map (fun w => tok_case bits (prefix ++ w)) (strings_upto alpha n)) bitsl.

(** Escape side. *)
(** [gen_escape] = the pipeline read from the source (equal to [escape gen_tables] when the shape obligations hold). *)
Definition esc_case (ml : bool) (s : str) : list N := b2n ml :: N.of_nat (length s) :: s ++ gen_escape ml s.
Definition esc_shard_hash (ml : bool) (alpha : list N) (n : nat) : int :=
  sum_hash (map (fun w => hfin (hash_list (esc_case ml w))) (strings_upto alpha n)).

(* ---- chunked reader: results plus the reader state after every call ---- *)
Open Scope N_scope.
(** After each call: the encoded result, then [_char_index + 1] and [len(_cur_chunk)]. *)
Fixpoint chk_trace (T : tables) (o : opts) (n fuel : nat) (line : N) (lcr : bool) (s : chk) : list N :=
  match n with O => [] | S n' =>
    let '(r, s') := run_chk (get_token T o fuel line lcr) s in
    enc_result r ++ [Z.to_N (idx s' + 1); N.of_nat (length (cur s'))] ++
    match r with
    | RTok _ _ line' lcr' => chk_trace T o n' fuel line' lcr' s'
    | _ => []
    end
  end.
(** [whole = true]: the text was passed as one [str] ([chk_of_str]); otherwise as an iterable of chunks. *)
Definition chk_case (bits : N) (whole : bool) (cs : list str) : list N :=
  let s := concat cs in
  chk_trace gen_tables (opts_of_bits bits) (length s + 2) (length s + 2) 1 false
            (if whole then chk_of_str s else chk_of_chunks cs).
Definition chk_case_hash (c : N * bool * list str) : int :=
  hfin (hash_list (chk_case (fst (fst c)) (snd (fst c)) (snd c))).
Definition flat_case_hash (c : N * str) : int := tok_case_hash (fst c) (snd c).

(** In-kernel small-scope search for a counterexample to C02 on the model of the CODE (pipeline + tokenizer model):
    all strings over [alpha] up to length [n] whose escaped form, between quotes, does not tokenize to exactly
    [STRING s; EOF] (or whose single-line escaped form contains a line break / either form a raw double quote is
    covered by the tokenizer run: a raw quote ends the string early). Empty on a correct tree. *)
Definition nl_eqb (a b : list N) : bool :=
  (fix go a b := match a, b with [], [] => true | x :: a', y :: b' => N.eqb x y && go a' b' | _, _ => false end) a b.
Definition roundtrip_ok (ml : bool) (s : str) : bool :=
  let e := gen_escape ml s in
  let want := enc_results [RTok STRING s (1 + (if ml then N.of_nat (count_occ N.eq_dec s LF) else 0)) false;
                           RTok EOF [] (1 + (if ml then N.of_nat (count_occ N.eq_dec s LF) else 0)) false] in
  nl_eqb (enc_results (tokens_flat gen_tables default_opts 2 (length e + 4) 1 false (DQ :: e ++ [DQ]))) want
  && (ml || negb (mem LF e || mem CR e)).
Definition roundtrip_counterexamples (ml : bool) (alpha : list N) (n : nat) : list str :=
  filter (fun s => negb (roundtrip_ok ml s)) (strings_upto alpha n).
(** Long runs of one character (a substitution limited to its first [count] matches only fails beyond the small scope):
    [c] repeated [m] times for every [c] of the alphabet and every [m] of [lens]. *)
Definition roundtrip_counterexamples_runs (ml : bool) (alpha : list N) (lens : list nat) : list (N * N) :=
  flat_map (fun c => flat_map (fun m => if roundtrip_ok ml (repeat c m) then [] else [(c, N.of_nat m)]) lens) alpha.

(** Characters on which [gen_escape] can differ from the identity on a one-character string: the values of ESCAPES
    and the characters of every [replace] pattern (any other character is copied by every step). *)
Definition interesting_chars : list N :=
  map snd (esc_table gen_tables)
  ++ flat_map (fun cs => match snd cs with PReplace o _ => o | PSub _ | PSubN _ _ | PSubLA _ _ => [] end) gen_pipeline.
Definition codepoint_table : list (N * list N * list N) :=
  map (fun c => (c, gen_escape false [c], gen_escape true [c])) interesting_chars.
