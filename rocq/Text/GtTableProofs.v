(** Proofs about the decision trees of [_get_token] / [_handle_comment] (Text/GtTable.v): if the trees read from the
    source pass [trees_ok], their interpretation IS the hand model [Tokenizer.get_token] on every input. *)
From Coq Require Import List NArith Bool Lia.
From SV Require Import Text.Str Text.Prog Text.ProgProofs Text.Tokenizer Text.GtTable.
Import ListNotations.
Open Scope N_scope.

(* ------------------------------------------------------------------------------------------------ evaluation *)
Lemma eval_ext (al : atom -> bool) e1 e2 t :
  (forall a, al a = true -> ea e1 a = ea e2 a) -> atoms_in al t = true -> eval e1 t = eval e2 t.
Proof.
  intros H. induction t as [o|a y IHy n IHn|t IH]; cbn [atoms_in eval]; intros Ht.
  - reflexivity.
  - apply andb_true_iff in Ht. destruct Ht as [Ht Hn]. apply andb_true_iff in Ht. destruct Ht as [Ha Hy].
    rewrite (H a Ha). destruct (ea e2 a); auto.
  - now rewrite IH.
Qed.

Lemma ltb17 k : (k <? 17) = true -> In k classes.
Proof.
  intros H. apply N.ltb_lt in H. unfold classes.
  destruct k as [|p]; [cbn; tauto|].
  do 5 (destruct p as [p|p|]; try (cbn; tauto); try lia).
Qed.

Lemma ea_proj kind a e : In kind [0; 1; 2; 3; 4; 5] -> allowed kind a = true -> ea (proj kind e) a = ea e a.
Proof.
  intros Hk Ha. destruct e as [c1 c2 ops bd lcr l1 o]. destruct o as [sb sp ae sc pc co po].
  cbn [In] in Hk.
  destruct Hk as [<-|[<-|[<-|[<-|[<-|[<-|[]]]]]]]; destruct a as [k|k|  |  |  |  |k]; cbn in Ha |- *; try discriminate; try reflexivity;
    repeat match goal with
           | H : (_ || _) = true |- _ => apply orb_true_iff in H; destruct H as [H|H]
           | H : (_ && _) = true |- _ => apply andb_true_iff in H; destruct H as [? H]
           | H : (?k =? _) = true |- _ => apply N.eqb_eq in H; subst k
           end; try discriminate; try reflexivity.
Qed.

Lemma cls_in oc : In (cls oc) classes.
Proof.
  destruct oc as [c|]; cbn [cls]; [|cbn; tauto].
  repeat match goal with |- context [if ?b then _ else _] => destruct b end; cbn; tauto.
Qed.

Lemma in_bl (c x : bool) : In (c && x) (bl c).
Proof. destruct c, x; cbn; tauto. Qed.
Lemma in_bools (x : bool) : In x bools.
Proof. destruct x; cbn; tauto. Qed.

Lemma In_envs c1 c2 ops bd lcr l1 sb sp sc pc co po c2s opss bds lcrs l1s sbs sps scs pcs cos pos :
  In c1 classes -> In c2 c2s -> In ops opss -> In bd bds -> In lcr lcrs -> In l1 l1s -> In sb sbs -> In sp sps -> In sc scs ->
  In pc pcs -> In co cos -> In po pos ->
  In (mk_e c1 c2 ops bd lcr l1 sb sp sc pc co po) (envs c2s opss bds lcrs l1s sbs sps scs pcs cos pos).
Proof.
  intros. unfold envs.
  repeat (apply in_flat_map; eexists; split; [eassumption|]).
  apply in_map. assumption.
Qed.

Section Abs.
Variable T : tables.
Variable o : opts.

Lemma abs_consistent kind oc od lcr line : consistent (proj kind (abs T o oc od lcr line)) = true.
Proof.
  unfold consistent, proj, abs, mk_e. cbn [a_c1 a_ops a_bd].
  destruct oc as [c|]; [|cbn; now rewrite !andb_false_r].
  assert (H : (cls (Some c) =? 0) = false).
  { cbn [cls]. repeat match goal with |- context [if ?b then _ else _] => destruct b end; reflexivity. }
  now rewrite H.
Qed.

Lemma proj_abs_in_dom kind oc od lcr line : In kind [0; 1; 2; 3; 4; 5] ->
  In (proj kind (abs T o oc od lcr line)) (dom kind).
Proof.
  intros Hk. unfold dom. apply filter_In. split; [|apply abs_consistent].
  unfold proj. apply In_envs; try apply in_bl; try apply cls_in.
  - cbn [In] in Hk. destruct Hk as [<-|[<-|[<-|[<-|[<-|[<-|[]]]]]]]; cbn; try tauto. apply cls_in.
Qed.

(** The central step: an accepted tree computes the model's function on every environment a run can produce. *)
Lemma tree_ok_sound kind t spec : In kind [0; 1; 2; 3; 4; 5] -> tree_ok kind t spec = true ->
  (forall e, spec (proj kind e) = spec e) ->
  forall oc od lcr line, eval (abs T o oc od lcr line) t = spec (abs T o oc od lcr line).
Proof.
  intros Hk Hok Hsp oc od lcr line. unfold tree_ok in Hok. apply andb_true_iff in Hok. destruct Hok as [Hat Hall].
  rewrite <- Hsp.
  rewrite <- (eval_ext (allowed kind) (proj kind (abs T o oc od lcr line)) (abs T o oc od lcr line) t); [| |exact Hat].
  2:{ intros a Ha. apply ea_proj; assumption. }
  rewrite forallb_forall in Hall. specialize (Hall _ (proj_abs_in_dom kind oc od lcr line Hk)).
  unfold res_eqb in Hall. apply andb_true_iff in Hall. destruct Hall as [H1 H2].
  destruct (eval (proj kind (abs T o oc od lcr line)) t) as [b1 l1], (spec (proj kind (abs T o oc od lcr line))) as [b2 l2].
  cbn [fst snd] in H1, H2. apply eqb_prop in H1. subst b2. f_equal.
  destruct l1 as [[[[[[u1 d1] a1] p1] x1] m1] n1], l2 as [[[[[[u2 d2] a2] p2] x2] m2] n2]. cbn in H2.
  repeat (apply andb_true_iff in H2; destruct H2 as [H2 ?]).
  apply eqb_prop in H2.
  repeat match goal with H : (_ =? _) = true |- _ => apply N.eqb_eq in H end.
  assert (Hp : p1 = p2).
  { clear - H3. revert p2 H3. induction p1 as [|x p1 IH]; destruct p2 as [|y p2]; cbn; try discriminate; [reflexivity|].
    intros H. apply andb_true_iff in H. destruct H as [Hx Hr]. apply N.eqb_eq in Hx. subst. f_equal. auto. }
  now subst.
Qed.

End Abs.

(* ------------------------------------------------------------------------------------------------ the model's functions depend only on what their kind allows *)
Ltac spec_proj := intros [c1 c2 ops bd lcr l1 [sb sp ae sc pc co po]]; reflexivity.
Lemma spec_dispatch_proj e : spec_dispatch (proj 0 e) = spec_dispatch e. Proof. revert e. spec_proj. Qed.
Lemma spec_brack_proj e : spec_brack (proj 1 e) = spec_brack e. Proof. revert e. spec_proj. Qed.
Lemma spec_paren_proj e : spec_paren (proj 1 e) = spec_paren e. Proof. revert e. spec_proj. Qed.
Lemma spec_directive_proj e : spec_directive (proj 2 e) = spec_directive e. Proof. revert e. spec_proj. Qed.
Lemma spec_bare_proj e : spec_bare (proj 2 e) = spec_bare e. Proof. revert e. spec_proj. Qed.
Lemma spec_line_proj e : spec_line (proj 3 e) = spec_line e. Proof. revert e. spec_proj. Qed.
Lemma spec_star_proj e : spec_star (proj 4 e) = spec_star e. Proof. revert e. spec_proj. Qed.
Lemma spec_cprefix_proj e : spec_cprefix (proj 5 e) = spec_cprefix e. Proof. revert e. spec_proj. Qed.

(* ------------------------------------------------------------------------------------------------ the interpretation of the model's functions is the model *)
(** Class facts. *)
Lemma cls_some_cases c :
  let k := cls (Some c) in
  (k = 1 /\ c = CR) \/ (k = 2 /\ c = LF) \/ (k = 3 /\ c = SP) \/ (k = 4 /\ c = TAB) \/ (k = 5 /\ c = SLASH) \/ (k = 6 /\ c = DQ)
  \/ (k = 7 /\ c = LBRACK) \/ (k = 8 /\ c = LPAREN) \/ (k = 9 /\ c = BOM) \/ (k = 10 /\ c = COLONC) \/ (k = 11 /\ c = PLUSC)
  \/ (k = 12 /\ c = RBRACK) \/ (k = 13 /\ c = RPAREN) \/ (k = 14 /\ c = HASH) \/ (k = 15 /\ c = STAR)
  \/ (k = 16 /\ (c =? CR) = false /\ (c =? LF) = false /\ (c =? SP) = false /\ (c =? TAB) = false /\ (c =? SLASH) = false
      /\ (c =? DQ) = false /\ (c =? LBRACK) = false /\ (c =? LPAREN) = false /\ (c =? BOM) = false /\ (c =? COLONC) = false
      /\ (c =? PLUSC) = false /\ (c =? RBRACK) = false /\ (c =? RPAREN) = false /\ (c =? HASH) = false /\ (c =? STAR) = false).
Proof.
  cbn [cls].
  destruct (c =? CR) eqn:E1; [apply N.eqb_eq in E1; tauto|].
  destruct (c =? LF) eqn:E2; [apply N.eqb_eq in E2; tauto|].
  destruct (c =? SP) eqn:E3; [apply N.eqb_eq in E3; tauto|].
  destruct (c =? TAB) eqn:E4; [apply N.eqb_eq in E4; tauto|].
  destruct (c =? SLASH) eqn:E5; [apply N.eqb_eq in E5; tauto|].
  destruct (c =? DQ) eqn:E6; [apply N.eqb_eq in E6; tauto|].
  destruct (c =? LBRACK) eqn:E7; [apply N.eqb_eq in E7; tauto|].
  destruct (c =? LPAREN) eqn:E8; [apply N.eqb_eq in E8; tauto|].
  destruct (c =? BOM) eqn:E9; [apply N.eqb_eq in E9; tauto|].
  destruct (c =? COLONC) eqn:E10; [apply N.eqb_eq in E10; tauto|].
  destruct (c =? PLUSC) eqn:E11; [apply N.eqb_eq in E11; tauto|].
  destruct (c =? RBRACK) eqn:E12; [apply N.eqb_eq in E12; tauto|].
  destruct (c =? RPAREN) eqn:E13; [apply N.eqb_eq in E13; tauto|].
  destruct (c =? HASH) eqn:E14; [apply N.eqb_eq in E14; tauto|].
  destruct (c =? STAR) eqn:E15; [apply N.eqb_eq in E15; tauto|].
  repeat right. tauto.
Qed.

(** Case analysis on the class of a character: in 15 cases the character becomes a literal, in the last one every test
    against a literal is rewritten to false. *)
Ltac by_class c :=
  let H := fresh "Hc" in
  pose proof (cls_some_cases c) as H; cbv zeta in H;
  repeat (destruct H as [[-> ->]|H]);
  [.. | destruct H as (-> & ? & ? & ? & ? & ? & ? & ? & ? & ? & ? & ? & ? & ? & ? & ?)].

Section Loops.
Variable T : tables.
Variable o : opts.

(** One segment on a flat input. *)
Lemma seg_flat {A} step lcr line (fin : leaf -> option char -> option char -> Prog A) l :
  run_flat (seg T o step lcr line fin) l =
  let oc := fst (fnext l) in let l' := snd (fnext l) in
  let r := step (abs T o oc None lcr line) in
  if fst r
  then let od := fst (fnext l') in let l'' := snd (fnext l') in
       let lf := snd (step (abs T o oc od lcr line)) in
       run_flat (fin lf oc od) (if lf_unread lf then fback od l'' else l'')
  else run_flat (fin (snd r) oc None) (if lf_unread (snd r) then fback oc l' else l').
Proof.
  unfold seg. cbn [run_flat]. destruct (fnext l) as [oc l']. cbn [fst snd]. cbv zeta.
  destruct (fst (step (abs T o oc None lcr line))).
  - cbn [run_flat]. destruct (fnext l') as [od l'']. reflexivity.
  - reflexivity.
Qed.

Ltac fin close :=
  unfold L, L2;
  repeat (cbn; rewrite ?N.add_0_r;
          repeat match goal with H : (_ =? _) = false |- _ => rewrite H end;
          repeat match goal with H : lookup _ _ = _ |- _ => rewrite H end;
          first [ reflexivity | close
                | match goal with
                  | |- context [if ?b then _ else _] => is_var b; destruct b
                  | |- context [match lookup ?c ?t with _ => _ end] => destruct (lookup c t) eqn:?
                  | |- context [mem ?c ?l] => destruct (mem c l) eqn:?
                  | |- context [string_bracket o] => destruct (string_bracket o) eqn:?
                  | |- context [string_parens o] => destruct (string_parens o) eqn:?
                  | |- context [allow_star_comments o] => destruct (allow_star_comments o) eqn:?
                  | |- context [preserve_comments o] => destruct (preserve_comments o) eqn:?
                  | |- context [colon_operator o] => destruct (colon_operator o) eqn:?
                  | |- context [plus_operator o] => destruct (plus_operator o) eqn:?
                  | |- context [N.eqb ?a ?b] => destruct (N.eqb a b) eqn:?
                  | |- context [if ?b then _ else _] => destruct b eqn:?
                  end ]).

Ltac loop_start Hs l :=
  rewrite seg_flat; destruct (fnext l) as [oc l']; cbv zeta; rewrite !Hs; cbn [fst snd].

Lemma brack_ok step :
  (forall oc od lcr line, step (abs T o oc od lcr line) = spec_brack (abs T o oc od lcr line)) ->
  forall f acc line start l, run_flat (tloop T o step f acc false line start) l = run_flat (brack_loop f acc line) l.
Proof.
  intros Hs. induction f as [|f IH]; intros acc line start l; [reflexivity|].
  unfold tloop in *. cbn [gloop brack_loop run_flat]. loop_start Hs l.
  destruct oc as [c|]; [|cbn; now rewrite N.add_0_r].
  unfold spec_brack, abs. cbn [a_c1].
  by_class c; fin ltac:(apply IH).
Qed.

Lemma paren_ok step :
  (forall oc od lcr line, step (abs T o oc od lcr line) = spec_paren (abs T o oc od lcr line)) ->
  forall f acc line start l, run_flat (tloop T o step f acc false line start) l = run_flat (paren_loop f acc line) l.
Proof.
  intros Hs. induction f as [|f IH]; intros acc line start l; [reflexivity|].
  unfold tloop in *. cbn [gloop paren_loop run_flat]. loop_start Hs l.
  destruct oc as [c|]; [|cbn; now rewrite N.add_0_r].
  unfold spec_paren, abs. cbn [a_c1].
  by_class c; fin ltac:(apply IH).
Qed.

Lemma directive_ok step :
  (forall oc od lcr line, step (abs T o oc od lcr line) = spec_directive (abs T o oc od lcr line)) ->
  forall f acc line start l, run_flat (tloop T o step f acc false line start) l = run_flat (directive_loop T o f acc line) l.
Proof.
  intros Hs. induction f as [|f IH]; intros acc line start l; [reflexivity|].
  unfold tloop in *. cbn [gloop directive_loop run_flat]. loop_start Hs l.
  destruct oc as [c|]; [|cbn; now rewrite N.add_0_r].
  unfold spec_directive, delim_a, abs, unread_delim, is_delim. cbn [a_c1 a_bd a_o].
  by_class c; fin ltac:(apply IH).
Qed.

Lemma bare_ok step :
  (forall oc od lcr line, step (abs T o oc od lcr line) = spec_bare (abs T o oc od lcr line)) ->
  forall f acc line start l, run_flat (tloop T o step f acc false line start) l = run_flat (bare_loop T o f acc line) l.
Proof.
  intros Hs. induction f as [|f IH]; intros acc line start l; [reflexivity|].
  unfold tloop in *. cbn [gloop bare_loop run_flat]. loop_start Hs l.
  destruct oc as [c|]; [|cbn; now rewrite N.add_0_r].
  unfold spec_bare, delim_a, abs, unread_delim, is_delim. cbn [a_c1 a_bd a_o].
  by_class c; fin ltac:(apply IH).
Qed.

(** The comment loops keep their buffer only with [preserve_comments]; without it the result does not depend on it. *)
Lemma line_ok step :
  (forall oc od lcr line, step (abs T o oc od lcr line) = spec_line (abs T o oc od lcr line)) ->
  forall f acc acc' line start l, (preserve_comments o = true -> acc = acc') ->
  run_flat (cloop T o step f acc false line start) l = run_flat (line_comment o f acc' line) l.
Proof.
  intros Hs. induction f as [|f IH]; intros acc acc' line start l Hacc; [reflexivity|].
  unfold cloop in *. cbn [gloop line_comment run_flat]. loop_start Hs l.
  unfold spec_line, cend, capp, comment_end, abs. cbn [a_c1 a_o].
  destruct (preserve_comments o) eqn:Hp; [rewrite <- (Hacc eq_refl)|];
    (destruct oc as [c|]; [|cbn; now rewrite N.add_0_r]); by_class c; fin ltac:(apply IH; congruence).
Qed.

Lemma star_ok step :
  (forall oc od lcr line, step (abs T o oc od lcr line) = spec_star (abs T o oc od lcr line)) ->
  forall f acc acc' line start l, (preserve_comments o = true -> acc = acc') ->
  run_flat (cloop T o step f acc false line start) l = run_flat (star_comment o f acc' line start) l.
Proof.
  intros Hs. induction f as [|f IH]; intros acc acc' line start l Hacc; [reflexivity|].
  unfold cloop in *. cbn [gloop star_comment run_flat]. loop_start Hs l.
  unfold spec_star, cend, capp, comment_end, abs. cbn [a_c1 a_c2 a_o].
  destruct oc as [c|]; [|cbn; now rewrite N.add_0_r].
  destruct (preserve_comments o) eqn:Hp; [rewrite <- (Hacc eq_refl)|];
    by_class c; try solve [fin ltac:(apply IH; congruence)].
  all: unfold L, L2; cbn; destruct (fnext l') as [od l'']; cbn [fst snd]; destruct od as [d|].
  all: try solve [fin ltac:(apply IH; congruence)].
  all: by_class d; fin ltac:(apply IH; congruence).
Qed.

(** The two functions. *)
Variable St : steps.
Hypothesis Hd : forall oc od lcr line, s_dispatch St (abs T o oc od lcr line) = spec_dispatch (abs T o oc od lcr line).
Hypothesis Hb : forall oc od lcr line, s_brack St (abs T o oc od lcr line) = spec_brack (abs T o oc od lcr line).
Hypothesis Hp : forall oc od lcr line, s_paren St (abs T o oc od lcr line) = spec_paren (abs T o oc od lcr line).
Hypothesis Hdi : forall oc od lcr line, s_directive St (abs T o oc od lcr line) = spec_directive (abs T o oc od lcr line).
Hypothesis Hba : forall oc od lcr line, s_bare St (abs T o oc od lcr line) = spec_bare (abs T o oc od lcr line).
Hypothesis Hst : forall oc od lcr line, s_star St (abs T o oc od lcr line) = spec_star (abs T o oc od lcr line).
Hypothesis Hli : forall oc od lcr line, s_line St (abs T o oc od lcr line) = spec_line (abs T o oc od lcr line).
Hypothesis Hcp : forall oc od lcr line, s_cprefix St (abs T o oc od lcr line) = spec_cprefix (abs T o oc od lcr line).

Lemma hc_ok f line l : run_flat (hc_interp T o St f false line) l = run_flat (handle_comment o f line) l.
Proof.
  unfold hc_interp, handle_comment. cbn [run_flat]. rewrite seg_flat. destruct (fnext l) as [oc l']. cbv zeta. rewrite !Hcp.
  cbn [fst snd]. unfold spec_cprefix, abs. cbn [a_c1 a_o].
  destruct oc as [c|]; [|fin fail].
  by_class c; fin ltac:(first [apply star_ok; [exact Hst|reflexivity] | apply line_ok; [exact Hli|reflexivity]]).
Qed.

Variable hs : nat -> str -> bool -> N -> Prog result.
Hypothesis Hhs : forall f acc lcr line l, run_flat (hs f acc lcr line) l = run_flat (handle_string T o f acc lcr line) l.

Arguments hc_interp : simpl never.
Arguments handle_comment : simpl never.

Lemma gt_ok : forall f line lcr l, run_flat (gt_interp T o St hs f line lcr) l = run_flat (get_token T o f line lcr) l.
Proof.
  induction f as [|f IH]; intros line lcr l; [reflexivity|].
  cbn [gt_interp get_token run_flat]. rewrite seg_flat. destruct (fnext l) as [oc l']. cbv zeta. rewrite !Hd. cbn [fst snd].
  unfold spec_dispatch, abs. cbn [a_c1 a_ops a_bd a_lcr a_line1 a_o].
  destruct oc as [c|]; [|fin fail].
  destruct (lookup c (operators T)) eqn:Hop.
  { by_class c; fin fail. }
  by_class c;
    fin ltac:(first [ apply IH | apply Hhs | apply brack_ok; exact Hb | apply paren_ok; exact Hp | apply directive_ok; exact Hdi
                    | apply bare_ok; exact Hba
                    | rewrite !run_flat_bind, hc_ok;
                      match goal with |- context [run_flat (handle_comment ?a ?b ?c) ?d] =>
                        destruct (run_flat (handle_comment a b c) d) as [[?|?] ?] end; [apply IH|reflexivity] ]).
Qed.

End Loops.

(** The whole-function statement: if the eight trees read from the source pass [trees_ok] and [hs] computes what the hand model of
    [_handle_string] computes, then interpreting the trees gives the hand model [Tokenizer.get_token], for every input,
    fuel, line and flag. *)
Theorem gt_trees_interp_is_model T o G hs : trees_ok G = true ->
  (forall f acc lcr line l, run_flat (hs f acc lcr line) l = run_flat (handle_string T o f acc lcr line) l) ->
  forall f line lcr l,
  run_flat (gt_interp T o (steps_of G) hs f line lcr) l = run_flat (get_token T o f line lcr) l.
Proof.
  intros Hok Hhs. unfold trees_ok in Hok.
  apply andb_true_iff in Hok. destruct Hok as [Hok H8]. apply andb_true_iff in Hok. destruct Hok as [Hok H7].
  apply andb_true_iff in Hok. destruct Hok as [Hok H6]. apply andb_true_iff in Hok. destruct Hok as [Hok H5].
  apply andb_true_iff in Hok. destruct Hok as [Hok H4]. apply andb_true_iff in Hok. destruct Hok as [Hok H3].
  apply andb_true_iff in Hok. destruct Hok as [H1 H2].
  assert (K0 : In 0 [0; 1; 2; 3; 4; 5]) by (cbn; tauto). assert (K1 : In 1 [0; 1; 2; 3; 4; 5]) by (cbn; tauto).
  assert (K2 : In 2 [0; 1; 2; 3; 4; 5]) by (cbn; tauto). assert (K3 : In 3 [0; 1; 2; 3; 4; 5]) by (cbn; tauto).
  assert (K4 : In 4 [0; 1; 2; 3; 4; 5]) by (cbn; tauto). assert (K5 : In 5 [0; 1; 2; 3; 4; 5]) by (cbn; tauto).
  exact (gt_ok T o (steps_of G)
           (tree_ok_sound T o 0 (t_dispatch G) spec_dispatch K0 H1 spec_dispatch_proj)
           (tree_ok_sound T o 1 (t_brack G) spec_brack K1 H2 spec_brack_proj)
           (tree_ok_sound T o 1 (t_paren G) spec_paren K1 H3 spec_paren_proj)
           (tree_ok_sound T o 2 (t_directive G) spec_directive K2 H4 spec_directive_proj)
           (tree_ok_sound T o 2 (t_bare G) spec_bare K2 H5 spec_bare_proj)
           (tree_ok_sound T o 4 (t_star G) spec_star K4 H6 spec_star_proj)
           (tree_ok_sound T o 3 (t_line G) spec_line K3 H7 spec_line_proj)
           (tree_ok_sound T o 5 (t_cprefix G) spec_cprefix K5 H8 spec_cprefix_proj)
           hs Hhs).
Qed.

(** The same over the chunked reader state of the real class. *)
Theorem gt_trees_interp_is_model_chunked T o G hs : trees_ok G = true ->
  (forall f acc lcr line l, run_flat (hs f acc lcr line) l = run_flat (handle_string T o f acc lcr line) l) ->
  forall f line lcr l s, R l s ->
  fst (run_chk (gt_interp T o (steps_of G) hs f line lcr) s) = fst (run_flat (get_token T o f line lcr) l).
Proof.
  intros Hok Hhs f line lcr l s HR. rewrite <- (gt_trees_interp_is_model T o G hs Hok Hhs).
  destruct (chunk_independent (gt_interp T o (steps_of G) hs f line lcr) l s HR) as [Heq _]. symmetry. exact Heq.
Qed.

Theorem gt_trees_trace_is_model T o G hs : trees_ok G = true ->
  (forall f acc lcr line l, run_flat (hs f acc lcr line) l = run_flat (handle_string T o f acc lcr line) l) ->
  forall n fuel line lcr l,
  itokens_flat (gt_interp T o (steps_of G) hs fuel) n line lcr l = tokens_flat T o n fuel line lcr l.
Proof.
  intros Hok Hhs. induction n as [|n IH]; intros fuel line lcr l; cbn [itokens_flat tokens_flat]; [reflexivity|].
  rewrite (gt_trees_interp_is_model T o G hs Hok Hhs).
  destruct (run_flat (get_token T o fuel line lcr) l) as [r l']. destruct r; try reflexivity. f_equal. apply IH.
Qed.

Theorem gt_trees_trace_is_model_chunked T o G hs : trees_ok G = true ->
  (forall f acc lcr line l, run_flat (hs f acc lcr line) l = run_flat (handle_string T o f acc lcr line) l) ->
  forall n fuel line lcr l s, R l s ->
  itokens_chk (gt_interp T o (steps_of G) hs fuel) n line lcr s = tokens_flat T o n fuel line lcr l.
Proof.
  intros Hok Hhs. induction n as [|n IH]; intros fuel line lcr l s HR; cbn [itokens_chk tokens_flat]; [reflexivity|].
  destruct (chunk_independent (gt_interp T o (steps_of G) hs fuel line lcr) l s HR) as [Hfst HR'].
  rewrite (gt_trees_interp_is_model T o G hs Hok Hhs) in Hfst, HR'.
  destruct (run_flat (get_token T o fuel line lcr) l) as [r l'].
  destruct (run_chk (gt_interp T o (steps_of G) hs fuel line lcr) s) as [r' s'].
  cbn [fst snd] in Hfst, HR'. subst r'.
  destruct r as [k v line' lcr'| |]; try reflexivity.
  f_equal. apply IH. exact HR'.
Qed.

