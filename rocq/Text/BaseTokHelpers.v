(** [BaseTokenizer.expect] against the logical stream: it skips the NEWLINE tokens in front (when asked to and when
    NEWLINE itself is not wanted) and decides on the first other token — wherever those tokens come from (push-back
    list or source). *)
From Coq Require Import List NArith Bool Lia.
From SV Require Import Text.Str Text.BaseTok Text.BaseTokProofs.
Import ListNotations.

Section H.
  Variables (S E : Type).
  Variable get : S -> (ptok + E) * S.
  Variable c : bcfg.
  Notation call := (call S E get c).
  Notation view := (view S E get c).
  Notation expect := (expect S E get c).

  (** One call takes the head of the logical stream; the rest is the logical stream of the new state. *)
  Lemma call_view n b x L : view n b = x :: L ->
    fst (call b) = x /\ (forall t, x = inl t -> exists n', view n' (snd (call b)) = L).
  Proof.
    unfold BaseTok.view, BaseTok.call. pose proof (pop_stack c (pb b)) as Hp.
    destruct (pb_pop (pop_last c) (pb b)) as [[y l]|].
    - rewrite Hp. cbn [map app fst snd pb src]. intros H. inversion H; subst. split; [reflexivity|].
      intros t _. exists n. reflexivity.
    - destruct Hp as [Hs _]. rewrite Hs. cbn [map app]. destruct n as [|n]; [discriminate|].
      cbn [BaseTok.unfold]. destruct (get (src b)) as [r0 s]. cbn [fst snd pb src]. intros H. inversion H; subst.
      split; [reflexivity|]. intros t Ht. subst. exists n. now rewrite Hs.
  Qed.

  Theorem expect_spec : forall nls fuel want b n x rest,
    Forall (fun t => is_tok NEWLINE t = true) nls -> is_tok NEWLINE x = false ->
    is_tok NEWLINE (want, []) = false -> (length nls < fuel)%nat ->
    view n b = map inl nls ++ inl x :: rest ->
    fst (expect fuel want true b) = if is_tok want x then HVal (snd x) else HErr x.
  Proof.
    induction nls as [|t nls IH]; intros fuel want b n x rest Hnl Hx Hw Hf Hv;
      (destruct fuel as [|f]; [cbn in Hf; lia|]); cbn [BaseTok.expect].
    - cbn [map app] in Hv. destruct (call_view n b _ _ Hv) as [Hc _].
      destruct (call b) as [r b']. cbn [fst] in Hc. subst r. rewrite Hx, Hw. cbn [andb negb].
      destruct (is_tok want x); reflexivity.
    - cbn [map app] in Hv. destruct (call_view n b _ _ Hv) as [Hc Hrest].
      destruct (call b) as [r b'] eqn:Ec. cbn [fst snd] in *. subst r.
      inversion Hnl as [|? ? Ht Hnl']; subst. rewrite Ht, Hw. cbn [andb negb].
      destruct (Hrest t eq_refl) as [n' Hv']. apply (IH f want b' n' x rest Hnl' Hx Hw); [cbn in Hf; lia|exact Hv'].
  Qed.
End H.
