(** Options are read at call time (round 5).

    The seven options of [srctools.tokenizer.Tokenizer] are public, documented, settable attributes; every call of [tok()]
    consults the values they hold AT THAT MOMENT.  The model takes the option vector as a parameter of [get_token], so a trace in
    which the options change between calls is simply a trace with one option vector per call ([tokens_flat_opts]).  That the
    real class behaves like this (no value derived from an option is kept from construction time) is the instance obligation
    [GtGen.tokenizer_options_are_read_from_the_public_attribute_at_call_time] and the correspondence [options_by_attribute].

    C02 for such traces: the quoted escaped text is read back by ONE call; only the options in force during that call matter
    (escapes enabled), whatever they were before and whatever they become afterwards. *)
From Coq Require Import List NArith Bool Lia.
From SV Require Import Text.Str Text.Prog Text.Escape Text.Tokenizer Text.EscapeProofs.
Import ListNotations.
Open Scope N_scope.

(** One call per element of [os]: the i-th call runs with the i-th option vector; stops at the first error. *)
Fixpoint tokens_flat_opts (T : tables) (os : list opts) (fuel : nat) (line : N) (lcr : bool) (l : str) : list result :=
  match os with
  | [] => []
  | o :: os' =>
    let '(r, l') := run_flat (get_token T o fuel line lcr) l in
    match r with
    | RTok _ _ line' lcr' => r :: tokens_flat_opts T os' fuel line' lcr' l'
    | _ => [r]
    end
  end.

(** With the same vector at every call this is the trace the other theorems are about. *)
Lemma tokens_flat_opts_const T o n fuel line lcr l :
  tokens_flat_opts T (repeat o n) fuel line lcr l = tokens_flat T o n fuel line lcr l.
Proof.
  revert line lcr l. induction n as [|n IH]; intros line lcr l; cbn [repeat tokens_flat_opts tokens_flat]; [reflexivity|].
  destruct (run_flat (get_token T o fuel line lcr) l) as [r l']. destruct r; try reflexivity. now rewrite IH.
Qed.

(** At the end of the input every call gives EOF, whatever the options are by then. *)
Lemma tokens_flat_opts_eof T os f line lcr :
  tokens_flat_opts T os (S f) line lcr [] = map (fun _ => RTok EOF [] line lcr) os.
Proof.
  induction os as [|o os IH]; cbn [tokens_flat_opts map]; [reflexivity|].
  rewrite get_token_eof. now rewrite IH.
Qed.

(** ONE call reads the quoted escaped text, from any reader state (line, [_last_was_cr]) that earlier calls - made under any
    options whatsoever - have left, and leaves the rest of the input untouched: only the options in force during this call
    matter. *)
Theorem get_token_reads_quoted_escape T o ml :
  allow_escapes o = true -> tbl_ok T ml = true -> dq_not_operator T = true ->
  forall s f line lcr rest, (length s + 2 <= f)%nat ->
  run_flat (get_token T o f line lcr) (DQ :: escape T ml s ++ DQ :: rest)
  = (RTok STRING s (line + raw_lfs T ml s) false, rest).
Proof.
  intros He Hok Hop s f line lcr rest Hf. destruct f as [|f]; [lia|].
  rewrite get_token_quote by assumption.
  now rewrite (quoted_embedding T o He ml Hok s f [] line rest) by lia.
Qed.

Theorem escape_tokenize_inverse_opts T o os ml :
  allow_escapes o = true -> tbl_ok T ml = true -> dq_not_operator T = true ->
  forall s fuel line lcr, (length s + 2 <= fuel)%nat ->
  tokens_flat_opts T (o :: os) fuel line lcr (DQ :: escape T ml s ++ [DQ])
  = RTok STRING s (line + raw_lfs T ml s) false :: map (fun _ => RTok EOF [] (line + raw_lfs T ml s) false) os.
Proof.
  intros He Hok Hop s fuel line lcr Hf.
  destruct fuel as [|f]; [lia|].
  cbn [tokens_flat_opts]. rewrite get_token_quote by assumption.
  rewrite (quoted_embedding T o He ml Hok s f [] line []) by lia. cbn [rev app].
  f_equal. apply tokens_flat_opts_eof.
Qed.
