(** C17 — instance collapse transforms contents exactly and leaves the template intact.
    Only statements here; proofs are in Rot/C17GeomProofs.v, SM/C17NameProofs.v, SM/C17RoundsProofs.v.
    Every [g_...] below is GENERATED from today's math.py / vmf.py / instancing.py (Gen/C17Formulas_gen.v) by
    symbolic execution of the Python method bodies; [place], [vrot], [mmul], [uvplace], [texcoord], [orth] are the
    hand-written specification (Rot/C17Base.v).  Arithmetic is over R: floating-point rounding is outside the model. *)
From Coq Require Import Reals NArith ZArith List.
From SV Require Import Rot.C17Base SM.C17Name SM.C17Rounds Gen.C17Formulas_gen
                       Rot.C17GeomProofs SM.C17NameProofs SM.C17RoundsProofs.
Import ListNotations.

(** Site obligations over the generated census (each is kernel-checked by vm_compute on every run). *)
Definition fixup_style_values_ok : bool :=
  match g_fixup_style_values with
  | [(SPrefix, 0%Z); (SSuffix, 1%Z); (SNone, 2%Z)] => true
  | _ => false
  end.
(* "VEC", "VEC_ORIGIN", "VEC_LINE" *)
Definition position_key_types_ok : bool :=
  strs_eqb g_fixup_key_position_types [[86;69;67]; [86;69;67;95;79;82;73;71;73;78]; [86;69;67;95;76;73;78;69]]%N.
Definition template_calls_readonly : bool :=
  forallb (fun c => existsb (str_eqb c) g_template_readonly_methods) g_collapse_template_method_calls.

(** *** Positions: the originals rotated by the instance angles, then offset by its origin. *)
Theorem c17_localise_point : forall p o m, g_vec_localise p o m = place p o m.
Proof. exact localise_point. Qed.

(** Brush sides (all three plane points), displacement data and whole solids, as Side.localise / Solid.localise do it. *)
Theorem c17_side_planes : forall p0 p1 p2 o m,
  g_side_plane0 p0 p1 p2 o m = place p0 o m /\ g_side_plane1 p0 p1 p2 o m = place p1 o m /\
  g_side_plane2 p0 p1 p2 o m = place p2 o m.
Proof. exact side_planes_spec. Qed.

(** Explicit face vertices (Strata Source point_data / make_prism(set_points=True)) move with the face. *)
Theorem c17_side_vertices : forall sp o m, g_side_strata_point sp o m = place sp o m /\ g_solid_strata_point sp o m = place sp o m.
Proof. exact side_vertices_spec. Qed.

Theorem c17_side_displacement : forall d o m,
  g_side_disp_pos d o m = place d o m /\ g_side_vert_offset d m = vrot d m /\
  g_side_vert_normal d m = vrot d m /\ g_side_vert_offset_norm d m = vrot d m.
Proof. exact side_disp_spec. Qed.

Theorem c17_solid_localise : forall p0 p1 p2 u o m,
  g_solid_plane0 p0 p1 p2 o m = place p0 o m /\ g_solid_plane2 p0 p1 p2 o m = place p2 o m /\
  g_solid_uaxis u o m = uvplace u o m.
Proof. exact solid_localise_spec. Qed.

(** Entity origins and position / axis / direction keyvalues in collapse_one and Instance.fixup_key. *)
Theorem c17_entity_origin : forall p o m, g_collapse_ent_origin p o m = place p o m.
Proof. exact collapse_ent_origin_spec. Qed.

Theorem c17_position_keyvalues : forall p o m,
  g_fixup_key_position p o m = place p o m /\ g_fixup_key_axis0 p o m = place p o m /\ g_fixup_key_axis1 p o m = place p o m.
Proof. intros; split; [apply fixup_key_position_spec | apply fixup_key_axis_spec]. Qed.

Theorem c17_direction_keyvalues : forall p m, g_fixup_key_direction p m = vrot p m.
Proof. exact fixup_key_direction_spec. Qed.

(** The arguments are not modified by the arithmetic (v @ m leaves v, localise leaves the origin, _mat_mul leaves
    its right operand): the instance's own placement survives the collapse of each of its brushes. *)
Theorem c17_operands_unchanged : forall (p o : vec) (a b : mat),
  g_vec_matmul_self_after p a = p /\ g_vec_localise_origin_after p o a = o /\ g_mat_mul_other_after a b = b.
Proof. intros; repeat split; [apply g_vec_matmul_pure | apply localise_keeps_origin_argument | apply g_mat_mul_pure]. Qed.

(** *** Texture alignment moves with the geometry (instance rotation orthonormal, texture scale non-zero). *)
Theorem c17_texture_moves_with_geometry : forall ax o m p, orth m -> uscale ax <> 0%R ->
  texcoord (g_uv_localise ax o m) (g_vec_localise p o m) = texcoord ax p.
Proof. exact texture_moves_with_geometry. Qed.

Theorem c17_side_texture_moves_with_geometry : forall p0 p1 p2 u w o m, orth m -> uscale u <> 0%R -> uscale w <> 0%R ->
  let q0 := g_side_plane0 p0 p1 p2 o m in let q1 := g_side_plane1 p0 p1 p2 o m in let q2 := g_side_plane2 p0 p1 p2 o m in
  let u' := g_side_uaxis u o m in let w' := g_side_vaxis w o m in
  (texcoord u' q0 = texcoord u p0 /\ texcoord u' q1 = texcoord u p1 /\ texcoord u' q2 = texcoord u p2) /\
  (texcoord w' q0 = texcoord w p0 /\ texcoord w' q1 = texcoord w p1 /\ texcoord w' q2 = texcoord w p2).
Proof. exact side_texture_moves_with_geometry. Qed.

(** *** Results differ only by the placement. *)
Theorem c17_identity_placement : forall p, g_vec_localise p vzero mid = p.
Proof. exact localise_identity. Qed.

Theorem c17_placement_equivariance : forall p o m, g_vec_localise p o m = g_vec_localise (g_vec_localise p vzero mid) o m.
Proof. exact placement_equivariance. Qed.

(** Nested instances / two placements of one template: placing at (o1,m1) then at (o2,m2) is one placement at the
    composed origin and the product matrix (with the generated _mat_mul). *)
Theorem c17_placement_composes : forall p o1 m1 o2 m2,
  g_vec_localise (g_vec_localise p o1 m1) o2 m2 = g_vec_localise p (g_vec_localise o1 o2 m2) (g_mat_mul m1 m2).
Proof. exact localise_compose. Qed.

Theorem c17_texture_placement_composes : forall ax o1 m1 o2 m2, orth m2 ->
  g_uv_localise (g_uv_localise ax o1 m1) o2 m2 = g_uv_localise ax (g_vec_localise o1 o2 m2) (g_mat_mul m1 m2).
Proof. exact uv_localise_compose. Qed.

Theorem c17_rotations_closed : orth mid /\ forall a b, orth a -> orth b -> orth (g_mat_mul a b).
Proof. split; [exact orth_mid | intros; rewrite g_mat_mul_spec; apply orth_mmul; assumption]. Qed.

(** *** Orientations are composed with the instance rotation (Euler round trip = C04, a visible hypothesis). *)
Theorem c17_orientation_composes :
  forall (angle : Type) (from_angle : angle -> mat) (to_angle : mat -> angle) (good : mat -> Prop),
  (forall m, good m -> from_angle (to_angle m) = m) ->
  forall a r, good (mmul (from_angle a) r) ->
    from_angle (to_angle (g_angle_imatmul (from_angle a) r)) = mmul (from_angle a) r /\
    from_angle (to_angle (g_angle_matmul (from_angle a) r)) = mmul (from_angle a) r.
Proof. exact orientation_composes. Qed.

(** *** Names follow the fixup style, for every decision table that passes the (kernel-checked) named booleans. *)
Theorem c17_fixup_name_cases : forall c, cfg_ok c = true -> forall st inst name,
  (name = [] -> fixup_name c st inst name = Some []) /\
  (forall ch rest, name = ch :: rest -> ch = AT \/ ch = BANG -> fixup_name c st inst name = Some name) /\
  (forall ch rest, name = ch :: rest -> ch <> AT -> ch <> BANG -> fixup_name c st inst name = Some (expected st inst name)).
Proof. exact fixup_name_cases. Qed.

Theorem c17_fixup_name_separates_instances : forall c, cfg_ok c = true -> forall st i1 i2 ch rest,
  st <> SNone -> ch <> AT -> ch <> BANG ->
  fixup_name c st i1 (ch :: rest) = fixup_name c st i2 (ch :: rest) -> i1 = i2.
Proof. exact fixup_name_separates_instances. Qed.

Local Open Scope nat_scope.
(** *** collapse_all terminates: at most recur_limit rounds, then RecursionError; success iff the inclusion depth
    is below the limit; mutually-inclusive instances always raise. *)
Theorem c17_collapse_rounds_bounded : forall children limit p,
  l_rounds (loop children limit p) <= limit /\
  (l_outcome (loop children limit p) = Raise -> l_rounds (loop children limit p) = limit) /\
  (l_outcome (loop children limit p) = Done ->
     rounds children (l_rounds (loop children limit p)) p = [] /\ l_rounds (loop children limit p) < limit).
Proof. exact rounds_bounded. Qed.

Theorem c17_collapse_done_iff : forall children limit p,
  l_outcome (loop children limit p) = Done <-> exists k, k < limit /\ rounds children k p = [].
Proof. exact done_iff. Qed.

Theorem c17_collapse_cycle_raises : forall children limit p, (forall k, rounds children k p <> []) ->
  l_outcome (loop children limit p) = Raise /\ l_rounds (loop children limit p) = limit.
Proof. exact cycle_raises. Qed.

(** The work (number of collapse_one calls) is the sum of the pending sets; linear when no file holds more than one
    instance ... *)
Theorem c17_collapse_work : forall children limit p,
  l_work (loop children limit p) = work_upto children (l_rounds (loop children limit p)) p.
Proof. exact work_is_sum. Qed.

Theorem c17_collapse_work_linear_fanout1 : forall children limit p, (forall f, length (children f) <= 1) ->
  l_work (loop children limit p) <= limit * length p.
Proof. exact work_linear_fanout1. Qed.

(** ... and exponential in the limit for a file that includes itself twice (carved-out known defect #32: the
    recursion counter kept on entities is never consulted, only the round count bounds the loop). *)
Theorem c17_collapse_work_exponential_refuted : forall limit,
  loop (fun _ => [0; 0]) limit [0] = (Raise, limit, 2 ^ limit - 1).
Proof. exact self_twice. Qed.
