(** C17 — instance collapse transforms contents exactly and leaves the template intact.
    Only statements here; proofs are in Rot/C17GeomProofs.v, SM/C17NameProofs.v, SM/C17RoundsProofs.v,
    SM/C17SubstProofs.v, SM/C17SitesProofs.v, SM/C17FrameProofs.v (the last one on top of C09's SM/StoreCopyProofs.v),
    SM/C17GlobalProofs.v, SM/C17CacheProofs.v, SM/C17ComposeProofs.v, SM/C17WholeProofs.v, SM/C17PropertyProofs.v.
    Every [g_...] below is GENERATED from today's math.py / vmf.py / instancing.py (Gen/C17Formulas_gen.v) by
    symbolic execution of the Python method bodies; [place], [vrot], [mmul], [uvplace], [texcoord], [orth] are the
    hand-written specification (Rot/C17Base.v).  Arithmetic is over R: floating-point rounding is outside the model. *)
From Coq Require Import Reals NArith ZArith List String.
From SV Require Import Rot.C17Base SM.C17Name SM.C17Rounds SM.C17Subst SM.C17Sites SM.Store SM.StoreProofs SM.StoreCopy
                       SM.StoreCopyProofs SM.C17Frame SM.C17Global SM.C17Cache SM.C17Compose
                       Gen.C17Formulas_gen
                       Rot.C17GeomProofs SM.C17NameProofs SM.C17RoundsProofs SM.C17SubstProofs SM.C17SitesProofs
                       SM.C17FrameProofs SM.C17GlobalProofs SM.C17CacheProofs SM.C17ComposeProofs
                       SM.C17Whole SM.C17WholeProofs SM.C17PropertyProofs SM.C17Kinds SM.C17KindsProofs SM.C17ManifestProofs SM.C17RoundsDyn SM.C17RoundsDynProofs
                       SM.C17AutoNames SM.C17AutoNamesProofs.
Import ListNotations.
(* String is imported for the census names; [length] keeps meaning the length of a list *)
Local Notation length := List.length (only parsing).

(** Site obligations over the generated census (each is kernel-checked by vm_compute on every run). *)
Definition fixup_style_values_ok : bool :=
  match g_fixup_style_values with
  | [(SPrefix, 0%Z); (SSuffix, 1%Z); (SNone, 2%Z)] => true
  | _ => false
  end.
(* "VEC", "VEC_ORIGIN", "VEC_LINE" *)
Definition position_key_types_ok : bool :=
  strs_eqb g_fixup_key_position_types [[86;69;67]; [86;69;67;95;79;82;73;71;73;78]; [86;69;67;95;76;73;78;69]]%N.
Definition template_calls_readonly : bool :=
  forallb (fun c => existsb (str_eqb c) g_template_readonly_methods) g_collapse_template_method_calls.

(* "output-target", "entity-key", "nested-fixup": sinks that must go through fixup_name / fixup_key;
   "output-params": a sink that is only substituted *)
Definition name_site_labels : list str :=
  [[111;117;116;112;117;116;45;116;97;114;103;101;116]; [101;110;116;105;116;121;45;107;101;121]; [110;101;115;116;101;100;45;102;105;120;117;112]]%N.
Definition plain_site_labels : list str := [[111;117;116;112;117;116;45;112;97;114;97;109;115]]%N.
Definition value_sites_present : bool :=
  name_labels_present g_collapse_sites name_site_labels && labels_present g_collapse_sites plain_site_labels.
Definition brushes_and_entities_copied : bool :=
  forallb (fun c => existsb (String.eqb c) g_collapse_copied_classes) ["Solid"; "Entity"]%string.

(* every function of instancing.py that mentions a module-level mutable object (collapse_one always), as a skeleton:
   decisions on such an object guard logging / updates of the object only, nothing else reads it *)
Definition process_state_only_gates_logging : bool :=
  forallb (fun f => fn_ok (snd f)) g_process_state_functions.
Definition collapse_one_skeleton_present : bool :=
  existsb (fun f => str_eqb (fst f) [99;111;108;108;97;112;115;101;95;111;110;101]%N) g_process_state_functions.

(* EntityFixup keeps the compiled pattern of `substitute` in an attribute: every method that may change the key set of the
   table resets it, a copy that takes the pattern along has the same keys (one shape per method, SM/C17Cache.v) *)
Definition fixup_pattern_cache_reset_on_key_change : bool :=
  forallb (fun r => shape_ok (snd r)) g_fixup_cache_shapes.
Definition fixup_pattern_cache_has_mutators : bool :=
  existsb (fun r => match snd r with SChange _ => true | _ => false end) g_fixup_cache_shapes.

(** *** Positions: the originals rotated by the instance angles, then offset by its origin. *)
Theorem c17_localise_point : forall p o m, g_vec_localise p o m = place p o m.
Proof. exact localise_point. Qed.

(** Brush sides (all three plane points), displacement data and whole solids, as Side.localise / Solid.localise do it. *)
Theorem c17_side_planes : forall p0 p1 p2 o m,
  g_side_plane0 p0 p1 p2 o m = place p0 o m /\ g_side_plane1 p0 p1 p2 o m = place p1 o m /\
  g_side_plane2 p0 p1 p2 o m = place p2 o m.
Proof. exact side_planes_spec. Qed.

(** Explicit face vertices (Strata Source point_data / make_prism(set_points=True)) move with the face. *)
Theorem c17_side_vertices : forall sp o m, g_side_strata_point sp o m = place sp o m /\ g_solid_strata_point sp o m = place sp o m.
Proof. exact side_vertices_spec. Qed.

Theorem c17_side_displacement : forall d o m,
  g_side_disp_pos d o m = place d o m /\ g_side_vert_offset d m = vrot d m /\
  g_side_vert_normal d m = vrot d m /\ g_side_vert_offset_norm d m = vrot d m.
Proof. exact side_disp_spec. Qed.

Theorem c17_solid_localise : forall p0 p1 p2 u o m,
  g_solid_plane0 p0 p1 p2 o m = place p0 o m /\ g_solid_plane2 p0 p1 p2 o m = place p2 o m /\
  g_solid_uaxis u o m = uvplace u o m.
Proof. exact solid_localise_spec. Qed.

(** Entity origins and position / axis / direction keyvalues in collapse_one and Instance.fixup_key. *)
Theorem c17_entity_origin : forall p o m, g_collapse_ent_origin p o m = place p o m.
Proof. exact collapse_ent_origin_spec. Qed.

Theorem c17_position_keyvalues : forall p o m,
  g_fixup_key_position p o m = place p o m /\ g_fixup_key_axis0 p o m = place p o m /\ g_fixup_key_axis1 p o m = place p o m.
Proof. intros; split; [apply fixup_key_position_spec | apply fixup_key_axis_spec]. Qed.

Theorem c17_direction_keyvalues : forall p m, g_fixup_key_direction p m = vrot p m.
Proof. exact fixup_key_direction_spec. Qed.

(** The arguments are not modified by the arithmetic (v @ m leaves v, localise leaves the origin, _mat_mul leaves
    its right operand): the instance's own placement survives the collapse of each of its brushes. *)
Theorem c17_operands_unchanged : forall (p o : vec) (a b : mat),
  g_vec_matmul_self_after p a = p /\ g_vec_localise_origin_after p o a = o /\ g_mat_mul_other_after a b = b.
Proof. intros; repeat split; [apply g_vec_matmul_pure | apply localise_keeps_origin_argument | apply g_mat_mul_pure]. Qed.

(** *** Texture alignment moves with the geometry (instance rotation orthonormal, texture scale non-zero). *)
Theorem c17_texture_moves_with_geometry : forall ax o m p, orth m -> uscale ax <> 0%R ->
  texcoord (g_uv_localise ax o m) (g_vec_localise p o m) = texcoord ax p.
Proof. exact texture_moves_with_geometry. Qed.

Theorem c17_side_texture_moves_with_geometry : forall p0 p1 p2 u w o m, orth m -> uscale u <> 0%R -> uscale w <> 0%R ->
  let q0 := g_side_plane0 p0 p1 p2 o m in let q1 := g_side_plane1 p0 p1 p2 o m in let q2 := g_side_plane2 p0 p1 p2 o m in
  let u' := g_side_uaxis u o m in let w' := g_side_vaxis w o m in
  (texcoord u' q0 = texcoord u p0 /\ texcoord u' q1 = texcoord u p1 /\ texcoord u' q2 = texcoord u p2) /\
  (texcoord w' q0 = texcoord w p0 /\ texcoord w' q1 = texcoord w p1 /\ texcoord w' q2 = texcoord w p2).
Proof. exact side_texture_moves_with_geometry. Qed.

(** *** Results differ only by the placement. *)
Theorem c17_identity_placement : forall p, g_vec_localise p vzero mid = p.
Proof. exact localise_identity. Qed.

Theorem c17_placement_equivariance : forall p o m, g_vec_localise p o m = g_vec_localise (g_vec_localise p vzero mid) o m.
Proof. exact placement_equivariance. Qed.

(** Nested instances / two placements of one template: placing at (o1,m1) then at (o2,m2) is one placement at the
    composed origin and the product matrix (with the generated _mat_mul). *)
Theorem c17_placement_composes : forall p o1 m1 o2 m2,
  g_vec_localise (g_vec_localise p o1 m1) o2 m2 = g_vec_localise p (g_vec_localise o1 o2 m2) (g_mat_mul m1 m2).
Proof. exact localise_compose. Qed.

Theorem c17_texture_placement_composes : forall ax o1 m1 o2 m2, orth m2 ->
  g_uv_localise (g_uv_localise ax o1 m1) o2 m2 = g_uv_localise ax (g_vec_localise o1 o2 m2) (g_mat_mul m1 m2).
Proof. exact uv_localise_compose. Qed.

Theorem c17_rotations_closed : orth mid /\ forall a b, orth a -> orth b -> orth (g_mat_mul a b).
Proof. split; [exact orth_mid | intros; rewrite g_mat_mul_spec; apply orth_mmul; assumption]. Qed.

(** *** Orientations are composed with the instance rotation (Euler round trip = C04, a visible hypothesis). *)
Theorem c17_orientation_composes :
  forall (angle : Type) (from_angle : angle -> mat) (to_angle : mat -> angle) (good : mat -> Prop),
  (forall m, good m -> from_angle (to_angle m) = m) ->
  forall a r, good (mmul (from_angle a) r) ->
    from_angle (to_angle (g_angle_imatmul (from_angle a) r)) = mmul (from_angle a) r /\
    from_angle (to_angle (g_angle_matmul (from_angle a) r)) = mmul (from_angle a) r.
Proof. exact orientation_composes. Qed.

(** *** Names follow the fixup style, for every decision table that passes the (kernel-checked) named booleans. *)
Theorem c17_fixup_name_cases : forall c, cfg_ok c = true -> forall st inst name,
  (name = [] -> fixup_name c st inst name = Some []) /\
  (forall ch rest, name = ch :: rest -> ch = AT \/ ch = BANG -> fixup_name c st inst name = Some name) /\
  (forall ch rest, name = ch :: rest -> ch <> AT -> ch <> BANG -> fixup_name c st inst name = Some (expected st inst name)).
Proof. exact fixup_name_cases. Qed.

Theorem c17_fixup_name_separates_instances : forall c, cfg_ok c = true -> forall st i1 i2 ch rest,
  st <> SNone -> ch <> AT -> ch <> BANG ->
  fixup_name c st i1 (ch :: rest) = fixup_name c st i2 (ch :: rest) -> i1 = i2.
Proof. exact fixup_name_separates_instances. Qed.

(** *** $variables are substituted: EntityFixup.substitute as a scanner over the regular expression read from vmf.py
    ([subst_cfg]); [None] = KeyError (missing variable without default). *)
Theorem c17_substitute_name_free_identity : forall cfg inv tbl d t,
  dollar_free t = true -> substitute cfg inv tbl d t = Some t.
Proof. exact substitute_no_dollar. Qed.

(** No '$' is left when every '$' of the text starts a variable reference and the values (and the default) contain
    none; the result is then a fixed point.  Without the premise idempotence is false ("$$a"). *)
Theorem c17_substitute_leaves_no_dollar : forall cfg inv tbl d t out,
  values_dollar_free tbl d = true -> closed_text cfg inv tbl d t = true ->
  substitute cfg inv tbl d t = Some out -> dollar_free out = true.
Proof. exact substitute_leaves_no_dollar. Qed.

Theorem c17_substitute_idempotent_on_closed : forall cfg inv tbl d t out,
  values_dollar_free tbl d = true -> closed_text cfg inv tbl d t = true ->
  substitute cfg inv tbl d t = Some out -> substitute cfg inv tbl d out = Some out.
Proof. exact substitute_idempotent_on_closed. Qed.

Theorem c17_substitute_idempotent_refuted :
  let tbl := [([97], [120])]%N in
  substitute ref_subst_cfg false tbl (Some []) [36; 36; 97]%N = Some [36; 120]%N /\
  substitute ref_subst_cfg false tbl (Some []) [36; 120]%N = Some [] /\
  values_dollar_free tbl (Some []) = true.
Proof. exact substitute_idempotent_refuted. Qed.

(** Longest match over the table: the name taken after a '$' is at least as long as every defined name that also
    matches there, and a defined name that matches is never left to the identifier fallback. *)
Theorem c17_substitute_longest_name_wins : forall cfg tbl s m r, sc_longest_first cfg = true ->
  name_at cfg tbl s = Some (m, r) ->
  forall k, In k (map fst tbl) -> match_pre (sc_ignore_case cfg) k s <> None -> (List.length k <= List.length m)%nat.
Proof. exact name_at_longest. Qed.

Theorem c17_substitute_defined_name_taken : forall cfg tbl s k,
  In k (map fst tbl) -> match_pre (sc_ignore_case cfg) k s <> None ->
  exists k0 m r, In k0 (map fst tbl) /\ match_pre (sc_ignore_case cfg) k0 s = Some (m, r) /\ name_at cfg tbl s = Some (m, r).
Proof. exact name_at_defined. Qed.

(** Without allow_invert the "(!)?" of the pattern changes nothing (the '!' is put back). *)
Theorem c17_substitute_bang_transparent : forall cfg tbl d t, sc_bang_readd cfg = true ->
  substitute cfg false tbl d t = substitute (without_bang cfg) false tbl d t.
Proof. exact substitute_bang_transparent. Qed.

(** *** Substitution comes first at every value site of collapse_one ([g_collapse_sites], generated): a site list that
    passes [sites_ok] computes, at every site, [post] of the substituted raw text ... *)
Theorem c17_sites_substitute_first : forall l, sites_ok l = true -> forall lbl e, In (lbl, e) l ->
  forall S F x, seval S F e x = obind (S x) (post F e).
Proof. exact sites_ok_all. Qed.

(** ... so a '@global' / '!special' / empty name passed in through a $variable is kept, and an ordinary one gets the
    style applied to the substituted text ... *)
Theorem c17_variable_names_follow_style : forall c, cfg_ok c = true -> forall st inst e S x v,
  site_ok e = true -> S x = Some v -> post (fixup_name c st inst) e = fixup_name c st inst ->
  ((v = [] \/ exists ch rest, v = ch :: rest /\ (ch = AT \/ ch = BANG)) -> seval S (fixup_name c st inst) e x = Some v) /\
  (forall ch rest, v = ch :: rest -> ch <> AT -> ch <> BANG ->
     seval S (fixup_name c st inst) e x = Some (expected st inst v)).
Proof.
  intros c Hc st inst e S x v He Hs Hp. split.
  - intros Hv. now apply (subst_first_keeps_global_names c Hc st inst e S x v).
  - intros ch rest -> H1 H2. now apply (subst_first_names_substituted_text c Hc st inst e S x ch rest).
Qed.

(** ... whereas renaming before substituting (or not substituting) is a different function: `$v` with v = `@global`. *)
Theorem c17_name_before_substitute_refuted :
  seval w_S w_F (SName (SSubst SRaw)) [36;118]%N = Some [64;103;108;111;98;97;108]%N /\
  seval w_S w_F (SSubst (SName SRaw)) [36;118]%N = Some [105;45;64;103;108;111;98;97;108]%N /\
  seval w_S w_F (SName SRaw) [36;118]%N = Some [105;45;36;118]%N /\
  site_ok (SSubst (SName SRaw)) = false /\ site_ok (SName SRaw) = false /\ site_ok (SSubst (SSubst SRaw)) = false.
Proof. exact name_before_substitute_refuted. Qed.

(** *** The template is not modified: collapse_one works on copies; for a copy built as C09's census says (all
    mutable parts fresh), EVERY sequence of in-place stores and allocations through the copy leaves every
    observation of the template object as it was ... *)
Theorem c17_template_intact : forall (c : census) h h' la lc nd nd',
  closed h -> closed h' -> extends h h' -> h la = Some nd -> h lc = None -> h' lc = Some nd' ->
  copy_fresh_mutables c = true ->
  fields_rel h h' (ck c) (nfields nd) (nfields nd') ->
  forall ms h'' R, steps (h', [lc]) ms (h'', R) -> forall n, unfold n h'' (VRef la) = unfold n h' (VRef la).
Proof. exact template_intact. Qed.

(** ... and so does ANY number of collapses of the same template, in any order, interleaved with any work on the copies
    made so far ([collapses]: a collapse adds a root that reaches only new mutable locations — the conclusion of C09's
    [census_copy_new_mut] for a fresh census; in between, arbitrary in-place stores / allocations through the roots):
    every observation of the template object is unchanged and the template stays separated from all copies. *)
Theorem c17_template_intact_any_number_of_collapses : forall a h R h' R',
  collapses h R h' R' ->
  closed h -> alloc h a -> StoreProofs.roots_alloc h R -> sep h a R ->
  (forall n, unfold n h' (VRef a) = unfold n h (VRef a)) /\ sep h' a R' /\ closed h' /\ alloc h' a /\ StoreProofs.roots_alloc h' R'.
Proof. exact template_intact_any_number_of_collapses. Qed.

(** the step that feeds [col_copy]: C09's census theorem for a copy built as a fresh census says *)
Theorem c17_fresh_census_copy_is_new : forall (c : census) h h' la lc nd nd',
  closed h -> extends h h' -> h la = Some nd -> h lc = None -> h' lc = Some nd' ->
  copy_fresh_mutables c = true ->
  fields_rel h h' (ck c) (nfields nd) (nfields nd') ->
  new_mut h h' (VRef lc).
Proof. exact StoreCopyProofs.census_copy_new_mut. Qed.

(** ... and the census booleans the check evaluates give that premise for the classes collapse_one copies, and say
    that every field Side.localise / Solid.localise modify in place was copied deeply. *)
Theorem c17_copied_classes_fresh : forall all copied, copied_classes_fresh all copied = true ->
  forall cls, In cls copied -> exists l, copy_closure cls = Some l /\
  forall n, In n l -> exists c, In (n, c) all /\ copy_fresh_mutables c = true.
Proof. exact copied_classes_fresh_sound. Qed.

Theorem c17_inplace_writes_are_deep : forall all ws, writes_ok all ws = true ->
  forall cls f, In (cls, f, WInPlace) ws ->
  exists c k, In (cls, c) all /\ In (f, k, HDeep) c /\ field_fresh k HDeep = true.
Proof. exact inplace_writes_are_deep. Qed.

(** *** Process-global state (module-level mutable objects of instancing.py: the log de-duplication set, the logger)
    cannot influence a result.  For every control-flow skeleton in which decisions on such an object guard only logging
    and updates of the object itself ([gates_ok]; kernel-checked for the skeletons generated from today's collapse_one
    and every other function that mentions such an object), and for EVERY meaning of the statements, conditions, loop
    counts and exceptions ([sem]): the program state and the way control leaves the function are the same whatever
    the global state was at entry ... *)
Theorem c17_result_independent_of_process_state : forall (St G : Type) (m : sem St G) p, gates_ok p = true ->
  forall s g1 g2, result St G (run St G m p s g1) = result St G (run St G m p s g2).
Proof. exact noninterference. Qed.

(** ... hence for any history of such calls in one process (first collapse, hundredth collapse, before or after
    reset_keyvalue_warnings): "collapsing the same file any number of times, in any order". *)
Theorem c17_collapse_history_independent_of_process_state : forall (St G : Type) (m : sem St G) ps,
  forallb gates_ok ps = true ->
  forall s g1 g2, fst (run_many St G m ps s g1) = fst (run_many St G m ps s g2).
Proof. exact history_independent. Qed.

(** The guard-clause shape `if key in SEEN: continue` in front of the store is rejected, and rightly so: two collapses
    write one keyvalue instead of two, one collapse depends on what the process did before. *)
Theorem c17_process_state_gate_refuted :
  gates_ok shape_guard_clause = false /\ gates_ok shape_log_once = true /\
  fst (run_many nat bool demo_sem [shape_guard_clause; shape_guard_clause] 0%nat false) = 1%nat /\
  fst (run_many nat bool demo_sem [shape_log_once; shape_log_once] 0%nat false) = 2%nat /\
  result nat bool (run nat bool demo_sem shape_guard_clause 0%nat false) <> result nat bool (run nat bool demo_sem shape_guard_clause 0%nat true).
Proof. exact process_state_gate_refuted. Qed.

(** A function of the module seen from its callers ([KCall]: `return` ends it, exceptions propagate; the skeleton of a
    callee that touches the module-level state is inlined at the call, so the global state is threaded through helpers
    and through collapse_all's loop of collapse_one calls): with [fn_ok] - every decision on the global state guards
    quiet code, or the whole body is quiet up to bare `return`s - a call leaves the same program state and raises or
    not independently of the global state.  This is the statement the obligation `process_state_only_gates_logging`
    instantiates for every function of instancing.py that touches the module-level state, directly or through calls. *)
Theorem c17_call_independent_of_process_state : forall (St G : Type) (m : sem St G) body, fn_ok body = true ->
  forall s g1 g2, result St G (run St G m (KCall body) s g1) = result St G (run St G m (KCall body) s g2).
Proof. exact call_noninterference. Qed.

(** Helper shapes: `def warn_once(k): if k in SEEN: return; log; SEEN.add(k)` called before the store is accepted (and two
    collapses write two keyvalues); a helper whose return value depends on SEEN, used by the caller to skip the store, is not. *)
Theorem c17_process_state_helper_shapes : gates_ok shape_helper_log_once = true /\ gates_ok shape_helper_decides = false /\
  fst (run_many nat bool demo_sem [shape_helper_log_once; shape_helper_log_once] 0%nat false) = 2%nat.
Proof. exact shape_helpers. Qed.

(** *** The parts together: "collapsing the same file any number of times, in any order and at any placement, gives
    results that differ only by that placement".  For any abstract collapse (template, process state, placement, other
    arguments -> what is added to the map, template and process state afterwards) that (1) reads the template only
    through its observations, (2) leaves those observations unchanged (c17_template_intact_any_number_of_collapses),
    (3) gives a result independent of the process state (c17_call_independent_of_process_state) and (4) is equivariant
    in the placement (c17_placement_equivariance): every result of any history of collapses in one process is what that
    call alone gives on the untouched template in a new process at the identity placement, moved to its own placement.
    The four hypotheses are visible; their link to the part models is by reading (SM/C17Compose.v). *)
Theorem c17_each_collapse_as_if_first : forall (T G P A M Obs : Type) (obs : T -> Obs) (collapse : T -> G -> P -> A -> M * T * G)
    (ident : P) (transform : P -> M -> M),
  (forall t t' g p a, obs t = obs t' -> c_out T G M (collapse t g p a) = c_out T G M (collapse t' g p a)) ->
  (forall t g p a, obs (c_tmpl T G M (collapse t g p a)) = obs t) ->
  (forall t g g' p a, c_out T G M (collapse t g p a) = c_out T G M (collapse t g' p a)) ->
  (forall t g p a, c_out T G M (collapse t g p a) = transform p (c_out T G M (collapse t g ident a))) ->
  forall cs t g g0, c_history T G P A M collapse cs t g = map (as_if_first T G P A M collapse ident transform t g0) cs.
Proof. exact each_result_as_if_first. Qed.

(** ... hence the order of the collapses does not matter (a permuted history gives the permuted results). *)
Theorem c17_collapse_order_independent : forall (T G P A M Obs : Type) (obs : T -> Obs) (collapse : T -> G -> P -> A -> M * T * G)
    (ident : P) (transform : P -> M -> M),
  (forall t t' g p a, obs t = obs t' -> c_out T G M (collapse t g p a) = c_out T G M (collapse t' g p a)) ->
  (forall t g p a, obs (c_tmpl T G M (collapse t g p a)) = obs t) ->
  (forall t g g' p a, c_out T G M (collapse t g p a) = c_out T G M (collapse t g' p a)) ->
  (forall t g p a, c_out T G M (collapse t g p a) = transform p (c_out T G M (collapse t g ident a))) ->
  forall cs cs' t g, Permutation.Permutation cs cs' ->
  Permutation.Permutation (c_history T G P A M collapse cs t g) (c_history T G P A M collapse cs' t g).
Proof. exact order_independent. Qed.

(** *** THE PROPERTY AS ONE STATEMENT over the generated objects (round 4).  The four hypotheses of the two theorems above
    are no longer assumed but derived, in one machine (SM/C17Whole.v): a collapse is the run of the generated skeleton of
    collapse_one over a program state made of C09's heap (who holds a reference to what), the values in hand and the
    process-global state; what it adds to the map is the generated placement arithmetic [g_arith] applied item by item.
      - template read only through its value + template intact:  from C09's census / frame theorems, for every copy
        census in which the classes reached by copy() from the copied classes are fresh (obligation
        `copied_template_classes_fresh`, with [all] := C09's generated [all_census]);
      - independent of the process state:  from [fn_ok] of the skeleton (obligation `process_state_only_gates_logging`;
        collapse_one is in the list: `collapse_one_skeleton_present`);
      - placement equivariance:  from the identity laws of the generated arithmetic (c17_generated_arithmetic_identity).
    What remains assumed is [respects], about the meaning of the individual statements (universally quantified [m]):
    a statement writes through references it holds or builds a copy as the census says, and what it computes depends on
    the template only through the template's value.
    (Round 5, below: c17_property_by_statement_kinds replaces [respects] by a generated per-statement kind table that the
    check validates on every run, plus the per-kind contract [follows]; [respects] is then derived.)
    Conclusion: every result (how control left collapse_one, what was added to the map) of ANY history of collapses of
    one template in one process equals what that call alone gives on the untouched template, in a new process (any
    process state [g0]), at the identity placement, moved to its own placement. *)
Theorem c17_property : forall (all : list (string * census)),
  copied_classes_fresh all g_collapse_copied_classes = true ->
  process_state_only_gates_logging = true ->
  forall name body, In (name, body) g_process_state_functions ->
  forall (X G A D : Type) (a : loc) (m : sem (pstate X) G), respects all g_collapse_copied_classes X G a m ->
  forall (enter : A -> X) (content : X -> list (item D)) cs t g g0, wf_T a t ->
    c_history T G placement A (added D) (collapse X G m A D g_arith body enter content) cs t g =
    map (as_if_first T G placement A (added D) (collapse X G m A D g_arith body enter content)
           ident_placement (transform D g_arith) t g0) cs.
Proof. exact (fun all => property_each_collapse_as_if_first all g_collapse_copied_classes g_process_state_functions). Qed.

(** ... hence "in any order": a permuted history gives the permuted results ... *)
Theorem c17_property_any_order : forall (all : list (string * census)),
  copied_classes_fresh all g_collapse_copied_classes = true ->
  process_state_only_gates_logging = true ->
  forall name body, In (name, body) g_process_state_functions ->
  forall (X G A D : Type) (a : loc) (m : sem (pstate X) G), respects all g_collapse_copied_classes X G a m ->
  forall (enter : A -> X) (content : X -> list (item D)) cs cs' t g, wf_T a t -> Permutation.Permutation cs cs' ->
    Permutation.Permutation (c_history T G placement A (added D) (collapse X G m A D g_arith body enter content) cs t g)
                            (c_history T G placement A (added D) (collapse X G m A D g_arith body enter content) cs' t g).
Proof. exact (fun all => property_order_independent all g_collapse_copied_classes g_process_state_functions). Qed.

(** ... and after the whole history every observation of the template is what it was, the process still holds it
    separated from all copies (the state from which the next collapse starts). *)
Theorem c17_property_template_intact : forall (all : list (string * census)),
  copied_classes_fresh all g_collapse_copied_classes = true ->
  forall (body : skel) (X G A D : Type) (a : loc) (m : sem (pstate X) G), respects all g_collapse_copied_classes X G a m ->
  forall (enter : A -> X) (content : X -> list (item D)) cs t g, wf_T a t ->
    let t' := final_T X G m A D g_arith body enter content cs t g in
    wf_T a t' /\ forall n, unfold n (fst t') (VRef a) = unfold n (fst t) (VRef a).
Proof. exact (fun all => property_template_intact all g_collapse_copied_classes). Qed.

(** The generated arithmetic: placing at (0, I) changes no point, direction, texture axis or orientation, and the other
    generated placement functions (entity origin, position keyvalues, explicit vertices, displacement data) are the
    same arithmetic as the four of [g_arith]. *)
Theorem c17_generated_arithmetic_identity : arith_identity g_arith.
Proof. exact g_arith_identity. Qed.

Theorem c17_generated_arithmetic_covers_sites : forall p o m,
  g_collapse_ent_origin p o m = ar_point g_arith p o m /\ g_fixup_key_position p o m = ar_point g_arith p o m /\
  g_side_strata_point p o m = ar_point g_arith p o m /\ g_side_disp_pos p o m = ar_point g_arith p o m /\
  g_side_vert_normal p m = ar_dir g_arith p m /\ g_side_vert_offset p m = ar_dir g_arith p m /\
  g_side_vert_offset_norm p m = ar_dir g_arith p m.
Proof. exact g_arith_covers_sites. Qed.

(** ... and the [transform D g_arith] of c17_property is, item by item, the specification of the property text: a position
    is the original rotated by the instance matrix and then offset by its origin ([place]), a direction is rotated ([vrot]),
    a texture axis is placed so that the texture moves with the geometry ([uvplace], c17_texture_moves_with_geometry), an
    orientation is composed with the instance rotation ([mmul]); placement-independent data is untouched. *)
Theorem c17_property_transform_is_the_specification : forall D p (r : added D),
  transform D g_arith p r = transform D spec_arith p r.
Proof. exact transform_g_is_spec. Qed.

(** *** Round 5: [respects] narrowed to a GENERATED per-statement table (SM/C17Kinds.v).
    translate/c17_formulas.py classifies every numbered site of the skeleton of collapse_one by where the names bound to
    template objects occur in what the site evaluates: [KdLocal] (none), [KdRead] (only read by value), [KdCopy cls]
    (`.copy()` of a template object of class cls), [KdOther] (anything else) - [g_collapse_statement_kinds].  The new
    generated-object hypothesis is [kinds_ok]: every site of the skeleton has an entry, none is [KdOther], every copied
    class is in [g_collapse_copied_classes] (obligation `statement_kinds_cover_collapse_one`).  What is still assumed
    about the meaning [m] of the statements is [follows], kind by kind: a local / reading statement changes the heap
    only by in-place stores and allocations through the references held (it builds no copy), a copying statement is
    [disciplined] for its one class; a local statement computes from the values in hand alone, a reading / copying
    statement from those and the VALUE of the template.  [follows] says nothing about an [KdOther] statement. *)
Definition collapse_one_statement_kinds_ok : bool :=
  andb collapse_one_skeleton_present
       (forallb (fun f => if str_eqb (fst f) [99;111;108;108;97;112;115;101;95;111;110;101]%N
                          then kinds_ok g_collapse_statement_kinds g_collapse_copied_classes (snd f) else true)
                g_process_state_functions).

Theorem c17_statement_kinds_give_respects : forall all copied (X G : Type) (a : loc) tbl body,
  kinds_ok tbl copied body = true ->
  forall m : sem (pstate X) G, follows all X G a tbl m -> respects all copied X G a m.
Proof. exact kinds_respects. Qed.

Theorem c17_property_by_statement_kinds : forall (all : list (string * census)),
  copied_classes_fresh all g_collapse_copied_classes = true ->
  process_state_only_gates_logging = true ->
  forall name body, In (name, body) g_process_state_functions ->
  kinds_ok g_collapse_statement_kinds g_collapse_copied_classes body = true ->
  forall (X G A D : Type) (a : loc) (m : sem (pstate X) G), follows all X G a g_collapse_statement_kinds m ->
  forall (enter : A -> X) (content : X -> list (item D)) cs t g g0, wf_T a t ->
    c_history T G placement A (added D) (collapse X G m A D g_arith body enter content) cs t g =
    map (as_if_first T G placement A (added D) (collapse X G m A D g_arith body enter content)
           ident_placement (transform D g_arith) t g0) cs.
Proof.
  exact (fun all fr ga name body pr ok =>
           kinds_each_collapse_as_if_first all g_collapse_copied_classes g_process_state_functions fr ga name body pr
             g_collapse_statement_kinds ok).
Qed.

Theorem c17_property_by_statement_kinds_any_order : forall (all : list (string * census)),
  copied_classes_fresh all g_collapse_copied_classes = true ->
  process_state_only_gates_logging = true ->
  forall name body, In (name, body) g_process_state_functions ->
  kinds_ok g_collapse_statement_kinds g_collapse_copied_classes body = true ->
  forall (X G A D : Type) (a : loc) (m : sem (pstate X) G), follows all X G a g_collapse_statement_kinds m ->
  forall (enter : A -> X) (content : X -> list (item D)) cs cs' t g, wf_T a t -> Permutation.Permutation cs cs' ->
    Permutation.Permutation (c_history T G placement A (added D) (collapse X G m A D g_arith body enter content) cs t g)
                            (c_history T G placement A (added D) (collapse X G m A D g_arith body enter content) cs' t g).
Proof.
  exact (fun all fr ga name body pr ok =>
           kinds_order_independent all g_collapse_copied_classes g_process_state_functions fr ga name body pr
             g_collapse_statement_kinds ok).
Qed.

Theorem c17_property_by_statement_kinds_template_intact : forall (all : list (string * census)),
  copied_classes_fresh all g_collapse_copied_classes = true ->
  forall body, kinds_ok g_collapse_statement_kinds g_collapse_copied_classes body = true ->
  forall (X G A D : Type) (a : loc) (m : sem (pstate X) G), follows all X G a g_collapse_statement_kinds m ->
  forall (enter : A -> X) (content : X -> list (item D)) cs t g, wf_T a t ->
    let t' := final_T X G m A D g_arith body enter content cs t g in
    wf_T a t' /\ forall n, unfold n (fst t') (VRef a) = unfold n (fst t) (VRef a).
Proof.
  exact (fun all fr body ok => kinds_template_intact all g_collapse_copied_classes fr body g_collapse_statement_kinds ok).
Qed.

(** *** Round 5: VMM manifests.  `Manifest` is an `Instance` constructed with `Vec()`, `Matrix()` and `FixupStyle.NONE`
    (obligation `manifest_identity_placement_names_unaltered`: the arguments of the `Instance.__init__` call in
    `Manifest.__init__`, no override of fixup_name / fixup_key): for every name table passing the named checks no name is
    altered, and the generated placement arithmetic at (0, I) alters no item of the content. *)
Theorem c17_manifest_names_unaltered : forall c, cfg_ok c = true -> forall inst name, fixup_name c SNone inst name = Some name.
Proof. exact manifest_names_unaltered. Qed.

Theorem c17_manifest_content_unaltered : forall D (r : added D), transform D g_arith ident_placement r = r.
Proof. exact manifest_content_unaltered. Qed.

(** The derivations behind c17_property, for any arithmetic / census / skeleton: a statement that respects the census
    keeps the template's value and the separation (C09's census theorem + frame theorem, one statement at a time) ... *)
Theorem c17_disciplined_statement_keeps_template : forall all copied, copied_classes_fresh all copied = true ->
  forall a h R h' R', disciplined all copied h R h' R' -> wf_hr a h R ->
  (forall n, unfold n h' (VRef a) = unfold n h (VRef a)) /\ wf_hr a h' R'.
Proof. exact disciplined_frame. Qed.

(** ... and two runs of any skeleton from states that hold the same values and see the same template value stay in
    step: same values, same control outcome, same process state, template value kept on both sides. *)
Theorem c17_run_reads_template_by_value : forall all copied, copied_classes_fresh all copied = true ->
  forall (X G : Type) (a : loc) (m : sem (pstate X) G), respects all copied X G a m ->
  forall o p s s' g, sim X a o s s' -> sim_out X G a o (run (pstate X) G m p s g) (run (pstate X) G m p s' g).
Proof. exact run_sim. Qed.

(** *** `substitute` is a function of the current table, although the compiled pattern is cached on the object.
    For every list of method shapes passing [shape_ok] (the generated one does: obligation
    `fixup_pattern_cache_reset_on_key_change`), every history of method calls and substitutions on a new table, every
    effect of the methods on the key set: the pattern the next substitution scans with is the one compiled from the keys
    defined at that moment - the premise under which SM/C17Subst.v models `substitute` without any state. *)
Theorem c17_substitute_pattern_is_current : forall (Keys Pat : Type) (compile : Keys -> Pat) h k,
  forallb (pc_action_ok Keys) h = true ->
  fst (pc_lookup Keys Pat compile (pc_run Keys Pat compile h (pc_fresh Keys Pat k))) =
  compile (pc_keys Keys Pat (pc_run Keys Pat compile h (pc_fresh Keys Pat k))).
Proof. exact substitute_uses_current_keys. Qed.

(** Needed: a method that adds a key and keeps the cached pattern (substitute; add variable 1; substitute) scans with the
    pattern of the old key set; with the reset it scans with the new one. *)
Theorem c17_stale_pattern_refuted :
  shape_ok (SChange false) = false /\
  fst (pc_lookup _ _ (fun k => k) (pc_run _ _ (fun k => k) (demo_history false) (pc_fresh _ _ []))) = [] /\
  pc_keys _ _ (pc_run _ _ (fun k => k) (demo_history false) (pc_fresh _ _ [])) = [1%nat] /\
  fst (pc_lookup _ _ (fun k => k) (pc_run _ _ (fun k => k) (demo_history true) (pc_fresh _ _ []))) = [1%nat].
Proof. exact stale_cache_refuted. Qed.

Local Open Scope nat_scope.
(** *** collapse_all terminates: at most recur_limit rounds, then RecursionError; success iff the inclusion depth
    is below the limit; mutually-inclusive instances always raise. *)
Theorem c17_collapse_rounds_bounded : forall children limit p,
  l_rounds (loop children limit p) <= limit /\
  (l_outcome (loop children limit p) = Raise -> l_rounds (loop children limit p) = limit) /\
  (l_outcome (loop children limit p) = Done ->
     rounds children (l_rounds (loop children limit p)) p = [] /\ l_rounds (loop children limit p) < limit).
Proof. exact rounds_bounded. Qed.

Theorem c17_collapse_done_iff : forall children limit p,
  l_outcome (loop children limit p) = Done <-> exists k, k < limit /\ rounds children k p = [].
Proof. exact done_iff. Qed.

Theorem c17_collapse_cycle_raises : forall children limit p, (forall k, rounds children k p <> []) ->
  l_outcome (loop children limit p) = Raise /\ l_rounds (loop children limit p) = limit.
Proof. exact cycle_raises. Qed.

(** The work (number of collapse_one calls) is the sum of the pending sets; linear when no file holds more than one
    instance ... *)
Theorem c17_collapse_work : forall children limit p,
  l_work (loop children limit p) = work_upto children (l_rounds (loop children limit p)) p.
Proof. exact work_is_sum. Qed.

Theorem c17_collapse_work_linear_fanout1 : forall children limit p, (forall f, length (children f) <= 1) ->
  l_work (loop children limit p) <= limit * length p.
Proof. exact work_linear_fanout1. Qed.

(** ... and exponential in the limit for a file that includes itself twice (carved-out known defect #32: the
    recursion counter kept on entities is never consulted, only the round count bounds the loop). *)
Theorem c17_collapse_work_exponential_refuted : forall limit,
  loop (fun _ => [0; 0]) limit [0] = (Raise, limit, 2 ^ limit - 1).
Proof. exact self_twice. Qed.

(* ===================================================================================================================
   BEGIN round 4 - cycle repair (collapse_all with the ancestry check, SM/C17Rounds.v [loop2]).
   [loop] above is the loop WITHOUT the check (the code before the repair): it stays as the specification of the outcome.
   [loop2 children perm] is today's loop: a pending instance carries the files of its enclosing instances and the loop
   raises as soon as an instance's file is among them; [perm] is the (arbitrary) order in which the set by_class hands
   out the pending instances of a round.  The graph [children] is fixed, i.e. all nested file names are free of
   $variables; links through $variables reset the parents in the code and are outside the model.
   ([start] is qualified: SM/C17Whole.v, imported later, has a [start] of its own.)
   =================================================================================================================== *)

(** Exactness of the repair, for every graph, limit, start and iteration order: the loop with the check raises exactly
    when the loop without it raises, and when they finish they ran the same rounds and the same collapse_one calls. *)
Theorem c17_collapse_cycle_check_exact : forall children perm, (forall l, Permutation.Permutation (perm l) l) ->
  forall limit roots,
  l_outcome (loop2 children perm limit (C17Rounds.start roots)) = l_outcome (loop children limit roots) /\
  (l_outcome (loop children limit roots) = Done -> loop2 children perm limit (C17Rounds.start roots) = loop children limit roots).
Proof. exact cycle_check_exact. Qed.

(** It never does more work or more rounds than the loop without the check. *)
Theorem c17_collapse_cycle_check_work_le : forall children perm, (forall l, Permutation.Permutation (perm l) l) ->
  forall limit roots,
  l_work (loop2 children perm limit (C17Rounds.start roots)) <= l_work (loop children limit roots) /\
  l_rounds (loop2 children perm limit (C17Rounds.start roots)) <= l_rounds (loop children limit roots).
Proof. exact cycle_check_work_le. Qed.

(** The file that includes itself twice (2^limit - 1 collapses without the check, c17_collapse_work_exponential_refuted):
    one collapse, RecursionError in the second round - for every limit of at least 2 and every iteration order. *)
Theorem c17_collapse_self_twice_raises_at_once : forall perm, (forall l, Permutation.Permutation (perm l) l) ->
  forall limit, 2 <= limit -> loop2 (fun _ => [0; 0]) perm limit (C17Rounds.start [0]) = (Raise, 2, 1).
Proof. exact self_twice_checked_any_order. Qed.

(** The number of rounds no longer grows with the limit: with all files among [univ] (closed under inclusion) at most
    one round per file and one more (a chain of parents never repeats a file). *)
Theorem c17_collapse_cycle_check_rounds_le_files : forall children perm, (forall l, Permutation.Permutation (perm l) l) ->
  forall univ, (forall f, In f univ -> incl (children f) univ) ->
  forall limit roots, incl roots univ ->
  l_rounds (loop2 children perm limit (C17Rounds.start roots)) <= S (length univ).
Proof. exact cycle_check_rounds_le_files. Qed.
(** *** Round 5: the ancestry check with file names that come from $variables (SM/C17RoundsDyn.v).  A pending instance is a
    state (file + what the fixup variables hand down), [fl] gives its file, [kids s] the nested instances that collapsing
    [s] adds, flagged literal / through a $variable; parents are recorded along literal links and reset at the others
    ([loop3], what collapse_one / collapse_all do today: obligations `nested_instance_parents_extended_on_literal_file_names`,
    `ancestry_check_before_each_collapse`).  If a literal link belongs to the file ([lit_by_file]: from whatever state a file
    is collapsed, its literal nested instances are there, with the same file names) then for every state graph, limit, start
    and iteration order the loop with the check decides like the loop without it on the state graph, with the same rounds
    and collapses when that one finishes, and never more work: the check never fires on an inclusion that would have ended. *)
Theorem c17_collapse_cycle_check_exact_with_variable_file_names : forall fl kids, lit_by_file fl kids ->
  forall perm, (forall l, Permutation.Permutation (perm l) l) -> forall limit roots,
  l_outcome (loop3 fl kids perm limit (start3 roots)) = l_outcome (loop (children3 kids) limit roots) /\
  (l_outcome (loop (children3 kids) limit roots) = Done -> loop3 fl kids perm limit (start3 roots) = loop (children3 kids) limit roots) /\
  l_work (loop3 fl kids perm limit (start3 roots)) <= l_work (loop (children3 kids) limit roots) /\
  l_rounds (loop3 fl kids perm limit (start3 roots)) <= l_rounds (loop (children3 kids) limit roots).
Proof. exact dyn_cycle_check_exact. Qed.

(** recording a $variable link like a literal one (the `'$' not in` test dropped) makes a terminating self-inclusion raise *)
Theorem c17_variable_link_recorded_as_literal_refuted :
  loop3 countdown_fl countdown_as_literal (fun l => l) 100 (start3 [3]) = (Raise, 2, 1) /\
  loop (children3 countdown_as_literal) 100 [3] = (Done, 4, 4) /\ ~ lit_by_file countdown_fl countdown_as_literal.
Proof. exact dyn_chain_recorded_as_literal_refuted. Qed.
(** *** Round 6: the automatic names of unnamed instances (SM/C17AutoNames.v).  collapse_all numbers the unnamed instances of
    a run from one variable; the generated object [g_collapse_all_auto_counter] lists what collapse_all does to it
    (obligation `auto_name_counter_kept_across_passes`: [counter_kept] - set before the loop over the passes, increased
    directly before every use, bound nowhere else inside the loop).  Then, however many unnamed instances each pass
    collapses ([passes]; nested unnamed instances are collapsed in later passes), no number is given twice in the run. *)
Theorem c17_auto_instance_names_distinct_across_passes : forall evs, counter_kept evs = true ->
  forall passes, NoDup (auto_names (counter_resets evs) 0 passes).
Proof. exact counter_kept_gives_distinct_names. Qed.

Theorem c17_auto_instance_names_kept_counter : forall passes c,
  NoDup (auto_names false c passes) /\ (forall k, In k (auto_names false c passes) -> c < k).
Proof. intros; split; [apply auto_names_kept_distinct | apply auto_names_kept_above_start]. Qed.

(** numbering that restarts in every pass (the position in the pass as the number) gives the first unnamed instance of the
    second pass the number of the first one of the first pass; such an event list does not pass [counter_kept] *)
Theorem c17_auto_instance_names_restarting_per_pass_refuted :
  auto_names true 0 [1; 1] = [1; 1] /\ ~ NoDup (auto_names true 0 [1; 1]) /\
  counter_kept [CStoreInLoop] = false /\ counter_kept [CInitBeforeLoop; CIncrAtUse; CStoreInLoop] = false /\
  counter_kept [CInitBeforeLoop; CIncrAtUse] = true.
Proof. exact auto_names_reset_refuted. Qed.
(* END round 4 - cycle repair ====================================================================================== *)
