(** C04 — Angles, matrices and vectors obey the rotation algebra.
    Only statements here; proofs are in Rot/RotAlgebra.v, Rot/RotAliasProofs.v, Rot/RotEulerProofs.v,
    Rot/RotDispatchProofs.v, Rot/RotMixedProofs.v.  [from_angle], [from_pitch/yaw/roll], [mat_mul] (= _mat_mul),
    [mat_mul_self] (= _mat_mul with other is self), [vec_rot] (= _vec_rot), [transpose], the guard and the atan2
    arguments of [to_angle] (= _to_angle) and [dispatch_table] are GENERATED from srctools/math.py on every run
    (Gen/RotFormulas_gen.v, Gen/RotDispatch_gen.v).  Arithmetic is over the classical reals: floating-point rounding
    is outside the model (the property says "up to rounding"). *)
From Coq Require Import Reals List QArith Qreals.
From SV Require Import Rot.RotBase Gen.RotFormulas_gen Rot.RotAlgebra Rot.RotAliasProofs Rot.RotEuler Rot.RotEulerProofs
  Rot.RotDispatch Rot.RotDispatchProofs Rot.RotMixedProofs Rot.RotInplace Rot.RotCopies Rot.RotMethods Rot.RotMethodsProofs Gen.RotDispatch_gen Rot.RotGJ Rot.RotGJProofs Rot.RotGJTotal Rot.RotGJTotalProofs Rot.RotGJExample Rot.RotRoundEuler Rot.RotProperty Rot.RotState Rot.RotPivot
  Rot.RotReify Gen.RotReified_gen Rot.RotReifyProofs
  Rot.RotRound Rot.RotRoundProofs Rot.RotRoundFlocq Gen.RotRounded_gen Rot.RotRoundTied.
Import ListNotations.
Open Scope R_scope.

(** ** Every matrix built from an Euler angle is a proper rotation *)
Theorem c04_from_angle_orthonormal : forall p y r, orthonormal (from_angle p y r).
Proof. exact from_angle_orthonormal. Qed.
Theorem c04_from_angle_det_one : forall p y r, det (from_angle p y r) = 1.
Proof. exact from_angle_det_one. Qed.
(** from_angle(Angle) and from_angle(pitch, yaw, roll) are the same formulas. *)
Theorem c04_from_angle_obj : forall a, from_angle_obj a = from_angle (a_pitch a) (a_yaw a) (a_roll a).
Proof. exact from_angle_obj_eq. Qed.
Theorem c04_axis_rotations : forall t, rotation (from_pitch t) /\ rotation (from_yaw t) /\ rotation (from_roll t).
Proof. exact from_axis_rotation. Qed.

(** ** ... that agrees with the Source convention: roll about X, then pitch about Y, then yaw about Z
    (row vectors, v @ M = v * M, so the first factor acts first) *)
Theorem c04_from_angle_convention : forall p y r,
  from_angle p y r = mat_mul (mat_mul (from_roll r) (from_pitch p)) (from_yaw y).
Proof. exact from_angle_convention. Qed.
Theorem c04_axis_fixed : forall t,
  vec_rot (from_roll t) (Vec3 1 0 0) = Vec3 1 0 0 /\
  vec_rot (from_pitch t) (Vec3 0 1 0) = Vec3 0 1 0 /\
  vec_rot (from_yaw t) (Vec3 0 0 1) = Vec3 0 0 1.
Proof. exact axis_fixed. Qed.
(** +90 yaw: forward -> left; +90 pitch: forward -> down; +90 roll: left -> up. *)
Theorem c04_handedness :
  vec_rot (from_yaw 90) (Vec3 1 0 0) = Vec3 0 1 0 /\
  vec_rot (from_pitch 90) (Vec3 1 0 0) = Vec3 0 0 (-1) /\
  vec_rot (from_roll 90) (Vec3 0 1 0) = Vec3 0 0 1.
Proof. exact handedness. Qed.

(** ** Rotating composes associatively *)
Theorem c04_vec_rot_assoc : forall v a b, vec_rot b (vec_rot a v) = vec_rot (mat_mul a b) v.
Proof. exact vec_rot_assoc. Qed.
Theorem c04_mat_mul_assoc : forall a b c, mat_mul (mat_mul a b) c = mat_mul a (mat_mul b c).
Proof. exact mat_mul_assoc. Qed.
(** _mat_mul is correct when both operands are the same object (m @= m). *)
Theorem c04_mat_mul_alias_safe : forall s, mat_mul_self s = mat_mul s s.
Proof. exact mat_mul_self_eq. Qed.
(** The same, generically: the translator also emits the nine entries as expanded polynomials ([mat_mul_self_tied],
    [mat_mul_ss_tied]: the expansion is right); equality of the two lists is a named instance obligation per row. *)
Theorem c04_mat_mul_alias_generic : polys_eqb mat_mul_self_polys mat_mul_ss_polys = true -> forall s, mat_mul_self s = mat_mul s s.
Proof. exact alias_ok_safe. Qed.
Theorem c04_rotation_closed : forall a b, rotation a -> rotation b -> rotation (mat_mul a b) /\ rotation (transpose a).
Proof. intros a b Ha Hb. split; [exact (rotation_mul a b Ha Hb) | exact (rotation_transpose a Ha)]. Qed.
Theorem c04_rotation_preserves_length : forall m v, rotation m ->
  let w := vec_rot m v in vx w * vx w + vy w * vy w + vz w * vz w = vx v * vx v + vy v * vy v + vz v * vz v.
Proof. exact vec_rot_len. Qed.

(** ** inverse = transpose on rotations: the transpose is a two-sided inverse and the ONLY left or right inverse *)
Theorem c04_rotation_inverse_is_transpose : forall m, rotation m ->
  mat_mul m (transpose m) = I3 /\ mat_mul (transpose m) m = I3 /\
  (forall n, mat_mul n m = I3 -> n = transpose m) /\ (forall n, mat_mul m n = I3 -> n = transpose m).
Proof. exact rotation_inverse_is_transpose. Qed.

(** ** inverse() itself (Gauss-Jordan with partial pivoting).  [p] ranges over the straight-line programs of row operations
    that the translator can read out of MatrixBase.inverse (Gen/RotInverse_gen.v: [inverse_prog]); [gj_prog_ok] is the
    decidable acceptance test (abstract interpretation of the left block) that the check discharges for today's source;
    [gj_inverse Rnum p] is the interpreter over the reals, the same Gallina function that is compared bit for bit with
    the implementation over IEEE doubles.  Whenever inverse() returns, the result is a left inverse ... *)
Theorem c04_gauss_jordan_inverse : forall p, gj_prog_ok p = true ->
  forall m n, gj_inverse Rnum p (rows_of m) = GOk n -> mat_mul (mat_of n) m = I3.
Proof. exact gauss_jordan_inverse. Qed.
(** ... so on a rotation inverse() returns exactly the transpose. *)
Theorem c04_inverse_is_transpose_on_rotations : forall p, gj_prog_ok p = true ->
  forall m n, rotation m -> gj_inverse Rnum p (rows_of m) = GOk n -> mat_of n = transpose m.
Proof. exact gauss_jordan_inverse_rotation. Qed.

(** inverse() RETURNS on every rotation (exact arithmetic): for every program accepted by the second decidable test
    [gj_total_ok] (Rot/RotGJTotal.v: intervals for the absolute value of every entry of the left block and a lower bound of
    |det|; every pivot search finds a pivot, every divisor is non-zero, every diagonal entry passes the threshold test)
    the interpreter over the reals returns a result on every rotation ... *)
Theorem c04_inverse_returns_on_rotations : forall p, gj_total_ok p = true ->
  forall m, rotation m -> exists n, gj_inverse Rnum p (rows_of m) = GOk n.
Proof. exact gj_inverse_total. Qed.
(** ... so inverse() equals transpose() on rotations, without the proviso "whenever it returns". *)
Theorem c04_inverse_equals_transpose_on_rotations : forall p, gj_prog_ok p = true -> gj_total_ok p = true ->
  forall m, rotation m -> exists n, gj_inverse Rnum p (rows_of m) = GOk n /\ mat_of n = transpose m.
Proof. exact gj_inverse_rotation_is_transpose. Qed.
(** The first pivot, quantitatively: the largest entry of every column of a rotation has square >= 1/3 (|pivot| >= 1/sqrt 3),
    five orders of magnitude above the 0.00001 threshold. *)
Theorem c04_rotation_column_pivot_bound : forall m, rotation m ->
  (1 / 3 <= Rmax (aa m * aa m) (Rmax (ba m * ba m) (ca m * ca m))) /\
  (1 / 3 <= Rmax (ab m * ab m) (Rmax (bb m * bb m) (cb m * cb m))) /\
  (1 / 3 <= Rmax (ac m * ac m) (Rmax (bc m * bc m) (cc m * cc m))).
Proof. exact rotation_column_pivot_bound. Qed.

(** ** Matrix -> Angle -> Matrix.  libm's atan2 enters only through the visible premise [atan2_spec]. *)
Theorem c04_euler_roundtrip : forall atan2, atan2_spec atan2 ->
  forall m, rotation m -> horiz m > 1 / 1000 -> from_angle_obj (to_angle atan2 m) = m.
Proof. exact euler_roundtrip. Qed.
(** The test that selects the non-degenerate branch, generically in the (operator, left operand, literal) read from
    the source: an accepted guard IS "horizontal length of the forward row > 0.001" (the three parts of [guard_cfg_ok] are
    named instance obligations), and the reified guard is the generated one. *)
Theorem c04_to_angle_guard_is_engine_threshold : forall c, guard_cfg_ok c = true ->
  forall m, guard_den c m <-> horiz m > 1 / 1000.
Proof. exact guard_ok_horiz. Qed.
Theorem c04_to_angle_guard_tied : forall s, ta_guard s <-> guard_den ta_guard_cfg s.
Proof. exact ta_guard_tied. Qed.
(** The pitch: a reified component accepted by [pitch_ok] is atan2(-forward.z, horizontal length) - total on every matrix,
    also on a product whose forward.z was rounded to 1.0000000000000002 - and the reified components are the generated ones. *)
Theorem c04_to_angle_pitch_is_atan2 : forall c, pitch_ok c = true -> forall s t, comp_den s c t ->
  exists n, t = TaAtan2 n (- ac s) (horiz s).
Proof. exact pitch_ok_meaning. Qed.
Theorem c04_to_angle_pitch_tied : forall s,
  comp_den s ta_pitch_main_cfg (fst (fst (ta_main s))) /\ comp_den s ta_pitch_lock_cfg (fst (fst (ta_lock s))).
Proof. exact ta_pitch_tied. Qed.
(** Inside the gimbal-lock band every entry is reproduced within twice the horizontal length of the forward axis. *)
Theorem c04_gimbal_error_bound : forall atan2, atan2_spec atan2 ->
  forall m, rotation m -> horiz m <= 1 / 1000 -> mat_close (2 * horiz m) (from_angle_obj (to_angle atan2 m)) m.
Proof. exact gimbal_error_bound. Qed.

(** ** Every mix of Vec / Angle / Matrix operands, in-place and frozen variants included.
    An accepted dispatch table: each supported (form, left class, right class, same-object?) row returns the
    specification product [spec], returns a fresh object and leaves both operands unchanged unless it is the in-place
    form on a mutable left operand.  The check discharges [table_ok dispatch_table = true] in the kernel on every run. *)
Theorem c04_dispatch_sound : forall atan2 tbl, table_ok tbl = true -> forall t, In t tbl -> row_meaning atan2 t.
Proof. exact dispatch_sound. Qed.
Theorem c04_dispatch_handled : forall tbl, table_ok tbl = true -> forall t, In t tbl ->
  expected (t_l t) (t_r t) (t_alias t) <> None -> t_form t <> FRmatmul -> t_out t <> ONone.
Proof. exact dispatch_handled. Qed.
Theorem c04_dispatch_complete : forall tbl, table_ok tbl = true -> forall f l r,
  exists t, In t tbl /\ t_form t = f /\ t_l t = l /\ t_r t = r /\ t_alias t = false.
Proof. exact dispatch_complete. Qed.
(** In-place variants (round 4).  For an accepted table, `l @= r` on a supported pair returns a value; when the class of
    [l] is mutable (Vec, Angle, Matrix) the object returned is the receiver itself and the receiver's final value is the
    specification product, so every alias of it holds the product; when it is frozen or a tuple the result is a new object
    and the receiver keeps its value. *)
Theorem c04_inplace_stores_into_self : forall atan2 tbl, table_ok tbl = true -> forall t, In t tbl ->
  t_form t = FImatmul -> expected (t_l t) (t_r t) (t_alias t) <> None ->
  exists c i v fl fr, t_out t = OValue c i v fl fr /\
    i = (if mutable (t_l t) then IdL else IdFresh) /\
    forall L R, well_kinded (kind_of (t_l t)) L -> well_kinded (kind_of (t_r t)) R -> (t_alias t = true -> R = L) ->
      denote atan2 L R v = spec atan2 L R /\ spec atan2 L R <> None /\
      denote atan2 L R fl = (if mutable (t_l t) then spec atan2 L R else Some L).
Proof. exact dispatch_inplace. Qed.
(** ... and the in-place variant denotes the same value as the pure one: the rows of `l @ r` and `l @= r` return equal
    values; `@` returns a new object and leaves its receiver alone; the mutable receiver of `@=` ends up holding exactly the
    value `@` returns. *)
Theorem c04_inplace_agrees_with_pure : forall atan2 tbl, table_ok tbl = true -> forall t1 t2, In t1 tbl -> In t2 tbl ->
  t_form t1 = FMatmul -> t_form t2 = FImatmul -> t_l t1 = t_l t2 -> t_r t1 = t_r t2 -> t_alias t1 = t_alias t2 ->
  expected (t_l t2) (t_r t2) (t_alias t2) <> None ->
  exists c1 v1 fl1 fr1 c2 i2 v2 fl2 fr2,
    t_out t1 = OValue c1 IdFresh v1 fl1 fr1 /\ t_out t2 = OValue c2 i2 v2 fl2 fr2 /\
    i2 = (if mutable (t_l t2) then IdL else IdFresh) /\
    forall L R, well_kinded (kind_of (t_l t2)) L -> well_kinded (kind_of (t_r t2)) R -> (t_alias t2 = true -> R = L) ->
      denote atan2 L R v1 = denote atan2 L R v2 /\ denote atan2 L R fl1 = Some L /\
      denote atan2 L R fl2 = (if mutable (t_l t2) then denote atan2 L R v1 else Some L).
Proof. exact inplace_agrees_with_pure. Qed.
(** The shape of seeded fault c04_5 / of the pinned `Angle @= FrozenMatrix`: a mutable receiver that falls back to the fresh
    result of `@` (value right, receiver untouched) is rejected - as is a frozen receiver that is returned itself. *)
Example c04_inplace_fallback_refuted :
  let e := TToAngle (TMatMul (TFromAngle TL) TR) in
  inplace_ok (Triple FImatmul CAngle CMatrix false (OValue CAngle IdFresh e TL TR)) = false /\
  triple_ok (Triple FImatmul CAngle CMatrix false (OValue CAngle IdFresh e TL TR)) = true /\
  inplace_ok (Triple FImatmul CAngle CMatrix false (OValue CAngle IdL e e TR)) = true /\
  inplace_ok (Triple FImatmul CFrozenAngle CMatrix false (OValue CFrozenAngle IdL e e TR)) = false.
Proof. repeat split. Qed.
(** The census of ALL in-place operator methods of the operand classes (`+= -= *= /= //= %= @=`; Gen/RotInplace_gen.v, read
    from the class bodies and the expanded exec() templates on every run): for an accepted census every in-place method
    belongs to mutable classes only (no frozen class has or inherits one, so `frozen op= x` is the pure operator), updates the
    receiver on some path, and every path either defers (NotImplemented) or returns the receiver after storing into it. *)
Theorem c04_inplace_census_sound : forall c, census_ok c = true -> forall m, In m c ->
  im_mutable m = true /\ im_frozen_reach m = false /\
  (exists p, In p (im_paths m) /\ p <> PNotImplemented) /\
  forall p, In p (im_paths m) -> p = PNotImplemented \/ exists n, p = PSelf (S n).
Proof. exact census_ok_sound. Qed.
(** Matrix conversions (round 4; Gen/RotCopies_gen.v: copy, __deepcopy__, freeze, thaw, _new_copy classified by symbolic
    execution as `return self` or a field-for-field new matrix): for an accepted table a mutable matrix is never handed out as
    its own copy, _new_copy (what `@` multiplies in place) is a new object of the receiver's class also for a frozen matrix,
    freeze gives a FrozenMatrix and thaw a Matrix. *)
Theorem c04_matrix_copies_sound : forall t, copies_ok t = true -> forall r, In r t ->
  (cr_frozen r = false -> cr_alias r = false) /\
  (cr_meth r = CNewCopy -> cr_alias r = false /\ cr_result_frozen r = cr_frozen r) /\
  (cr_meth r = CFreeze -> cr_result_frozen r = true) /\ (cr_meth r = CThaw -> cr_result_frozen r = false).
Proof. exact copies_ok_sound. Qed.
(** The in-place rotation METHODS (round 4; Gen/RotMethods_gen.v: the bodies of Vec.localise, Vec.transform(),
    Angle.transform() and Vec.rotate executed symbolically on every run, the body of `with x.transform() as m:` being
    `m @= rot`): for an accepted table the receiver ends up holding the pure form - `v @ angles + origin`, `v @ rot`,
    `a @ rot` (through the Euler extraction), `v @ Angle(p, y, r)` - and the rotation argument keeps its value. *)
Theorem c04_inplace_methods_sound : forall atan2 t, methods_ok t = true -> forall r, In r t ->
  forall S Rt O rm, rot_mat (mr_rot r) Rt = Some rm -> method_spec atan2 (mr_meth r) S O rm <> None ->
    mdenote atan2 S Rt O (mr_self r) = method_spec atan2 (mr_meth r) S O rm /\ mdenote atan2 S Rt O (mr_rot_final r) = Some Rt.
Proof. exact methods_ok_sound. Qed.
(** x @ Angle is x @ Matrix.from_angle(Angle). *)
Theorem c04_angle_operand_is_from_angle : forall atan2 L a,
  spec atan2 L (VAng a) = spec atan2 L (VMat (from_angle_obj a)).
Proof. exact spec_angle_is_from_angle. Qed.
(** ... and not only over the reals: the two are the same computation.  For every interpretation of the table terms over
    arbitrary carriers and operations (e.g. IEEE binary64 with the float from_angle / _to_angle / _mat_mul / _vec_rot), the
    value of an accepted row with an Angle (Angle or FrozenAngle) on the right equals the value of the row with a Matrix on
    the right at [from_angle] of the angle - bit for bit when the interpretation is the float one. *)
Theorem c04_angle_operand_same_computation :
  forall (GV GM GA : Type) (fa : GA -> GM) (ta : GM -> GA) (mm : GM -> GM -> GM) (mms : GM -> GM) (vr : GM -> GV -> GV)
    tbl, table_ok tbl = true -> forall t1 t2, In t1 tbl -> In t2 tbl ->
    t_form t1 = t_form t2 -> t_l t1 = t_l t2 -> kind_of (t_r t1) = KA -> kind_of (t_r t2) = KM ->
    t_alias t1 = false -> t_alias t2 = false ->
    forall c1 i1 v1 fl1 fr1 c2 i2 v2 fl2 fr2,
      t_out t1 = OValue c1 i1 v1 fl1 fr1 -> t_out t2 = OValue c2 i2 v2 fl2 fr2 ->
      forall L a, gdenote GV GM GA fa ta mm mms vr L (GAng GV GM GA a) v1
                = gdenote GV GM GA fa ta mm mms vr L (GMat GV GM GA (fa a)) v2.
Proof. exact angle_operand_same_computation. Qed.
(** (v @ A) @ B = v @ (A @ B) for A a Matrix (exact) ... *)
Theorem c04_mixed_assoc_matrix : forall atan2 v x B m, rhs_mat B = Some m ->
  spec atan2 (VMat x) B = Some (VMat (mat_mul x m)) /\
  spec atan2 (VVec (vec_rot x v)) B = spec atan2 (VVec v) (VMat (mat_mul x m)).
Proof. exact mixed_assoc_matrix. Qed.
(** ... and for A an Angle, where A @ B goes through the Euler extraction (exact outside the gimbal band). *)
Theorem c04_mixed_assoc_angle : forall atan2, atan2_spec atan2 -> forall v a B m, rhs_mat B = Some m ->
  horiz (mat_mul (from_angle_obj a) m) > 1 / 1000 -> rotation m ->
  exists ab, spec atan2 (VAng a) B = Some (VAng ab) /\
    spec atan2 (VVec (vec_rot (from_angle_obj a) v)) B = spec atan2 (VVec v) (VAng ab).
Proof. exact mixed_assoc_angle. Qed.

(** ** "... up to rounding": the float side of v @ M and A @ B.
    The expression trees of _vec_rot and _mat_mul (reified from the same trees that are compared bit for bit with the
    implementation) evaluated with a rounding after every + - * stay within a rational bound [fe_err] of their exact value:
    sound for every tree, every input bound and every rounding with |rnd t - t| <= u |t| + eta ... *)
Theorem c04_rounding_analysis_sound : forall rnd u eta,
  (forall t, Rabs (rnd t - t) <= Q2R u * Rabs t + Q2R eta) -> 0 <= Q2R u ->
  forall B env, (forall n, Rabs (env n) <= Q2R (B n)) ->
  forall e, Rabs (fe_exact env e) <= Q2R (fe_mag B e) /\ Rabs (fe_fl rnd env e - fe_exact env e) <= Q2R (fe_err u eta B e).
Proof. exact fe_error_bound. Qed.
(** ... IEEE binary64 round-to-nearest-even (Flocq's [round radix2 (FLT_exp (-1074) 53) ZnearestE]) is one, with u = 2^-53
    and eta = 2^-1075 (underflow included; overflow excluded: the exponent range of [rnd64] is unbounded above) ... *)
Theorem c04_binary64_rounding : forall t, Rabs (rnd64 t - t) <= Q2R u64 * Rabs t + Q2R eta64.
Proof. exact rnd64_error. Qed.
(** ... the trees are the generated real formulas ... *)
Theorem c04_rounded_trees_tied : forall s o v,
  map (fe_exact (env_sov s o v)) vec_rot_fe = [vx (vec_rot s v); vy (vec_rot s v); vz (vec_rot s v)] /\
  map (fe_exact (env_sov s o v)) mat_mul_fe = (let m := mat_mul s o in [aa m; ab m; ac m; ba m; bb m; bc m; ca m; cb m; cc m]).
Proof. intros s o v. split; [apply vec_rot_fe_tied | apply mat_mul_fe_tied]. Qed.
(** ... so every component of the binary64 v @ M is within [tol] of the real v @ M, and every entry of the binary64 A @ B
    within [tol] of the real product, for all matrices with entries up to [bm] (exact rotations: 1) and vectors with
    components up to [bv], whenever the decidable test accepts [tol] (named instance obligations, e.g. 2e-15 for unit
    inputs: the oracle's tolerance 1e-9 is not an empirical number for these two formulas). *)
Theorem c04_vec_rot_binary64_error : forall bm bv tol, errs_within bm bv tol vec_rot_fe = true ->
  forall s v, mat_within bm s -> vec_within bv v -> forall i, (i < 3)%nat ->
  Rabs (nth i (map (fe_fl rnd64 (env_sov s s v)) vec_rot_fe) 0 -
        nth i [vx (vec_rot s v); vy (vec_rot s v); vz (vec_rot s v)] 0) <= Q2R tol.
Proof. exact vec_rot_binary64_error. Qed.
Theorem c04_mat_mul_binary64_error : forall bm tol, errs_within bm 0 tol mat_mul_fe = true ->
  forall s o, mat_within bm s -> mat_within bm o -> forall i, (i < 9)%nat ->
  Rabs (nth i (map (fe_fl rnd64 (env_sov s o (Vec3 0 0 0))) mat_mul_fe) 0 -
        nth i (let m := mat_mul s o in [aa m; ab m; ac m; ba m; bb m; bc m; ca m; cb m; cc m]) 0) <= Q2R tol.
Proof. exact mat_mul_binary64_error. Qed.
(** Matrix.from_angle in binary64.  The arithmetic of the nine entries runs on libm's sin / cos values [inp]; if these are
    within [d] of the real sin / cos of the real angles, every entry of the float matrix is within [tol] of the exact rotation
    [from_angle p y r] and at most 1 + tol in absolute value - for every [d], [tol] the decidable test accepts for today's
    trees (obligations: 1e-15 for d = 0, 3e-14 for d = 5e-15; the check measures d on sampled angles with 50-digit
    arithmetic).  libm's accuracy is the visible hypothesis; the trees are tied to the generated [from_angle]. *)
Theorem c04_from_angle_binary64_error : forall d tol, errs_within_in 1 d tol from_angle_fe = true ->
  forall p y r inp, (forall n, Rabs (inp n - from_angle_inputs p y r n) <= Q2R d) ->
  forall i, (i < 9)%nat ->
  let fl := nth i (map (fe_fl rnd64 inp) from_angle_fe) 0 in
  let ex := nth i (let m := from_angle p y r in [aa m; ab m; ac m; ba m; bb m; bc m; ca m; cb m; cc m]) 0 in
  Rabs (fl - ex) <= Q2R tol /\ Rabs fl <= 1 + Q2R tol.
Proof. exact from_angle_binary64_error. Qed.
(** Matrix -> Angle -> Matrix in binary64, outside the gimbal band (round 4): the exact Euler round trip composed with the
    bound above.  For an exact rotation [m] with horizontal length > 0.001: if the six sin / cos values the float from_angle
    runs on are within [d] of the real sin / cos of the exact Euler angles of [m] (this hypothesis contains the float error of
    _to_angle's atan2 / degrees / % 360 and of radians / sin / cos; the check measures it against 60-digit arithmetic on every
    run: about 1.5e-15, also for horizontal lengths down to 0.0011), every entry of the float matrix is within [tol] of [m]
    (obligation: 2e-13 for d = 2e-14). *)
Theorem c04_euler_roundtrip_binary64 : forall atan2, atan2_spec atan2 ->
  forall d tol, errs_within_in 1 d tol from_angle_fe = true ->
  forall m, rotation m -> horiz m > 1 / 1000 ->
  forall inp,
    (forall n, Rabs (inp n - from_angle_inputs (a_pitch (to_angle atan2 m)) (a_yaw (to_angle atan2 m))
                                               (a_roll (to_angle atan2 m)) n) <= Q2R d) ->
  forall i, (i < 9)%nat ->
    Rabs (nth i (map (fe_fl rnd64 inp) from_angle_fe) 0
          - nth i [aa m; ab m; ac m; ba m; bb m; bc m; ca m; cb m; cc m] 0) <= Q2R tol.
Proof. exact euler_roundtrip_binary64. Qed.
Theorem c04_from_angle_trees_tied : forall p y r,
  map (fe_exact (from_angle_inputs p y r)) from_angle_fe =
  (let m := from_angle p y r in [aa m; ab m; ac m; ba m; bb m; bc m; ca m; cb m; cc m]).
Proof. exact from_angle_fe_tied. Qed.
Theorem c04_rotation_entries_within_1 : forall m, rotation m -> mat_within 1 m.
Proof. exact rotation_within_1. Qed.

(** ** The whole property in one statement (round 4): [c04_statement] (Rot/RotProperty.v) is the conjunction of: from_angle is a
    proper rotation equal to roll * pitch * yaw; rotation composes associatively; x @ Angle = x @ Matrix.from_angle(Angle);
    every row of the dispatch table denotes the specification product with fresh results / untouched operands, @= on a mutable
    receiver returns the receiver holding the product and on a frozen receiver a new object, the table is complete, every
    in-place operator method belongs to mutable classes only and returns the receiver it stored into; the in-place rotation
    methods leave the pure operator form in the receiver; Matrix -> Angle ->
    Matrix is exact outside the gimbal band and within 2 * horizontal length inside; inverse() returns transpose() on every
    rotation.  Hypotheses: atan2 by its specification and the five acceptance tests of the objects read from math.py;
    Props/C04Today.v proves the five tests for today's generated objects. *)
Theorem c04_property : forall atan2 tbl prog census methods,
  atan2_spec atan2 -> table_ok tbl = true -> gj_prog_ok prog = true -> gj_total_ok prog = true -> census_ok census = true ->
  methods_ok methods = true ->
  c04_statement atan2 tbl prog census methods.
Proof. exact c04_whole_property. Qed.

(** ** Round 5: the shape of the pivot searches of inverse() (Gen/RotPivot_gen.v, read by a tolerant reader: which comparison, how
    the largest value so far and the pivot row start, which test reports "no inverse").  An accepted shape selects a row whose
    entry is not zero - and largest in absolute value - whenever some candidate entry is not zero; the shape of seeded fault
    c04_6 (largest value so far seeded with the SIGNED diagonal entry) reports "no inverse" for the column (-1, 0, 0). *)
Theorem c04_pivot_search_finds_nonzero_pivot : forall s es, pv_shape_ok s = true -> (exists e, In e es /\ e <> 0) ->
  exists i, pv_search s es = Some i /\ (i < length es)%nat /\ nth i es 0 <> 0 /\ forall e, In e es -> Rabs e <= Rabs (nth i es 0).
Proof. exact pv_shape_ok_finds_nonzero_pivot. Qed.
Theorem c04_pivot_signed_seed_refuted :
  pv_shape_ok signed_seed_shape = false /\ pv_search signed_seed_shape [-1; 0; 0] = None /\ In (-1) [-1; 0; 0] /\ -1 <> 0.
Proof. exact signed_seed_refuted. Qed.

(** ** Round 5: histories of calls.  A census of the objects of math.py that outlive a call (module-level and class-level
    mutable objects; who reads them, who updates them; caching decorators, mutable defaults, global declarations, reflective
    access, foreign imports), regenerated on every run (Gen/RotState_gen.v), accepted by [state_ok]: every call of a history
    returns what it returns as the first call of a new process.  [footprint] (the census describes the real module) is the
    visible, trusted hypothesis. *)
Theorem c04_state_census_sound : forall c, state_ok c = true ->
  reads_not_written c = true /\ sc_writes c = [] /\ sc_write_sites c = [] /\ sc_class_writes c = [] /\ sc_decorators c = [] /\
  sc_defaults c = [] /\ sc_globals c = [] /\ sc_reflective c = [] /\ sc_imports c = [].
Proof. exact state_ok_parts. Qed.
Theorem c04_history_independent : forall (V A B : Type) (run : A -> store V -> B * store V) (R W : list String.string),
  footprint V A B run R W -> (forall n, In n R -> ~ In n W) ->
  forall h a g, fst (run a (after V A B run h g)) = fst (run a g).
Proof. exact history_independent. Qed.
Theorem c04_state_ok_history_independent : forall (V A B : Type) (run : A -> store V -> B * store V) (c : state_census),
  state_ok c = true -> footprint V A B run (sc_reads c) (sc_writes c) ->
  forall h a g, fst (run a (after V A B run h g)) = fst (run a g).
Proof. exact state_ok_history_independent. Qed.
(** The rejected shape (seeded fault c04_8, a memo table keyed by the text alone): rejected by [state_ok], and a [run] with that
    footprint does answer a later call with the fallback of the first one. *)
Theorem c04_memo_by_text_refuted : memo_refuted_statement.
Proof. exact memo_by_text_refuted. Qed.
(** The whole property, for every call of a history (round 5): [c04_property] plus [state_ok] of the state census. *)
Theorem c04_property_histories : forall atan2 tbl prog census methods sc,
  atan2_spec atan2 -> table_ok tbl = true -> gj_prog_ok prog = true -> gj_total_ok prog = true -> census_ok census = true ->
  methods_ok methods = true -> state_ok sc = true ->
  c04_statement atan2 tbl prog census methods /\ c04_history_statement sc.
Proof. exact c04_whole_property_histories. Qed.
Example c04_state_hyp_satisfiable : state_ok constant_table_census = true.
Proof. exact constant_table_accepted. Qed.

(** Non-vacuity of the Gauss-Jordan theorems: a program equal to today's generated one is accepted and inverse() returns on
    the identity (which is a rotation). *)
Example c04_inverse_hyp_satisfiable :
  gj_prog_ok gj_ref_prog = true /\ gj_inverse Rnum gj_ref_prog (rows_of I3) = GOk (rows_of I3).
Proof. exact gj_identity. Qed.
Example c04_inverse_total_hyp_satisfiable : gj_total_ok gj_ref_prog = true /\ rotation I3.
Proof. exact gj_ref_total. Qed.
(** Non-vacuity: the identity is a rotation outside the gimbal band; the pole is a rotation inside it. *)
Example c04_hyp_satisfiable_main : rotation I3 /\ horiz I3 > 1 / 1000.
Proof. exact rotation_I3_main. Qed.
Example c04_hyp_satisfiable_lock : rotation (Mat 0 0 (-1)  0 1 0  1 0 0) /\ horiz (Mat 0 0 (-1)  0 1 0  1 0 0) <= 1 / 1000.
Proof. exact rotation_pole_lock. Qed.
