(** C02 — escape_text and the tokenizer are exact inverses on every string.
    Only statements here; proofs are in Text/EscapeProofs.v, Text/TokenizerProofs.v, Text/ProgProofs.v.

    Strings are [list N] (every code point, lone surrogates included).  [T : tables] stands for the constant tables of
    tokenizer.py (ESCAPES, the exclusion sets of the two regexes, _OPERATORS, BARE_DISALLOWED); the theorems hold for
    EVERY table satisfying the boolean conditions named in the premises.  The check regenerates the tables from the
    source on every run (Gen/EscTables_gen.v, instance [TokGen.gen_tables]) and discharges each condition for them by
    [vm_compute] as a named instance obligation. *)
From Coq Require Import List NArith Bool.
From SV Require Import Text.Str Text.Prog Text.ProgProofs Text.Escape Text.EscapeProofs Text.EscPipeline Text.EscPipelineProofs
  Text.Tokenizer Text.TokenizerProofs Text.HsTable Text.HsTableProofs Text.GtTable Text.GtTableProofs Text.OptsAtCall.
Import ListNotations.
Open Scope N_scope.

(** For every string [s], both modes [ml], every option vector with escapes enabled, any starting line number and
    [_last_was_cr] state: tokenizing  "  escape_text(s, ml)  "  gives one STRING token with value [s], then EOF
    for ever ([n] further calls, any [n]); the line counter advances by the number of raw line feeds. *)
Theorem c02_escape_tokenize_inverse : forall T o,
  allow_escapes o = true -> forall ml, tbl_ok T ml = true -> dq_not_operator T = true ->
  forall s n fuel line lcr, (length s + 2 <= fuel)%nat ->
  tokens_flat T o (S n) fuel line lcr (DQ :: escape T ml s ++ [DQ])
  = RTok STRING s (line + raw_lfs T ml s) false :: repeat (RTok EOF [] (line + raw_lfs T ml s) false) n.
Proof. exact escape_tokenize_inverse. Qed.

(** [escape_text] as the translator reads it from the source is a pipeline [p] of whole-string steps (regex
    substitutions with the table callback, [str.replace] calls, each conditional on [multiline]).  If the steps that
    apply in mode [ml] are exactly one substitution whose exclusion string is the one recorded in [T] (the instance
    obligation [escape_text_is_one_table_substitution_*] — false for e.g. "escape everything, then put the line
    feeds back with replace"), the function IS the per-character model ... *)
Theorem c02_escape_text_is_charwise : forall T p ml, single_sub p ml = Some (excl T ml) ->
  forall s, run_pipeline (esc_table T) p ml s = escape T ml s.
Proof. exact pipeline_is_escape. Qed.

(** ... and therefore the inverse law holds for the function as written in the source. *)
Theorem c02_escape_text_tokenize_inverse : forall T p o ml,
  allow_escapes o = true -> single_sub p ml = Some (excl T ml) -> tbl_ok T ml = true -> dq_not_operator T = true ->
  forall s n fuel line lcr, (length s + 2 <= fuel)%nat ->
  tokens_flat T o (S n) fuel line lcr (DQ :: run_pipeline (esc_table T) p ml s ++ [DQ])
  = RTok STRING s (line + raw_lfs T ml s) false :: repeat (RTok EOF [] (line + raw_lfs T ml s) false) n.
Proof.
  intros T p o ml He Hp Hok Hop s n fuel line lcr Hf. rewrite (pipeline_is_escape T p ml Hp s).
  exact (escape_tokenize_inverse T o He ml Hok Hop s n fuel line lcr Hf).
Qed.

(** The shape condition is not decoration: a post-processing pipeline is not a per-character map, and breaks the law
    (backslash 'n' comes back as the empty string: backslash-LF is a line continuation). *)
Theorem c02_postprocessing_refuted :
  is_single_sub pp_pipeline true = false
  /\ run_pipeline pp_table pp_pipeline true [92; 110] = [92; 10]
  /\ tokens_flat {| esc_table := pp_table; excl_single := []; excl_multi := []; bare_disallowed := []; operators := [];
                    casefold := fun c => [c] |}
       {| string_bracket := false; string_parens := true; allow_escapes := true; allow_star_comments := false;
          preserve_comments := false; colon_operator := false; plus_operator := false |}
       1 10 1 false (DQ :: run_pipeline pp_table pp_pipeline true [92; 110] ++ [DQ]) = [RTok STRING [] 1 false].
Proof. vm_compute. repeat split; reflexivity. Qed.

(** Nor is a substitution with a look-ahead ("in multiline mode only a lone CR needs escaping", the alternative CR(?!LF)): it is not
    [single_sub], it leaves the CR of CR LF raw, and the tokenizer folds a raw CR LF inside a string to one LF: the string CR LF
    comes back as LF (round 5, computed witness). *)
Theorem c02_lookahead_refuted :
  is_single_sub [(PAlways, PSubLA [10] [(13, 10)])] true = false
  /\ run_pipeline la_table [(PAlways, PSubLA [10] [(13, 10)])] true [13; 10] = [13; 10]
  /\ tokens_flat {| esc_table := la_table; excl_single := []; excl_multi := [10]; bare_disallowed := []; operators := [];
                    casefold := fun c => [c] |}
       {| string_bracket := false; string_parens := true; allow_escapes := true; allow_star_comments := false;
          preserve_comments := false; colon_operator := false; plus_operator := false |}
       1 10 1 false (DQ :: run_pipeline la_table [(PAlways, PSubLA [10] [(13, 10)])] true [13; 10] ++ [DQ]) = [RTok STRING [10] 2 false].
Proof. vm_compute. repeat split; reflexivity. Qed.

(** The same through the reader state of the real class ([_cur_chunk], [_char_index], chunk iterator), for the text
    supplied as one string or cut into arbitrary chunks (empty ones included). *)
Theorem c02_escape_tokenize_inverse_chunked : forall T o ml,
  allow_escapes o = true -> tbl_ok T ml = true -> dq_not_operator T = true ->
  forall s n fuel chunks, (length s + 2 <= fuel)%nat -> concat chunks = DQ :: escape T ml s ++ [DQ] ->
  tokens_chk T o (S n) fuel 1 false (chk_of_chunks chunks)
  = RTok STRING s (1 + raw_lfs T ml s) false :: repeat (RTok EOF [] (1 + raw_lfs T ml s) false) n
  /\ tokens_chk T o (S n) fuel 1 false (chk_of_str (concat chunks))
  = RTok STRING s (1 + raw_lfs T ml s) false :: repeat (RTok EOF [] (1 + raw_lfs T ml s) false) n.
Proof.
  intros T o ml He Hok Hop s n fuel chunks Hf Hc.
  rewrite (tokens_any_chunking T o (S n) fuel chunks).
  rewrite (tokens_chunk_independent T o (S n) fuel 1 false (concat chunks) _ (R_of_str (concat chunks))).
  rewrite Hc. split; exact (escape_tokenize_inverse T o He ml Hok Hop s n fuel 1 false Hf).
Qed.

(** Compositional form: after an opening quote, the escaped text followed by a quote is read back as exactly [s]
    whatever follows it ([rest]), at whatever line, and [rest] is left untouched: the string can be embedded at any
    position of a larger KeyValues / VMF / BSP-entity / DMX-KV2 line. *)
Theorem c02_quoted_embedding : forall T o,
  allow_escapes o = true -> forall ml, tbl_ok T ml = true ->
  forall s f acc line rest, (length s < f)%nat ->
  run_flat (handle_string T o f acc false line) (escape T ml s ++ DQ :: rest)
  = (RTok STRING (rev acc ++ s) (line + raw_lfs T ml s) false, rest).
Proof. exact quoted_embedding. Qed.

(** Round 3: [_handle_string] as written in the source.  The translator executes the loop body on abstract values and
    emits one row per combination it can distinguish (class of the character, the [last_was_cr] flag, [allow_escapes],
    class of the character after a backslash); [hs_interp] gives any such table a meaning.  If the rows are the model's
    rows (instance obligation [handle_string_rows_are_the_model]), the table's interpretation is the hand model
    [handle_string] for every input, fuel, collected prefix, flag and line ... *)
Theorem c02_handle_string_table_is_model : forall T o rows, hs_rows_ok rows = true ->
  forall f acc lcr line l,
  run_flat (hs_interp T o (tb_of rows) f acc lcr line) l = run_flat (handle_string T o f acc lcr line) l.
Proof. exact hs_rows_interp_is_model. Qed.

(** ... also over the chunked reader state of the real class ... *)
Theorem c02_handle_string_table_is_model_chunked : forall T o rows, hs_rows_ok rows = true ->
  forall f acc lcr line l s, R l s ->
  fst (run_chk (hs_interp T o (tb_of rows) f acc lcr line) s) = fst (run_flat (handle_string T o f acc lcr line) l).
Proof. exact hs_rows_interp_is_model_chunked. Qed.

(** ... hence the inverse law for BOTH functions as written in the source: the pipeline [p] read from [escape_text]
    and the table [rows] read from [_handle_string]. *)
Theorem c02_inverse_as_written : forall T p o rows ml,
  allow_escapes o = true -> single_sub p ml = Some (excl T ml) -> tbl_ok T ml = true -> hs_rows_ok rows = true ->
  forall s f acc line rest, (length s < f)%nat ->
  run_flat (hs_interp T o (tb_of rows) f acc false line) (run_pipeline (esc_table T) p ml s ++ DQ :: rest)
  = (RTok STRING (rev acc ++ s) (line + raw_lfs T ml s) false, rest).
Proof.
  intros T p o rows ml He Hp Hok Hr s f acc line rest Hf.
  rewrite (hs_rows_interp_is_model T o rows Hr), (pipeline_is_escape T p ml Hp s).
  exact (quoted_embedding T o He ml Hok s f acc line rest Hf).
Qed.

(** Round 4 - the whole property in one statement, for the three functions AS WRITTEN in the source: the pipeline [p] read from
    [escape_text], the decision trees [G] read from [_get_token] / [_handle_comment] (Text/GtTable.v) and the rows read from
    [_handle_string].  Hypotheses, all boolean and all discharged for today's source by named instance obligations:
    escapes are enabled; the steps of [escape_text] in mode [ml] are one table substitution; the table conditions [tbl_ok]; the
    double quote is not an operator; the trees and the rows are the model's.  Then for EVERY string [s], both modes, every
    option vector, any number [n] of further calls and ANY cutting of the text into chunks, tokenizing  "escape_text(s)"  with the
    tokenizer as written gives exactly one STRING token with value [s], then EOF for ever; the same for the text as one string. *)
Theorem c02_property_as_written : forall T p o G rows ml,
  allow_escapes o = true -> single_sub p ml = Some (excl T ml) -> tbl_ok T ml = true -> dq_not_operator T = true ->
  trees_ok G = true -> hs_rows_ok rows = true ->
  forall s n fuel chunks, (length s + 2 <= fuel)%nat -> concat chunks = DQ :: run_pipeline (esc_table T) p ml s ++ [DQ] ->
  itokens_chk (gt_interp T o (steps_of G) (hs_interp T o (tb_of rows)) fuel) (S n) 1 false (chk_of_chunks chunks)
  = RTok STRING s (1 + raw_lfs T ml s) false :: repeat (RTok EOF [] (1 + raw_lfs T ml s) false) n
  /\ itokens_chk (gt_interp T o (steps_of G) (hs_interp T o (tb_of rows)) fuel) (S n) 1 false (chk_of_str (concat chunks))
  = RTok STRING s (1 + raw_lfs T ml s) false :: repeat (RTok EOF [] (1 + raw_lfs T ml s) false) n.
Proof.
  intros T p o G rows ml He Hp Hok Hop HG Hr s n fuel chunks Hf Hc.
  pose proof (hs_rows_interp_is_model T o rows Hr) as Hhs.
  rewrite (gt_trees_trace_is_model_chunked T o G _ HG Hhs (S n) fuel 1 false (concat chunks) _ (R_of_chunks chunks)).
  rewrite (gt_trees_trace_is_model_chunked T o G _ HG Hhs (S n) fuel 1 false (concat chunks) _ (R_of_str (concat chunks))).
  rewrite Hc, (pipeline_is_escape T p ml Hp s).
  split; exact (escape_tokenize_inverse T o He ml Hok Hop s n fuel 1 false Hf).
Qed.

(** Round 5 - the options are public, settable attributes that every call of [tok()] reads when it runs; a trace in which they
    change between calls is a trace with one option vector per call ([tokens_flat_opts]; with the same vector at every call it
    is [tokens_flat]: [OptsAtCall.tokens_flat_opts_const]).  C02 needs escapes to be enabled during ONE call only - the call that
    reads the string: whatever the options were during earlier calls and whatever they become afterwards ... *)
Theorem c02_inverse_options_read_at_call_time : forall T o os ml,
  allow_escapes o = true -> tbl_ok T ml = true -> dq_not_operator T = true ->
  forall s fuel line lcr, (length s + 2 <= fuel)%nat ->
  tokens_flat_opts T (o :: os) fuel line lcr (DQ :: escape T ml s ++ [DQ])
  = RTok STRING s (line + raw_lfs T ml s) false :: map (fun _ => RTok EOF [] (line + raw_lfs T ml s) false) os.
Proof. exact escape_tokenize_inverse_opts. Qed.

(** ... and, per call, for the three functions AS WRITTEN in the source: from any reader state (line, [_last_was_cr]) left by
    earlier calls, the call made with escapes enabled reads  "escape_text(s)"  as STRING [s] and leaves the rest of the input
    untouched (flat, and over the chunked reader state of the real class). *)
Theorem c02_one_call_as_written : forall T p o G rows ml,
  allow_escapes o = true -> single_sub p ml = Some (excl T ml) -> tbl_ok T ml = true -> dq_not_operator T = true ->
  trees_ok G = true -> hs_rows_ok rows = true ->
  forall s f line lcr rest, (length s + 2 <= f)%nat ->
  run_flat (gt_interp T o (steps_of G) (hs_interp T o (tb_of rows)) f line lcr) (DQ :: run_pipeline (esc_table T) p ml s ++ DQ :: rest)
  = (RTok STRING s (line + raw_lfs T ml s) false, rest)
  /\ forall st, R (DQ :: run_pipeline (esc_table T) p ml s ++ DQ :: rest) st ->
     fst (run_chk (gt_interp T o (steps_of G) (hs_interp T o (tb_of rows)) f line lcr) st) = RTok STRING s (line + raw_lfs T ml s) false.
Proof.
  intros T p o G rows ml He Hp Hok Hop HG Hr s f line lcr rest Hf.
  pose proof (hs_rows_interp_is_model T o rows Hr) as Hhs.
  pose proof (get_token_reads_quoted_escape T o ml He Hok Hop s f line lcr rest Hf) as H1.
  rewrite (pipeline_is_escape T p ml Hp s). split.
  - now rewrite (gt_trees_interp_is_model T o G _ HG Hhs).
  - intros st HR. rewrite (gt_trees_interp_is_model_chunked T o G _ HG Hhs f line lcr _ st HR). now rewrite H1.
Qed.

(** The row condition is not decoration: a table whose LF rows ignore the flag is rejected, and its interpretation
    reads CR LF as two line breaks. *)
Theorem c02_handle_string_table_refuted :
  hs_rows_ok hs_rows_bad = false
  /\ forall T o, fst (run_flat (hs_interp T o (tb_of hs_rows_bad) 5 [] false 1) [CR; LF; DQ]) = RTok STRING [LF; LF] 3 false.
Proof. split; [vm_compute; reflexivity | intros T [sb sp [] sc pc co po]; reflexivity]. Qed.

(** Shape of the escaped text: it is the concatenation of units, each a raw character or backslash + symbol ... *)
Theorem c02_escape_units : forall T ml s, concat (map unit_chars (escape_units T ml s)) = escape T ml s.
Proof. exact escape_units_flatten. Qed.

(** ... and no raw unit is a double quote (both modes) ... *)
Theorem c02_escape_no_raw_dq : forall T ml, tbl_dq T ml = true ->
  forall s, Forall (fun u => match u with Raw c => c <> DQ | Esc _ => True end) (escape_units T ml s).
Proof. intros T ml H. exact (escape_no_raw T ml DQ H). Qed.

(** ... nor a carriage return (both modes; a raw CR would be folded to LF by the tokenizer). *)
Theorem c02_escape_no_raw_cr : forall T ml, tbl_cr T ml = true ->
  forall s, Forall (fun u => match u with Raw c => c <> CR | Esc _ => True end) (escape_units T ml s).
Proof. intros T ml H. exact (escape_no_raw T ml CR H). Qed.

(** In single-line mode the escaped text contains no line-break character at all, raw or otherwise. *)
Theorem c02_escape_no_raw_linebreak : forall T,
  tbl_lf_single T = true -> tbl_cr T false = true -> tbl_sym_no_linebreak T = true ->
  forall s, ~ In LF (escape T false s) /\ ~ In CR (escape T false s).
Proof. exact escape_no_linebreak_single. Qed.

(** Only the values of ESCAPES are ever changed (used by the exhaustive code-point comparison with escape_text). *)
Theorem c02_escape_identity_elsewhere : forall T ml c, ~ In c (map snd (esc_table T)) -> esc_char T ml c = [c].
Proof. exact esc_char_other. Qed.

(** Line accounting: no raw line feed when LF must be escaped; otherwise one line per LF of the string. *)
Theorem c02_lines_single : forall T ml, must_escape T ml LF = true -> forall s, raw_lfs T ml s = 0.
Proof. exact raw_lfs_zero. Qed.
Theorem c02_lines_multi : forall T ml, is_raw T ml LF = true ->
  forall s, raw_lfs T ml s = N.of_nat (count_occ N.eq_dec s LF).
Proof. exact raw_lfs_count. Qed.

(** The premises are satisfiable (this is the table of the pinned tree, written out by hand; the check proves the
    same conditions for the table it regenerates from today's source). *)
Definition example_tables : tables := {|
  esc_table := [(110,10);(116,9);(118,11);(98,8);(114,13);(102,12);(97,7);(34,34);(39,39);(47,47);(92,92);(63,63)];
  excl_single := [63;47]; excl_multi := [63;47;10];
  bare_disallowed := [34;39;123;125;59;44;61;91;93;40;41;13;10;9;32];
  operators := [(123, BRACE_OPEN); (125, BRACE_CLOSE); (61, EQUALS); (44, COMMA)];
  casefold := fun c => [c] |}.
Theorem c02_premises_satisfiable :
  tbl_ok example_tables false && tbl_ok example_tables true && dq_not_operator example_tables
  && tbl_lf_single example_tables && tbl_sym_no_linebreak example_tables && is_raw example_tables true LF = true.
Proof. vm_compute. reflexivity. Qed.

(** The conditions are not decoration: without the escape for the double quote the inverse law is false. *)
Definition table_without_dq : tables := {|
  esc_table := [(110,10);(92,92)]; excl_single := []; excl_multi := []; bare_disallowed := []; operators := [];
  casefold := fun c => [c] |}.
Theorem c02_needs_dq_escape :
  let o := {| string_bracket := false; string_parens := true; allow_escapes := true; allow_star_comments := false;
              preserve_comments := false; colon_operator := false; plus_operator := false |} in
  tokens_flat table_without_dq o 1 10 1 false (DQ :: escape table_without_dq false [DQ] ++ [DQ]) = [RTok STRING [] 1 false].
Proof. vm_compute. reflexivity. Qed.
