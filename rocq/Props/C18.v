(** C18 — a constrained RawFileSystem never reaches outside its root.
    Only statements here; proofs are in SM/PathNormProofs.v.  [raise_if] is the condition under which
    RawFileSystem._resolve_path raises RootEscapeError, regenerated from filesys.py into Gen/Containment_gen.v. *)
From Coq Require Import List NArith Bool.
From SV Require Import SM.PathNorm SM.PathNormProofs Gen.Containment_gen.
Import ListNotations.

(** Census obligation: every file-system access of RawFileSystem goes through _resolve_path. *)
Definition all_access_sites_resolved : bool := forallb (fun x : String.string * String.string * bool => snd x) access_sites.

(** For the guard found in today's source: if it is one of the segment-wise forms accepted by [raise_sound]
    (instance obligation, kernel-checked on every run), then for EVERY working directory, root argument and
    path string, a path that is not rejected is absolute, fully normalised (no '..' left) and its segments
    extend the segments of the root. *)
Theorem c18_constrained_never_escapes :
  raise_sound raise_if = true ->
  forall cwd root_arg path a, is_abs cwd = true ->
    resolve raise_if true cwd root_arg path = Ok a -> inside (abspath cwd root_arg) a.
Proof. intros H cwd root_arg path a Hc. exact (segprefix_guard_sound raise_if cwd root_arg path a H Hc). Qed.

(** The same, for every guard expression of the language (the generic theorem the instance uses). *)
Theorem c18_segprefix_guard_sound :
  forall raise_if cwd root_arg path a,
    raise_sound raise_if = true -> is_abs cwd = true ->
    resolve raise_if true cwd root_arg path = Ok a -> inside (abspath cwd root_arg) a.
Proof. exact segprefix_guard_sound. Qed.

(** Whatever the guard, what is returned is absolute and has no '..' component. *)
Theorem c18_resolve_normalised :
  forall raise_if con cwd root_arg path a, is_abs cwd = true ->
    resolve raise_if con cwd root_arg path = Ok a -> is_abs a = true /\ no_dotdot (segs a).
Proof. exact resolve_normalised. Qed.

(** normpath of an absolute path leaves no '..' (and no empty or '.') component. *)
Theorem c18_normpath_abs_no_dotdot : forall p, is_abs p = true -> no_dotdot (segs (normpath p)).
Proof. exact normpath_abs_no_dotdot. Qed.

(** The four segment-wise spellings are accepted by the recogniser, the plain string prefix is not. *)
Theorem c18_sound_forms_recognised :
  raise_sound guard_rstrip_sep = true /\ raise_sound guard_eq_or_sep = true /\
  raise_sound guard_commonpath = true /\ raise_sound guard_join_empty = true /\
  raise_sound guard_strprefix = false.
Proof. exact sound_forms_recognised. Qed.

(** The plain string-prefix guard (the pinned tree's) is refuted: root /t/root, path ../root_evil/secret.txt. *)
Theorem c18_strprefix_guard_refuted :
  exists cwd root_arg path a,
    is_abs cwd = true /\ resolve guard_strprefix true cwd root_arg path = Ok a /\
    ~ seg_prefix (segs (abspath cwd root_arg)) (segs a).
Proof. exact strprefix_guard_refuted. Qed.

(** packlist.unify_path: an accepted path never steps above its base directory, except the bare '..'. *)
Theorem c18_unify_path_no_parent : forall p r, unify_path p = Some r ->
  stays_below 0 (segs r) = true \/ segs r = [dd].
Proof. exact unify_path_no_parent. Qed.
