(** C18 — a constrained RawFileSystem never reaches outside its root.
    Only statements here; proofs are in SM/PathNormProofs.v.  [raise_if] is the condition under which
    RawFileSystem._resolve_path raises RootEscapeError, regenerated from filesys.py into Gen/Containment_gen.v. *)
From Coq Require Import List NArith Bool.
From SV Require Import SM.PathNorm SM.PathNormProofs SM.PathOps SM.PathOpsProofs SM.PathWalkRel SM.PathMemo SM.PathMemoProofs
  SM.PathHistory SM.PathHistoryProofs SM.PathProperty SM.PathPropertyProofs Gen.Containment_gen Gen.FsOps_gen Gen.FsCensus_gen.
Import ListNotations.

(** Census obligation: every file-system access of RawFileSystem goes through _resolve_path. *)
Definition all_access_sites_resolved : bool := forallb (fun x : String.string * String.string * bool => snd x) access_sites.

(** For the guard found in today's source: if it is one of the segment-wise forms accepted by [raise_sound]
    (instance obligation, kernel-checked on every run), then for EVERY working directory, root argument and
    path string, a path that is not rejected is absolute, fully normalised (no '..' left) and its segments
    extend the segments of the root. *)
Theorem c18_constrained_never_escapes :
  raise_sound raise_if = true ->
  forall cwd root_arg path a, is_abs cwd = true ->
    resolve raise_if true cwd root_arg path = Ok a -> inside (abspath cwd root_arg) a.
Proof. intros H cwd root_arg path a Hc. exact (segprefix_guard_sound raise_if cwd root_arg path a H Hc). Qed.

(** The same, for every guard expression of the language (the generic theorem the instance uses). *)
Theorem c18_segprefix_guard_sound :
  forall raise_if cwd root_arg path a,
    raise_sound raise_if = true -> is_abs cwd = true ->
    resolve raise_if true cwd root_arg path = Ok a -> inside (abspath cwd root_arg) a.
Proof. exact segprefix_guard_sound. Qed.

(** Whatever the guard, what is returned is absolute and has no '..' component. *)
Theorem c18_resolve_normalised :
  forall raise_if con cwd root_arg path a, is_abs cwd = true ->
    resolve raise_if con cwd root_arg path = Ok a -> is_abs a = true /\ no_dotdot (segs a).
Proof. exact resolve_normalised. Qed.

(** normpath of an absolute path leaves no '..' (and no empty or '.') component. *)
Theorem c18_normpath_abs_no_dotdot : forall p, is_abs p = true -> no_dotdot (segs (normpath p)).
Proof. exact normpath_abs_no_dotdot. Qed.

(** The four segment-wise spellings are accepted by the recogniser, the plain string prefix is not. *)
Theorem c18_sound_forms_recognised :
  raise_sound guard_rstrip_sep = true /\ raise_sound guard_eq_or_sep = true /\
  raise_sound guard_commonpath = true /\ raise_sound guard_join_empty = true /\
  raise_sound guard_strprefix = false.
Proof. exact sound_forms_recognised. Qed.

(** The plain string-prefix guard (the pinned tree's) is refuted: root /t/root, path ../root_evil/secret.txt. *)
Theorem c18_strprefix_guard_refuted :
  exists cwd root_arg path a,
    is_abs cwd = true /\ resolve guard_strprefix true cwd root_arg path = Ok a /\
    ~ seg_prefix (segs (abspath cwd root_arg)) (segs a).
Proof. exact strprefix_guard_refuted. Qed.

(** os.path.commonprefix (character-wise) as the guard: rejected by the recogniser and refuted by the same witness. *)
Theorem c18_commonprefix_guard_refuted :
  raise_sound guard_commonprefix = false /\
  exists cwd root_arg path a,
    is_abs cwd = true /\ resolve guard_commonprefix true cwd root_arg path = Ok a /\
    ~ seg_prefix (segs (abspath cwd root_arg)) (segs a).
Proof. exact commonprefix_guard_refuted. Qed.

(** packlist.unify_path: an accepted path never steps above its base directory, except the bare '..'. *)
Theorem c18_unify_path_no_parent : forall p r, unify_path p = Some r ->
  stays_below 0 (segs r) = true \/ segs r = [dd].
Proof. exact unify_path_no_parent. Qed.

(** ... semantically: followed from ANY base directory (stack of components), an accepted pack path ends in the base
    or below it without ever leaving it; the bare '..' corner is exactly the parent directory. *)
Theorem c18_unify_path_follows_below_base : forall p r, unify_path p = Some r ->
  (forall base : list str, exists extra, follow base (segs r) = Some (extra ++ base))
  \/ (segs r = [dd] /\ forall b base, follow (b :: base) (segs r) = Some base).
Proof. exact unify_path_follows_below_base. Qed.

(** '..' can only be the last segment of an accepted pack path. *)
Theorem c18_unify_path_dotdot_only_last : forall p r, unify_path p = Some r ->
  forall l1 l2, segs r = l1 ++ dd :: l2 -> l2 = [].
Proof. exact unify_path_dotdot_only_last. Qed.

(** ------------------------------------------------------------------ operations, File handles, chains, os.walk.
    [raw_sites], [chain_calls], [other_sites] are regenerated from filesys.py (Gen/FsOps_gen.v): the data flow of every
    call of RawFileSystem that reaches the operating system.  Instance obligations checked on every run. *)
Definition every_os_call_receives_a_resolve_result : bool := sites_ok raw_sites.
Definition handle_consumers_revalidate_stored_string : bool := sites_ok (handle_sites raw_sites).
Definition chain_and_file_classes_touch_no_file_system : bool := match other_sites with [] => true | _ => false end.
(** informational (false today: _get_file validates [name] and stores [name.replace('\\','/')]) *)
Definition handles_store_the_validated_string : bool :=
  forallb (fun x : String.string * pexp * pexp => pexp_eqb (snd (fst x)) (snd x)) raw_validated_then_stored.

(** Every path that any RawFileSystem operation of today's source hands to the operating system — for every
    string argument, every File handle (whatever strings it carries) — is inside the root. *)
Theorem c18_every_access_inside :
  raise_sound raise_if = true -> sites_ok raw_sites = true ->
  forall cwd root_arg, is_abs cwd = true ->
  forall s i a, In s raw_sites -> peval raise_if true cwd root_arg i (st_arg s) = Some a ->
    inside (abspath cwd root_arg) a.
Proof. intros Hg Hs cwd root_arg Hc. exact (ops_accesses_inside raise_if cwd root_arg raw_sites Hg Hc Hs). Qed.

(** The generic statement: any table of sites whose path arguments are _resolve_path results, any sound guard. *)
Theorem c18_ops_accesses_inside :
  forall g cwd root_arg (sites : list site),
    raise_sound g = true -> is_abs cwd = true -> sites_ok sites = true ->
    forall s i a, In s sites -> peval g true cwd root_arg i (st_arg s) = Some a -> inside (abspath cwd root_arg) a.
Proof. exact ops_accesses_inside. Qed.

(** Lookup, then consume the returned handle (which stores a transformed name): inside. *)
Theorem c18_lookup_then_consume_inside :
  forall g cwd root_arg (sites : list site) (st : store),
    raise_sound g = true -> is_abs cwd = true -> sites_ok sites = true ->
    forall s i data hpath a, In s sites ->
      peval g true cwd root_arg i (so_data st) = Some data ->
      peval g true cwd root_arg i (so_path st) = Some hpath ->
      peval g true cwd root_arg
        {| i_arg := i_arg i; i_data := data; i_hpath := hpath; i_prefix := i_prefix i; i_walked := i_walked i |}
        (st_arg s) = Some a ->
      inside (abspath cwd root_arg) a.
Proof. exact lookup_then_consume_inside. Qed.

(** Trusting a handle because the looked-up name was validated is refuted: name "..\secret.txt" under /t/root. *)
Theorem c18_trusting_validated_name_refuted :
  exists cwd root_arg name validated data opened,
    is_abs cwd = true /\
    resolve guard_rstrip_sep true cwd root_arg name = Ok validated /\
    seg_prefixb (segs (abspath cwd root_arg)) (segs validated) = true /\
    peval guard_rstrip_sep true cwd root_arg
      {| i_arg := name; i_data := []; i_hpath := []; i_prefix := []; i_walked := [] |} (PUnbs PArg) = Some data /\
    peval guard_rstrip_sep true cwd root_arg
      {| i_arg := name; i_data := data; i_hpath := data; i_prefix := []; i_walked := [] |}
      (st_arg unsafe_open_site) = Some opened /\
    seg_prefixb (segs (abspath cwd root_arg)) (segs (abspath cwd opened)) = false /\
    peval guard_rstrip_sep true cwd root_arg
      {| i_arg := name; i_data := data; i_hpath := data; i_prefix := []; i_walked := [] |}
      (PResolve PHandleData) = None.
Proof. exact trusting_validated_name_refuted. Qed.

(** FileSystemChain members: every access a chain call causes in a constrained member is inside the member's root,
    for every prefix and argument. *)
Theorem c18_chain_accesses_inside :
  raise_sound raise_if = true -> sites_ok raw_sites = true ->
  forall cwd root_arg, is_abs cwd = true ->
  forall c s i a, In c chain_calls -> In s raw_sites -> chain_access raise_if cwd root_arg i c s = Some a ->
    inside (abspath cwd root_arg) a.
Proof.
  intros Hg Hs cwd root_arg Hc c s i a _. exact (chain_accesses_inside raise_if cwd root_arg raw_sites Hg Hc Hs c s i a).
Qed.

(** ... but the prefix itself is not a jail (observation, not part of C18). *)
Theorem c18_chain_prefix_not_confined_refuted :
  exists cwd root_arg prefix name a,
    chain_access guard_rstrip_sep cwd root_arg
      {| i_arg := name; i_data := []; i_hpath := []; i_prefix := prefix; i_walked := [] |}
      chain_getfile_call resolved_arg_site = Some a /\
    seg_prefixb (segs (abspath cwd root_arg)) (segs a) = true /\
    seg_prefixb (segs (pjoin (abspath cwd root_arg) prefix)) (segs a) = false.
Proof. exact chain_prefix_not_confined_refuted. Qed.

(** walk_folder: with os.walk as an arbitrary function that obeys the OS contract (dirpaths are the top joined with
    entry names; entry names have no separator and are not '', '.', '..'), every file found and every directory
    listed is inside the root. *)
Theorem c18_walk_found_inside :
  forall os_walk : str -> list (str * list str),
    (forall top d fs, In (d, fs) (os_walk top) ->
       (exists names, forallb entry_nameb names = true /\ d = descend top names) /\ forallb entry_nameb fs = true) ->
    forall g cwd root_arg folder top d fs f,
      raise_sound g = true -> is_abs cwd = true ->
      resolve g true cwd root_arg folder = Ok top ->
      In (d, fs) (os_walk top) -> In f fs ->
      inside (abspath cwd root_arg) d /\ inside (abspath cwd root_arg) (pjoin d f).
Proof.
  intros w Hw g cwd root_arg folder top d fs f Hg Hc Hr Hin Hf. split.
  - exact (walk_dirs_inside w Hw g cwd root_arg folder top d fs Hg Hc Hr Hin).
  - exact (walk_found_inside w Hw g cwd root_arg folder top d fs f Hg Hc Hr Hin Hf).
Qed.

(** The working directory at call time is irrelevant (os.chdir between construction and use changes nothing):
    the containment theorem holds with the two working directories kept apart. *)
Theorem c18_cwd_at_call_irrelevant :
  forall g con cwd0 cwd1 root_arg path, is_abs cwd0 = true ->
    resolve2 g con cwd0 cwd1 root_arg path = resolve g con cwd0 root_arg path.
Proof. exact resolve_cwd_at_call_irrelevant. Qed.

(** What [inside] means for the OS: following the segments of an inside path from '/' never goes up, arrives at the
    root directory and every later step is at or below it. *)
Theorem c18_inside_walk_stays_in_root : forall root a, inside root a ->
  exists rest,
    segs a = segs root ++ rest /\
    forall k, follow [] (segs root ++ firstn k rest) = Some (rev (firstn k rest) ++ rev (segs root)).
Proof. exact inside_walk_stays_in_root. Qed.

(** Fidelity of walk_folder: the handle it yields stores relpath(join(dirpath, file), root) with the slashes changed;
    when there is no backslash to change, opening the handle computes a path with exactly the segments of the file
    os.walk found (so a yielded handle opens what was listed).  relpath is modelled in SM/PathWalkRel.v and compared
    with os.path.relpath by the correspondence. *)
Theorem c18_walk_yield_names_the_file_found :
  forall os_walk : str -> list (str * list str),
    (forall top d fs, In (d, fs) (os_walk top) ->
       (exists names, forallb entry_nameb names = true /\ d = descend top names) /\ forallb entry_nameb fs = true) ->
    forall g cwd root_arg folder top d fs f,
      raise_sound g = true -> is_abs cwd = true ->
      resolve g true cwd root_arg folder = Ok top ->
      In (d, fs) (os_walk top) -> In f fs ->
      let root := abspath cwd root_arg in
      let file := pjoin d f in
      let y := relpath cwd file root in
      unbackslash y = y ->
      segs (abspath cwd (pjoin root (unbackslash y))) = segs file.
Proof. exact walk_yield_names_the_file_found. Qed.

(** ------------------------------------------------------------------ histories over several objects; memo tables (round 3).
    Census obligations: nothing stands between a caller and the method bodies the translators read (no decorator
    other than classmethod/deprecated/..., no rebinding of a method, no attribute hook, no subclass override). *)
Definition resolve_path_is_not_wrapped : bool := match resolve_path_wrappers with [] => true | _ => false end.
Definition no_method_of_the_file_system_classes_is_wrapped : bool := match method_wrappers with [] => true | _ => false end.
(** ... and no table outlives a call where a second file-system object can see it (module / class level containers,
    mutable parameter defaults, state on method objects): the hand-written form of the same cache. *)
Definition file_system_methods_share_no_mutable_state : bool := match shared_mutable_state with [] => true | _ => false end.

(** Histories.  Calls of _resolve_path on any number of RawFileSystem objects (constrained or not, same or different
    roots) in any order, with a memo table in front of the method whose key contains the constrain flag, under EVERY
    replacement policy that only drops entries ([fun _ => []] is today's source: no table): whatever a constrained
    object is answered at any point of the history is inside its root. *)
Theorem c18_history_constrained_calls_inside :
  raise_sound raise_if = true ->
  forall cwd evict, is_abs cwd = true -> only_drops evict ->
  forall calls n call a,
    nth_error calls n = Some call -> rc_con call = true ->
    nth_error (memo_run true raise_if cwd evict [] calls) n = Some (Ok a) ->
    inside (abspath cwd (rc_root call)) a.
Proof. intros Hg cwd evict Hc He. exact (memo_history_inside raise_if cwd evict Hg Hc He). Qed.

(** The table is transparent: for every guard, policy and history in which every call is covered by the key (key with
    the flag, or constrained callers only) the answers are those of the unmemoised method. *)
Theorem c18_memo_table_transparent :
  forall with_flag g cwd evict, only_drops evict ->
  forall calls, forallb (key_covers with_flag) calls = true ->
    memo_run with_flag g cwd evict [] calls = map (plain g cwd) calls.
Proof.
  intros wf g cwd evict He calls H. exact (memo_transparent wf g cwd evict He calls [] (cache_valid_nil g cwd) H).
Qed.

(** A table shared by constrained objects only is harmless even when its key ignores the flag. *)
Theorem c18_memo_constrained_callers_only_inside :
  forall g cwd evict, raise_sound g = true -> is_abs cwd = true -> only_drops evict ->
  forall calls n call a,
    forallb rc_con calls = true -> nth_error calls n = Some call ->
    nth_error (memo_run false g cwd evict [] calls) n = Some (Ok a) ->
    inside (abspath cwd (rc_root call)) a.
Proof. exact memo_constrained_only_inside. Qed.

(** Replacement policies exist: no table, unbounded table, the n newest entries (lru_cache(maxsize=n) drops others). *)
Theorem c18_replacement_policies_exist :
  only_drops (fun _ => []) /\ only_drops (fun c => c) /\ forall n, only_drops (firstn n).
Proof. exact (conj drop_all_only_drops (conj keep_all_only_drops firstn_only_drops)). Qed.

(** Seeded c18_4 (functools.lru_cache on _resolve_path; FileSystem.__eq__/__hash__ ignore constrain_path) refuted: after an
    unconstrained RawFileSystem('/t/root') resolved '../secret.txt', a constrained one on the same folder is answered
    '/t/secret.txt' from the table; with the flag in the key, and without a table, it raises; alone it keeps refusing. *)
From Coq Require Import String.
Open Scope string_scope.
Theorem c18_memo_key_without_flag_refuted :
  raise_sound guard_rstrip_sep = true /\
  memo_run false guard_rstrip_sep (s2l "/w") (fun c => c) [] fault_history
    = [Ok (s2l "/t/secret.txt"); Ok (s2l "/t/secret.txt")] /\
  seg_prefixb (segs (abspath (s2l "/w") (s2l "/t/root"))) (segs (s2l "/t/secret.txt")) = false /\
  memo_run true guard_rstrip_sep (s2l "/w") (fun c => c) [] fault_history = [Ok (s2l "/t/secret.txt"); Escape] /\
  map (plain guard_rstrip_sep (s2l "/w")) fault_history = [Ok (s2l "/t/secret.txt"); Escape] /\
  memo_run false guard_rstrip_sep (s2l "/w") (fun c => c) [] (tl fault_history ++ tl fault_history)%list = [Escape; Escape].
Proof. exact memo_key_without_flag_refuted. Qed.

(** Round 5 (seeded c18_8): the containment test made through the case-folding name helpers (_norm_name /
    _folder_prefix) compares folded strings while the unfolded path goes to the OS: not accepted by the recogniser, and
    root /t/Maps + ../maps/secret.txt is answered /t/maps/secret.txt (computed witness); a case-variant ancestor is let
    through as well; other siblings, the name-extending sibling and the parent stay refused; the same component-wise
    test on the strings themselves is accepted and refuses the case variants. *)
Theorem c18_casefold_guard_refuted :
  raise_sound guard_casefold = false /\
  raise_sound guard_folder_prefix_unfolded = true /\
  (exists cwd root_arg path a,
    is_abs cwd = true /\ resolve guard_casefold true cwd root_arg path = Ok a /\
    ~ seg_prefix (segs (abspath cwd root_arg)) (segs a)) /\
  resolve guard_casefold true (s2l "/w") (s2l "/t/Content/maps") (s2l "/t/content/maps/secret.txt")
    = Ok (s2l "/t/content/maps/secret.txt") /\
  resolve guard_casefold true (s2l "/w") (s2l "/t/Maps") (s2l "../other/x") = Escape /\
  resolve guard_casefold true (s2l "/w") (s2l "/t/Maps") (s2l "../Maps_backup/x") = Escape /\
  resolve guard_casefold true (s2l "/w") (s2l "/t/Maps") (s2l "..") = Escape /\
  resolve guard_casefold true (s2l "/w") (s2l "/t/Maps") (s2l "sub/x.txt") = Ok (s2l "/t/Maps/sub/x.txt") /\
  resolve guard_folder_prefix_unfolded true (s2l "/w") (s2l "/t/Maps") (s2l "../maps/secret.txt") = Escape /\
  resolve guard_folder_prefix_unfolded true (s2l "/w") (s2l "/t/Maps") (s2l "..\MAPS\secret.txt")
    = Ok (s2l "/t/Maps/..\MAPS\secret.txt").
Proof. exact casefold_guard_refuted. Qed.

(** Round 5: comparisons made on a string under a transformation the guard language has no meaning for (strip, Unicode
    normalisation, realpath ...) are written down as [SOpaque name x] by the translator and rejected by name: an accepted
    guard contains none, wherever it stands (so the placeholder meaning of [SOpaque] is never evaluated for one). *)
Theorem c18_opaque_transformation_never_accepted :
  (forall g, raise_sound g = true -> gx_plain g = true /\ ok_when false g = true) /\
  raise_sound guard_strip_eq = false /\
  (let g := GNot (GAnd (GEq SAbs SRoot) (GEq (SOpaque (s2l "realpath") SAbs) SRoot)) in
   ok_when false g = true /\ raise_sound g = false).
Proof. exact opaque_never_accepted. Qed.

(** ------------------------------------------------------------------ whole histories of operations (round 3).
    A history is any list of steps; a step is one access site of the table generated from filesys.py, executed by
    one of any number of RawFileSystem objects (any roots, constrained or not) on arbitrary strings (argument, File
    handle strings — e.g. a handle an earlier step of another object produced).  A memo table under any replacement
    policy may stand in front of _resolve_path ([fun _ => []]: today's source, no table) and is threaded through the
    evaluation.  If its key covers every step (it contains the flag, or all objects are constrained), then every path a
    constrained object hands to the OS, at any point of any history, is inside that object's root. *)
Theorem c18_history_every_access_inside :
  raise_sound raise_if = true -> sites_ok raw_sites = true ->
  forall with_flag cwd evict, is_abs cwd = true -> only_drops evict ->
  forall ops n op a,
    forallb (op_covered with_flag) ops = true ->
    nth_error ops n = Some op -> oc_con op = true -> In (oc_site op) raw_sites ->
    nth_error (hist_run with_flag raise_if cwd evict [] ops) n = Some (Some a) ->
    inside (abspath cwd (oc_root op)) a.
Proof.
  intros Hg Hs wf cwd evict Hc He ops n op a Hall Hn Hcon Hin.
  apply (hist_accesses_inside wf raise_if cwd evict Hg Hc He ops n op a Hall Hn Hcon).
  unfold sites_ok in Hs. rewrite forallb_forall in Hs. exact (Hs _ Hin).
Qed.

(** Steps made through a FileSystemChain (any prefix; [chain_calls] generated from filesys.py) are steps of such histories:
    a chain step is the member's site run on the string the chain computed, i.e. [chain_access] of the round-2 model. *)
Theorem c18_history_chain_steps_are_steps :
  forall g cwd root_arg c s i op,
    chain_step g cwd root_arg true c s i = Some op ->
    op_plain g cwd op = chain_access g cwd root_arg i c s /\ oc_root op = root_arg /\ oc_con op = true /\ oc_site op = s.
Proof. exact chain_step_is_chain_access. Qed.

(** The history is the step-by-step evaluation of the operations model: the table is invisible (any guard). *)
Theorem c18_history_is_stepwise_model :
  forall with_flag g cwd evict, only_drops evict ->
  forall ops, forallb (op_covered with_flag) ops = true ->
    hist_run with_flag g cwd evict [] ops = map (op_plain g cwd) ops.
Proof. intros wf g cwd evict He ops H. exact (hist_run_transparent wf g cwd evict He ops [] (cache_valid_nil g cwd) H). Qed.

(** Refuted without the flag in the key, on the level of operations: an unconstrained RawFileSystem('/t/root') opens
    '..\secret.txt', then a constrained one on the same folder opens '../secret.txt' and receives /t/secret.txt. *)
Theorem c18_history_key_without_flag_refuted :
  raise_sound guard_rstrip_sep = true /\ site_ok open_site = true /\
  hist_run false guard_rstrip_sep (s2l "/w") (fun c => c) [] fault_ops
    = [Some (s2l "/t/secret.txt"); Some (s2l "/t/secret.txt")] /\
  seg_prefixb (segs (abspath (s2l "/w") (s2l "/t/root"))) (segs (s2l "/t/secret.txt")) = false /\
  hist_run true guard_rstrip_sep (s2l "/w") (fun c => c) [] fault_ops = [Some (s2l "/t/secret.txt"); None] /\
  map (op_plain guard_rstrip_sep (s2l "/w")) fault_ops = [Some (s2l "/t/secret.txt"); None].
Proof. exact hist_key_without_flag_refuted. Qed.

(** ------------------------------------------------------------------ the whole property in one statement (round 4).
    [today]: every object the translators regenerate from /repo/src/srctools on each run, as one record. *)
Close Scope string_scope.
Definition today : source :=
  {| src_guard := raise_if;
     src_root_abs := root_is_abspath;
     src_root_reassigned := root_reassigned_in_class;
     src_flag_ctor := constrain_flag_is_the_constructor_argument;
     src_ctor_sig := constructor_signature_ok;
     src_sites := raw_sites;
     src_other := other_sites;
     src_chain := chain_calls;
     src_entries := entry_points;
     src_entry_unread := entry_unread;
     src_census := [resolve_path_wrappers; method_wrappers; shared_mutable_state; foreign_patches; foreign_subclasses;
                    decorator_origins; reachable_foreign_caches; per_object_state; unconstrained_constructions; unexpected_bases] |}.
(** Named parts of [source_ok today] (each an instance obligation of the check; their conjunction is the hypothesis). *)
Definition no_foreign_patch_subclass_decorator_or_cache : bool :=
  nilb foreign_patches && nilb foreign_subclasses && nilb decorator_origins && nilb reachable_foreign_caches
  && nilb unexpected_bases.
Definition objects_keep_no_table_or_outside_state : bool := nilb per_object_state && constructor_signature_ok.
Definition package_factories_construct_constrained_systems : bool := nilb unconstrained_constructions.
Definition entry_points_land_on_access_methods : bool := routes_ok today.
Definition c18_property_hypotheses_hold_today : bool := source_ok today.

(** C18.  For EVERY source whose generated objects pass [source_ok] (sound segment-wise guard; every OS call of RawFileSystem
    receives a _resolve_path result and File / FileSystem / FileSystemChain make no OS call of their own; the constructor
    stores abspath(path) and the flag, nothing else, nothing reassigns them; every entry point and chain call lands on a
    method with such a call; all censuses — wrappers, shared state, per-object tables, monkey patches, subclass overrides,
    decorator origins, cached foreign functions, over the whole package — are empty), every absolute working directory and
    EVERY history of steps — a step is a call by user code that reaches, through any route of entry points and chain calls
    with any prefixes (nested chains: several chain hops), any OS call site of any RawFileSystem object (any root,
    constrained or not), on arbitrary strings (argument, File handle strings) — with a memo table under any entry-dropping
    policy whose key covers the steps, or with no table at all:
    the table is invisible; every path a constrained object hands to the operating system is inside that object's root
    (absolute, '..'-free, the root's segments a prefix); and everything a folder walk started there lists and finds is
    inside as well, for every os.walk obeying the entry-name contract.  A step that raises RootEscapeError hands nothing
    to the OS ([None]).  Containment is lexical ([abspath]; see the c18_symlink theorems). *)
Theorem c18_property :
  forall s, source_ok s = true ->
  forall cwd, is_abs cwd = true ->
  forall wf evict steps,
    (only_drops evict /\ forallb (step_covered wf) steps = true) \/ evict = (fun _ => []) ->
    let run := prop_run wf (src_guard s) cwd evict [] steps in
    run = map (step_plain (src_guard s) cwd) steps /\
    (forall n st a, nth_error steps n = Some st -> sp_con st = true -> In (sp_site st) (all_sites s) ->
       nth_error run n = Some (Some a) -> inside (abspath cwd (sp_root st)) a) /\
    (forall os_walk, walk_contract os_walk ->
     forall n st top d fs f, nth_error steps n = Some st -> sp_con st = true -> In (sp_site st) (all_sites s) ->
       nth_error run n = Some (Some top) -> In (d, fs) (os_walk top) ->
       inside (abspath cwd (sp_root st)) d /\ (In f fs -> inside (abspath cwd (sp_root st)) (pjoin d f))).
Proof. exact property_holds. Qed.

(** ... instantiated with today's source (no table: the censuses are part of [source_ok today], the instance obligation
    c18_property_hypotheses_hold_for_todays_source). *)
Theorem c18_property_today :
  source_ok today = true ->
  forall cwd, is_abs cwd = true ->
  forall steps n st a, nth_error steps n = Some st -> sp_con st = true -> In (sp_site st) raw_sites ->
    nth_error (prop_run true raise_if cwd (fun _ => []) [] steps) n = Some (Some a) ->
    inside (abspath cwd (sp_root st)) a.
Proof.
  intros Hok cwd Hc steps n st a Hn Hcon Hin Hr.
  apply (property_accesses_inside_no_table today Hok cwd Hc true steps n st a Hn Hcon); [|exact Hr].
  unfold all_sites. apply in_or_app. left. exact Hin.
Qed.

(** The hypotheses are satisfiable (a source with entry points and a chain; user code indexing a chain inside a chain) and
    the run does what the implementation does: the name arrives as x/sub/a.txt; backslash and slash traversal are refused
    for the constrained member and go through for an unconstrained one. *)
Theorem c18_property_hypotheses_satisfiable :
  source_ok example_source = true /\
  linked "_get_file"%string (sp_route (example_step true "a"%string)) = true /\
  prop_run true guard_rstrip_sep (s2l "/w") (fun _ => []) []
    [example_step true "a.txt"; example_step true "..\..\..\secret.txt"; example_step false "..\..\..\secret.txt";
     example_step true "../../../secret.txt"]
  = [Some (s2l "/t/root/x/sub/a.txt"); None; Some (s2l "/t/secret.txt"); None].
Proof. exact property_hypotheses_satisfiable. Qed.

(** Each of the load-bearing conjuncts is needed: an OS call in FileSystem itself, a site that converts after the check
    (seeded c18_3 / c18_5), the string-prefix guard — [source_ok] is false and a one-step history leaves the root. *)
Theorem c18_property_hypotheses_needed_refuted :
  (let s := with_sites [] [("FileSystem", "__contains__", "os.path.exists")]%string guard_rstrip_sep in
   source_ok s = false /\
   exists st, In st (all_sites s) /\
     prop_run true (src_guard s) (s2l "/w") (fun _ => []) [] [direct st "/t/secret.txt"] = [Some (s2l "/t/secret.txt")]) /\
  (let st := site_of "open_bin" "open" "str" (PUnbs (PResolve PArg)) in
   let s := with_sites [st] [] guard_rstrip_sep in
   source_ok s = false /\
   prop_run true (src_guard s) (s2l "/w") (fun _ => []) [] [direct st "..\secret.txt"] = [Some (s2l "/t/root/../secret.txt")]) /\
  (let st := site_of "open_bin" "open" "str" (PResolve (PUnbs PArg)) in
   let s := with_sites [st] [] guard_strprefix in
   source_ok s = false /\
   prop_run true (src_guard s) (s2l "/w") (fun _ => []) [] [direct st "..\root_evil\x"] = [Some (s2l "/t/root_evil/x")]).
Proof. exact property_hypotheses_needed_refuted. Qed.

(** A table kept on one object (root and flag fixed) is transparent whatever its policy: per-object tables are harmless
    for containment; today's source is nevertheless required to have none (census). *)
Theorem c18_per_object_table_transparent :
  forall g cwd evict root con, only_drops evict ->
  forall paths,
    memo_run true g cwd evict [] (map (fun p => {| rc_root := root; rc_con := con; rc_path := p |}) paths)
    = map (fun p => resolve g con cwd root p) paths.
Proof. exact per_object_table_transparent. Qed.

(** Symbolic links.  The reading of "never reaches outside its root": LEXICAL — _resolve_path normalises with
    os.path.abspath, which never consults the file system.  [real] resolves segment lists through a link table entry by
    entry (the kernel, os.path.realpath).  (1) When no directory entry strictly below the root on the way is a link, a
    lexically inside path is where the kernel arrives. *)
Theorem c18_symlink_free_lexical_is_real :
  forall lnk root a, inside root a ->
  exists rest, segs a = (segs root ++ rest)%list /\
    (link_free lnk (segs root) rest ->
     real lnk (S (List.length rest)) (segs root) rest = Some (segs root ++ rest)%list).
Proof. exact lexical_inside_is_real_without_links. Qed.

(** (2) Refuted with a link inside the root: /t/root/link -> /t/outside; 'link/secret.txt' is accepted (lexically inside)
    and the kernel opens /t/outside/secret.txt; 'link/../in.txt' is /t/root/in.txt lexically (the kernel alone would have
    gone to /t/in.txt).  What a link inside the root points to counts as content of the root: outside C18 as read here. *)
Theorem c18_symlink_inside_root_leaves_refuted :
  exists cwd root_arg name a,
    is_abs cwd = true /\ raise_sound guard_rstrip_sep = true /\
    resolve guard_rstrip_sep true cwd root_arg name = Ok a /\
    seg_prefixb (segs (abspath cwd root_arg)) (segs a) = true /\
    real example_links 10 [] (segs (abspath cwd root_arg)) = Some (segs (abspath cwd root_arg)) /\
    real example_links 10 [] (segs a) = Some [s2l "t"; s2l "outside"; s2l "secret.txt"] /\
    seg_prefixb (segs (abspath cwd root_arg)) [s2l "t"; s2l "outside"; s2l "secret.txt"] = false /\
    resolve guard_rstrip_sep true cwd root_arg (s2l "link/../in.txt") = Ok (s2l "/t/root/in.txt").
Proof. exact symlink_inside_root_leaves_refuted. Qed.

(** Drive letters, UNC prefixes, NUL, '..' after a component that does not exist: ordinary characters / purely lexical for
    posixpath.  The theorems above quantify over all strings; these are computed instances (root /t/root, cwd /w, after
    the backslash conversion every method applies). *)
Theorem c18_foreign_syntax_examples :
  verdict_of (s2l "C:\Windows\win.ini") = Ok (s2l "/t/root/C:/Windows/win.ini") /\
  verdict_of (s2l "C:\..\..\secret.txt") = Escape /\
  verdict_of (s2l "C:/../in.txt") = Ok (s2l "/t/root/in.txt") /\
  verdict_of (s2l "\\server\share\x") = Escape /\
  verdict_of (s2l "\\?\C:\x") = Escape /\
  verdict_of (s2l "//t/root/in.txt") = Escape /\
  verdict_of (s2l "///t/root/in.txt") = Ok (s2l "/t/root/in.txt") /\
  verdict_of (s2l "nope/../../secret.txt") = Escape /\
  verdict_of (s2l "nope/../in.txt") = Ok (s2l "/t/root/in.txt") /\
  verdict_of (s2l "a" ++ [0%N] ++ s2l "/../../secret.txt")%list = Escape /\
  verdict_of (s2l "in.txt" ++ [0%N] ++ s2l "/../..")%list = Escape /\
  verdict_of (s2l "a" ++ [0%N] ++ s2l "b")%list = Ok (s2l "/t/root/a" ++ [0%N] ++ s2l "b")%list.
Proof. exact foreign_syntax_examples. Qed.
