(** C09 — copies of map objects are complete and independent of their source; operators that produce a new
    value leave their operands unchanged.  Only statements here; proofs are in SM/StoreProofs.v,
    SM/StoreCertProofs.v, SM/StoreCopyProofs.v, SM/StoreExamples.v, SM/KvAddProofs.v.
    The census objects come from Gen/CopyCensus_gen.v (regenerated from vmf.py / keyvalues.py on every run);
    the check discharges [copy_fresh_mutables census_X = true] and [copy_covers_fields census_X = true]
    per class as instance obligations, and [export_ok ... = true] for heaps exported from real objects. *)
From Coq Require Import List PArith ZArith Bool.
From SV Require Import SM.Store SM.StoreProofs SM.StoreCert SM.StoreCertProofs SM.StoreCopy SM.StoreCopyProofs
  SM.StoreExamples SM.KvAdd SM.KvAddProofs Gen.CopyCensus_gen.
Import ListNotations.

(** FRAME THEOREM.  If no mutable location is reachable both from [a] and from the roots [R] a mutator
    holds, then after EVERY sequence of in-place stores and allocations performed through those roots,
    everything reachable from [a] is untouched, the separation still holds, and ... *)
Theorem c09_frame_steps : forall ms h R h' R' a,
  closed h -> alloc h a -> roots_alloc h R -> sep h a R -> steps (h, R) ms (h', R') ->
  (forall l, reach h a l -> h' l = h l) /\ sep h' a R' /\ closed h' /\ roots_alloc h' R'.
Proof. exact frame_steps. Qed.

(** ... the observation (unfolding to any depth = what export can see) of [a] is unchanged. *)
Theorem c09_frame_observation : forall ms h R h' R' a,
  closed h -> alloc h a -> roots_alloc h R -> sep h a R -> steps (h, R) ms (h', R') ->
  forall n, unfold n h' (VRef a) = unfold n h (VRef a).
Proof. exact frame_observation. Qed.

(** "And vice versa": separation is symmetric. *)
Theorem c09_separation_symmetric : forall h a b, sep h a [b] -> sep h b [a].
Proof. exact sep_sym. Qed.

(** The premise is necessary: one shared mutable node, one store through the other object, and the
    observation of the first changes. *)
Theorem c09_frame_needs_separation :
  exists h', steps (shared_heap, [2%positive]) [MStore 3%positive [VAtom 0%Z]] (h', [2%positive]) /\
             unfold 2 h' (VRef 1%positive) <> unfold 2 shared_heap (VRef 1%positive).
Proof. exact frame_needs_separation. Qed.

(** Kernel-checkable certificate: a finite heap exported from real objects (original [a], copy [b]) that
    passes [export_ok] is independent in both directions under every mutation history. *)
Theorem c09_export_ok_independent : forall l a b SA SB,
  export_ok l a b SA SB = true ->
  let h := hof (mk_heap l) in
  (forall ms h' R', steps (h, [b]) ms (h', R') -> forall n, unfold n h' (VRef a) = unfold n h (VRef a)) /\
  (forall ms h' R', steps (h, [a]) ms (h', R') -> forall n, unfold n h' (VRef b) = unfold n h (VRef b)).
Proof. exact export_ok_independent. Qed.

(** Copy census ⟹ independence: a copy built field by field as the census says (each field's kind and
    "how" having their heap meaning), with every field passing [field_fresh], is independent of its original
    under every mutation history, in both directions. *)
Theorem c09_census_copy_independent : forall (c : census) h h' la lc nd nd',
  closed h -> closed h' -> extends h h' -> h la = Some nd -> h lc = None -> h' lc = Some nd' ->
  copy_fresh_mutables c = true ->
  fields_rel h h' (ck c) (nfields nd) (nfields nd') ->
  (forall ms h'' R, steps (h', [lc]) ms (h'', R) -> forall n, unfold n h'' (VRef la) = unfold n h' (VRef la)) /\
  (forall ms h'' R, steps (h', [la]) ms (h'', R) -> forall n, unfold n h'' (VRef lc) = unfold n h' (VRef lc)).
Proof. exact census_copy_independent. Qed.

(** The nested-copy hypothesis ([HDeep] fields) is the conclusion of the same theorem one level down. *)
Theorem c09_census_copy_new_mut : forall (c : census) h h' la lc nd nd',
  closed h -> extends h h' -> h la = Some nd -> h lc = None -> h' lc = Some nd' ->
  copy_fresh_mutables c = true ->
  fields_rel h h' (ck c) (nfields nd) (nfields nd') ->
  new_mut h h' (VRef lc).
Proof. exact census_copy_new_mut. Qed.

(** The hypotheses of the census theorem are satisfiable (a two-field object copied share/deep). *)
Theorem c09_census_theorem_not_vacuous :
  let h := hof (mk_heap ex_l) in let h' := hof (mk_heap ex_l') in
  (forall ms h'' R, steps (h', [3%positive]) ms (h'', R) -> forall n, unfold n h'' (VRef 1%positive) = unfold n h' (VRef 1%positive)) /\
  (forall ms h'' R, steps (h', [1%positive]) ms (h'', R) -> forall n, unfold n h'' (VRef 3%positive) = unfold n h' (VRef 3%positive)).
Proof. exact census_copy_independent_applies. Qed.

(** A shared mutable field (what [field_fresh] rejects) really breaks the separation. *)
Theorem c09_shared_mutable_field_not_separated :
  let h' : heap := fun l => match l with
      | 1%positive => Some (Node true [VRef 3%positive]) | 2%positive => Some (Node true [VRef 3%positive])
      | 3%positive => Some (Node true [VAtom 255%Z]) | _ => None end in
  field_fresh KMut HShare = false /\ ~ sep h' 1%positive [2%positive].
Proof. exact shared_mutable_field_not_separated. Qed.

(** Completeness composes: a shared field is observed equal; a copy whose fields are observed equal is
    observed equal to its original at every depth. *)
Theorem c09_share_obs_eq : forall h h' v, closed h -> extends h h' -> val_alloc h v -> obs_eq h h' v v.
Proof. exact share_obs_eq. Qed.

Theorem c09_node_obs_eq : forall h h' a c nd nd',
  h a = Some nd -> h' c = Some nd' -> nmut nd' = nmut nd ->
  Forall2 (obs_eq h h') (nfields nd) (nfields nd') -> obs_eq h h' (VRef a) (VRef c).
Proof. exact node_obs_eq. Qed.

(** A field copy() never sets is observable as soon as the original differs from the default. *)
Theorem c09_missing_field_observable :
  let h : heap := fun l => match l with 1%positive => Some (Node true [VAtom 5%Z]) | _ => None end in
  let h' : heap := fun l => match l with 1%positive => Some (Node true [VAtom 5%Z])
                                    | 2%positive => Some (Node true [VAtom 0%Z]) | _ => None end in
  extends h h' /\ how_sem HMissing h h' (VAtom 5%Z) (VAtom 0%Z) /\ ~ obs_eq h h' (VRef 1%positive) (VRef 2%positive).
Proof. exact missing_field_observable. Qed.

(** The census booleans mean what they say, for every class of the generated table at once. *)
Definition all_fresh : bool := forallb (fun p => copy_fresh_mutables (snd p)) all_census.
Definition all_covered : bool := forallb (fun p => copy_covers_fields (snd p)) all_census.

Theorem c09_all_classes_fresh : all_fresh = true ->
  forall cls c f k w, In (cls, c) all_census -> In (f, k, w) c -> field_fresh k w = true.
Proof.
  unfold all_fresh. rewrite forallb_forall. intros H cls c f k w Hc Hf.
  exact (fresh_all_fields c (H _ Hc) f k w Hf).
Qed.

Theorem c09_all_classes_covered : all_covered = true ->
  forall cls c f k w, In (cls, c) all_census -> In (f, k, w) c -> w <> HMissing.
Proof.
  unfold all_covered. rewrite forallb_forall. intros H cls c f k w Hc Hf.
  exact (covers_all_fields c (H _ Hc) f k w Hf).
Qed.

(** Keyvalues '+': pure and complete exactly when every append goes to the copy and the copy is returned
    (receivers read from keyvalues.py); '+=' extends self. *)
Theorem c09_kv_add_pure : forall (A : Type) r1 r2 ret,
  recv_is_copy r1 && recv_is_copy r2 && recv_is_copy ret = true ->
  forall single (self other : list A), kv_add r1 r2 ret single self other = (self, (self ++ other)%list).
Proof. exact @kv_add_pure. Qed.

Theorem c09_kv_add_self_receiver_refuted : kv_add RCopy RSelf RCopy false [1%nat] [2%nat] = ([1%nat; 2%nat], [1%nat]).
Proof. exact kv_add_self_receiver_refuted. Qed.

Theorem c09_kv_iadd_extends_self : forall (A : Type) r1 r2,
  negb (recv_is_copy r1) && negb (recv_is_copy r2) = true ->
  forall single (self other : list A), kv_iadd r1 r2 single self other = (self ++ other)%list.
Proof. exact @kv_iadd_extends_self. Qed.
