(** C09 — copies of map objects are complete and independent of their source; operators that produce a new
    value leave their operands unchanged.  Only statements here; proofs are in SM/StoreProofs.v,
    SM/StoreCertProofs.v, SM/StoreCopyProofs.v, SM/StoreExamples.v, SM/KvAddProofs.v.
    The census objects come from Gen/CopyCensus_gen.v (regenerated from vmf.py / keyvalues.py on every run);
    the check discharges [copy_fresh_mutables census_X = true] and [copy_covers_fields census_X = true]
    per class as instance obligations, and [export_ok ... = true] for heaps exported from real objects. *)
From Coq Require Import List PArith ZArith Bool String FMapPositive.
From SV Require Import SM.Store SM.StoreProofs SM.StoreCert SM.StoreCertProofs SM.StoreCopy SM.StoreCopyProofs
  SM.StoreExamples SM.KvAdd SM.KvAddProofs SM.StoreCopySrc SM.StoreCopySrcProofs SM.KvAddFresh SM.KvAddFreshProofs
  SM.StoreCopyExport SM.StoreCopyExportProofs SM.StoreCopyFlow SM.StoreCopyFlowProofs SM.StoreCopyWholeProofs SM.StoreRowCert SM.StoreRowCertProofs SM.StoreExportCert SM.StoreExportCertProofs SM.StoreTypedLabels SM.StoreTypedLabelsProofs SM.StoreCondRow SM.StoreCondRowProofs SM.StorePickleState SM.StorePickleStateProofs SM.StorePickleShort SM.StorePickleShortProofs SM.OpPurity SM.OpPurityProofs SM.CollapseCensus SM.CollapseCensusProofs SM.InstanceFromEntity
  Gen.CopyCensus_gen Gen.CopyExportReads_gen Gen.C09OpCensus_gen Gen.C09Collapse_gen.
Import ListNotations.

(** FRAME THEOREM.  If no mutable location is reachable both from [a] and from the roots [R] a mutator
    holds, then after EVERY sequence of in-place stores and allocations performed through those roots,
    everything reachable from [a] is untouched, the separation still holds, and ... *)
Theorem c09_frame_steps : forall ms h R h' R' a,
  closed h -> alloc h a -> roots_alloc h R -> sep h a R -> steps (h, R) ms (h', R') ->
  (forall l, reach h a l -> h' l = h l) /\ sep h' a R' /\ closed h' /\ roots_alloc h' R'.
Proof. exact frame_steps. Qed.

(** ... the observation (unfolding to any depth = what export can see) of [a] is unchanged. *)
Theorem c09_frame_observation : forall ms h R h' R' a,
  closed h -> alloc h a -> roots_alloc h R -> sep h a R -> steps (h, R) ms (h', R') ->
  forall n, unfold n h' (VRef a) = unfold n h (VRef a).
Proof. exact frame_observation. Qed.

(** "And vice versa": separation is symmetric. *)
Theorem c09_separation_symmetric : forall h a b, sep h a [b] -> sep h b [a].
Proof. exact sep_sym. Qed.

(** The premise is necessary: one shared mutable node, one store through the other object, and the
    observation of the first changes. *)
Theorem c09_frame_needs_separation :
  exists h', steps (shared_heap, [2%positive]) [MStore 3%positive [VAtom 0%Z]] (h', [2%positive]) /\
             unfold 2 h' (VRef 1%positive) <> unfold 2 shared_heap (VRef 1%positive).
Proof. exact frame_needs_separation. Qed.

(** Kernel-checkable certificate: a finite heap exported from real objects (original [a], copy [b]) that
    passes [export_ok] is independent in both directions under every mutation history. *)
Theorem c09_export_ok_independent : forall l a b SA SB,
  export_ok l a b SA SB = true ->
  let h := hof (mk_heap l) in
  (forall ms h' R', steps (h, [b]) ms (h', R') -> forall n, unfold n h' (VRef a) = unfold n h (VRef a)) /\
  (forall ms h' R', steps (h, [a]) ms (h', R') -> forall n, unfold n h' (VRef b) = unfold n h (VRef b)).
Proof. exact export_ok_independent. Qed.

(** Copy census ⟹ independence: a copy built field by field as the census says (each field's kind and
    "how" having their heap meaning), with every field passing [field_fresh], is independent of its original
    under every mutation history, in both directions. *)
Theorem c09_census_copy_independent : forall (c : census) h h' la lc nd nd',
  closed h -> closed h' -> extends h h' -> h la = Some nd -> h lc = None -> h' lc = Some nd' ->
  copy_fresh_mutables c = true ->
  fields_rel h h' (ck c) (nfields nd) (nfields nd') ->
  (forall ms h'' R, steps (h', [lc]) ms (h'', R) -> forall n, unfold n h'' (VRef la) = unfold n h' (VRef la)) /\
  (forall ms h'' R, steps (h', [la]) ms (h'', R) -> forall n, unfold n h'' (VRef lc) = unfold n h' (VRef lc)).
Proof. exact census_copy_independent. Qed.

(** The nested-copy hypothesis ([HDeep] fields) is the conclusion of the same theorem one level down. *)
Theorem c09_census_copy_new_mut : forall (c : census) h h' la lc nd nd',
  closed h -> extends h h' -> h la = Some nd -> h lc = None -> h' lc = Some nd' ->
  copy_fresh_mutables c = true ->
  fields_rel h h' (ck c) (nfields nd) (nfields nd') ->
  new_mut h h' (VRef lc).
Proof. exact census_copy_new_mut. Qed.

(** The hypotheses of the census theorem are satisfiable (a two-field object copied share/deep). *)
Theorem c09_census_theorem_not_vacuous :
  let h := hof (mk_heap ex_l) in let h' := hof (mk_heap ex_l') in
  (forall ms h'' R, steps (h', [3%positive]) ms (h'', R) -> forall n, unfold n h'' (VRef 1%positive) = unfold n h' (VRef 1%positive)) /\
  (forall ms h'' R, steps (h', [1%positive]) ms (h'', R) -> forall n, unfold n h'' (VRef 3%positive) = unfold n h' (VRef 3%positive)).
Proof. exact census_copy_independent_applies. Qed.

(** A shared mutable field (what [field_fresh] rejects) really breaks the separation. *)
Theorem c09_shared_mutable_field_not_separated :
  let h' : heap := fun l => match l with
      | 1%positive => Some (Node true [VRef 3%positive]) | 2%positive => Some (Node true [VRef 3%positive])
      | 3%positive => Some (Node true [VAtom 255%Z]) | _ => None end in
  field_fresh KMut HShare = false /\ ~ sep h' 1%positive [2%positive].
Proof. exact shared_mutable_field_not_separated. Qed.

(** Completeness composes: a shared field is observed equal; a copy whose fields are observed equal is
    observed equal to its original at every depth. *)
Theorem c09_share_obs_eq : forall h h' v, closed h -> extends h h' -> val_alloc h v -> obs_eq h h' v v.
Proof. exact share_obs_eq. Qed.

Theorem c09_node_obs_eq : forall h h' a c nd nd',
  h a = Some nd -> h' c = Some nd' -> nmut nd' = nmut nd ->
  Forall2 (obs_eq h h') (nfields nd) (nfields nd') -> obs_eq h h' (VRef a) (VRef c).
Proof. exact node_obs_eq. Qed.

(** A field copy() never sets is observable as soon as the original differs from the default. *)
Theorem c09_missing_field_observable :
  let h : heap := fun l => match l with 1%positive => Some (Node true [VAtom 5%Z]) | _ => None end in
  let h' : heap := fun l => match l with 1%positive => Some (Node true [VAtom 5%Z])
                                    | 2%positive => Some (Node true [VAtom 0%Z]) | _ => None end in
  extends h h' /\ how_sem HMissing h h' (VAtom 5%Z) (VAtom 0%Z) /\ ~ obs_eq h h' (VRef 1%positive) (VRef 2%positive).
Proof. exact missing_field_observable. Qed.

(** The census booleans mean what they say, for every class of the generated table at once. *)
Definition all_fresh : bool := forallb (fun p => copy_fresh_mutables (snd p)) all_census.
Definition all_covered : bool := forallb (fun p => copy_covers_fields (snd p)) all_census.

Theorem c09_all_classes_fresh : all_fresh = true ->
  forall cls c f k w, In (cls, c) all_census -> In (f, k, w) c -> field_fresh k w = true.
Proof.
  unfold all_fresh. rewrite forallb_forall. intros H cls c f k w Hc Hf.
  exact (fresh_all_fields c (H _ Hc) f k w Hf).
Qed.

Theorem c09_all_classes_covered : all_covered = true ->
  forall cls c f k w, In (cls, c) all_census -> In (f, k, w) c -> w <> HMissing.
Proof.
  unfold all_covered. rewrite forallb_forall. intros H cls c f k w Hc Hf.
  exact (covers_all_fields c (H _ Hc) f k w Hf).
Qed.

(** Keyvalues '+': pure and complete exactly when every append goes to the copy and the copy is returned
    (receivers read from keyvalues.py); '+=' extends self. *)
Theorem c09_kv_add_pure : forall (A : Type) r1 r2 ret,
  recv_is_copy r1 && recv_is_copy r2 && recv_is_copy ret = true ->
  forall single (self other : list A), kv_add r1 r2 ret single self other = (self, (self ++ other)%list).
Proof. exact @kv_add_pure. Qed.

Theorem c09_kv_add_self_receiver_refuted : kv_add RCopy RSelf RCopy false [1%nat] [2%nat] = ([1%nat; 2%nat], [1%nat]).
Proof. exact kv_add_self_receiver_refuted. Qed.

Theorem c09_kv_iadd_extends_self : forall (A : Type) r1 r2,
  negb (recv_is_copy r1) && negb (recv_is_copy r2) = true ->
  forall single (self other : list A), kv_iadd r1 r2 single self other = (self ++ other)%list.
Proof. exact @kv_iadd_extends_self. Qed.

(** ROUND 2 — census with SOURCES.  The generated table also records from which fields of the original each
    field of the copy is built ([sources_X]); [copy_sources_match] (instance obligation per class) demands that
    every field that carries the original's value is built from exactly its own field.  Then the positional
    relation [fields_rel_src] (field i of the copy comes from field [src i] of the original) is the field-by-field
    relation of the round-1 theorems, and independence follows as before. *)
Theorem c09_sources_fields_rel : forall h h' (c : census) (s : srcmap) orig vs',
  copy_sources_match c s = true -> kinds_rel h c orig ->
  fields_rel_src h h' orig (resolve c s) vs' -> fields_rel h h' (ck c) orig vs'.
Proof. exact sources_fields_rel. Qed.

Theorem c09_census_src_copy_independent : forall (c : census) (s : srcmap) h h' la lc nd nd',
  closed h -> closed h' -> extends h h' -> h la = Some nd -> h lc = None -> h' lc = Some nd' ->
  copy_fresh_mutables c = true -> copy_sources_match c s = true ->
  kinds_rel h c (nfields nd) ->
  fields_rel_src h h' (nfields nd) (resolve c s) (nfields nd') ->
  (forall ms h'' R, steps (h', [lc]) ms (h'', R) -> forall n, unfold n h'' (VRef la) = unfold n h' (VRef la)) /\
  (forall ms h'' R, steps (h', [la]) ms (h'', R) -> forall n, unfold n h'' (VRef lc) = unfold n h' (VRef lc)).
Proof. exact census_src_copy_independent. Qed.

(** Without the source check a census can be fresh and covered and the copy still observably wrong
    (the shape of the seeded fault [multi_alpha=vert.multi_blend]). *)
Theorem c09_wrong_source_observable_refuted :
  copy_fresh_mutables ws_census = true /\ copy_covers_fields ws_census = true /\
  copy_sources_match ws_census ws_sources = false /\ wrong_source ws_census ws_sources = ["multi_alpha"%string] /\
  fields_rel_src ws_h ws_h' [VAtom 5%Z; VAtom 7%Z] (resolve ws_census ws_sources) [VAtom 5%Z; VAtom 5%Z] /\
  ~ obs_eq ws_h ws_h' (VRef 1%positive) (VRef 2%positive).
Proof. exact wrong_source_observable. Qed.

Definition all_sources_match : bool :=
  forallb (fun p => match find (fun q => String.eqb (fst q) (fst p)) all_sources with
                    | Some q => copy_sources_match (snd p) (snd q) | None => false end) all_census.

(** Keyvalues '+' / '+=': with copies appended in BOTH branches (flags read from keyvalues.py, one per append
    site) the result is complete, the left operand unchanged, and no child of the right operand is in the
    result; '+=' likewise. *)
Theorem c09_kv_add_ids_fresh : forall (A : Type) (cp : A -> A) r1 r2 ret cs ci,
  recv_is_copy r1 && recv_is_copy r2 && recv_is_copy ret = true -> cs && ci = true ->
  forall single (self other : list A),
    kv_add_ids cp r1 r2 ret cs ci single self other = (self, (self ++ map cp other)%list) /\
    ((forall x y, In y other -> cp x <> y) -> forall x, In x (map cp other) -> ~ In x other).
Proof. exact @kv_add_ids_fresh. Qed.

Theorem c09_kv_iadd_ids_fresh : forall (A : Type) (cp : A -> A) r1 r2 cs ci,
  negb (recv_is_copy r1) && negb (recv_is_copy r2) = true -> cs && ci = true ->
  forall single (self other : list A), kv_iadd_ids cp r1 r2 cs ci single self other = (self ++ map cp other)%list.
Proof. exact @kv_iadd_ids_fresh. Qed.

Theorem c09_kv_add_single_branch_shares_refuted :
  kv_add_ids (fun x => (x + 100)%nat) RCopy RCopy RCopy false true true [1%nat] [7%nat] = ([1%nat], [1%nat; 7%nat]) /\
  kv_add_ids (fun x => (x + 100)%nat) RCopy RCopy RCopy false true false [1%nat] [7%nat] = ([1%nat], [1%nat; 107%nat]).
Proof. exact kv_add_single_branch_shares_refuted. Qed.

(** ROUND 2 — COMPLETENESS AS EXPORT EQUALITY.  [export_reads_X] (Gen/CopyExportReads_gen.v) = the data fields the
    export of class X reads; the observation is the unfolding with unread / ID / context positions masked.  If
    every observed field of the census passes [copy_export_ok] (carried over, from its own field) and the copy's
    fields are related to the original's as the census says — shared, fresh container of the same elements, or a
    nested copy that itself exports equally (this theorem one level down) — the copy exports like the original. *)
Theorem c09_copy_export_equal : forall (mk : loc -> list bool) (c : census) (s : srcmap) (reads : list string)
    h h' la lc nd nd',
  closed h -> extends h h' -> h la = Some nd -> h' lc = Some nd' -> nmut nd' = nmut nd ->
  mk la = obs_mask c reads -> mk lc = obs_mask c reads ->
  List.length (nfields nd) = List.length c ->
  copy_export_ok c s reads = true ->
  fields_rel_c mk h h' (nfields nd) (eresolve c s reads) (nfields nd') ->
  mobs_eq mk h h' (VRef la) (VRef lc).
Proof. exact copy_export_equal. Qed.

(** ... hence every export function that depends only on the observation yields the same text. *)
Theorem c09_copy_export_text_equal : forall (T : Type) (mk : loc -> list bool) (E : tree -> T)
    (c : census) (s : srcmap) (reads : list string) h h' la lc nd nd',
  closed h -> extends h h' -> h la = Some nd -> h' lc = Some nd' -> nmut nd' = nmut nd ->
  mk la = obs_mask c reads -> mk lc = obs_mask c reads ->
  List.length (nfields nd) = List.length c ->
  copy_export_ok c s reads = true ->
  fields_rel_c mk h h' (nfields nd) (eresolve c s reads) (nfields nd') ->
  forall n, E (munfold mk n h' (VRef lc)) = E (munfold mk n h (VRef la)).
Proof. exact copy_export_text_equal. Qed.

(** All classes at once: every census of the generated table passes [copy_export_ok] against the export reads of its
    class (nested copies — the [HDeep] hypotheses of [c09_copy_export_equal] — are censuses of the same table). *)
Definition lookup {A} (k : string) (l : list (string * A)) : option A :=
  option_map snd (find (fun q => String.eqb (fst q) k) l).
Definition all_export_ok : bool :=
  forallb (fun p => match lookup (fst p) all_sources, lookup (fst p) class_of_label with
                    | Some s, Some cls => match lookup cls all_export_reads with
                                          | Some reads => copy_export_ok (snd p) s reads && reads_are_fields (snd p) reads
                                          | None => false end
                    | _, _ => false end) all_census.

Theorem c09_all_classes_export_ok : all_export_ok = true ->
  forall label c, In (label, c) all_census ->
  exists s cls reads, lookup label all_sources = Some s /\ lookup label class_of_label = Some cls /\
                      lookup cls all_export_reads = Some reads /\ copy_export_ok c s reads = true.
Proof.
  unfold all_export_ok. rewrite forallb_forall. intros H label c Hin. specialize (H _ Hin). cbn [fst snd] in H.
  destruct (lookup label all_sources) as [s|] eqn:E1; [|discriminate].
  destruct (lookup label class_of_label) as [cls|] eqn:E2; [|discriminate].
  destruct (lookup cls all_export_reads) as [reads|] eqn:E3; [|discriminate].
  apply andb_true_iff in H. destruct H as [H _]. exists s, cls, reads. repeat split; assumption.
Qed.

Theorem c09_copy_export_equal_not_vacuous :
  copy_export_ok ex_census ex_src_good ex_reads = true /\
  mobs_eq ex_mk ex_h (ex_h' 7%Z) (VRef 1%positive) (VRef 2%positive).
Proof. exact copy_export_equal_applies. Qed.

Theorem c09_copy_export_wrong_source_refuted :
  copy_export_ok ex_census ex_src_bad ex_reads = false /\
  export_broken ex_census ex_src_bad ex_reads = ["alpha"%string] /\
  ~ mobs_eq ex_mk ex_h (ex_h' 5%Z) (VRef 1%positive) (VRef 2%positive).
Proof. exact copy_export_wrong_source_refuted. Qed.

(** ROUND 2 — OPERATOR PURITY (Vec / Angle / Matrix).  [op_census_X] (Gen/C09OpCensus_gen.v) lists for every operator
    method, as inherited by each concrete class, the origins of the objects it may write and return.  A run of a
    method none of whose stores is tagged with an operand origin leaves EVERY pre-existing object observed unchanged
    (both operands in particular) and returns only objects that did not exist before; a run of an in-place operator
    leaves everything separated from the receiver unchanged. *)
Theorem c09_pure_op_frame : forall slf ps h tr h' F',
  closed h -> trun slf ps (h, []) tr (h', F') ->
  (forall o, In o (map snd tr) -> is_operand o = false) ->
  (forall a, alloc h a -> forall n, unfold n h' (VRef a) = unfold n h (VRef a)) /\
  (forall r, In r F' -> h r = None).
Proof. exact pure_op_frame. Qed.

Theorem c09_inplace_op_frame : forall slf ps h tr h' F',
  closed h -> alloc h slf -> trun slf ps (h, []) tr (h', F') ->
  (forall o, In o (map snd tr) -> o = OSelf \/ is_operand o = false) ->
  forall b, alloc h b -> sep h b [slf] -> forall n, unfold n h' (VRef b) = unfold n h (VRef b).
Proof. exact inplace_op_frame. Qed.

(** The same, from a census row: [row_writes_ok] + "the row lists every origin a run can write". *)
Theorem c09_census_pure_op_frame : forall (r : oprow) slf ps h tr h' F',
  op_kind r = OpPure -> row_writes_ok r = true ->
  (forall o, In o (map snd tr) -> In o (op_writes r)) ->
  closed h -> trun slf ps (h, []) tr (h', F') ->
  (forall a, alloc h a -> forall n, unfold n h' (VRef a) = unfold n h (VRef a)) /\
  (forall x, In x F' -> h x = None).
Proof. exact census_pure_op_frame. Qed.

Theorem c09_census_inplace_op_frame : forall (r : oprow) slf ps h tr h' F',
  op_kind r = OpInplace -> row_writes_ok r = true ->
  (forall o, In o (map snd tr) -> In o (op_writes r)) ->
  closed h -> alloc h slf -> trun slf ps (h, []) tr (h', F') ->
  forall b, alloc h b -> sep h b [slf] -> forall n, unfold n h' (VRef b) = unfold n h (VRef b).
Proof. exact census_inplace_op_frame. Qed.

(** Every pure-operator row of the generated census passes, for all three families at once. *)
Theorem c09_all_ops_pure : ops_store_nothing_to_operands op_census_all = true ->
  forall r, In r op_census_all -> op_kind r = OpPure -> forall o, In o (op_writes r) -> is_operand o = false.
Proof.
  unfold ops_store_nothing_to_operands. rewrite forallb_forall. intros H r Hr Hk.
  apply writes_ok_pure; [exact Hk|]. apply H. apply filter_In. split; [exact Hr|]. rewrite Hk. reflexivity.
Qed.

(** What the census rejects is a real change of an operand. *)
Theorem c09_operand_write_observable_refuted :
  row_writes_ok (mkop "Vec.__add__" OpPure true [OParam] [OParam]) = false /\
  exists h', trun 1%positive [2%positive] (op_h, []) [(MStore 2%positive [VAtom 3%Z], OParam)] (h', []) /\
             unfold 1 h' (VRef 2%positive) <> unfold 1 op_h (VRef 2%positive).
Proof. exact operand_write_observable. Qed.

(** ROUND 2 — INSTANCING.  [collapse_writes] / [collapse_enters] / [collapse_copies] (Gen/C09Collapse_gen.v) classify
    every store, every value entering a non-local object and every copy in instancing.collapse_one.  A run whose
    stores and stored values are never tagged [CTemplate] leaves a template that shared no mutable object with the
    target beforehand observed unchanged, at every depth (collapse_one is an in-place operator on the target with the
    template as a read-only operand; the copies it makes are fresh by the copy census of VisGroup, Solid, Entity). *)
Theorem c09_collapse_template_frame : forall tgt tmpl h tr h' F',
  closed h -> alloc h tgt -> alloc h tmpl -> sep h tmpl [tgt] ->
  crun tgt tmpl (h, []) tr (h', F') -> forallb event_clean tr = true ->
  forall n, unfold n h' (VRef tmpl) = unfold n h (VRef tmpl).
Proof. exact collapse_template_frame. Qed.

Theorem c09_census_collapse_template_frame : forall (W E : list (string * corigin)) tgt tmpl h tr h' F',
  collapse_never_writes_template W = true -> collapse_only_copies_enter E = true ->
  (forall e, In e tr -> (exists s, In (s, snd (fst e)) W) /\ forall vo, In vo (snd e) -> exists s, In (s, vo) E) ->
  closed h -> alloc h tgt -> alloc h tmpl -> sep h tmpl [tgt] ->
  crun tgt tmpl (h, []) tr (h', F') ->
  forall n, unfold n h' (VRef tmpl) = unfold n h (VRef tmpl).
Proof. exact census_collapse_template_frame. Qed.

Theorem c09_collapse_template_write_refuted :
  collapse_never_writes_template [("old_brush.localise(...)"%string, CTemplate)] = false /\
  exists h', crun 1%positive 2%positive (cl_h, []) [(MStore 2%positive [VAtom 128%Z], CTemplate, [CScalar])] (h', []) /\
             unfold 1 h' (VRef 2%positive) <> unfold 1 cl_h (VRef 2%positive).
Proof. exact collapse_template_write_observable. Qed.

Theorem c09_collapse_template_enter_refuted :
  collapse_only_copies_enter [("old_brush -> vmf.add_brush"%string, CTemplate)] = false /\
  exists h1 h2,
    crun 1%positive 2%positive (cl_h, []) [(MStore 1%positive [VRef 2%positive], CTarget, [CTemplate])] (h1, []) /\
    steps (h1, [1%positive]) [MStore 2%positive [VAtom 128%Z]] (h2, [1%positive]) /\
    unfold 1 h2 (VRef 2%positive) <> unfold 1 cl_h (VRef 2%positive).
Proof. exact collapse_template_enter_observable. Qed.

(** ROUND 3 — ARGUMENT FLOWS THROUGH THE CONSTRUCTOR.  [flows_X] (Gen/CopyCensus_gen.v): for every field of the copy, how
    the original's fields flow into it through the constructor SPECIALISED to the call copy() makes (defaults of the
    parameters not given, the constructor's conditionals partially evaluated, properties of the source class inlined).
    [copy_args_lossless] (instance obligation per class): a field that is carried over is fed by its own field and by
    nothing else, through value-preserving steps only; a field that is not carried over is not computed from the
    original at all. *)
Theorem c09_derived_field_complete_iff : forall g : Z -> Z,
  (forall z, field_complete g z) <-> (forall z, g z = z).
Proof. exact derived_field_complete_iff. Qed.

Theorem c09_args_lossless_rows : forall c fl, copy_args_lossless c fl = true ->
  forall f k w, In (f, k, w) c -> needs_source w = true ->
  (forall g m, In (g, m) (flows_of fl f) -> g = f /\ flow_harmless_for k m = true) /\
  (exists g m, In (g, m) (flows_of fl f) /\ flow_carries m = true).
Proof. exact lossless_rows. Qed.

(** For an immutable scalar field (str / int / float / bool: [KImm]) the admitted flow modes are complete for EVERY
    value of the original, the falsy ones included ([p or default] is not admitted there). *)
Theorem c09_imm_flow_complete : forall m d g z,
  flow_harmless_for KImm m = true -> field_complete (flow_fun m d g) z.
Proof. exact imm_flow_complete. Qed.

Theorem c09_args_lossless_missing_reads_nothing : forall c fl, copy_args_lossless c fl = true ->
  forall f k, In (f, k, HMissing) c -> flows_of fl f = [].
Proof. exact lossless_missing_reads_nothing. Qed.

(** Every admitted flow mode is complete on every truthy value, whatever a lossy path would compute ... *)
Theorem c09_harmless_flow_complete : forall m d g z,
  flow_harmless m = true -> z <> 0%Z -> field_complete (flow_fun m d g) z.
Proof. exact harmless_flow_complete. Qed.

(** ... and [p or default] exactly on those (or when the default is the falsy value itself). *)
Theorem c09_or_default_complete_iff : forall d g z,
  field_complete (flow_fun FOrDefault d g) z <-> (z <> 0%Z \/ d = 0%Z).
Proof. exact flow_ordefault_complete_iff. Qed.

Theorem c09_or_default_falsy_observable_refuted : forall d g, d <> 0%Z -> ~ field_complete (flow_fun FOrDefault d g) 0%Z.
Proof. exact or_default_falsy_observable. Qed.

(** The flow census refines the round-2 source census: lossless flows induce matching sources, so the round-2
    theorems ([c09_sources_fields_rel], [c09_census_src_copy_independent]) apply to the induced source map. *)
Theorem c09_args_lossless_sources_match : forall c fl,
  copy_args_lossless c fl = true -> nodupb (names c) = true -> copy_sources_match c (flow_sources fl) = true.
Proof. exact lossless_sources_match. Qed.

(** The shape of seeded fault c09_4 ([Output(..., only_once=self.only_once)]): rejected, the field named, really lossy
    (times = 3 comes back as -1) and invisible on the two values Hammer writes (1 and -1). *)
Theorem c09_only_once_argument_lossy_refuted :
  copy_args_lossless oo_census oo_flows = false /\ lossy_fields oo_census oo_flows = ["times"%string] /\
  copy_args_lossless oo_census_claims_share oo_flows = false /\
  copy_args_lossless oo_census_claims_share oo_flows_good = true /\
  field_complete once_fn 1%Z /\ field_complete once_fn (-1)%Z /\ ~ field_complete once_fn 3%Z.
Proof. exact only_once_argument_lossy. Qed.

Definition all_args_lossless : bool :=
  forallb (fun p => match lookup (fst p) all_flows with
                    | Some fl => copy_args_lossless (snd p) fl
                    | None => false end) all_census.

Theorem c09_all_classes_args_lossless : all_args_lossless = true ->
  forall label c, In (label, c) all_census ->
  exists fl, lookup label all_flows = Some fl /\ copy_args_lossless c fl = true.
Proof.
  unfold all_args_lossless. rewrite forallb_forall. intros H label c Hin. specialize (H _ Hin). cbn [fst snd] in H.
  destruct (lookup label all_flows) as [fl|] eqn:E; [|discriminate]. exists fl. split; [reflexivity | exact H].
Qed.

(** ROUND 3 — THE WHOLE PROPERTY FOR ONE COPY METHOD, over the observation the property speaks of (the export =
    masked unfolding): the frame theorem holds for the masked observation too, and the three strands compose.
    If the census of a class is fresh, built from its own source fields and covers everything export reads, and the
    copy's fields are related to the original's as the census says, then
      (1) the copy exports like the original,
      (2) after EVERY mutation history through the copy the original still exports as before the copy was made,
      (3) after EVERY mutation history through the original the copy still exports like the original did when copied. *)
Theorem c09_frame_masked_observation : forall (mk : loc -> list bool) ms h R h' R' a,
  closed h -> alloc h a -> roots_alloc h R -> sep h a R -> steps (h, R) ms (h', R') ->
  forall n, munfold mk n h' (VRef a) = munfold mk n h (VRef a).
Proof. exact frame_masked_observation. Qed.

Theorem c09_copy_complete_and_independent :
  forall (mk : loc -> list bool) (c : census) (s : srcmap) (reads : list string) h h' la lc nd nd',
  closed h -> closed h' -> extends h h' -> h la = Some nd -> h lc = None -> h' lc = Some nd' ->
  nmut nd' = nmut nd -> mk la = obs_mask c reads -> mk lc = obs_mask c reads ->
  List.length (nfields nd) = List.length c ->
  copy_fresh_mutables c = true -> copy_sources_match c s = true -> copy_export_ok c s reads = true ->
  kinds_rel h c (nfields nd) ->
  fields_rel_src h h' (nfields nd) (resolve c s) (nfields nd') ->
  fields_rel_c mk h h' (nfields nd) (eresolve c s reads) (nfields nd') ->
  mobs_eq mk h h' (VRef la) (VRef lc) /\
  (forall ms h'' R, steps (h', [lc]) ms (h'', R) -> forall n, munfold mk n h'' (VRef la) = munfold mk n h (VRef la)) /\
  (forall ms h'' R, steps (h', [la]) ms (h'', R) -> forall n, munfold mk n h'' (VRef lc) = munfold mk n h (VRef la)).
Proof. exact copy_complete_and_independent. Qed.

Theorem c09_copy_complete_and_independent_not_vacuous :
  let h := ex_h in let h' := ex_h' 7%Z in
  mobs_eq ex_mk h h' (VRef 1%positive) (VRef 2%positive) /\
  (forall ms h'' R, steps (h', [2%positive]) ms (h'', R) ->
     forall n, munfold ex_mk n h'' (VRef 1%positive) = munfold ex_mk n h (VRef 1%positive)) /\
  (forall ms h'' R, steps (h', [1%positive]) ms (h'', R) ->
     forall n, munfold ex_mk n h'' (VRef 2%positive) = munfold ex_mk n h (VRef 1%positive)).
Proof. exact copy_complete_and_independent_applies. Qed.

(** Completeness does not imply independence: a copy sharing a mutable field passes the export and source checks,
    exports equally at copy time, fails [copy_fresh_mutables] — and one store through the copy changes the original. *)
Theorem c09_complete_but_shared_refuted :
  copy_export_ok sh_census sh_src sh_reads = true /\ copy_sources_match sh_census sh_src = true /\
  copy_fresh_mutables sh_census = false /\
  mobs_eq sh_mk sh_h sh_h' (VRef 1%positive) (VRef 2%positive) /\
  exists h'', steps (sh_h', [2%positive]) [MStore 3%positive [VAtom 0%Z]] (h'', [2%positive]) /\
              munfold sh_mk 2 h'' (VRef 1%positive) <> munfold sh_mk 2 sh_h (VRef 1%positive).
Proof. exact complete_but_shared_refuted. Qed.

(** ... for every copy method of the generated table at once: the three table-level booleans (each an instance
    obligation of the check) give, for every census, the whole statement above. *)
Theorem c09_all_classes_complete_and_independent :
  all_fresh = true -> all_sources_match = true -> all_export_ok = true ->
  forall label c, In (label, c) all_census ->
  exists s cls reads, lookup label all_sources = Some s /\ lookup label class_of_label = Some cls /\
    lookup cls all_export_reads = Some reads /\
    forall (mk : loc -> list bool) h h' la lc nd nd',
      closed h -> closed h' -> extends h h' -> h la = Some nd -> h lc = None -> h' lc = Some nd' ->
      nmut nd' = nmut nd -> mk la = obs_mask c reads -> mk lc = obs_mask c reads ->
      List.length (nfields nd) = List.length c ->
      kinds_rel h c (nfields nd) ->
      fields_rel_src h h' (nfields nd) (resolve c s) (nfields nd') ->
      fields_rel_c mk h h' (nfields nd) (eresolve c s reads) (nfields nd') ->
      mobs_eq mk h h' (VRef la) (VRef lc) /\
      (forall ms h'' R, steps (h', [lc]) ms (h'', R) -> forall n, munfold mk n h'' (VRef la) = munfold mk n h (VRef la)) /\
      (forall ms h'' R, steps (h', [la]) ms (h'', R) -> forall n, munfold mk n h'' (VRef lc) = munfold mk n h (VRef la)).
Proof.
  intros Hfr Hsm Hex label c Hin.
  destruct (c09_all_classes_export_ok Hex label c Hin) as (s & cls & reads & E1 & E2 & E3 & Hok).
  exists s, cls, reads. repeat (split; [assumption|]).
  assert (Hf : copy_fresh_mutables c = true).
  { unfold all_fresh in Hfr. rewrite forallb_forall in Hfr. exact (Hfr _ Hin). }
  assert (Hs : copy_sources_match c s = true).
  { unfold all_sources_match in Hsm. rewrite forallb_forall in Hsm. specialize (Hsm _ Hin). cbn [fst snd] in Hsm.
    unfold lookup in E1. destruct (find (fun q => String.eqb (fst q) label) all_sources) as [q|]; [|discriminate].
    cbn in E1. inversion E1; subst s. exact Hsm. }
  intros. eapply c09_copy_complete_and_independent; eauto.
Qed.

(** ROUND 3 — THE CENSUS ROWS HOLD ON REAL OBJECT GRAPHS (kernel-checked certificate).  The census theorems take as
    premise that the copy's fields are related to the original's as the rows say ([fields_rel_src]) and that the
    original's fields have the declared kinds ([kinds_rel]).  [row_cert_ok] DECIDES these premises on a finite heap
    exported from real srctools objects (original + copy, the original's part marked old) against the generated census
    and source tables; the check evaluates it in the kernel for generated objects of every census label.  An accepted
    heap satisfies every premise of [c09_census_src_copy_independent], hence its conclusion. *)
Theorem c09_row_cert_premises : forall l' old la lc SB c s,
  row_cert_ok l' old la lc SB c s = true ->
  let h' := hof (mk_heap l') in let h := hold (mk_heap l') (mk_set old) in
  closed h /\ closed h' /\ extends h h' /\
  exists nd nd', h la = Some nd /\ h lc = None /\ h' lc = Some nd' /\
                 kinds_rel h c (nfields nd) /\ fields_rel_src h h' (nfields nd) (resolve c s) (nfields nd').
Proof. exact row_cert_premises. Qed.

Theorem c09_row_cert_sound : forall l' old la lc SB c s,
  row_cert_ok l' old la lc SB c s = true ->
  copy_fresh_mutables c = true -> copy_sources_match c s = true ->
  let h' := hof (mk_heap l') in
  (forall ms h'' R, steps (h', [lc]) ms (h'', R) -> forall n, unfold n h'' (VRef la) = unfold n h' (VRef la)) /\
  (forall ms h'' R, steps (h', [la]) ms (h'', R) -> forall n, unfold n h'' (VRef lc) = unfold n h' (VRef lc)).
Proof. exact row_cert_sound. Qed.

(** The checker accepts a faithful two-field copy and rejects a copy that shares the vector / changes the number. *)
Theorem c09_row_cert_not_vacuous :
  row_cert_ok [(1, Node true [VAtom 5; VRef 3]); (3, Node true [VAtom 255]);
               (2, Node true [VAtom 5; VRef 4]); (4, Node true [VAtom 255])]%positive
              [1; 3]%positive 1%positive 2%positive [2; 4]%positive rc_census rc_sources = true /\
  row_cert_ok [(1, Node true [VAtom 5; VRef 3]); (3, Node true [VAtom 255]); (2, Node true [VAtom 5; VRef 3])]%positive
              [1; 3]%positive 1%positive 2%positive [2; 3]%positive rc_census rc_sources = false /\
  row_cert_ok [(1, Node true [VAtom 5; VRef 3]); (3, Node true [VAtom 255]);
               (2, Node true [VAtom 6; VRef 4]); (4, Node true [VAtom 255])]%positive
              [1; 3]%positive 1%positive 2%positive [2; 4]%positive rc_census rc_sources = false.
Proof. exact (conj row_cert_accepts (conj row_cert_rejects_shared row_cert_rejects_changed_value)). Qed.

(** ROUND 3 — THE COMPLETENESS PREMISES AND THE WHOLE PROPERTY ON REAL OBJECT GRAPHS (kernel-checked).  [mobs_eq] speaks
    about every depth; it is decided by comparing the masked unfoldings at one depth at which both have stabilised. *)
Theorem c09_mobs_eq_decided : forall (mk : loc -> list bool) N h h' v v',
  mobs_eq_b mk N h h' v v' = true -> mobs_eq mk h h' v v'.
Proof. exact mobs_eq_b_sound. Qed.

(** The export masks of the labelled nodes of an exported heap, COMPUTED IN THE KERNEL from the generated tables (the
    harness only says which census label each exported object has). *)
Definition masks_of_labels (labels : list (loc * string)) : list (loc * list bool) :=
  map (fun p => (fst p,
        match lookup (snd p) all_census, lookup (snd p) class_of_label with
        | Some c, Some cls => match lookup cls all_export_reads with Some r => obs_mask c r | None => [] end
        | _, _ => []
        end)) labels.

(** An accepted completeness certificate (heap exported from a real original + copy, export masks of every labelled
    node from the generated reads tables) + the census obligation ⟹ the real copy is observed equal at every depth. *)
Theorem c09_export_cert_sound : forall l' old la lc masks N c s reads,
  export_cert_ok l' old la lc masks N c s reads = true ->
  copy_export_ok c s reads = true ->
  mobs_eq (mk_of (mk_masks masks)) (hold (mk_heap l') (mk_set old)) (hof (mk_heap l')) (VRef la) (VRef lc).
Proof. exact export_cert_sound. Qed.

(** Both certificates on the same exported heap + the three census obligations of the class: THE WHOLE PROPERTY for
    that real (original, copy) pair — instance of [c09_copy_complete_and_independent] with every premise discharged
    inside the kernel. *)
Theorem c09_real_copy_complete_and_independent : forall l' old la lc SB masks N c s reads,
  row_cert_ok l' old la lc SB c s = true ->
  export_cert_ok l' old la lc masks N c s reads = true ->
  copy_fresh_mutables c = true -> copy_sources_match c s = true -> copy_export_ok c s reads = true ->
  let mk := mk_of (mk_masks masks) in let h' := hof (mk_heap l') in let h := hold (mk_heap l') (mk_set old) in
  mobs_eq mk h h' (VRef la) (VRef lc) /\
  (forall ms h'' R, steps (h', [lc]) ms (h'', R) -> forall n, munfold mk n h'' (VRef la) = munfold mk n h (VRef la)) /\
  (forall ms h'' R, steps (h', [la]) ms (h'', R) -> forall n, munfold mk n h'' (VRef lc) = munfold mk n h (VRef la)).
Proof. exact real_copy_complete_and_independent. Qed.

(** The completeness checker accepts a faithful copy (new id invisible), rejects a copy whose vector differs, and
    rejects (never wrongly accepts) a comparison depth at which the unfolding has not stabilised. *)
Theorem c09_export_cert_not_vacuous :
  let L v := [(1, Node true [VAtom 10; VAtom 5; VRef 3]); (3, Node true [VAtom 255]);
              (2, Node true [VAtom 11; VAtom 5; VRef 4]); (4, Node true [VAtom v])]%positive in
  let M := [(1%positive, obs_mask xc_census xc_reads); (2%positive, obs_mask xc_census xc_reads)] in
  export_cert_ok (L 255%Z) [1; 3]%positive 1%positive 2%positive M 4 xc_census xc_sources xc_reads = true /\
  export_cert_ok (L 128%Z) [1; 3]%positive 1%positive 2%positive M 4 xc_census xc_sources xc_reads = false /\
  export_cert_ok (L 255%Z) [1; 3]%positive 1%positive 2%positive M 0 xc_census xc_sources xc_reads = false.
Proof. cbv zeta. exact (conj export_cert_accepts (conj export_cert_rejects_changed_vector export_cert_rejects_unstable_depth)). Qed.

(** ROUND 4 — THE CENSUS LABEL OF EVERY EXPORTED NODE IS DERIVED AND VALIDATED IN THE KERNEL.  The harness reports per
    node only run-time facts: location, [type(o).__name__], the attribute names it read (in the order of the node's fields).
    The label is the first label of [class_of_label] whose class is that type name; the names must be the field names
    of that label's census, in census order, and the node must have that many fields. *)
Definition masks_of_typed (tns : list typed_node) : list (loc * list bool) :=
  masks_of_labels (labels_of_typed class_of_label tns).

Theorem c09_typed_nodes_checked : forall l' tns,
  typed_nodes_ok all_census class_of_label l' tns = true ->
  forall loc cls nms, In (loc, cls, nms) tns ->
  exists lab c nd, label_of_type class_of_label cls = Some lab /\ tlookup lab all_census = Some c /\
                   PositiveMap.find loc (mk_heap l') = Some nd /\
                   nms = names c /\ List.length (nfields nd) = List.length c.
Proof. exact (typed_nodes_ok_spec all_census class_of_label). Qed.

(** The label found for a type name is a label of that class. *)
Theorem c09_label_of_type_is_of_class : forall cls lab,
  label_of_type class_of_label cls = Some lab -> In (lab, cls) class_of_label.
Proof. exact (label_of_type_class class_of_label). Qed.

(** Instance obligation [census_labels_of_a_class_agree]: all labels of one class (EntityFixup_copy_values / _copy /
    _deepcopy, FixupValue_in_* ...) list the same fields with the same masked-ness, so each of them gives the export mask
    of the first label of the class — deriving the label from the type name alone loses nothing. *)
Theorem c09_labels_of_a_class_same_mask : forall lab cls c,
  labels_agree all_census class_of_label = true ->
  tlookup lab class_of_label = Some cls -> tlookup lab all_census = Some c ->
  exists l0 c0, label_of_type class_of_label cls = Some l0 /\ tlookup l0 all_census = Some c0 /\
                forall reads, obs_mask c reads = obs_mask c0 reads.
Proof. exact (labels_agree_same_mask all_census class_of_label). Qed.

(** Accepts the right names; rejects names in another order, an unknown type name, a node with another number of
    fields; two labels of one class that disagree are rejected by [labels_agree]. *)
Theorem c09_typed_labels_not_vacuous :
  labels_agree tl_all tl_col = true /\
  typed_nodes_ok tl_all tl_col tl_heap [(1%positive, "T"%string, ["id"%string; "pos"%string])] = true /\
  typed_nodes_ok tl_all tl_col tl_heap [(1%positive, "T"%string, ["pos"%string; "id"%string])] = false /\
  typed_nodes_ok tl_all tl_col tl_heap [(1%positive, "U"%string, ["id"%string; "pos"%string])] = false /\
  typed_nodes_ok tl_all tl_col tl_heap [(2%positive, "T"%string, ["id"%string; "pos"%string])] = false /\
  labels_agree [("T_copy"%string, tl_census_a); ("T_deepcopy"%string, tl_census_bad)] tl_col = false.
Proof. exact typed_labels_example. Qed.

(** ROUND 4 — CONDITIONAL ROWS.  A field that copy() builds by a conditional (`A if t else B`, `x and B`, `x or B`, an
    if/else storing the same field) gets the WEAKER of the two branch rows.  The joined row is fresh exactly when both
    branches are — so an accepted census is right whichever branch an input takes, and a rejected one has an input that
    takes a branch that is not fresh. *)
Theorem c09_cond_row_fresh_iff : forall k a b, how_carries a = true -> how_carries b = true ->
  field_fresh k (how_join a b) = field_fresh k a && field_fresh k b.
Proof. exact join_fresh. Qed.

Theorem c09_cond_row_sound : forall k a b, how_carries a = true -> how_carries b = true ->
  field_fresh k (how_join a b) = true -> forall t : bool, field_fresh k (if t then a else b) = true.
Proof. exact join_fresh_sound. Qed.

Theorem c09_cond_row_complete : forall k a b, how_carries a = true -> how_carries b = true ->
  field_fresh k (how_join a b) = false -> exists t : bool, field_fresh k (if t then a else b) = false.
Proof. exact join_fresh_complete. Qed.

(** Instance obligation [conditional_rows_are_joins] over the generated [cond_rows]: the translator's choice of the
    weaker branch is re-computed in the kernel against the generated census. *)
Theorem c09_cond_rows_checked : forall rows, cond_rows_ok all_census rows = true ->
  forall lab f a b, In (lab, f, a, b) rows ->
  exists c k, clookup lab all_census = Some c /\ In (f, k, how_join a b) c /\
              (field_fresh k (how_join a b) = true -> forall t : bool, field_fresh k (if t then a else b) = true).
Proof. exact (cond_rows_ok_spec all_census). Qed.

(** SHARED WHEN EMPTY (shape of seeded fault c09_6): a copy that shares the original's container only because it is
    empty is observed equal to the original at every depth, yet the frame premise fails and one store through the copy
    (filling the list) changes what the original exports. *)
Theorem c09_shared_when_empty_refuted :
  (forall n, unfold n empty_shared_heap (VRef 2%positive) = unfold n empty_shared_heap (VRef 1%positive)) /\
  ~ sep empty_shared_heap 1%positive [2%positive] /\
  exists h', steps (empty_shared_heap, [2%positive]) [MStore 3%positive [VAtom 7%Z]] (h', [2%positive]) /\
             unfold 2 h' (VRef 1%positive) <> unfold 2 empty_shared_heap (VRef 1%positive).
Proof. exact shared_when_empty. Qed.

Theorem c09_cond_rows_not_vacuous :
  cond_rows_ok [("Keyvalues"%string, cr_census)] [("Keyvalues"%string, "_value"%string, HDeep, HShare)] = true /\
  copy_fresh_mutables cr_census = false /\
  cond_rows_ok [("Keyvalues"%string, cr_census_claims_deep)] [("Keyvalues"%string, "_value"%string, HDeep, HShare)] = false.
Proof. exact cond_rows_example. Qed.

(** ROUND 4 — GUARDS OF POST-CONSTRUCTION STORES.  [new.f = ...] under [if g(self.f):] carries every value iff the guard
    fails only on the constructor default; [is not None] does, bare truthiness loses exactly the EMPTY container (the
    translator records such a test of the stored field itself as a guard flow: [copy_args_lossless] names the field). *)
Theorem c09_guarded_store_complete_iff : forall A (g : A -> bool) (d : A),
  (forall v, guarded_store g d v = v) <-> (forall v, g v = false -> v = d).
Proof. exact guarded_store_complete_iff. Qed.

Theorem c09_is_not_none_guard_complete : forall v : optlist, guarded_store g_is_not_none None v = v.
Proof. exact is_not_none_guard_complete. Qed.

Theorem c09_truthy_guard_loses_empty_refuted :
  guarded_store g_truthy None (Some []) <> Some [] /\
  forall v : optlist, v <> Some [] -> guarded_store g_truthy None v = v.
Proof. exact truthy_guard_loses_empty. Qed.

(** ROUND 4 — THE PICKLING PAIR.  copy.copy / copy.deepcopy / pickle of an Output hand the tuple built by [__getstate__] to
    [__setstate__].  [output_state_put] / [output_state_get] (generated): the field each position is built from / unpacked
    into.  Instance obligation [pickle_state_positions_match:Output] = [state_ok (names census_Output) put get]: then every
    data field comes back with its own value.  (Which originals take the SHORT form — optional parts at their defaults — and
    that the restored defaults equal those originals' values is only searched: boundary probe.) *)
Theorem c09_pickle_state_roundtrip : forall fields put get, state_ok fields put get = true ->
  forall obj f, In f fields -> alookup f (setstate get (getstate obj put)) = Some (alookup f obj).
Proof. exact state_roundtrip. Qed.

Theorem c09_pickle_state_swap_refuted :
  state_ok ps_fields ps_fields ps_fields = true /\
  state_ok ps_fields ps_fields ["inst_in"%string; "inst_out"%string; "delay"%string] = false /\
  alookup "inst_out"%string (setstate ["inst_in"%string; "inst_out"%string; "delay"%string] (getstate ps_obj ps_fields)) = Some (Some 2%Z) /\
  state_ok ps_fields ["inst_out"%string; "delay"%string] ["inst_out"%string; "delay"%string] = false.
Proof. exact state_swap_refuted. Qed.

(** ROUND 5 — THE SHORT FORM OF THE PICKLING PAIR.  [Output.__getstate__] leaves the optional fields out of the state when
    the "take the long form" test fails, [__setstate__] then restores constants.  [output_short_rows] (generated): per
    optional field its type, its own disjuncts of that test and the constant restored.  Instance obligation
    [pickle_short_form_restores_export_equal:Output] = [short_ok output_short_rows && short_rows_cover output_state_tail
    output_short_rows]: then for EVERY value of the field's type on which all of the field's disjuncts fail — in particular
    for every original that takes the short form — the restored constant exports like the value. *)
Theorem c09_pickle_short_form_export_equal : forall rows, short_ok rows = true ->
  forall f ty ts d, In (f, ty, ts, d) rows ->
  forall v, has_type ty v = true -> all_fail ts v = true -> export_equiv ty v (default_val d) = true.
Proof. exact short_ok_sound. Qed.

Theorem c09_pickle_short_default_typed : forall rows, short_ok rows = true ->
  forall f ty ts d, In (f, ty, ts, d) rows -> has_type ty (default_val d) = true.
Proof. exact short_ok_default_typed. Qed.

(** The defect repaired in round 4 as a refuted shape: a float steered by truthiness (or by `!= 0`) and restored as 0.0 is
    rejected — the value -0.0 takes the short form and exports "-0", the restored 0.0 exports "0"; the repaired test on
    the exported text is accepted. *)
Theorem c09_pickle_short_truthy_float_refuted :
  row_ok ("delay"%string, TyFloat, [TTruthy], DFloatZero) = false /\
  has_type TyFloat VFloatNegZero = true /\ all_fail [TTruthy] VFloatNegZero = true /\
  export_equiv TyFloat VFloatNegZero (default_val DFloatZero) = false.
Proof. exact short_truthy_float_refuted. Qed.

Theorem c09_pickle_short_neq_zero_float_refuted : row_ok ("delay"%string, TyFloat, [TNeqZeroNum], DFloatZero) = false.
Proof. exact short_neq_zero_float_refuted. Qed.

(** Not vacuous: today's rows are accepted; an optional int that no disjunct reads, a test against another constant than
    the one restored, a str restored as None are rejected. *)
Theorem c09_pickle_short_not_vacuous :
  row_ok ("delay"%string, TyFloat, [TFmtNotZero], DFloatZero) = true /\
  row_ok ("times"%string, TyInt, [], DIntC (-1)) = false /\ row_ok ("times"%string, TyInt, [TNeqInt 1], DIntC (-1)) = false /\
  row_ok ("times"%string, TyInt, [TNeqInt (-1)], DIntC (-1)) = true /\
  row_ok ("inst_in"%string, TyOptStr, [TTruthy], DNone) = true /\
  row_ok ("params"%string, TyStr, [TTruthy], DNone) = false /\
  row_ok ("inst_in"%string, TyOptStr, [], DNone) = false.
Proof.
  split; [exact short_fmt_float_accepted|].
  destruct short_untested_int_refuted as (A & B & C). destruct short_optstr_accepted_and_str_refuted as (D & _ & E & _ & F).
  repeat split; assumption.
Qed.

(** ROUND 5 — [Instance.from_entity].  [instance_from_entity] (generated from instancing.py): the origin of every value the
    Instance is built from.  Instance obligation [instance_from_entity_shares_only_outputs]: the only objects of the
    func_instance entity that reach the Instance are its Outputs (read-only there: census of collapse_one), and the $fixup
    values are copies ([EntityFixup.copy_values], itself a census label). *)
Theorem c09_from_entity_shares_only : forall allowed rows, from_entity_shares_only allowed rows = true ->
  forall f o, In (f, o) rows -> origin_shared o = true -> In f allowed.
Proof. exact from_entity_shares_only_spec. Qed.

Theorem c09_from_entity_copies : forall f rows, from_entity_copies f rows = true ->
  (exists o, In (f, o) rows) /\ forall o, In (f, o) rows -> o = CCopy.
Proof. exact from_entity_copies_spec. Qed.

Theorem c09_from_entity_shared_fixup_refuted :
  from_entity_shares_only ["outputs"%string] [("outputs"%string, CTemplate); ("fixup"%string, CTemplate)] = false /\
  from_entity_copies "fixup"%string [("outputs"%string, CTemplate); ("fixup"%string, CTemplate)] = false /\
  from_entity_shares_only ["outputs"%string] [("outputs"%string, CTemplate); ("fixup"%string, CCopy)] = true /\
  from_entity_copies "fixup"%string [("outputs"%string, CTemplate); ("fixup"%string, CCopy)] = true.
Proof. exact from_entity_shared_fixup_rejected. Qed.

(** ROUND 5 — THE WHOLE PROPERTY FROM GENERATED OBJECTS ONLY.  Every hypothesis above the line is a boolean over objects the
    translators regenerate from vmf.py / keyvalues.py / math.py / instancing.py on every run, and is discharged by a named
    instance obligation of the check ([all_classes_complete_and_independent] = the first three, [all_flows_present],
    [conditional_rows_are_joins], [pickle_state_positions_match:Output], [pickle_short_form_restores_export_equal:Output],
    [ops_store_nothing_to_operands:*], [kv_add_appends_to_copy_and_returns_it], [kv_added_items_are_copied],
    [collapse_never_writes_template], [collapse_only_copies_enter_target]).  What remains SEMANTIC is visible inside the
    conjuncts: the heap relations of a census row ([kinds_rel], [fields_rel_src], [fields_rel_c] — decided in the kernel on
    heaps of real copies by the two row certificates), "the trace of a run only contains origins the census lists" for
    operators and collapse_one ([trun] / [crun] premises — compared with run-time traces by the correspondences), and the
    abstraction of field values to the classes of StorePickleShort.v. *)
Theorem c09_property :
  all_fresh = true -> all_sources_match = true -> all_export_ok = true -> all_args_lossless = true ->
  cond_rows_ok all_census cond_rows = true ->
  state_ok (names census_Output) output_state_put output_state_get = true ->
  short_ok output_short_rows = true ->
  ops_store_nothing_to_operands op_census_all = true ->
  recv_is_copy kv_add_recv_single && recv_is_copy kv_add_recv_iter && recv_is_copy kv_add_ret = true ->
  kv_add_single_copied && kv_add_iter_copied = true ->
  collapse_never_writes_template collapse_writes = true -> collapse_only_copies_enter collapse_enters = true ->
  (* 1. every copy method of the table: complete (observed equal under the export masks) and independent both ways *)
  (forall label c, In (label, c) all_census ->
   exists s cls reads, lookup label all_sources = Some s /\ lookup label class_of_label = Some cls /\
    lookup cls all_export_reads = Some reads /\
    forall (mk : loc -> list bool) h h' la lc nd nd',
      closed h -> closed h' -> extends h h' -> h la = Some nd -> h lc = None -> h' lc = Some nd' ->
      nmut nd' = nmut nd -> mk la = obs_mask c reads -> mk lc = obs_mask c reads ->
      List.length (nfields nd) = List.length c ->
      kinds_rel h c (nfields nd) ->
      fields_rel_src h h' (nfields nd) (resolve c s) (nfields nd') ->
      fields_rel_c mk h h' (nfields nd) (eresolve c s reads) (nfields nd') ->
      mobs_eq mk h h' (VRef la) (VRef lc) /\
      (forall ms h'' R, steps (h', [lc]) ms (h'', R) -> forall n, munfold mk n h'' (VRef la) = munfold mk n h (VRef la)) /\
      (forall ms h'' R, steps (h', [la]) ms (h'', R) -> forall n, munfold mk n h'' (VRef lc) = munfold mk n h (VRef la))) /\
  (* 2. a conditional row (a conditional of copy() or of an attrs converter) is fresh whichever branch an input takes *)
  (forall lab f a b, In (lab, f, a, b) cond_rows ->
   exists c k, clookup lab all_census = Some c /\ In (f, k, how_join a b) c /\
               (field_fresh k (how_join a b) = true -> forall t : bool, field_fresh k (if t then a else b) = true)) /\
  (* 3. copy.copy / copy.deepcopy / pickle of an Output: every data field comes back with its own value (long state) *)
  (forall obj f, In f (names census_Output) ->
   alookup f (setstate output_state_get (getstate obj output_state_put)) = Some (alookup f obj)) /\
  (* 4. ... and an original that takes the SHORT state gets constants back that export like its values *)
  (forall f ty ts d, In (f, ty, ts, d) output_short_rows ->
   forall v, has_type ty v = true -> all_fail ts v = true -> export_equiv ty v (default_val d) = true) /\
  (* 5. Vec / Angle / Matrix operators that produce a new value store into no operand *)
  (forall r, In r op_census_all -> op_kind r = OpPure -> forall o, In o (op_writes r) -> is_operand o = false) /\
  (* 6. Keyvalues '+': the left operand is unchanged, the result holds copies of the right operand's children *)
  (forall (A : Type) (cp : A -> A) single (self other : list A),
   kv_add_ids cp kv_add_recv_single kv_add_recv_iter kv_add_ret kv_add_single_copied kv_add_iter_copied single self other
   = (self, (self ++ map cp other)%list)) /\
  (* 7. collapsing an instance leaves the template observed unchanged *)
  (forall tgt tmpl h tr h' F',
   (forall e, In e tr -> (exists s, In (s, snd (fst e)) collapse_writes) /\
                         forall vo, In vo (snd e) -> exists s, In (s, vo) collapse_enters) ->
   closed h -> alloc h tgt -> alloc h tmpl -> sep h tmpl [tgt] ->
   crun tgt tmpl (h, []) tr (h', F') ->
   forall n, unfold n h' (VRef tmpl) = unfold n h (VRef tmpl)) /\
  (* 8. every argument copy() hands to a constructor reaches its field without loss (flows through the constructor) *)
  (forall label c, In (label, c) all_census -> exists fl, lookup label all_flows = Some fl /\ copy_args_lossless c fl = true).
Proof.
  intros H1 H2 H3 H4 H5 H6 H7 H8 H9 H10 H11 H12.
  split; [exact (c09_all_classes_complete_and_independent H1 H2 H3)|].
  split; [exact (c09_cond_rows_checked cond_rows H5)|].
  split; [exact (c09_pickle_state_roundtrip _ _ _ H6)|].
  split; [exact (c09_pickle_short_form_export_equal output_short_rows H7)|].
  split; [exact (c09_all_ops_pure H8)|].
  split.
  { intros A cp single self other.
    exact (proj1 (c09_kv_add_ids_fresh A cp _ _ _ _ _ H9 H10 single self other)). }
  split.
  { intros tgt tmpl h tr h' F'.
    exact (c09_census_collapse_template_frame collapse_writes collapse_enters tgt tmpl h tr h' F' H11 H12). }
  exact (c09_all_classes_args_lossless H4).
Qed.
